#!/usr/bin/env python3
"""Apply a seeded patch to /repo, run the given checks (quick tier), undo the patch.
usage: seedtest.py <patch.diff> <ID> [<ID> ...]      prints one line per check: ID exit-status VIOLATION lines"""
import subprocess, sys, os, json
args = [a for a in sys.argv[1:] if a != "--dev"]
DEV = "--dev" in sys.argv
patch, ids = args[0], args[1:]
V = os.path.dirname(os.path.dirname(os.path.abspath(__file__)))
def sh(c):
    return subprocess.run(c, shell=True, stdout=subprocess.PIPE, stderr=subprocess.STDOUT).stdout.decode()
st = sh("git -C /repo status --porcelain")
if st.strip():
    print("refusing: /repo not clean:\n" + st); sys.exit(2)
r = subprocess.run("git -C /repo apply %s" % patch, shell=True)
if r.returncode:
    print("patch does not apply"); sys.exit(2)
res = {}
# evidence files must only ever describe runs against /repo itself: keep the current ones aside and put them back afterwards
import shutil, tempfile
keep = tempfile.mkdtemp(prefix="seedtest-evidence-")
for i in ids:
    ev = os.path.join(V, "evidence", "%s.json" % i)
    if os.path.exists(ev):
        shutil.copy(ev, os.path.join(keep, "%s.json" % i))
try:
    for i in ids:
        cmd = "cd %s && timeout 3000 python3 tools/dev.py %s quick" % (V, i) if DEV else "cd %s && timeout 3000 ./check %s quick" % (V, i)
        p = subprocess.run(cmd, shell=True, stdout=subprocess.PIPE, stderr=subprocess.STDOUT)
        out = p.stdout.decode()
        if DEV:
            vl = [l[:400] for l in out.split("\n") if l.startswith("VIOLATION")]
            print(i, "violations:", len(vl), vl[:2]); sys.stdout.flush()
            continue
        lines = [l for l in out.split("\n") if l.startswith("VIOLATION") or l.startswith("KNOWN")]
        what = []
        for l in lines[:2]:
            try:
                rp = l.split("replay=")[1].split()[0]
                what.append(json.load(open(rp)).get("what", "")[:300])
            except Exception:
                pass
        res[i] = (p.returncode, lines[:3], what)
        print(i, "exit=%d" % p.returncode, "; ".join(lines[:2]), "|", " / ".join(what)); sys.stdout.flush()
finally:
    sh("git -C /repo checkout -- . && git -C /repo clean -fdq src")
    for i in ids:
        ev = os.path.join(V, "evidence", "%s.json" % i)
        if os.path.exists(os.path.join(keep, "%s.json" % i)):
            shutil.copy(os.path.join(keep, "%s.json" % i), ev)
        elif os.path.exists(ev):
            os.remove(ev)
    shutil.rmtree(keep, ignore_errors=True)
    # restore generated files that depend on /repo
    sh("cd %s && python3 tools/gen_from_src.py" % V)
