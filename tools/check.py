#!/usr/bin/env python3
"""Entry point: ./check <ID> [quick|thorough] [--replay path] | ./check setup | ./check pin"""
import importlib, json, os, sys
sys.path.insert(0, os.path.dirname(os.path.abspath(__file__)))
import vcore


def main():
    a = sys.argv[1:]
    if not a:
        print(__doc__); return 2
    if a[0] == "setup":
        try:
            print(vcore.regenerate_gen())
            vcore.build_coq(clean=True)
            vcore.build_model()
            vcore.build_harness()
        except vcore.BuildError as e:
            print("SETUP FAILED:", e.what); print(e.log); return 1
        print("setup ok"); return 0
    if a[0] == "pin":
        pins = {}
        for f in sorted(os.listdir(vcore.COQ)):
            if f.startswith("Prop_") and f.endswith(".v"):
                pins[f] = vcore.sha(os.path.join(vcore.COQ, f))
        json.dump(pins, open(os.path.join(vcore.COQ, "pins.json"), "w"), indent=1, sort_keys=True)
        print("pinned", len(pins)); return 0
    pid = a[0]
    tier = os.environ.get("VERIF_TIER", "quick")
    replay = None
    i = 1
    while i < len(a):
        if a[i] in ("quick", "thorough"):
            tier = a[i]
        elif a[i] == "--tier":
            i += 1; tier = a[i]
        elif a[i] == "--replay":
            i += 1; replay = a[i]
        i += 1
    seed = int(os.environ.get("VERIF_SEED", "20260930"))
    mod = importlib.import_module("props." + pid.lower())
    return vcore.run_property(mod, pid, tier, seed, replay)


if __name__ == "__main__":
    sys.exit(main())
