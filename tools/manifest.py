#!/usr/bin/env python3
"""Regenerates /verif/MANIFEST.json from the table below (so it is always schema-valid)."""
import json, os
V = os.path.dirname(os.path.dirname(os.path.abspath(__file__)))

TB = ("Trusted: Coq 8.16.1 kernel + vm_compute; no axioms (Print Assumptions: closed); hand-written Gallina model tied to "
      "/repo by differential execution (extracted OCaml via ExtrOcamlBasic vs the crate in checked and release builds); "
      "Rust wrap/shift/cast semantics as modelled in coq/Base.v.")

CHECKS = {
 "C14": dict(
   text="Machine-checked proof (Coq) that the model's montgomery_reduce, reduce32 and caddq meet the stated congruence and "
        "range on their whole documented domains (all 2^54.. inputs, not samples), that the reduce32 domain edge is real, "
        "and that q*QINV = 1 mod 2^32; the model is tied to reduce.rs by executing both on every domain boundary plus "
        "random inputs in checked and release builds, with an independent congruence/range oracle on the crate's outputs.",
   ref="DESIGN.md section 3, C14", technique="Coq proof (lia over wrap_spec) + differential execution model vs crate"),
 "C15": dict(
   text="Machine-checked proofs (Coq) that the model's power2round, decompose, use_hint and make_hint equal the FIPS 204 functions for EVERY a in [0,q) and both "
        "gamma2 (the magic-constant rounding step by an exhaustive kernel-checked sweep of all 65473 intermediate values, the rest by lia), that the signer's "
        "hint bit makes use_hint on the perturbed value return exactly w1 for every w1 in [0,m) and every |a0| < 2*gamma2 (a superset of what the signer emits), "
        "and that the bit equals MakeHint; decompose is a bijection onto the canonical (a1,a0) set. The model is tied to rounding*.rs, poly/*.rs and polyvec/*.rs by "
        "executing both on all gamma2-boundaries, the a1 wrap, the magic-step boundaries and random values, with an independent Python specification oracle.",
   ref="DESIGN.md section 3, C15", technique="Coq proof (finite vm_compute sweep + lia) + differential execution model vs crate"),
 "C17": dict(
   text="Machine-checked proofs (Coq) that the model's byte-level rejection routines return exactly the accepted prefix of the specification's CoeffFromThreeBytes / "
        "CoeffFromHalfByte stream for ANY buffer and requested count (incl. short buffers), and that the polynomial samplers, as functions of an arbitrary XOF output "
        "stream, are RejNTTPoly / RejBoundedPoly (with the refill loops, leftover handling proved vacuous) / BitUnpack with ranges [0,q), [-eta,eta], (-gamma1,gamma1], "
        "and SampleInBall with exactly tau entries +-1 (Fisher-Yates invariant). The link from the abstract stream to the real SHAKE stream and the nonce formulas is "
        "by the C12/C19 theorems and by executing model and crate on real seeds and, through the XOF tap, on scripted streams that force every refill branch; "
        "independent Python oracle built on hashlib SHAKE.",
   ref="DESIGN.md section 3, C17", technique="Coq proof over an abstract XOF stream + differential execution incl. XOF-tap scripted streams"),
 "C18": dict(
   text="Machine-checked proofs (Coq) that the model's chknorm returns 1 exactly when some coefficient has |x| >= B for every list with coefficients in [-2^30,2^30) "
        "(a superset of the reduce32 range) and every B <= (q-1)/8, returns 1 for every B > (q-1)/8, likewise for l_chknorm/k_chknorm at every position, and that all "
        "bounds used by the signer and verifier of the six sets are <= (q-1)/8. Tied to poly.rs / polyvec/*.rs by executing both with a single coefficient at "
        "+-(B-1), +-B, +-(B+1), +-6283009 at enumerated positions of every polynomial of the vector for every bound, plus an independent oracle.",
   ref="DESIGN.md section 3, C18", technique="Coq proof (induction over the coefficient loop) + differential execution model vs crate"),
 "C19": dict(
   text="Machine-checked proofs (Coq) that every vector operation of the model (index loops with checked get/set) equals the polynomial operation mapped over "
        "the components, for arbitrary vectors of the right length: unary and binary lifts, multiplication by one polynomial, the matrix-vector product as the "
        "per-row sum of pointwise products, power2round, decomposition with FIRST = high / second = low, hint creation with the summed count, hint use, w1 packing "
        "as a splice of the concatenated encodings, and the nonce formulas of the expanders. Tied to polyvec/{lvl2,lvl3,lvl5}.rs by executing model and crate on "
        "index-tagged vectors and by recomputing each vector result from the crate's own polynomial-level functions (lift oracle).",
   ref="DESIGN.md section 3, C19", technique="Coq proof (generic for_idx/foldM lemmas) + differential execution + lift oracle"),
}
NOT_YET = {}

def main():
    props = [json.loads(l) for l in open(os.path.join(V, "properties.jsonl"))]
    checks, na = [], []
    for p in props:
        pid = p["id"]
        if pid in CHECKS:
            c = CHECKS[pid]
            checks.append({
                "property_id": pid,
                "quick_cmd": "./check %s quick" % pid,
                "thorough_cmd": "./check %s thorough" % pid,
                "evidence_file": "/verif/evidence/%s.json" % pid,
                "replay_cmd_template": "./check %s --replay {path}" % pid,
                "engine": "coq-model+correspondence",
                "level_claimed": {"category": "proof", "text": c["text"], "design_ref": c["ref"]},
                "level_note": c.get("note", TB),
                "technique": c["technique"],
            })
        else:
            na.append({"property_id": pid, "reason": NOT_YET.get(pid, "check not built yet (work in progress; see DESIGN.md section 10)")})
    m = {
        "version": 1,
        "setup_cmd": "./check setup",
        "hooks": {
            "guard": "cargo feature verif-hooks",
            "enable": "harness/Cargo.toml depends on /repo with features = [\"verif-hooks\"]",
            "baseline_off_cmd": "cd /repo && cargo test --workspace --no-fail-fast --offline",
            "source_commits": ["c09ca94"],
            "add_only": True,
        },
        "engines": [{"name": "coq-model+correspondence", "path": "/verif/coq, /verif/harness, /verif/tools",
                     "serves_properties": sorted(CHECKS),
                     "kind_free_text": "Coq 8.16 theorems about a hand-written Gallina model of the crate; model extracted to OCaml and "
                                       "run against the crate (checked + release builds) on generated cases; python orchestrator"}],
        "checks": checks,
        "notes": "Fixes committed in /repo: 6fe8170 (C12), ae22e0f (C04); see known_findings.json.",
        "not_applicable": na,
    }
    json.dump(m, open(os.path.join(V, "MANIFEST.json"), "w"), indent=1)
    print("manifest:", len(checks), "checks,", len(na), "unclaimed")

if __name__ == "__main__":
    main()
