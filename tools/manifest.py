#!/usr/bin/env python3
"""Regenerates /verif/MANIFEST.json from the table below (so it is always schema-valid)."""
import json, os
V = os.path.dirname(os.path.dirname(os.path.abspath(__file__)))

TB = ("Trusted: Coq 8.16.1 kernel + vm_compute; no axioms (Print Assumptions: closed); hand-written Gallina model tied to "
      "/repo by differential execution (extracted OCaml via ExtrOcamlBasic vs the crate built three ways: checked, release, release with target-cpu=native) and by "
      "a translator run on every check (constants, tables, Keccak body, scalar kernels of reduce.rs/rounding*.rs); "
      "Rust wrap/shift/cast semantics as modelled in coq/Base.v.")

CHECKS = {
 "C01": dict(
   text="Coq theorem (six sets, every 32-byte seed or 32 drawn bytes, every message, context <= 255 bytes, both pre-hashes, deterministic and hedged/randomized): whenever signing "
        "returns a signature it has exactly the advertised length and verification under the matching key, message, context and mode returns true (PSignVerify.sign_then_verify and its "
        "API-level corollaries; composes keygen = spec, the signer's inversion lemmas, the verifier's pipeline semantics, the hint rule, the codecs). Not provable by any technique: that "
        "signing always terminates (rejection sampling on hash output) - it is the hypothesis; the check runs the crate under a watchdog. Tied to the code by ~10^5 crate sign/verify round "
        "trips per run over all sets, modes, message lengths straddling SHAKE blocks, contexts, reused buffers, seeded and unseeded keys, cross-checked with an independent verifier/signer, "
        "and sign/verify chains replayed in the model.",
   ref="DESIGN.md section 3 C01 and 12.2", technique="Coq proof (sign-then-verify for the model) + differential execution + volume self-verification"),
 "C02": dict(
   text="PARTIAL by nature: rejection of altered data rests on SHAKE-256 collision resistance / SelfTargetMSIS. Coq theorems for the structural part: length gate (truncation/extension rejected), "
        "acceptance only through the strict decoder and the z-norm gate, comparison of ALL challenge bytes, verdict depends only on the decoded triple. The negatives are evaluated: every "
        "single-bit flip of signatures (exhaustive, 8*SIGNBYTES per signature and set), truncations/extensions, every message bit flip, other key / context / mode / hash / sibling scheme; "
        "model agrees on a stratified sample.",
   ref="DESIGN.md section 3 C02", technique="Coq structural theorems + exhaustive bit-flip evaluation on the crate + model correspondence"),
 "C03": dict(
   text="Coq theorem (six sets, ANY byte string as signature, any message, any key of the right length): whenever verification returns, it returns exactly the decision of the "
        "specification's Verify (Dilithium 3.1 / FIPS 204 Alg. 8, transcribed in PVerifySpec.v: pkDecode, sigDecode with BitUnpack and HintBitUnpack, the z-norm bound, ExpandA, mu, "
        "SampleInBall, w' characterised by NTT(w') = A^ o NTT(z) - NTT(c) o NTT(t1 2^d), UseHint, w1Encode, challenge comparison), and that decision is unique; accepts every "
        "spec-valid signature; API entry points = specification on the framed message; plus the explicit strictness lemmas. Not provable: termination of the two rejection samplers. "
        "Tied to the code by executing crate = independent Verify_internal = model on genuine signatures, another signer's signatures, every hint-section defect (hash-consistent near-misses), "
        "signatures from a signer skipping the z test incl. z exactly at +-(gamma1-beta), signatures from a signer that alters one byte of the commitment hash, boundary accepts incl. a "
        "committed corpus and a live search of signatures with exactly omega hints, random bytes.",
   ref="DESIGN.md section 3 C03 and 12.2", technique="Coq proof (model Verify = specification) + differential execution with crafted hash-consistent near-misses"),
 "C04": dict(
   text="Coq theorem (six sets, EVERY 32-byte seed): whenever key generation returns, it returns byte for byte the key pair of the specification's KeyGen (Dilithium 3.1 / FIPS 204 "
        "KeyGen_internal incl. the k,l domain separation; transcribed in PKeygen.v with NTT as evaluation at the roots and t characterised by NTT(t - s2) = A^ o NTT(s1)), with the standard "
        "sizes, drawing nothing; the specification is a function of the seed; unseeded generation is that function of the 32 bytes drawn; same rho, tr = H(pk), t = A s1 + s2 in R_q with s "
        "within +-eta; key generation never panics. Not provable: termination of the rejection samplers (relational spec, model fuel). Tied to the six sign/*.rs and API files by executing "
        "crate = independent KeyGen (Python, hashlib) on ~36 000 seeds per run, = model on a subset, scripted/recorded RNG, algebraic relation on decoded keys, a committed corpus of seeds that "
        "need a third SHAKE block in the eta=4 sampler, special seeds through the API wrappers, over-long dirty caller buffers.",
   ref="DESIGN.md section 3 C04 and 12.2", technique="Coq proof (model KeyGen = specification) + differential execution vs independent KeyGen at volume"),
 "C05": dict(
   text="Coq theorem (six sets, every key whose decoded s2 is within +-eta - every key from key generation -, every message, context, pre-hash, mode): whenever signing returns, it returns "
        "byte for byte the signature of the specification's Sign (Dilithium 3.1 / FIPS 204 Alg. 7, transcribed in PSignSpec.v with the attempt counter explicit) for the bytes drawn: none "
        "(deterministic), 32 as rnd in rho''=H(K||rnd||mu) (hedged ML-DSA), 64 as rho' (randomized Dilithium); the specification's signature is unique; API wrappers = specification on "
        "the framed M'. Includes the equivalence of the code's tests with the specification's (low-bits lemma with ||c s2|| <= beta, centred norms, MakeHint). Not provable: termination. "
        "Tied to the code by executing crate = independent Sign_internal on the message-length/context/mode grid, scripted randomness, crafted secret keys forcing rare rejection causes incl. a committed corpus of 37..165-rejection chains (ExpandMask counter above 255) and of "
        "c*t0-only rejections; = model on cheap cases.",
   ref="DESIGN.md section 3 C05 and 12.2", technique="Coq proof (model Sign = specification) + differential execution vs independent Sign_internal"),
 "C06": dict(
   text="Coq theorems: for every key from key generation, message and mode, whatever the signer returns is sigEncode(ctilde, z, h) of an attempt of the SPECIFICATION with z = y + c s1, "
        "||z|| < gamma1-beta, ||LowBits(A y - c s2)|| < gamma2-beta, ||c t0|| < gamma2, h = MakeHint(-c t0, .) of weight <= omega and ctilde = H(mu || w1Encode(HighBits(A y))) (PEmitted, via "
        "PSignSpec); for ANY key bytes the emitted (z, h) passed the four tests on the signer's intermediates and rejected attempts were rejected for a stated reason. "
        "Tied to the code by execution: every crate signature (all modes incl. real RNG; crafted keys) is decoded by an "
        "independent decoder and all conditions recomputed with the secret key; ~80 000 signatures per run structurally checked in the harness.",
   ref="DESIGN.md section 3 C06", technique="Coq proofs (inversion of the signer + norm exactness) + independent recomputation on crate signatures"),
 "C07": dict(
   text="Coq theorems: representatives 0||len||ctx||M and 1||len||ctx||OID||H(M) (SHA-256/512 defined per FIPS 180-4 in Gallina), absent = empty context, signer and verifier use the same "
        "representative, contexts > 255 bytes refused by all four entry points with nothing drawn, framing injective (domain separation). 'Never verifies under another descriptor' beyond "
        "M'1 <> M'2 is cryptographic: evaluated on all ordered pairs of ~29 descriptors per set (incl. equal ctx||M splits, digests as messages, wrapped length bytes for ctx >= 256); API signature "
        "= core signature over the Python-computed M'.",
   ref="DESIGN.md section 3 C07", technique="Coq proofs (framing, injectivity, gates) + cross-verification of all descriptor pairs on the crate"),
 "C08": dict(
   text="Coq theorems (six sets): verification never panics for ANY byte string as signature (any length), message, context and key of the right length, and returns a boolean; key "
        "generation from any 32-byte seed never panics; signing with ANY secret-key bytes of the right length on any message in any mode never panics — every checked +,-,*, index, slice "
        "of the code is a checked operation of the model, ranges are tracked through all NTT-domain pipelines (largest product 81 q^2 < 2^31 q), the hint decoder is total on adversarial "
        "counters. Hence checked and unchecked builds compute the same values (the only edge, the u16 counter L*nonce after 2^16/L rejections, is outside the attempt budget). Tied to the "
        "code by executing both builds on adversarial signatures (structured counters, extreme z/t1/pk), sampler refill paths through the XOF tap, 360 000 honest key generations per run.",
   ref="DESIGN.md section 3 C08 and 12.2", technique="Coq proof (no-panic of verify, keygen, sign) + checked-vs-release differential execution + volume"),
 "C09": dict(
   text="Coq theorems (the part that is logic): which operations draw, exactly how many bytes (0 / 32 / 64), in call order for any history, and that outputs are a function of the drawn bytes "
        "used only as seed / rnd / rho'. Freshness from an OS-seeded CSPRNG and distinctness are runtime facts outside any model: the RNG tap records requests in both builds (log must be "
        "[32]/[64]/[], outputs reproduced from the recorded bytes by an independent reference, repeated calls pairwise distinct).",
   ref="DESIGN.md section 3 C09", technique="Coq proofs over an explicit randomness tape + RNG-tap recording in both builds"),
 "C10": dict(
   text="Coq theorems about the model: the only inter-operation state is the tape; deterministic operations give the same result after any history; results are independent of incoming "
        "buffer contents (scratch reuse across rejected attempts). Data races / hidden state in the real code cannot be exhibited by a Gallina model: observed instead — histories (all sets, "
        "core and API level, look-alike keys, alternating contexts/modes) run in order and shuffled on 1..16 threads against history-free expectations from an independent reference.",
   ref="DESIGN.md section 3 C10", technique="Coq proofs (statelessness, buffer independence) + history/thread probes with independent expectations"),
 "C11": dict(
   text="Coq theorems: from_bytes succeeds iff the length is exact and returns the bytes; the pair is SK||PK, any other total length is refused; both round trips; standard sizes for six sets; "
        "same behaviour through re-serialised containers. Tied to the six API files by executing model and crate on generated keys, random bytes, all wrong lengths, swapped order.",
   ref="DESIGN.md section 3 C11", technique="Coq proof + differential execution model vs crate"),
 "C12": dict(
   text="Coq theorems: the source's unrolled two-round Keccak body (machine-translated from fips202.rs on every run) equals two FIPS 202 rounds for all lanes; round constants = LFSR of "
        "Alg. 5; keccakf = Keccak-p[1600,24]; for both rates any split of the input over absorb calls and any split of the output over squeeze calls (incl. requests longer than a block) "
        "yields exactly SHAKE; squeeze-blocks at block boundaries; one-shot; absorb_once; stream_init. Tied to the crate by executing histories vs model and vs hashlib.",
   ref="DESIGN.md section 3 C12", technique="source translation of the Keccak body + Coq proof (symbolic rounds, sponge invariants) + differential execution"),
 "C13": dict(
   text="Coq theorems: for all coefficient vectors in (-q,q)^256 the forward transform succeeds without overflow, stays below 9q and evaluates the polynomial at 1753^(2 brv8(i)+1); the inverse "
        "inverts it up to 2^32 with outputs below q; transform-pointwise-inverse equals the schoolbook negacyclic product mod q; the source's twiddle table (translated on every run) is "
        "2^32*1753^brv8(k) centred, F = 2^64/256. Tied to ntt.rs / poly.rs by executing both on basis vectors, extremes, random inputs, products vs schoolbook.",
   ref="DESIGN.md section 3 C13", technique="Coq proof (parametricity of the butterfly network + computed Vandermonde matrix) + differential execution"),
 "C14": dict(
   text="Machine-checked proof (Coq) that the model's montgomery_reduce, reduce32 and caddq meet the stated congruence and range on their whole documented domains (all inputs, not samples), "
        "that the reduce32 domain edge is real, and that q*QINV = 1 mod 2^32; the same theorems are stated about the text of reduce.rs as translated into Gallina on every run "
        "(GenK.v; translated function = model function for all arguments), so an edit that changes a kernel's meaning on a single input breaks a proof obligation; also tied to reduce.rs by executing both on every domain boundary, random inputs and sweeps (caddq exhaustively in the "
        "thorough tier) in checked and release builds, with an independent oracle.",
   ref="DESIGN.md section 3 C14", technique="Coq proof (lia over wrap_spec) about the model and about the translated source + differential execution model vs crate"),
 "C15": dict(
   text="Coq proofs that power2round, decompose, use_hint and make_hint equal the FIPS 204 functions for EVERY a in [0,q) and both gamma2 (magic-constant step by a kernel-checked sweep of all "
        "65473 intermediates), that the signer's hint makes use_hint return exactly w1 for every w1 and |a0| < 2*gamma2, and that the bit is MakeHint; decompose is a bijection; the same statements hold of the text of rounding.rs and rounding/lvl{2,3,5}.rs as translated into "
        "Gallina on every run (GenK.v; each translated copy = the model's function for all arguments). Tied to "
        "rounding*.rs / poly / polyvec by boundary cases, sweeps (exhaustive over [0,q) and all (w1,a0) in the thorough tier: 1.3*10^8 inputs) and an independent oracle.",
   ref="DESIGN.md section 3 C15", technique="Coq proof (finite vm_compute sweep + lia) about the model and about the translated source + exhaustive differential sweeps"),
 "C16": dict(
   text="Coq theorems: each of the 8 coefficient encoders emits exactly FIPS 204 SimpleBitPack/BitPack (defined on bit lists) of the standard length for every in-range polynomial, decoders are "
        "total, equal BitUnpack, invert the encoders (and conversely for the bijective codecs), untouched bytes preserved; pk/sk containers = pkEncode/skEncode with round trips; the signature's "
        "hint section = HintBitPack for every hint vector of weight <= omega, the decoder accepts exactly the canonical encodings. Tied to the 6 packing and 6 poly files by executing both on "
        "extremes, dirty buffers, every hint-weight class and every single defect, with an independent bit-packing oracle.",
   ref="DESIGN.md section 3 C16", technique="Coq proof (lor-as-add + lia per group, loop lemmas) + differential execution"),
 "C17": dict(
   text="Coq theorems: the byte-level rejection routines return exactly the accepted prefix of the specification's stream for ANY buffer and count; with the REAL sponge (C12) each sampler is the "
        "specification's function of (seed, nonce): RejNTTPoly / RejBoundedPoly (refill loops included) / BitUnpack / SampleInBall (exactly tau entries +-1), ExpandA entry (i,j) from rho||j||i, "
        "ExpandMask from L*kappa+i, with ranges. Tied to poly*.rs / polyvec by executing model and crate on crafted buffers, real seeds and, through the XOF tap, scripted streams forcing every "
        "refill branch; independent oracle on hashlib SHAKE.",
   ref="DESIGN.md section 3 C17", technique="Coq proof (abstract stream + simulation by the real sponge) + differential execution incl. XOF-tap streams"),
 "C18": dict(
   text="Coq proofs that chknorm returns 1 exactly when some coefficient has |x| >= B for every list with coefficients in [-2^30,2^30) and every B <= (q-1)/8, returns 1 for every B > (q-1)/8, "
        "likewise l_chknorm/k_chknorm at every position; all bounds used by the six sets are <= (q-1)/8. Tied to poly.rs / polyvec by single coefficients at +-(B-1), +-B, +-(B+1), +-6283009 at "
        "enumerated positions of every polynomial for every bound (incl. 1, (q-1)/8, (q-1)/8+1), with an independent oracle.",
   ref="DESIGN.md section 3 C18", technique="Coq proof (induction over the coefficient loop) + differential execution model vs crate"),
 "C19": dict(
   text="Coq proofs that every vector operation of the model (index loops with checked get/set) equals the polynomial operation mapped over the components for arbitrary vectors of the right "
        "length, the matrix-vector product is the per-row sum of pointwise products, decomposition returns FIRST = high / second = low, hint creation returns the summed count, w1 packing is the "
        "splice of the concatenated encodings, expanders use nonce+i / L*nonce+i / 256*i+j. Tied to polyvec/*.rs by index-tagged vectors and a lift oracle from the crate's polynomial functions.",
   ref="DESIGN.md section 3 C19", technique="Coq proof (generic for_idx/foldM lemmas) + differential execution + lift oracle"),
}
NOT_YET = {}

def main():
    props = [json.loads(l) for l in open(os.path.join(V, "properties.jsonl"))]
    checks, na = [], []
    for p in props:
        pid = p["id"]
        if pid in CHECKS:
            c = CHECKS[pid]
            checks.append({
                "property_id": pid,
                "quick_cmd": "./check %s quick" % pid,
                "thorough_cmd": "./check %s thorough" % pid,
                "evidence_file": "/verif/evidence/%s.json" % pid,
                "replay_cmd_template": "./check %s --replay {path}" % pid,
                "engine": "coq-model+correspondence",
                "level_claimed": {"category": "proof", "text": c["text"], "design_ref": c["ref"]},
                "level_note": c.get("note", TB),
                "technique": c["technique"],
            })
        else:
            na.append({"property_id": pid, "reason": NOT_YET.get(pid, "check not built yet (work in progress; see DESIGN.md section 10)")})
    m = {
        "version": 1,
        "setup_cmd": "./check setup",
        "hooks": {
            "guard": "cargo feature verif-hooks",
            "enable": "harness/Cargo.toml depends on /repo with features = [\"verif-hooks\"]",
            "baseline_off_cmd": "cd /repo && cargo test --workspace --no-fail-fast --offline",
            "source_commits": ["c09ca94"],
            "add_only": True,
        },
        "engines": [{"name": "coq-model+correspondence", "path": "/verif/coq, /verif/harness, /verif/tools",
                     "serves_properties": sorted(CHECKS),
                     "kind_free_text": "Coq 8.16 theorems about a hand-written Gallina model of the crate; model extracted to OCaml and "
                                       "run against the crate (checked + release builds) on generated cases; python orchestrator"}],
        "checks": checks,
        "notes": "Fixes committed in /repo: 6fe8170 (C12), ae22e0f (C04); see known_findings.json.",
        "not_applicable": na,
    }
    json.dump(m, open(os.path.join(V, "MANIFEST.json"), "w"), indent=1)
    print("manifest:", len(checks), "checks,", len(na), "unclaimed")

if __name__ == "__main__":
    main()
