#!/usr/bin/env python3
"""Regenerates /verif/MANIFEST.json from the table below (so it is always schema-valid)."""
import json, os
V = os.path.dirname(os.path.dirname(os.path.abspath(__file__)))

TB = ("Trusted: Coq 8.16.1 kernel + vm_compute; no axioms (Print Assumptions: closed); hand-written Gallina model tied to "
      "/repo by differential execution (extracted OCaml via ExtrOcamlBasic vs the crate in checked and release builds); "
      "Rust wrap/shift/cast semantics as modelled in coq/Base.v.")

CHECKS = {
 "C14": dict(
   text="Machine-checked proof (Coq) that the model's montgomery_reduce, reduce32 and caddq meet the stated congruence and "
        "range on their whole documented domains (all 2^54.. inputs, not samples), that the reduce32 domain edge is real, "
        "and that q*QINV = 1 mod 2^32; the model is tied to reduce.rs by executing both on every domain boundary plus "
        "random inputs in checked and release builds, with an independent congruence/range oracle on the crate's outputs.",
   ref="DESIGN.md section 3, C14", technique="Coq proof (lia over wrap_spec) + differential execution model vs crate"),
}
NOT_YET = {}

def main():
    props = [json.loads(l) for l in open(os.path.join(V, "properties.jsonl"))]
    checks, na = [], []
    for p in props:
        pid = p["id"]
        if pid in CHECKS:
            c = CHECKS[pid]
            checks.append({
                "property_id": pid,
                "quick_cmd": "./check %s quick" % pid,
                "thorough_cmd": "./check %s thorough" % pid,
                "evidence_file": "/verif/evidence/%s.json" % pid,
                "replay_cmd_template": "./check %s --replay {path}" % pid,
                "engine": "coq-model+correspondence",
                "level_claimed": {"category": "proof", "text": c["text"], "design_ref": c["ref"]},
                "level_note": c.get("note", TB),
                "technique": c["technique"],
            })
        else:
            na.append({"property_id": pid, "reason": NOT_YET.get(pid, "check not built yet (work in progress; see DESIGN.md section 10)")})
    m = {
        "version": 1,
        "setup_cmd": "./check setup",
        "hooks": {
            "guard": "cargo feature verif-hooks",
            "enable": "harness/Cargo.toml depends on /repo with features = [\"verif-hooks\"]",
            "baseline_off_cmd": "cd /repo && cargo test --workspace --no-fail-fast --offline",
            "source_commits": ["c09ca94"],
            "add_only": True,
        },
        "engines": [{"name": "coq-model+correspondence", "path": "/verif/coq, /verif/harness, /verif/tools",
                     "serves_properties": sorted(CHECKS),
                     "kind_free_text": "Coq 8.16 theorems about a hand-written Gallina model of the crate; model extracted to OCaml and "
                                       "run against the crate (checked + release builds) on generated cases; python orchestrator"}],
        "checks": checks,
        "notes": "Fixes committed in /repo: 6fe8170 (C12), ae22e0f (C04); see known_findings.json.",
        "not_applicable": na,
    }
    json.dump(m, open(os.path.join(V, "MANIFEST.json"), "w"), indent=1)
    print("manifest:", len(checks), "checks,", len(na), "unclaimed")

if __name__ == "__main__":
    main()
