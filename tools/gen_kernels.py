#!/usr/bin/env python3
"""Translator for the scalar arithmetic kernels of /repo/src (reduce.rs, rounding.rs, rounding/lvl{2,3,5}.rs)
into Gallina over the checked machine-integer operations of Base.v (coq/GenK.v).

Every function of those files is translated statement by statement:
  - `+ - *` and unary `-` on i32/i64 become the checked i32_add/i64_sub/... (Panic on overflow, as in a checked build);
  - `>>`, `<<` become shr/shl_s with the operand width; `& ^ |` become Z.land/Z.lxor/Z.lor;
  - `x.wrapping_mul(y)` becomes i32_/i64_wrapping_mul; `e as T` becomes `wrap bits e` (dropped when the type does not change);
  - sub-expressions made only of literals and named constants are folded (rustc rejects an overflowing constant
    expression at compile time), named constants are read from the current params files;
  - `let`, assignment and compound assignment rebind; `if c { return e; }` / `if .. else ..` become Gallina `if`.
Anything outside this subset raises TranslateError: the caller reports it, the committed GenK.v stays and the
behavioural correspondence decides.

GenKReduce.v / GenKRounding.v (hand-written) prove each translated function equal to the model's for all arguments;
PSrcReduce.v / PSrcRounding.v restate C14 / C15 about the translated text, so those two properties are re-checked against
what the source says now.
"""
import re
from gen_from_src import TranslateError, read, strip_comments, eval_consts

BITS = {"i32": 32, "i64": 64}
TOK = re.compile(r"\s*(?:(\d[\d_]*)(i32|i64|u32|u64|usize|u8)?|([A-Za-z_][\w]*(?:::[A-Za-z_]\w*)*)|(<<=|>>=|\|\||&&|==|!=|<=|>=|<<|>>|\+=|-=|\*=|\^=|&=|\|=|->|[-+*/%&|^!<>=(){}\[\],;:.]))")


def tokenize(s):
    out, i = [], 0
    s = s.rstrip()
    while i < len(s):
        m = TOK.match(s, i)
        if not m:
            if s[i:].strip() == "":
                break
            raise TranslateError("kernel tokenizer: cannot read %r" % s[i:i + 20])
        if m.group(1) is not None:
            out.append(("num", int(m.group(1).replace("_", "")), m.group(2)))
        elif m.group(3) is not None:
            out.append(("id", m.group(3), None))
        else:
            out.append(("op", m.group(4), None))
        i = m.end()
    return out


class Val:
    """A translated expression: text (a Gallina term of type Z), ty (i32/i64/None for an untyped literal),
    const (its value if it is a compile-time constant), atomic (needs no parentheses)."""
    def __init__(self, text, ty, const=None):
        self.text, self.ty, self.const = text, ty, const


def lit(v, ty=None):
    return Val(str(v) if v >= 0 else "(%d)" % v, ty, v)


class Fn:
    def __init__(self, toks, consts, prefix, known):
        self.t, self.i = toks, 0
        self.consts, self.prefix, self.known = consts, prefix, known
        self.n = 0

    # ---- token helpers
    def peek(self, k=0):
        return self.t[self.i + k] if self.i + k < len(self.t) else ("eof", None, None)

    def is_op(self, x, k=0):
        p = self.peek(k)
        return p[0] == "op" and p[1] == x

    def is_id(self, x, k=0):
        p = self.peek(k)
        return p[0] == "id" and p[1] == x

    def eat_op(self, x):
        if not self.is_op(x):
            raise TranslateError("kernel %s: expected %r, got %r" % (self.prefix, x, self.peek()[1]))
        self.i += 1

    def eat_id(self, x=None):
        p = self.peek()
        if p[0] != "id" or (x is not None and p[1] != x):
            raise TranslateError("kernel %s: expected identifier %r, got %r" % (self.prefix, x, p[1]))
        self.i += 1
        return p[1]

    def fresh(self):
        self.n += 1
        return "v%d" % self.n

    # ---- expressions: returns Val, appends checked operations to `binds`
    def fold(self, op, a, b, ty):
        x, y = a.const, b.const
        if op == "+": v = x + y
        elif op == "-": v = x - y
        elif op == "*": v = x * y
        elif op == "/":
            if y == 0: raise TranslateError("constant division by zero")
            v = abs(x) // abs(y) * (1 if (x >= 0) == (y >= 0) else -1)
        elif op == "<<": v = x << y
        elif op == ">>": v = x >> y
        elif op == "&": v = x & y
        elif op == "^": v = x ^ y
        elif op == "|": v = x | y
        else: raise TranslateError("constant operator %s" % op)
        bits = BITS.get(ty or "i32", 64)
        if not (-(1 << (bits - 1)) <= v < (1 << (bits - 1))):
            raise TranslateError("constant expression overflows %s" % (ty or "i32"))
        return lit(v, ty)

    def binop(self, op, a, b, binds):
        if op in ("<<", ">>"):
            ty = a.ty
        else:
            if a.ty and b.ty and a.ty != b.ty:
                raise TranslateError("kernel %s: operand types %s/%s differ for %s" % (self.prefix, a.ty, b.ty, op))
            ty = a.ty or b.ty
        if a.const is not None and b.const is not None:
            return self.fold(op, a, b, ty)
        if ty not in BITS:
            raise TranslateError("kernel %s: operator %s at type %s" % (self.prefix, op, ty))
        w = BITS[ty]
        if op in ("+", "-", "*"):
            name = {"+": "add", "-": "sub", "*": "mul"}[op]
            v = self.fresh()
            binds.append("do %s <- %s_%s %s %s;" % (v, ty, name, a.text, b.text))
            return Val(v, ty)
        if op in ("<<", ">>"):
            if b.const is None:
                raise TranslateError("kernel %s: shift by a non-constant" % self.prefix)
            v = self.fresh()
            binds.append("do %s <- %s %d %s %s;" % (v, "shr" if op == ">>" else "shl_s", w, a.text, b.text))
            return Val(v, ty)
        if op in ("&", "^", "|"):
            f = {"&": "Z.land", "^": "Z.lxor", "|": "Z.lor"}[op]
            return Val("(%s %s %s)" % (f, a.text, b.text), ty)
        raise TranslateError("kernel %s: operator %s is outside the translated subset" % (self.prefix, op))

    LEVELS = [["|"], ["^"], ["&"], ["<<", ">>"], ["+", "-"], ["*", "/", "%"]]

    def expr(self, env, binds, lvl=0):
        if lvl == len(self.LEVELS):
            return self.cast(env, binds)
        a = self.expr(env, binds, lvl + 1)
        while self.peek()[0] == "op" and self.peek()[1] in self.LEVELS[lvl]:
            op = self.peek()[1]
            self.i += 1
            b = self.expr(env, binds, lvl + 1)
            a = self.binop(op, a, b, binds)
        return a

    def cast(self, env, binds):
        a = self.unary(env, binds)
        while self.is_id("as"):
            self.i += 1
            ty = self.eat_id()
            if a.const is not None:
                if ty in BITS:
                    w = BITS[ty]
                    v = ((a.const + (1 << (w - 1))) % (1 << w)) - (1 << (w - 1))
                    a = lit(v, ty)
                else:
                    a = lit(a.const, ty)
            elif ty == a.ty:
                pass
            elif ty in BITS:
                a = Val("(wrap %d %s)" % (BITS[ty], a.text), ty)
            else:
                raise TranslateError("kernel %s: cast to %s" % (self.prefix, ty))
        return a

    def unary(self, env, binds):
        if self.is_op("-"):
            self.i += 1
            a = self.unary(env, binds)
            if a.const is not None:
                return lit(-a.const, a.ty)
            v = self.fresh()
            binds.append("do %s <- %s_neg %s;" % (v, a.ty, a.text))
            return Val(v, a.ty)
        return self.postfix(env, binds)

    def postfix(self, env, binds):
        a = self.atom(env, binds)
        while self.is_op("."):
            self.i += 1
            m = self.eat_id()
            self.eat_op("(")
            b = self.expr(env, binds)
            self.eat_op(")")
            if m != "wrapping_mul" or a.ty not in BITS:
                raise TranslateError("kernel %s: method %s on %s" % (self.prefix, m, a.ty))
            if b.ty and b.ty != a.ty:
                raise TranslateError("kernel %s: wrapping_mul operand types" % self.prefix)
            a = Val("(%s_wrapping_mul %s %s)" % (a.ty, a.text, b.text), a.ty)
        return a

    def atom(self, env, binds):
        p = self.peek()
        if p[0] == "num":
            self.i += 1
            return lit(p[1], p[2])
        if self.is_op("("):
            self.i += 1
            a = self.expr(env, binds)
            self.eat_op(")")
            return a
        if p[0] == "id":
            self.i += 1
            name = p[1]
            if self.is_op("("):
                raise TranslateError("kernel %s: call to %s in expression position" % (self.prefix, name))
            if name in env:
                return env[name]
            short = name.split("::")[-1]
            if short in self.consts:
                v, ty = self.consts[short]
                return lit(v, ty)
            raise TranslateError("kernel %s: unknown name %s" % (self.prefix, name))
        raise TranslateError("kernel %s: unexpected token %r" % (self.prefix, p[1]))

    # ---- conditions (no checked operation may hide under a short-circuit)
    def cond(self, env):
        a = self.cand(env)
        while self.is_op("||"):
            self.i += 1
            a = "%s || %s" % (a, self.cand(env))
        return a

    def cand(self, env):
        a = self.ccmp(env)
        parts = [a]
        while self.is_op("&&"):
            self.i += 1
            parts.append(self.ccmp(env))
        return parts[0] if len(parts) == 1 else "(%s)" % " && ".join(parts)

    def ccmp(self, env):
        if self.is_op("("):
            # either a parenthesised condition or a parenthesised arithmetic operand
            save = self.i
            try:
                self.i += 1
                c = self.cond(env)
                self.eat_op(")")
                if not (self.peek()[0] == "op" and self.peek()[1] in ("==", "!=", "<", ">", "<=", ">=")):
                    return "(%s)" % c if "||" in c else c
            except TranslateError:
                pass
            self.i = save
        binds = []
        a = self.expr(env, binds)
        p = self.peek()
        if p[0] != "op" or p[1] not in ("==", "!=", "<", ">", "<=", ">="):
            raise TranslateError("kernel %s: condition without comparison" % self.prefix)
        self.i += 1
        b = self.expr(env, binds)
        if binds:
            raise TranslateError("kernel %s: checked arithmetic inside a condition" % self.prefix)
        op = p[1]
        if op == "==": return "(%s =? %s)" % (a.text, b.text)
        if op == "!=": return "negb (%s =? %s)" % (a.text, b.text)
        if op == "<": return "(%s <? %s)" % (a.text, b.text)
        if op == ">": return "(%s <? %s)" % (b.text, a.text)
        if op == "<=": return "(%s <=? %s)" % (a.text, b.text)
        return "(%s <=? %s)" % (b.text, a.text)

    # ---- statements; returns Gallina text of type res T
    def ret_value(self, env, binds):
        if self.is_op("("):
            # tuple or parenthesised expression
            save = self.i
            self.i += 1
            first = self.expr(env, binds)
            if self.is_op(","):
                vals = [first]
                while self.is_op(","):
                    self.i += 1
                    vals.append(self.expr(env, binds))
                self.eat_op(")")
                return "(%s)" % ", ".join(v.text for v in vals)
            self.i = save
            del binds[:]
        return self.expr(env, binds).text

    def block(self, env, ind):
        """Statements up to the closing brace (not consumed). Every path must end in a value."""
        env = dict(env)
        out = []
        pad = "  " * ind
        while True:
            if self.is_op("}") or self.peek()[0] == "eof":
                raise TranslateError("kernel %s: a path ends without a value" % self.prefix)
            if self.is_id("use"):
                while not self.is_op(";"):
                    self.i += 1
                self.i += 1
                continue
            if self.is_id("let"):
                self.i += 1
                if self.is_op("("):
                    self.i += 1
                    names = [self.eat_id()]
                    while self.is_op(","):
                        self.i += 1
                        names.append(self.eat_id())
                    self.eat_op(")")
                    self.eat_op("=")
                    callee = self.eat_id()
                    self.eat_op("(")
                    binds = []
                    args = [self.expr(env, binds)]
                    while self.is_op(","):
                        self.i += 1
                        args.append(self.expr(env, binds))
                    self.eat_op(")")
                    self.eat_op(";")
                    if callee not in self.known or len(self.known[callee][1]) != len(names):
                        raise TranslateError("kernel %s: call to %s" % (self.prefix, callee))
                    out += [pad + b for b in binds]
                    fresh = [self.fresh() for _ in names]
                    out.append(pad + "do '(%s) <- %s %s;" % (", ".join(fresh), self.known[callee][0],
                                                             " ".join(a.text for a in args)))
                    for nm, f, ty in zip(names, fresh, self.known[callee][1]):
                        env[nm] = Val(f, ty)
                    continue
                if self.is_id("mut"):
                    self.i += 1
                name = self.eat_id()
                ty = None
                if self.is_op(":"):
                    self.i += 1
                    ty = self.eat_id()
                self.eat_op("=")
                binds = []
                v = self.expr(env, binds)
                self.eat_op(";")
                out += [pad + b for b in binds]
                env[name] = self.named(v, ty, out, pad)
                continue
            if self.is_id("return"):
                self.i += 1
                binds = []
                txt = self.ret_value(env, binds)
                self.eat_op(";")
                out += [pad + b for b in binds]
                self.tail(out, pad, txt)
                self.skip_dead()
                return "\n".join(out)
            if self.is_id("if"):
                self.i += 1
                c = self.cond(env)
                self.eat_op("{")
                th = self.block(env, ind + 1)
                self.eat_op("}")
                if self.is_id("else"):
                    self.i += 1
                    self.eat_op("{")
                    el = self.block(env, ind + 1)
                    self.eat_op("}")
                    if self.is_op(";"):
                        self.i += 1
                    self.skip_dead()
                else:
                    el = self.block(env, ind + 1)
                out.append(pad + "if %s then (\n%s\n%s) else (\n%s\n%s)" % (c, th, pad, el, pad))
                return "\n".join(out)
            # assignment / compound assignment / tail expression
            p, q = self.peek(), self.peek(1)
            if p[0] == "id" and q[0] == "op" and q[1] in ("=", "+=", "-=", "*=", "^=", "&=", "|=", "<<=", ">>="):
                name = p[1]
                if name not in env:
                    raise TranslateError("kernel %s: assignment to unknown %s" % (self.prefix, name))
                self.i += 2
                binds = []
                if q[1] == "=":
                    v = self.expr(env, binds)
                else:
                    rhs = self.expr(env, binds)
                    v = self.binop(q[1][:-1], env[name], rhs, binds)
                self.eat_op(";")
                out += [pad + b for b in binds]
                env[name] = self.named(v, env[name].ty, out, pad)
                continue
            binds = []
            txt = self.ret_value(env, binds)
            if not self.is_op("}"):
                raise TranslateError("kernel %s: statement outside the translated subset near %r" % (self.prefix, self.peek()[1]))
            out += [pad + b for b in binds]
            self.tail(out, pad, txt)
            return "\n".join(out)

    @staticmethod
    def tail(out, pad, txt):
        """`do v <- e; Ok v` is emitted as the tail call `e`."""
        m = re.fullmatch(r"\s*do (\w+) <- (.*);", out[-1]) if out else None
        if m and m.group(1) == txt:
            out[-1] = pad + m.group(2)
        else:
            out.append(pad + "Ok %s" % txt)

    def named(self, v, ty, out, pad):
        if ty and v.ty and ty != v.ty:
            raise TranslateError("kernel %s: declared type %s, expression type %s" % (self.prefix, ty, v.ty))
        ty = ty or v.ty
        if v.const is not None or re.fullmatch(r"\w+", v.text):
            return Val(v.text, ty, v.const)
        n = self.fresh()
        out.append(pad + "let %s := %s in" % (n, v.text))
        return Val(n, ty)

    def skip_dead(self):
        """After a return (or an if/else in which both arms return) only the block end may follow."""
        if not self.is_op("}"):
            raise TranslateError("kernel %s: code after a return" % self.prefix)


FN = re.compile(r"pub fn (\w+)\s*\(([^)]*)\)\s*->\s*(\([^)]*\)|\w+)\s*\{")


def functions(src):
    """Yield (name, params, ret, body) for each top-level pub fn before the test module."""
    src = strip_comments(src)
    src = src.split("#[cfg(test)]")[0]
    pos = 0
    while True:
        m = FN.search(src, pos)
        if not m:
            break
        depth, j = 1, m.end()
        while depth:
            if j >= len(src):
                raise TranslateError("unbalanced braces in %s" % m.group(1))
            depth += {"{": 1, "}": -1}.get(src[j], 0)
            j += 1
        params = []
        for p in m.group(2).split(","):
            p = p.strip()
            if p:
                n, t = [x.strip() for x in p.split(":")]
                if t not in BITS:
                    raise TranslateError("parameter type %s of %s" % (t, m.group(1)))
                params.append((n, t))
        ret = [x.strip() for x in m.group(3).strip("()").split(",")]
        yield m.group(1), params, ret, src[m.end():j - 1]
        pos = j


def translate_file(rel, prefix, consts, expect):
    src = read(rel)
    names = []
    known = {}
    out = []
    for name, params, ret, body in functions(src):
        f = Fn(tokenize(body) + [("op", "}", None)], consts, prefix + name, dict(known))
        env = {n: Val(n, t) for n, t in params}
        text = f.block(env, 2)
        coqname = "src_%s%s" % (prefix, name)
        rty = "Z" if len(ret) == 1 else "(" + " * ".join("Z" for _ in ret) + ")"
        out.append("(* %s :: %s(%s) -> %s *)" % (rel, name, ", ".join("%s: %s" % p for p in params), ", ".join(ret)))
        out.append("Definition %s %s : res %s :=\n%s." % (coqname, " ".join("(%s : Z)" % n for n, _ in params), rty, text))
        out.append("")
        known[name] = (coqname, ret)
        names.append(name)
    if names != expect:
        raise TranslateError("%s defines %s, expected %s" % (rel, names, expect))
    return out


def generate_kernels(base, sets):
    consts = {k: (v, "i32") for k, v in base.items()}
    red = eval_consts(read("reduce.rs"), base)
    consts["Q_INV"] = (red["Q_INV"], "i32")
    o = ["(** GENERATED by tools/gen_kernels.py from /repo/src/reduce.rs and /repo/src/rounding*.rs — do not edit. *)",
         "From DV Require Import Base.", ""]
    o += translate_file("reduce.rs", "", consts, ["montgomery_reduce", "reduce32", "caddq"])
    o += translate_file("rounding.rs", "", consts, ["power2round"])
    for s in ("lvl2", "lvl3", "lvl5"):
        src = strip_comments(read("rounding/%s.rs" % s))
        m = re.search(r"const GAMMA2: i32 = (\w+)::GAMMA2 as i32;", src)
        if not m or m.group(1) not in sets:
            raise TranslateError("rounding/%s.rs: GAMMA2 is not <set>::GAMMA2 as i32" % s)
        c = dict(consts)
        c["GAMMA2"] = (sets[m.group(1)]["GAMMA2"], "i32")
        o.append("(* rounding/%s.rs: GAMMA2 = params::%s::GAMMA2 = %d *)" % (s, m.group(1), c["GAMMA2"][0]))
        o += translate_file("rounding/%s.rs" % s, s + "_", c, ["decompose", "make_hint", "use_hint"])
    return "\n".join(o) + "\n"
