#!/usr/bin/env python3
"""Run every stored seeded change against the check(s) of the property it breaks (quick tier) and record the outcome in
seeded/RESULTS.json. /repo is patched and restored around each run; do not run other checks concurrently."""
import json, os, subprocess, sys, time
V = os.path.dirname(os.path.dirname(os.path.abspath(__file__)))
S = os.path.join(V, "seeded")
only = sys.argv[1:]
res = {}
rp = os.path.join(S, "RESULTS.json")
if os.path.exists(rp):
    res = json.load(open(rp))
for d in sorted(os.listdir(S)):
    if not os.path.isdir(os.path.join(S, d)) or (only and d not in only):
        continue
    meta = json.load(open(os.path.join(S, d, "meta.json")))
    pid = meta["property"]
    t = time.time()
    p = subprocess.run([sys.executable, os.path.join(V, "tools", "seedtest.py"), os.path.join(S, d, "patch.diff"), pid],
                       stdout=subprocess.PIPE, stderr=subprocess.STDOUT)
    out = p.stdout.decode().strip().split("\n")[-1]
    found = "exit=1" in out
    with_input = found and "no-failing-input-found;" not in out.split("|")[0].split(";")[0] + ";" or ("VIOLATION" in out and any("no-failing-input-found" not in v for v in out.split("|")[0].split(";") if "VIOLATION" in v))
    res[d] = {"property": pid, "title": meta.get("title", ""), "detected": found, "failing_input_reported": bool(found and with_input),
              "first_report": out.split("|", 1)[1].strip()[:300] if "|" in out else out[:300], "seconds": round(time.time() - t)}
    print(d, res[d]["detected"], res[d]["failing_input_reported"], res[d]["seconds"], "s"); sys.stdout.flush()
    json.dump(res, open(rp, "w"), indent=1, sort_keys=True)
