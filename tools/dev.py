#!/usr/bin/env python3
"""Development helper: run only the correspondence of a property module (no proof audit)."""
import importlib, os, random, sys, time
sys.path.insert(0, os.path.dirname(os.path.abspath(__file__)))
import vcore
pid, tier = sys.argv[1], (sys.argv[2] if len(sys.argv) > 2 else "quick")
mod = importlib.import_module("props." + pid.lower())
vcore.build_model(); vcore.build_harness()
rep = vcore.Report(pid, tier, 1)
cov = {"samples": []}
rng = random.Random(1)
t = time.time()
cases = list(mod.gen(tier, rng))
print("generated", len(cases), "cases in %.1fs" % (time.time() - t))
vcore.execute(mod, rep, cov, cases, tier, rng)
if hasattr(mod, "extra"):
    mod.extra(rep, cov, tier, rng)
print({k: v for k, v in cov.items() if k not in ("samples",)})
for v in rep.violations[:5]:
    s = str(v)
    print("VIOLATION", s[:1500])
print("violations:", len(rep.violations), "total %.1fs" % (time.time() - t))
