"""Shared helpers for the property modules: parameter tables, fast key/signature production through the
crate (release harness), reference encoders/decoders and small independent oracles in Python."""
import hashlib, subprocess
from vcore import DVH_REL, DVH_DEV, MODELRUN, ENV, fmt_arg, parse_out

Q = 8380417
N = 256

SETS = {
    #            K  L eta tau beta gamma1   gamma2  omega ct tr  mldsa
    "lvl2":      (4, 4, 2, 39, 78, 1 << 17, 95232, 80, 32, 32, False),
    "lvl3":      (6, 5, 4, 49, 196, 1 << 19, 261888, 55, 32, 32, False),
    "lvl5":      (8, 7, 2, 60, 120, 1 << 19, 261888, 75, 32, 32, False),
    "ml_dsa_44": (4, 4, 2, 39, 78, 1 << 17, 95232, 80, 32, 64, True),
    "ml_dsa_65": (6, 5, 4, 49, 196, 1 << 19, 261888, 55, 48, 64, True),
    "ml_dsa_87": (8, 7, 2, 60, 120, 1 << 19, 261888, 75, 64, 64, True),
}
LEVEL_OF = {"lvl2": "lvl2", "lvl3": "lvl3", "lvl5": "lvl5", "ml_dsa_44": "lvl2", "ml_dsa_65": "lvl3", "ml_dsa_87": "lvl5"}
API_OF = {"lvl2": "dilithium2", "lvl3": "dilithium3", "lvl5": "dilithium5",
          "ml_dsa_44": "ml_dsa_44", "ml_dsa_65": "ml_dsa_65", "ml_dsa_87": "ml_dsa_87"}
ALL = list(SETS)
LEVELS = ["lvl2", "lvl3", "lvl5"]


class Par:
    def __init__(self, name):
        (self.K, self.L, self.eta, self.tau, self.beta, self.g1, self.g2, self.omega, self.ct, self.tr, self.mldsa) = SETS[name]
        self.name = name
        self.polyz = 576 if self.g1 == (1 << 17) else 640
        self.polyw1 = 192 if self.g2 == 95232 else 128
        self.polyeta = 96 if self.eta == 2 else 128
        self.pk = 32 + self.K * 320
        self.sk = 64 + self.tr + (self.K + self.L) * self.polyeta + self.K * 416
        self.sig = self.ct + self.L * self.polyz + self.omega + self.K
        self.m = 44 if self.g2 == 95232 else 16
        self.zbits = 18 if self.g1 == (1 << 17) else 20


def run_lines(binary, lines, timeout=600):
    p = subprocess.run([binary], input=("\n".join(lines) + "\n").encode(), stdout=subprocess.PIPE,
                       stderr=subprocess.PIPE, timeout=timeout, env=ENV)
    out = {}
    for l in p.stdout.decode().split("\n"):
        if l:
            i, _, rest = l.partition(" ")
            out[int(i)] = rest
    return [out.get(i, "crash") for i in range(len(lines))]


def crate(calls, dev=False):
    """calls: list of (fn, copy, args) -> list of parsed outputs (None on panic)."""
    lines = ["%d %s %s %s" % (i, fn, cp, " ".join(fmt_arg(a) for a in args)) for i, (fn, cp, args) in enumerate(calls)]
    res = []
    for r in run_lines(DVH_DEV if dev else DVH_REL, lines):
        if r.startswith("ok"):
            res.append([parse_out(t) for t in r.split(" ")[1:]])
        else:
            res.append(None)
    return res


def keygen(cp, seed):
    pk, sk = crate([("keypair", cp, [seed])])[0]
    return pk, sk


def sign(cp, sk, msg, rand=False, tape=b""):
    p = Par(cp)
    r = crate([("signature", cp, [bytes(p.sig), msg, sk, int(rand), tape])])[0]
    return r[0]


def shake256(data, n):
    return hashlib.shake_256(bytes(data)).digest(n)


def shake128(data, n):
    return hashlib.shake_128(bytes(data)).digest(n)


# ------------------------------------------------------------------ reference codecs (FIPS 204 bit packing)
def bitpack(vals, bits):
    acc, nb, out = 0, 0, bytearray()
    for v in vals:
        acc |= v << nb
        nb += bits
        while nb >= 8:
            out.append(acc & 255)
            acc >>= 8
            nb -= 8
    assert nb == 0
    return bytes(out)


def bitunpack(b, bits, n):
    acc = int.from_bytes(b, "little")
    return [(acc >> (bits * i)) & ((1 << bits) - 1) for i in range(n)]


def hint_pack(h, omega):
    """FIPS 204 Alg. 20; h = list of K lists of 256 in {0,1}"""
    K = len(h)
    y = bytearray(omega + K)
    idx = 0
    for i in range(K):
        for j in range(256):
            if h[i][j]:
                y[idx] = j
                idx += 1
        y[omega + i] = idx
    return bytes(y)


def hint_unpack(y, omega, K):
    """FIPS 204 Alg. 21; returns None when malformed"""
    h = [[0] * 256 for _ in range(K)]
    idx = 0
    for i in range(K):
        if y[omega + i] < idx or y[omega + i] > omega:
            return None
        first = idx
        while idx < y[omega + i]:
            if idx > first and y[idx - 1] >= y[idx]:
                return None
            h[i][y[idx]] = 1
            idx += 1
    for i in range(idx, omega):
        if y[i] != 0:
            return None
    return h


def decode_sig(p, sig):
    """(ctilde, z vector, h vector or None)"""
    c = sig[:p.ct]
    z = []
    for i in range(p.L):
        b = sig[p.ct + i * p.polyz: p.ct + (i + 1) * p.polyz]
        z.append([p.g1 - v for v in bitunpack(b, p.zbits, 256)])
    h = hint_unpack(sig[p.ct + p.L * p.polyz:], p.omega, p.K)
    return c, z, h


def decode_sk(p, sk):
    o = 0
    rho = sk[:32]; key = sk[32:64]; tr = sk[64:64 + p.tr]; o = 64 + p.tr
    eb = 3 if p.eta == 2 else 4
    s1 = []
    for i in range(p.L):
        s1.append([p.eta - v for v in bitunpack(sk[o:o + p.polyeta], eb, 256)]); o += p.polyeta
    s2 = []
    for i in range(p.K):
        s2.append([p.eta - v for v in bitunpack(sk[o:o + p.polyeta], eb, 256)]); o += p.polyeta
    t0 = []
    for i in range(p.K):
        t0.append([4096 - v for v in bitunpack(sk[o:o + 416], 13, 256)]); o += 416
    return rho, key, tr, s1, s2, t0


def decode_pk(p, pk):
    rho = pk[:32]
    t1 = [bitunpack(pk[32 + 320 * i: 32 + 320 * (i + 1)], 10, 256) for i in range(p.K)]
    return rho, t1


# ------------------------------------------------------------------ ring arithmetic (schoolbook, for oracles)
def negacyclic_mul(a, b):
    r = [0] * 256
    for i, x in enumerate(a):
        if x == 0:
            continue
        for j, y in enumerate(b):
            k = i + j
            if k < 256:
                r[k] += x * y
            else:
                r[k - 256] -= x * y
    return [v % Q for v in r]


def cmod(x):
    x %= Q
    return x - Q if x > Q // 2 else x


def decompose(r, g2):
    rp = r % Q
    alpha = 2 * g2
    r0 = rp % alpha
    if r0 > alpha // 2:
        r0 -= alpha
    if rp - r0 == Q - 1:
        return 0, r0 - 1
    return (rp - r0) // alpha, r0     # (r1, r0)


def flat(v):
    return [x for p in v for x in p]


def rand_poly(rng, lo, hi):
    return [rng.randint(lo, hi) for _ in range(256)]
