"""Independent reference implementation of Dilithium 3.1 / FIPS 204 ML-DSA (KeyGen_internal,
Sign_internal, Verify_internal) written from the specifications, used only as an oracle in the search
for failing inputs (never as the claim). Plain-domain NTT with its own twiddles from the root 1753;
hashing through hashlib. No code shared with the crate or the Coq model."""
import hashlib
from dlib import Q, Par, bitpack, bitunpack, hint_pack, hint_unpack

ROOT = 1753


def brv8(i):
    return int("{:08b}".format(i)[::-1], 2)


ZETA = [pow(ROOT, brv8(k), Q) for k in range(256)]


def ntt(a):
    a = list(a)
    k, ln = 0, 128
    while ln >= 1:
        for start in range(0, 256, 2 * ln):
            k += 1
            z = ZETA[k]
            for j in range(start, start + ln):
                t = z * a[j + ln] % Q
                a[j + ln] = (a[j] - t) % Q
                a[j] = (a[j] + t) % Q
        ln >>= 1
    return a


def intt(a):
    a = list(a)
    k, ln = 256, 1
    while ln < 256:
        for start in range(0, 256, 2 * ln):
            k -= 1
            z = -ZETA[k]
            for j in range(start, start + ln):
                t = a[j]
                a[j] = (t + a[j + ln]) % Q
                a[j + ln] = z * (t - a[j + ln]) % Q
        ln <<= 1
    f = pow(256, -1, Q)
    return [x * f % Q for x in a]


def pmul(a, b):
    return [x * y % Q for x, y in zip(a, b)]


def padd(a, b):
    return [(x + y) % Q for x, y in zip(a, b)]


def psub(a, b):
    return [(x - y) % Q for x, y in zip(a, b)]


def cmod(x):
    x %= Q
    return x - Q if x > Q // 2 else x


def H(data, n):
    return hashlib.shake_256(bytes(data)).digest(n)


def rej_ntt_poly(seed34):
    s = hashlib.shake_128(bytes(seed34)).digest(168 * 16)
    out, i = [], 0
    while len(out) < 256:
        z = s[i] | (s[i + 1] << 8) | ((s[i + 2] & 0x7F) << 16)
        i += 3
        if z < Q:
            out.append(z)
    return out


def rej_bounded_poly(eta, seed66):
    s = hashlib.shake_256(bytes(seed66)).digest(136 * 16)
    out, i = [], 0
    while len(out) < 256:
        for t in (s[i] & 15, s[i] >> 4):
            if len(out) < 256:
                if eta == 2 and t < 15:
                    out.append(2 - t % 5)
                elif eta == 4 and t < 9:
                    out.append(4 - t)
        i += 1
    return out


def expand_a(p, rho):
    return [[rej_ntt_poly(rho + bytes([s, r])) for s in range(p.L)] for r in range(p.K)]


def expand_s(p, rhop):
    s1 = [rej_bounded_poly(p.eta, rhop + (r).to_bytes(2, "little")) for r in range(p.L)]
    s2 = [rej_bounded_poly(p.eta, rhop + (r + p.L).to_bytes(2, "little")) for r in range(p.K)]
    return s1, s2


def expand_mask(p, rhopp, kappa):
    c = p.zbits
    y = []
    for r in range(p.L):
        v = H(rhopp + (kappa + r).to_bytes(2, "little"), 32 * c)
        y.append([p.g1 - x for x in bitunpack(v, c, 256)])
    return y


def sample_in_ball(p, seed):
    s = hashlib.shake_256(bytes(seed)).digest(136 * 8)
    signs = int.from_bytes(s[:8], "little")
    c = [0] * 256
    pos = 8
    for i in range(256 - p.tau, 256):
        while s[pos] > i:
            pos += 1
        j = s[pos]; pos += 1
        c[i] = c[j]
        c[j] = 1 - 2 * (signs & 1)
        signs >>= 1
    return c


def power2round(r):
    rp = r % Q
    r0 = rp % 8192
    if r0 > 4096:
        r0 -= 8192
    return (rp - r0) // 8192, r0


def decompose(p, r):
    rp = r % Q
    al = 2 * p.g2
    r0 = rp % al
    if r0 > al // 2:
        r0 -= al
    if rp - r0 == Q - 1:
        return 0, r0 - 1
    return (rp - r0) // al, r0


def highbits(p, r):
    return decompose(p, r)[0]


def lowbits(p, r):
    return decompose(p, r)[1]


def make_hint(p, z, r):
    return 1 if highbits(p, r) != highbits(p, r + z) else 0


def use_hint(p, h, r):
    m = (Q - 1) // (2 * p.g2)
    r1, r0 = decompose(p, r)
    if h == 1 and r0 > 0:
        return (r1 + 1) % m
    if h == 1:
        return (r1 - 1) % m
    return r1


def pk_encode(p, rho, t1):
    return bytes(rho) + b"".join(bitpack(t, 10) for t in t1)


def sk_encode(p, rho, key, tr, s1, s2, t0):
    eb = 3 if p.eta == 2 else 4
    return (bytes(rho) + bytes(key) + bytes(tr) + b"".join(bitpack([p.eta - x for x in s], eb) for s in s1 + s2)
            + b"".join(bitpack([4096 - x for x in t], 13) for t in t0))


def w1_encode(p, w1):
    bits = 6 if p.g2 == 95232 else 4
    return b"".join(bitpack(w, bits) for w in w1)


def sig_encode(p, ct, z, h):
    return bytes(ct) + b"".join(bitpack([p.g1 - cmod(x) for x in zi], p.zbits) for zi in z) + hint_pack(h, p.omega)


def matvec(A_hat, v_hat):
    out = []
    for row in A_hat:
        acc = [0] * 256
        for a, v in zip(row, v_hat):
            acc = padd(acc, pmul(a, v))
        out.append(acc)
    return out


def keygen(p, xi):
    seed = bytes(xi) + (bytes([p.K, p.L]) if p.mldsa else b"")
    b = H(seed, 128)
    rho, rhop, key = b[:32], b[32:96], b[96:]
    A = expand_a(p, rho)
    s1, s2 = expand_s(p, rhop)
    s1h = [ntt(s) for s in s1]
    t = [padd(intt(x), s) for x, s in zip(matvec(A, s1h), s2)]
    t1, t0 = [], []
    for poly in t:
        pr = [power2round(c) for c in poly]
        t1.append([x[0] for x in pr]); t0.append([x[1] for x in pr])
    pk = pk_encode(p, rho, t1)
    tr = H(pk, p.tr)
    sk = sk_encode(p, rho, key, tr, s1, s2, t0)
    return pk, sk


def sk_decode(p, sk):
    eb = 3 if p.eta == 2 else 4
    rho, key, tr = sk[:32], sk[32:64], sk[64:64 + p.tr]
    o = 64 + p.tr
    s1 = [[p.eta - v for v in bitunpack(sk[o + i * p.polyeta: o + (i + 1) * p.polyeta], eb, 256)] for i in range(p.L)]
    o += p.L * p.polyeta
    s2 = [[p.eta - v for v in bitunpack(sk[o + i * p.polyeta: o + (i + 1) * p.polyeta], eb, 256)] for i in range(p.K)]
    o += p.K * p.polyeta
    t0 = [[4096 - v for v in bitunpack(sk[o + i * 416: o + (i + 1) * 416], 13, 256)] for i in range(p.K)]
    return rho, key, tr, s1, s2, t0


def sign(p, sk, mprime, rnd=None, rhopp_override=None, max_attempts=2000, want_trace=False, ct_tweak=None):
    """Sign_internal. Dilithium: rho'' = H(K||mu) (deterministic) or the given 64 random bytes.
    ML-DSA: rho'' = H(K||rnd||mu) with rnd = 32 zero bytes when deterministic.
    ct_tweak = (index, xor): a MODIFIED signer for near-miss searches — byte `index` of the commitment hash is altered before
    the challenge is sampled, everything else is done honestly (the verifier recomputes the unaltered hash, so Verify rejects)."""
    rho, key, tr, s1, s2, t0 = sk_decode(p, sk)
    A = expand_a(p, rho)
    s1h, s2h, t0h = [ntt(x) for x in s1], [ntt(x) for x in s2], [ntt(x) for x in t0]
    mu = H(bytes(tr) + bytes(mprime), 64)
    if rhopp_override is not None:
        rhopp = bytes(rhopp_override)
    elif p.mldsa:
        rhopp = H(bytes(key) + bytes(rnd if rnd is not None else bytes(32)) + mu, 64)
    else:
        rhopp = H(bytes(key) + mu, 64)
    kappa = 0
    trace = []
    for _ in range(max_attempts):
        y = expand_mask(p, rhopp, kappa)
        kappa += p.L
        w = [intt(x) for x in matvec(A, [ntt(v) for v in y])]
        w1 = [[highbits(p, c) for c in poly] for poly in w]
        ct = H(mu + w1_encode(p, w1), p.ct)
        if ct_tweak is not None:
            ct = bytearray(ct); ct[ct_tweak[0]] ^= ct_tweak[1]; ct = bytes(ct)
        c = sample_in_ball(p, ct)
        ch = ntt(c)
        cs1 = [intt(pmul(ch, s)) for s in s1h]
        cs2 = [intt(pmul(ch, s)) for s in s2h]
        z = [padd(a, b) for a, b in zip(y, cs1)]
        r0 = [[lowbits(p, x) for x in psub(a, b)] for a, b in zip(w, cs2)]
        if max(abs(cmod(x)) for poly in z for x in poly) >= p.g1 - p.beta:
            trace.append(1); continue
        if max(abs(x) for poly in r0 for x in poly) >= p.g2 - p.beta:
            trace.append(2); continue
        ct0 = [intt(pmul(ch, t)) for t in t0h]
        if max(abs(cmod(x)) for poly in ct0 for x in poly) >= p.g2:
            trace.append(3); continue
        h = [[make_hint(p, -c0 % Q, (wv - c2 + c0) % Q) for wv, c2, c0 in zip(a, b, d)] for a, b, d in zip(w, cs2, ct0)]
        if sum(sum(x) for x in h) > p.omega:
            trace.append(4); continue
        sig = sig_encode(p, ct, z, h)
        return (sig, trace) if want_trace else sig
    return None


def verify(p, pk, mprime, sig):
    if len(sig) != p.sig or len(pk) != p.pk:
        return False
    rho = pk[:32]
    t1 = [bitunpack(pk[32 + 320 * i: 32 + 320 * (i + 1)], 10, 256) for i in range(p.K)]
    ct = sig[:p.ct]
    z = [[p.g1 - v for v in bitunpack(sig[p.ct + i * p.polyz: p.ct + (i + 1) * p.polyz], p.zbits, 256)] for i in range(p.L)]
    h = hint_unpack(sig[p.ct + p.L * p.polyz:], p.omega, p.K)
    if h is None:
        return False
    if max(abs(x) for poly in z for x in poly) >= p.g1 - p.beta:
        return False
    A = expand_a(p, rho)
    tr = H(pk, p.tr)
    mu = H(tr + bytes(mprime), 64)
    c = sample_in_ball(p, ct)
    ch = ntt(c)
    az = matvec(A, [ntt(v) for v in z])
    ct1 = [pmul(ch, ntt([x * 8192 % Q for x in t])) for t in t1]
    wa = [intt(psub(a, b)) for a, b in zip(az, ct1)]
    w1 = [[use_hint(p, hh, x) for hh, x in zip(hp, poly)] for hp, poly in zip(h, wa)]
    return ct == H(mu + w1_encode(p, w1), p.ct)
