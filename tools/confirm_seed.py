#!/usr/bin/env python3
"""Confirm a seeded change in its scratch worktree and, if confirmed, store it under /verif/seeded/<ID>-<k>/.
usage: confirm_seed.py <ID> <k> [caught-by ...]
Checks: patch applies to the worktree; crate builds; the 52 tests pass with the patch (3 runs); the demonstration passes without the
patch and fails with it. Then copies patch.diff, demo (sources only) and meta.json (+ what was run) to /verif/seeded/."""
import json, os, shutil, subprocess, sys
pid, k = sys.argv[1], sys.argv[2]
caught = sys.argv[3:]
wt = "/tmp/seed/%s" % pid
out = "/tmp/seed/%s.out/%s" % (pid, k)
def sh(c, cwd=None, t=1800):
    p = subprocess.run(c, shell=True, cwd=cwd, stdout=subprocess.PIPE, stderr=subprocess.STDOUT, timeout=t)
    return p.returncode, p.stdout.decode("utf-8", "replace")
meta = json.load(open(out + "/meta.json"))
cmd = meta["demo_cmd"].split("#")[0].strip()
sh("git checkout -- . && git clean -fdq src", wt)
rc0, o0 = sh(cmd)
rc, o = sh("git apply %s/patch.diff" % out, wt)
assert rc == 0, "patch does not apply: " + o
runs = []
for i in range(3):
    r, o = sh("cargo test --offline 2>&1 | grep 'test result' | head -1", wt)
    runs.append(o.strip())
rc1, o1 = sh(cmd)
sh("git checkout -- . && git clean -fdq src", wt)
ok_tests = all("52 passed; 0 failed" in r for r in runs)
print(pid, k, "demo without patch rc=%d, with patch rc=%d, tests: %s" % (rc0, rc1, runs))
if rc0 == 0 and rc1 != 0 and ok_tests:
    dst = "/verif/seeded/%s-%s" % (pid, k)
    if os.path.exists(dst + "/meta.json") and json.load(open(dst + "/meta.json")).get("title") != meta.get("title"):
        raise SystemExit("refusing to overwrite %s (another change is stored there)" % dst)
    os.makedirs(dst, exist_ok=True)
    shutil.copy(out + "/patch.diff", dst + "/patch.diff")
    ddir = dst + "/demo"
    if os.path.exists(ddir): shutil.rmtree(ddir)
    if os.path.isdir(out + "/demo"):
        shutil.copytree(out + "/demo", ddir, ignore=shutil.ignore_patterns("target", "*.log"))
    elif os.path.exists(out + "/demo.rs"):
        os.makedirs(ddir); shutil.copy(out + "/demo.rs", ddir + "/demo.rs")
    meta["confirmed"] = {"demo_without_patch_exit": rc0, "demo_with_patch_exit": rc1, "cargo_test_with_patch_3_runs": runs,
                         "confirmed_in": wt, "note": "demo paths refer to the scratch worktree /tmp/seed/%s (path dependency)" % pid}
    meta["caught_by"] = caught
    meta["checks_run"] = ["git -C /repo apply seeded/%s-%s/patch.diff; ./check %s quick; git -C /repo checkout -- ." % (pid, k, c) for c in caught]
    json.dump(meta, open(dst + "/meta.json", "w"), indent=1)
    print("stored", dst)
else:
    print("NOT CONFIRMED", o0[-500:], o1[-500:])
