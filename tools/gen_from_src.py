#!/usr/bin/env python3
"""Translator for the straight-line / constant parts of /repo/src into Gallina (coq/Gen.v).

Regenerated from the current working tree of /repo on every check run, so the theorems that mention
these definitions (zeta table = powers of 1753, Keccak two-round body = FIPS 202 round o round,
parameter constants = the standard's) are re-checked against what the source says now.

Translated: params.rs and params/*.rs constants, reduce::Q_INV, ntt::ZETAS, ntt F, the Keccak round
constants and the unrolled two-round body of keccakf1600_statepermute, SHAKE rates.
If the source no longer has the expected shape the translator raises TranslateError (the caller reports
it and falls back to the committed Gen.v plus the behavioural correspondence).
"""
import os, re, sys

REPO = os.environ.get("VERIF_REPO", "/repo")


class TranslateError(Exception):
    pass


def read(rel):
    with open(os.path.join(REPO, "src", rel)) as f:
        return f.read()


def strip_comments(s):
    s = re.sub(r"/\*.*?\*/", "", s, flags=re.S)
    return re.sub(r"//[^\n]*", "", s)


# ---------------------------------------------------------------- constants
def eval_consts(src, env):
    """Evaluate `pub const NAME: T = expr;` declarations in order."""
    out = {}
    for m in re.finditer(r"(?:pub\s+)?const\s+(\w+)\s*:\s*(\w+)\s*=\s*([^;]+);", strip_comments(src)):
        name, ty, expr = m.group(1), m.group(2), m.group(3)
        e = expr
        e = re.sub(r"\bas\s+(usize|i32|i64|u64|u8|u16|u32)\b", "", e)
        e = re.sub(r"crate::params::(\w+)", r"\1", e)
        e = re.sub(r"super::(\w+)", r"\1", e)
        e = re.sub(r"fips202::(\w+)", r"\1", e)
        e = re.sub(r"params::(\w+)::(\w+)", r"\2", e)
        e = re.sub(r"params::(\w+)", r"\1", e)
        e = re.sub(r"(\d)(u64|i64|usize|i32)\b", r"\1", e)
        e = e.replace("/", "//")
        if not re.fullmatch(r"[\w\s\+\-\*/\(\)<>]+", e):
            continue
        try:
            v = eval(e, {"__builtins__": {}}, dict(env, **out))
        except Exception:
            continue
        out[name] = int(v)
    return out


def int_list(src, name):
    m = re.search(r"const\s+%s\s*:\s*\[[^\]]*\]\s*=\s*\[(.*?)\];" % name, strip_comments(src), re.S)
    if not m:
        raise TranslateError("table %s not found" % name)
    vals = []
    for t in m.group(1).replace("\n", " ").split(","):
        t = t.strip()
        if not t:
            continue
        t = re.sub(r"(u64|i32|i64)$", "", t)
        vals.append(int(t, 0))
    return vals


# ---------------------------------------------------------------- keccak body
NAMES = [p + s for p in ("ab", "ag", "ak", "am", "as") for s in "aeiou"]


class P:
    def __init__(self, toks):
        self.t, self.i = toks, 0

    def peek(self):
        return self.t[self.i] if self.i < len(self.t) else None

    def eat(self, x=None):
        tok = self.peek()
        if tok is None or (x is not None and tok != x):
            raise TranslateError("keccak body: expected %r got %r" % (x, tok))
        self.i += 1
        return tok

    def xor(self):
        e = self.andx()
        while self.peek() == "^":
            self.eat()
            e = "(xor %s %s)" % (e, self.andx())
        return e

    def andx(self):
        e = self.unary()
        while self.peek() == "&":
            self.eat()
            e = "(and %s %s)" % (e, self.unary())
        return e

    def unary(self):
        if self.peek() == "!":
            self.eat()
            return "(not %s)" % self.unary()
        return self.atom()

    def atom(self):
        tok = self.eat()
        if tok == "(":
            e = self.xor()
            self.eat(")")
            return e
        if tok == "rol":
            self.eat("(")
            e = self.xor()
            self.eat(",")
            n = self.eat()
            if not n.isdigit():
                raise TranslateError("rol amount")
            self.eat(")")
            return "(rol %s %s)" % (e, n)
        if tok == "KECCAKF_ROUNDCONSTANTS":
            self.eat("[")
            self.eat("round")
            if self.peek() == "+":
                self.eat()
                self.eat("1")
                self.eat("]")
                return "rc1"
            self.eat("]")
            return "rc0"
        if re.fullmatch(r"[a-z_]\w*", tok):
            return tok
        raise TranslateError("keccak body: unexpected token %r" % tok)


def keccak_body(src):
    src = strip_comments(src)
    m = re.search(r"pub fn keccakf1600_statepermute\(state: &mut \[u64\]\)\s*\{(.*?)\n\}", src, re.S)
    if not m:
        raise TranslateError("keccakf1600_statepermute not found")
    body = m.group(1)
    loads = re.findall(r"let mut (\w+) = state\[(\d+)\];", body)
    stores = re.findall(r"state\[(\d+)\] = (\w+);", body)
    if [n for n, _ in loads] != NAMES or [int(i) for _, i in loads] != list(range(25)):
        raise TranslateError("keccak prologue is not state[i] -> lane i in order")
    if [n for _, n in stores] != NAMES or [int(i) for i, _ in stores] != list(range(25)):
        raise TranslateError("keccak epilogue is not lane i -> state[i] in order")
    lm = re.search(r"for round in \(0\.\.NROUNDS\)\.step_by\(2\)\s*\{(.*?)\n    \}", body, re.S)
    if not lm:
        raise TranslateError("keccak round loop not found")
    if "const NROUNDS: usize = 24;" not in src:
        raise TranslateError("NROUNDS != 24")
    lets = []
    for stmt in lm.group(1).split(";"):
        stmt = stmt.strip()
        if not stmt:
            continue
        mm = re.fullmatch(r"(let mut )?(\w+)\s*(\^=|=)\s*(.*)", stmt, re.S)
        if not mm:
            raise TranslateError("keccak body: statement %r" % stmt)
        var, op, rhs = mm.group(2), mm.group(3), mm.group(4)
        toks = re.findall(r"[A-Za-z_]\w*|\d+|[\^&!\(\),\[\]\+]", rhs)
        p = P(toks)
        e = p.xor()
        if p.peek() is not None:
            raise TranslateError("keccak body: trailing tokens in %r" % stmt)
        if op == "^=":
            e = "(xor %s %s)" % (var, e)
        lets.append((var, e))
    return lets


def rol_def(src):
    src = strip_comments(src)
    if not re.search(r"fn rol\(a: u64, offset: u64\) -> u64 \{\s*\(a << offset\) \^ \(a >> \(64 - offset\)\)\s*\}", src):
        raise TranslateError("rol is not (a << offset) ^ (a >> (64 - offset))")


def generate():
    base = eval_consts(read("params.rs"), {})
    fips = read("fips202.rs")
    fenv = eval_consts(fips, {})
    sets = {}
    for s in ("lvl2", "lvl3", "lvl5", "ml_dsa_44", "ml_dsa_65", "ml_dsa_87"):
        sets[s] = eval_consts(read("params/%s.rs" % s), base)
    red = eval_consts(read("reduce.rs"), base)
    ntt = read("ntt.rs")
    zetas = int_list(ntt, "ZETAS")
    fm = re.search(r"const F: i64 = (\d+);", strip_comments(ntt))
    if not fm:
        raise TranslateError("ntt F not found")
    rc = int_list(fips, "KECCAKF_ROUNDCONSTANTS")
    rol_def(fips)
    lets = keccak_body(fips)
    o = []
    o.append("(** GENERATED by tools/gen_from_src.py from /repo/src — do not edit. *)")
    o.append("From Coq Require Import ZArith List.")
    o.append("Import ListNotations.")
    o.append("Open Scope Z_scope.")
    o.append("")
    for k in ("Q", "N", "R", "D", "SEEDBYTES", "CRHBYTES", "POLYT1_PACKEDBYTES", "POLYT0_PACKEDBYTES", "TR_BYTES"):
        if k not in base:
            raise TranslateError("params::%s missing" % k)
        o.append("Definition src_%s : Z := %d." % (k, base[k]))
    o.append("Definition src_Q_INV : Z := %d." % red["Q_INV"])
    o.append("Definition src_F : Z := %s." % fm.group(1))
    o.append("Definition src_SHAKE128_RATE : Z := %d." % fenv["SHAKE128_RATE"])
    o.append("Definition src_SHAKE256_RATE : Z := %d." % fenv["SHAKE256_RATE"])
    keys = ["TAU", "GAMMA1", "GAMMA2", "K", "L", "ETA", "BETA", "OMEGA", "POLYZ_PACKEDBYTES", "POLYW1_PACKEDBYTES",
            "POLYETA_PACKEDBYTES", "POLYVECH_PACKEDBYTES", "PUBLICKEYBYTES", "SECRETKEYBYTES", "SIGNBYTES"]
    for s, env in sets.items():
        vals = []
        for k in keys:
            if k not in env:
                raise TranslateError("params::%s::%s missing" % (s, k))
            vals.append(env[k])
        vals.append(env.get("C_DASH_BYTES", base["SEEDBYTES"]))
        o.append("(* %s: %s, CTILDE *)" % (s, ", ".join(keys)))
        o.append("Definition src_params_%s : list Z := [%s]." % (s, "; ".join(str(v) for v in vals)))
    o.append("")
    o.append("Definition src_ZETAS : list Z := [%s]." % "; ".join(("(%d)" % z) if z < 0 else str(z) for z in zetas))
    o.append("")
    o.append("Definition src_RC : list Z := [%s]." % "; ".join(str(v) for v in rc))
    o.append("")
    o.append("(** The unrolled body of the loop in keccakf1600_statepermute (two rounds), statement by statement,")
    o.append("    over abstract 64-bit lane operations. *)")
    o.append("Section KeccakBody.")
    o.append("  Context {W : Type} (xor and : W -> W -> W) (not : W -> W) (rol : W -> Z -> W).")
    o.append("  Definition src_keccak_round2 (rc0 rc1 : W) (st : list W) : option (list W) :=")
    o.append("    match st with")
    o.append("    | [%s] =>" % "; ".join(NAMES))
    for var, e in lets:
        o.append("      let %s := %s in" % (var, e))
    o.append("      Some [%s]" % "; ".join(NAMES))
    o.append("    | _ => None")
    o.append("    end.")
    o.append("End KeccakBody.")
    return "\n".join(o) + "\n"


def write_if_changed(name, text):
    out = os.path.join(os.path.dirname(os.path.dirname(os.path.abspath(__file__))), "coq", name)
    old = open(out).read() if os.path.exists(out) else None
    if old != text:
        with open(out, "w") as f:
            f.write(text)
        print("%s regenerated (changed)" % name)
    else:
        print("%s up to date" % name)


def main():
    rc = 0
    try:
        write_if_changed("Gen.v", generate())
    except TranslateError as e:
        print("TRANSLATE-ERROR: %s" % e)
        rc = 3
    try:
        import gen_kernels
        base = eval_consts(read("params.rs"), {})
        sets = {s: eval_consts(read("params/%s.rs" % s), base) for s in ("lvl2", "lvl3", "lvl5")}
        write_if_changed("GenK.v", gen_kernels.generate_kernels(base, sets))
    except TranslateError as e:
        print("TRANSLATE-ERROR(kernels): %s" % e)
        rc = 3
    return rc


if __name__ == "__main__":
    sys.exit(main())
