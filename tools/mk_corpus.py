#!/usr/bin/env python3
"""Offline search for rare-path inputs, written to /verif/corpus/*.json (committed; the checks run them first).
Never run by a check. Every entry is re-validated at check time by the independent reference (pyref), so a wrong
entry can only cause a visible failure of that validation, never a silent pass.

usage: mk_corpus.py omega | chains | ct0 | seeds3 | all | vlong | emptyrow | tvalue
  emptyrow c03_empty_hint_row.json   specification-valid signatures with a hint-free polynomial, every set
  tvalue  c04_t_value_seeds.json    key-generation seeds with a coefficient of t equal to 0 / q-1, every set
  vlong   c05_very_long_chains.json  (crafted key, message, expected signature) needing more than 1000 rejections
  omega   c03_exact_omega.json     specification-valid signatures with EXACTLY omega hints, every set (crate signer as the
                                   search engine, pyref.verify as the judge)
  chains  c05_long_chains.json     (crafted secret key, message) pairs whose signing needs so many rejections that the
                                   ExpandMask counter L*kappa+i exceeds 255 (second counter byte in use), every set
  ct0     c05_ct0_rejections.json  (crafted secret key, message) pairs for the gamma2=(q-1)/88 sets in which an attempt is
                                   rejected ONLY by ||c*t0|| >= gamma2 (the other sets cannot reach that bound)
  seeds3  c04_three_block_seeds.json  key-generation seeds for the eta=4 sets where one s1/s2 polynomial needs a third
                                   SHAKE-256 block in rejection sampling (about 1 seed in 14000)
"""
import hashlib, json, os, random, sys
from concurrent.futures import ProcessPoolExecutor
sys.path.insert(0, os.path.dirname(os.path.abspath(__file__)))
import pyref
from dlib import Par, ALL, keygen, crate, bitpack

CORPUS = os.path.join(os.path.dirname(os.path.dirname(os.path.abspath(__file__))), "corpus")


def save(name, data):
    with open(os.path.join(CORPUS, name), "w") as f:
        json.dump(data, f, indent=0)
    print(name, len(data), "entries")


def omega_one(cp):
    p = Par(cp)
    rng = random.Random("omega" + cp)
    out = []
    for attempt in range(40):
        seed = bytes(rng.randrange(256) for _ in range(32))
        r = crate([("hint_weight_search", cp, [seed, 60000, p.omega])])[0]
        idx, maxw, pk, sig = r
        print(cp, "seed", attempt, "found", idx, "max weight", maxw, flush=True)
        if idx < 0:
            continue
        msg = int(idx).to_bytes(4, "little")
        assert pyref.verify(p, pk, msg, sig), "crate signature with omega hints rejected by the reference"
        out.append({"set": cp, "pk": pk.hex(), "msg": msg.hex(), "sig": sig.hex(), "key_seed": seed.hex()})
        if len(out) == 2:
            break
    return out


def empty_row_one(cp):
    """specification-valid signatures in which one polynomial has no hint at all (about 3 in 10^6 signatures for the
    gamma2=(q-1)/88 sets, 0.5 % for the others)"""
    p = Par(cp)
    rng = random.Random("emptyrow" + cp)
    out = []
    for attempt in range(60):
        seed = bytes(rng.randrange(256) for _ in range(32))
        r = crate([("hint_empty_row_search", cp, [seed, 400000 if p.g2 == 95232 else 4000])])[0]
        idx, pk, sig = r
        print(cp, "seed", attempt, "found", idx, flush=True)
        if idx < 0:
            continue
        msg = int(idx).to_bytes(4, "little")
        assert pyref.verify(p, pk, msg, sig), "crate signature with an empty hint row rejected by the reference"
        out.append({"set": cp, "pk": pk.hex(), "msg": msg.hex(), "sig": sig.hex(), "key_seed": seed.hex()})
        if len(out) == 2:
            break
    return out


def tvalue_one(cp):
    """key-generation seeds whose t = A*s1 + s2 has a coefficient exactly 0 (and exactly q-1): about 1 seed in 8000 / 1000"""
    p = Par(cp)
    rng = random.Random("tvalue" + cp)
    out = []
    for target in (0, 8380416):
        got = 0
        for attempt in range(20):
            base = bytes(rng.randrange(256) for _ in range(32))
            r = crate([("t_value_search", cp, [base, 40000, target])])[0]
            print(cp, "target", target, "found", r[0], flush=True)
            if r[0] >= 0:
                out.append({"set": cp, "seed": r[1].hex(), "t_value": target}); got += 1
            if got == 2:
                break
    return out


def crafted(p, sk, rng, f, row=None):
    """t0 re-encoded: each coefficient is +-2^12 with probability f (or the whole of one row), else uniform"""
    off = 64 + p.tr + (p.K + p.L) * p.polyeta
    t0 = []
    for i in range(p.K):
        if row is not None:
            t0.append([rng.choice([4096, -4095]) for _ in range(256)] if i == row else [rng.randint(-4095, 4096) for _ in range(256)])
        else:
            t0.append([rng.choice([4096, -4095]) if rng.random() < f else rng.randint(-4095, 4096) for _ in range(256)])
    return sk[:off] + b"".join(bitpack([4096 - x for x in t], 13) for t in t0)


def chains_one(cp):
    p = Par(cp)
    rng = random.Random("chains" + cp)
    need = 256 // p.L + 2
    pk, sk = keygen(cp, bytes(rng.randrange(256) for _ in range(32)))
    out, f = [], 0.3
    for it in range(60):
        csk = crafted(p, sk, rng, f)
        lens = []
        for i in range(4):
            m = bytes(rng.randrange(256) for _ in range(rng.randrange(1, 40)))
            r = pyref.sign(p, csk, m, max_attempts=500, want_trace=True)
            lens.append(None if r is None else len(r[1]))
            if r is not None and need <= len(r[1]):
                out.append({"set": cp, "sk": csk.hex(), "msg": m.hex(), "rejections": len(r[1]), "fraction": round(f, 3),
                            "causes": {str(k): r[1].count(k) for k in (1, 2, 3, 4)}})
        print(cp, "f=%.2f" % f, lens, flush=True)
        if len(out) >= 2:
            break
        if all(x is None for x in lens):
            f = max(0.05, f - 0.04)
        elif max(x for x in lens if x is not None) < need:
            f = min(1.0, f + 0.07)
    return out[:2]


def vlong_one(cp):
    """(crafted key, message) pairs needing more than 1000 rejections (beyond any 'reasonable' iteration cap such as the 814 of
    FIPS 204 appendix C); the expected signature is stored (the reference needs ~10 s per entry)"""
    p = Par(cp)
    rng = random.Random("vlong" + cp)
    pk, sk = keygen(cp, bytes(rng.randrange(256) for _ in range(32)))
    prev = [e for e in json.load(open(os.path.join(CORPUS, "c05_long_chains.json"))) if e["set"] == cp]
    f = min(1.0, (prev[0]["fraction"] if prev else 0.5) + 0.08)
    out = []
    for it in range(40):
        csk = crafted(p, sk, rng, f)
        lens = []
        for i in range(2):
            m = bytes(rng.randrange(256) for _ in range(rng.randrange(1, 40)))
            r = pyref.sign(p, csk, m, max_attempts=6000, want_trace=True)
            lens.append(None if r is None else len(r[1]))
            if r is not None and len(r[1]) >= 1000:
                got = crate([("signature", cp, [bytes(p.sig), m, csk, 0, b""])])[0]
                assert got is not None and got[0] == r[0], "crate and reference disagree on a very long chain"
                out.append({"set": cp, "sk": csk.hex(), "msg": m.hex(), "rejections": len(r[1]), "fraction": round(f, 3), "sig": r[0].hex()})
        print(cp, "f=%.3f" % f, lens, flush=True)
        if out:
            break
        if all(x is None for x in lens):
            f = max(0.05, f - 0.02)
        elif max(x for x in lens if x is not None) < 1000:
            f = min(1.0, f + 0.03)
    return out[:1]


def ct0_one(cp):
    p = Par(cp)
    rng = random.Random("ct0" + cp)
    pk, sk = keygen(cp, bytes(rng.randrange(256) for _ in range(32)))
    out = []
    for k in range(200):
        csk = crafted(p, sk, rng, 0, row=rng.randrange(p.K))
        for i in range(40):
            m = bytes(rng.randrange(256) for _ in range(rng.randrange(1, 40)))
            r = pyref.sign(p, csk, m, max_attempts=80, want_trace=True)
            if r is not None and 3 in r[1]:
                out.append({"set": cp, "sk": csk.hex(), "msg": m.hex(), "rejections": len(r[1]),
                            "causes": {str(c): r[1].count(c) for c in (1, 2, 3, 4)}})
                print(cp, "found after key", k, "message", i, r[1], flush=True)
                break
        if len(out) >= 2:
            break
    return out


TBL4 = [sum(1 for t in (b & 15, b >> 4) if t < 9) for b in range(256)]


def seeds3_one(cp):
    p = Par(cp)
    rng = random.Random("seeds3" + cp)
    out, n = [], 0
    while len(out) < 4:
        xi = bytes(rng.randrange(256) for _ in range(32))
        n += 1
        b = pyref.H(xi + (bytes([p.K, p.L]) if p.mldsa else b""), 128)
        rhop = b[32:96]
        for r in range(p.K + p.L):
            s = hashlib.shake_256(rhop + r.to_bytes(2, "little")).digest(272)
            if sum(map(TBL4.__getitem__, s)) < 256:
                out.append({"set": cp, "seed": xi.hex(), "poly": r})
                print(cp, "seed", n, "poly", r, flush=True)
                break
    return out


def main():
    what = sys.argv[1] if len(sys.argv) > 1 else "all"
    with ProcessPoolExecutor(max_workers=12) as ex:
        if what in ("omega", "all"):
            save("c03_exact_omega.json", [e for part in ex.map(omega_one, ALL) for e in part])
        if what in ("chains", "all"):
            save("c05_long_chains.json", [e for part in ex.map(chains_one, ALL) for e in part])
        if what in ("emptyrow",):
            save("c03_empty_hint_row.json", [e for part in ex.map(empty_row_one, ALL) for e in part])
        if what in ("tvalue",):
            save("c04_t_value_seeds.json", [e for part in ex.map(tvalue_one, ALL) for e in part])
        if what in ("vlong",):
            save("c05_very_long_chains.json", [e for part in ex.map(vlong_one, ALL) for e in part])
        if what in ("ct0", "all"):
            save("c05_ct0_rejections.json", [e for part in ex.map(ct0_one, [cp for cp in ALL if Par(cp).g2 == 95232]) for e in part])
        if what in ("seeds3", "all"):
            save("c04_three_block_seeds.json", [e for part in ex.map(seeds3_one, [cp for cp in ALL if Par(cp).eta == 4]) for e in part])


if __name__ == "__main__":
    main()
