"""Core of the check orchestrator: build, audit, run model and crate, compare, decide, evidence."""
import fcntl, hashlib, json, os, random, re, subprocess, sys, time
from concurrent.futures import ThreadPoolExecutor

VERIF = os.path.dirname(os.path.dirname(os.path.abspath(__file__)))
COQ = os.path.join(VERIF, "coq")
CACHE = os.path.join(VERIF, ".cache")
OCAMLDIR = os.path.join(CACHE, "ocaml")
TARGET = os.path.join(CACHE, "cargo-target")
DVH_DEV = os.path.join(TARGET, "debug", "dvh")
DVH_REL = os.path.join(TARGET, "release", "dvh")
TARGET_NAT = os.path.join(CACHE, "cargo-target-native")
DVH_NAT = os.path.join(TARGET_NAT, "release", "dvh")     # release profile + -C target-cpu=native (cfg(target_feature) paths)
MODELRUN = os.path.join(OCAMLDIR, "modelrun")
REPLAYS = os.path.join(VERIF, "replays")
EVID = os.path.join(VERIF, "evidence")
NPROC = min(16, os.cpu_count() or 4)
ENV = dict(os.environ, CARGO_NET_OFFLINE="true")

FORBIDDEN = re.compile(
    r"\b(Admitted|admit|Axiom|Axioms|Parameter|Parameters|Conjecture|Conjectures|Hypothesis|Hypotheses|"
    r"Variable|Variables|Admit Obligations|Unset Guard Checking|Unset Positivity Checking|"
    r"Unset Universe Checking|bypass_check|type-in-type|impredicative-set|native_compute)\b")
# Variables/Hypotheses are allowed only inside Sections; the audit checks that separately.
SECTION_OK = {"Variable", "Variables", "Hypothesis", "Hypotheses", "Context"}
ALLOWED_AXIOMS = set()   # target: every property theorem is "Closed under the global context"


class BuildError(Exception):
    def __init__(self, what, log):
        super().__init__(what)
        self.what, self.log = what, log


def sh(cmd, cwd=None, timeout=3600, inp=None):
    p = subprocess.run(cmd, cwd=cwd, shell=isinstance(cmd, str), stdout=subprocess.PIPE,
                       stderr=subprocess.STDOUT, timeout=timeout, env=ENV, input=inp)
    return p.returncode, p.stdout.decode("utf-8", "replace")


class Lock:
    def __init__(self, name):
        os.makedirs(CACHE, exist_ok=True)
        self.path = os.path.join(CACHE, name + ".lock")

    def __enter__(self):
        self.f = open(self.path, "w")
        fcntl.flock(self.f, fcntl.LOCK_EX)

    def __exit__(self, *a):
        fcntl.flock(self.f, fcntl.LOCK_UN)
        self.f.close()


def coq_files():
    with open(os.path.join(COQ, "_CoqProject")) as f:
        return [l.strip() for l in f if l.strip().endswith(".v")]


MODEL_FILES = ["Base", "Gen", "MReduce", "MRounding", "MParams", "MKeccak", "MNtt", "MPoly", "MPolyvec", "MPacking",
               "MSign", "MSha2", "MApi"]


def regenerate_gen():
    """Run the source translator (constants, tables, Keccak body, scalar kernels) so the theorems are re-checked
    against what /repo says now. Returns a note for the evidence file."""
    with Lock("coq"):
        rc, out = sh([sys.executable, os.path.join(VERIF, "tools", "gen_from_src.py")])
    return out.strip()


def build_coq(targets=None, clean=False):
    """Full .vo build (never -vos) of the given targets and their dependency cone through coq_makefile."""
    with Lock("coq"):
        if clean:
            sh("rm -f *.vo *.vok *.vos *.glob .*.aux Makefile Makefile.conf .Makefile.d", cwd=COQ)
        if not os.path.exists(os.path.join(COQ, "Makefile")) or \
                os.path.getmtime(os.path.join(COQ, "Makefile")) < os.path.getmtime(os.path.join(COQ, "_CoqProject")):
            rc, out = sh("coq_makefile -f _CoqProject -o Makefile", cwd=COQ)
            if rc:
                raise BuildError("coq_makefile", out)
        tg = " ".join(targets) if targets else ""
        rc, out = sh("timeout 3000 make -j%d %s" % (NPROC, tg), cwd=COQ, timeout=3100)
        if rc:
            raise BuildError("coq build of %s (a theorem or model file no longer checks)" % (tg or "all"), out[-6000:])
        return out


def build_model():
    """Extract the model to OCaml and compile the runner."""
    with Lock("ocaml"):
        os.makedirs(OCAMLDIR, exist_ok=True)
        ex = os.path.join(COQ, "extract")
        srcs = [os.path.join(ex, f) for f in ("Extract.v", "driver.ml", "dispatch.ml", "main.ml")]
        vos = [os.path.join(COQ, f + ".vo") for f in MODEL_FILES]
        stamp = os.path.join(OCAMLDIR, "modelrun")
        newest = max(os.path.getmtime(p) for p in srcs + [v for v in vos if os.path.exists(v)])
        if os.path.exists(stamp) and os.path.getmtime(stamp) >= newest:
            return
        rc, out = sh("coqc -Q .. DV Extract.v", cwd=ex, timeout=900)
        if rc:
            raise BuildError("extraction", out[-4000:])
        sh("cp model.ml model.mli driver.ml dispatch.ml main.ml %s/" % OCAMLDIR, cwd=ex)
        rc, out = sh("ocamlfind ocamlopt -O2 -w -a -o modelrun.tmp model.mli model.ml driver.ml dispatch.ml main.ml"
                     " && mv modelrun.tmp modelrun", cwd=OCAMLDIR, timeout=900)
        if rc:
            raise BuildError("ocaml build of the model runner", out[-4000:])


def build_harness():
    """Build the Rust harness (and thereby /repo's current working tree) in both profiles."""
    with Lock("cargo"):
        h = os.path.join(VERIF, "harness")
        for prof in ("", "--release"):
            rc, out = sh("cargo build --offline %s" % prof, cwd=h, timeout=1800)
            if rc:
                raise BuildError("harness build against /repo (%s)" % (prof or "dev"), out[-6000:])
        # third configuration: every target feature of this machine enabled, so that code selected by
        # cfg(target_feature = ..) / is_x86_feature_detected is compiled and exercised too
        rc, out = sh("CARGO_TARGET_DIR=%s RUSTFLAGS='-C target-cpu=native' cargo build --offline --release" % TARGET_NAT, cwd=h, timeout=1800)
        if rc:
            raise BuildError("harness build against /repo (release, target-cpu=native)", out[-6000:])


def strip_comments(src):
    out, depth, i = [], 0, 0
    while i < len(src):
        if src.startswith("(*", i):
            depth += 1
            i += 2
        elif src.startswith("*)", i) and depth:
            depth -= 1
            i += 2
        else:
            if not depth:
                out.append(src[i])
            i += 1
    return "".join(out)


def audit_sources():
    """No Admitted/admit/Axiom/Parameter/... anywhere; Variable/Hypothesis only inside a Section."""
    problems = []
    files = [os.path.join(COQ, f) for f in coq_files()] + [os.path.join(COQ, "extract", "Extract.v")]
    for path in files:
        src = strip_comments(open(path).read())
        depth = 0
        for ln, line in enumerate(src.split("\n"), 1):
            if re.match(r"\s*Section\b", line):
                depth += 1
            if re.match(r"\s*End\b", line) and depth:
                depth -= 1
            for m in FORBIDDEN.finditer(line):
                w = m.group(1)
                if w in SECTION_OK and depth > 0:
                    continue
                problems.append("%s:%d: %s" % (os.path.relpath(path, VERIF), ln, w))
    rc, out = sh("grep -n -E 'type-in-type|impredicative-set|-vos|-noinit' _CoqProject", cwd=COQ)
    if rc == 0:
        problems.append("_CoqProject: " + out.strip())
    return problems


def sha(path):
    return hashlib.sha256(open(path, "rb").read()).hexdigest()


def audit_props(pid):
    """Re-check Props file with coqc, parse Print Assumptions, compare with pinned hash.
    Returns (theorems, discharged, problems, axioms)."""
    f = os.path.join(COQ, "Prop_%s.v" % pid)
    problems = []
    pins = json.load(open(os.path.join(COQ, "pins.json")))
    if pins.get("Prop_%s.v" % pid) != sha(f):
        problems.append("Prop_%s.v differs from its pinned hash (statement file changed)" % pid)
    src = strip_comments(open(f).read())
    # the property file may only contain: imports, Theorem/Proof/exact/Qed, Check, Example by vm_compute, Print Assumptions
    thms = re.findall(r"^\s*Theorem\s+(\w+)", src, re.M)
    rc, out = sh("coqc -Q . DV Prop_%s.v" % pid, cwd=COQ, timeout=1800)
    if rc:
        problems.append("coqc Prop_%s.v failed: %s" % (pid, out[-1500:]))
        return thms, 0, problems, []
    # Print Assumptions output: either "Closed under the global context" or "Axioms:\n name : type"
    closed = out.count("Closed under the global context")
    axioms = []
    for blk in re.findall(r"Axioms:\n((?:.+\n?)+?)(?=\n\S|\Z)", out):
        for line in blk.split("\n"):
            m = re.match(r"^(\S+)\s*:", line)
            if m:
                axioms.append(m.group(1))
    bad = [a for a in axioms if a not in ALLOWED_AXIOMS]
    if bad:
        problems.append("axioms outside the allow-list: %s" % ", ".join(sorted(set(bad))))
    n_print = len(re.findall(r"Print Assumptions", src))
    if n_print < len(thms):
        problems.append("fewer Print Assumptions (%d) than theorems (%d)" % (n_print, len(thms)))
    if closed + (1 if axioms else 0) < 1 and thms:
        problems.append("no Print Assumptions output")
    discharged = len(thms) if not bad else 0
    return thms, discharged, problems, axioms


# ---------------------------------------------------------------------------------------------

class Case:
    __slots__ = ("fn", "copy", "args", "tags", "exact", "skip_release", "aux")

    def __init__(self, fn, copy, args, tags=(), exact=True, skip_release=False, aux=None):
        self.aux = aux
        self.fn, self.copy = fn, copy
        self.args = [fmt_arg(a) for a in args]
        self.tags = tuple(tags)
        self.exact = exact
        self.skip_release = skip_release

    def line(self, i):
        return "%d %s %s %s" % (i, self.fn, self.copy, " ".join(self.args))

    def key(self):
        return (self.fn, self.copy, tuple(self.args))


def fmt_arg(a):
    if isinstance(a, str):
        return a
    if isinstance(a, bool):
        return "1" if a else "0"
    if isinstance(a, int):
        return str(a)
    if isinstance(a, (bytes, bytearray)):
        return "x" + bytes(a).hex()
    if isinstance(a, (list, tuple)):
        return "i" + ",".join(str(int(x)) for x in a)
    raise TypeError(a)


def parse_out(tok):
    if tok.startswith("x"):
        return bytes.fromhex(tok[1:])
    if tok.startswith("i"):
        return [int(t) for t in tok[1:].split(",")] if len(tok) > 1 else []
    return int(tok)


def run_runner(binary, lines, shards, timeout):
    """Run a line-protocol runner on the case lines, sharded; returns {id: 'ok ...'|'panic'|...}."""
    if not lines:
        return {}, []
    shards = max(1, min(shards, len(lines)))
    chunks = [lines[i::shards] for i in range(shards)]

    def one(chunk):
        data = ("\n".join(chunk) + "\n").encode()
        try:
            p = subprocess.run([binary], input=data, stdout=subprocess.PIPE, stderr=subprocess.PIPE,
                               timeout=timeout, env=ENV)
            return p.stdout.decode(), None
        except subprocess.TimeoutExpired as e:
            return (e.stdout or b"").decode(), "timeout"

    res, hangs = {}, []
    with ThreadPoolExecutor(max_workers=shards) as ex:
        for chunk, (out, err) in zip(chunks, ex.map(one, chunks)):
            seen = set()
            for l in out.split("\n"):
                if not l:
                    continue
                i, _, rest = l.partition(" ")
                res[int(i)] = rest
                seen.add(int(i))
            if err == "timeout":
                for l in chunk:
                    i = int(l.split(" ", 1)[0])
                    if i not in seen:
                        hangs.append(i)
                        break
            else:
                for l in chunk:
                    i = int(l.split(" ", 1)[0])
                    if i not in seen:
                        res[i] = "crash"
    return res, hangs


class Report:
    """Collects what a check run found and turns it into exit status, replay files and evidence."""

    def __init__(self, pid, tier, seed):
        self.pid, self.tier, self.seed = pid, tier, seed
        self.t0 = time.time()
        self.violations = []       # (kind, description, replay dict, found_input: bool)
        self.known = []
        self.cov = {}
        self.assumptions = []

    def violation(self, what, replay, failing_input):
        self.violations.append((what, replay, failing_input))

    def finish(self, coverage, assumptions):
        os.makedirs(EVID, exist_ok=True)
        os.makedirs(REPLAYS, exist_ok=True)
        known = load_known()
        n_viol = 0
        lines = []
        # a failing input, when one was found, IS the report: violations with an input come first and carry the list of proof
        # obligations / correspondences that broke; the input-less entries are printed only when no input was found at all
        found = [v for v in self.violations if v[2]]
        broken = [v for v in self.violations if not v[2]]
        if found:
            also = [{"what": w, "broken": r.get("broken", [])} for w, r, _ in broken]
            ordered = [(w, dict(r, also_broken=also) if also else r, f) for w, r, f in found]
        else:
            ordered = broken
        for k, (what, replay, failing) in enumerate(ordered):
            match = None
            for e in known.get("known", []):
                if e.get("property") == self.pid and e.get("match") and e["match"] in json.dumps(replay, sort_keys=True):
                    match = e
            if match:
                lines.append("KNOWN-FINDING: property=%s %s" % (self.pid, match.get("what", "")))
                continue
            n_viol += 1
            path = os.path.join(REPLAYS, "%s-%d.json" % (self.pid, n_viol))
            replay = dict(replay, property=self.pid, what=what, seed=self.seed, tier=self.tier,
                          failing_input_found=failing)
            with open(path, "w") as f:
                json.dump(replay, f, indent=1, sort_keys=True)
            tail = "" if failing else " no-failing-input-found"
            lines.append("VIOLATION property=%s replay=%s%s" % (self.pid, path, tail))
            if n_viol >= 5:
                break
        ev = {
            "property_id": self.pid, "tier": self.tier, "seed": self.seed, "level": "proof",
            "coverage": coverage, "assumptions": assumptions,
            "wall_s": round(time.time() - self.t0, 2), "violations": n_viol,
        }
        with open(os.path.join(EVID, "%s.json" % self.pid), "w") as f:
            json.dump(ev, f, indent=1, sort_keys=True)
        for l in lines:
            print(l)
        sys.stdout.flush()
        return 1 if n_viol else 0


def load_known():
    p = os.path.join(VERIF, "known_findings.json")
    if os.path.exists(p):
        return json.load(open(p))
    return {}


TRUSTED_BASE = [
    "Coq 8.16.1 kernel incl. vm_compute (no native_compute); coqchk in the thorough tier",
    "axioms: none (every property theorem prints 'Closed under the global context')",
    "hand-written Gallina model DV.M* of /repo/src, tied to the code by differential execution; tools/gen_from_src.py + tools/gen_kernels.py (translator, regenerated every run): constants, ZETAS, Keccak round constants and two-round body are used by the model directly (Gen.v), the scalar kernels of reduce.rs / rounding*.rs are proved equal to the model's (GenK.v, GenKReduce.v, GenKRounding.v), the constants are proved equal in GenCheck.v (built in every check)",
    "extraction: ExtrOcamlBasic only (Extract Inductive bool/option/list/prod/unit/sumbool; no Extract Constant); OCaml 4.13.1; driver.ml/dispatch.ml/main.ml",
    "Rust harness /verif/harness (path dependency on /repo, feature verif-hooks) built three ways: checked (overflow checks + debug assertions), release, release with -C target-cpu=native; python orchestrator",
    "Rust semantics assumed by the model: wrap-around in release = checked value when no overflow panic; arithmetic >>; truncating as-casts",
]


def run_property(mod, pid, tier, seed, replay=None):
    """Generic driver: build, audit, generate, execute, compare, oracle, decide, evidence."""
    rep = Report(pid, tier, seed)
    rng = random.Random(seed)
    cov = {"checker_cmd": "cd /verif/coq && coq_makefile -f _CoqProject -o Makefile && make -j16 && coqc -Q . DV Prop_%s.v" % pid
                          + (" && coqchk -o -silent -Q . DV DV.Prop_%s" % pid if tier == "thorough" else ""),
           "trusted_base": TRUSTED_BASE, "obligations": 0, "discharged": 0,
           "evaluations": 0, "distinct_nontrivial": 0, "rule": getattr(mod, "RULE", ""), "samples": []}
    assumptions = list(getattr(mod, "ASSUMPTIONS", []))
    # 1. proofs
    chk = None
    proofs_ok = True
    try:
        cov["translator"] = regenerate_gen()
        if "TRANSLATE-ERROR" in cov["translator"]:
            assumptions.append("the source translator could not read part of /repo/src on this run (%s): the theorems that "
                               "mention Gen.v/GenK.v refer to the last text it could read, and only the differential "
                               "correspondence ties those parts of the model to the code in this run"
                               % cov["translator"].replace("\n", "; "))
            if "TRANSLATE-ERROR(kernels)" in cov["translator"] and getattr(mod, "SOURCE_TIE", None) == "kernels":
                # this property's source-level theorems (C14_source_*, C15_source_*) are about the kernels' text: if the text can no
                # longer be read, they no longer speak about the current code
                what = [l for l in cov["translator"].split("\n") if "kernels" in l][0]
                rep.violation("the translated-source theorems of %s are stale: %s" % (pid, what),
                              {"broken": ["tools/gen_kernels.py could not translate the current reduce.rs / rounding*.rs (%s)" % what,
                                          "GenKReduce / GenKRounding / PSrc* are about the last readable text"]}, False)
        build_coq([f + ".vo" for f in MODEL_FILES])
    except BuildError as e:
        rep.violation(e.what, {"broken": [e.what], "log": e.log}, False)
    try:
        build_coq(["GenCheck.vo", "Prop_%s.vo" % pid])
        thms, discharged, problems, axioms = audit_props(pid)
        problems += audit_sources()
        cov["obligations"] = max(len(thms), 1)
        cov["discharged"] = discharged if not problems else 0
        cov["theorems"] = thms
        cov["axioms_reported"] = axioms
        if problems:
            proofs_ok = False
            rep.violation("proof audit failed", {"broken": problems}, False)
        if tier == "thorough" and proofs_ok:
            # independent re-check of the property file and its whole dependency cone; runs in the background while the
            # correspondence executes; it can take tens of minutes for the composition theorems
            chk = subprocess.Popen("exec timeout 3000 nice coqchk -o -silent -Q . DV DV.Prop_%s" % pid, cwd=COQ, shell=True,
                                   stdout=subprocess.PIPE, stderr=subprocess.STDOUT, env=ENV)
    except BuildError as e:
        proofs_ok = False
        cov["obligations"] = max(len(getattr(mod, "THEOREMS", [])), 1)
        cov["discharged"] = 0
        rep.violation(e.what, {"broken": [e.what], "log": e.log}, False)
    # 2. executable sides
    runnable = True
    try:
        build_model()
    except BuildError as e:
        runnable = False
        rep.violation(e.what, {"broken": [e.what], "log": e.log}, False)
    harness_ok = True
    try:
        build_harness()
    except BuildError as e:
        harness_ok = False
        rep.violation(e.what, {"broken": [e.what], "log": e.log}, False)
    # 3. cases
    import traceback
    if runnable and harness_ok:
        try:
            if replay:
                r = json.load(open(replay))
                cases = [Case(c["fn"], c["copy"], c["args"], c.get("tags", ()), c.get("exact", True)) for c in r.get("cases", [])]
            else:
                cases = list(mod.gen(tier, rng))
            execute(mod, rep, cov, cases, tier, rng, verbose=bool(replay))
        except subprocess.TimeoutExpired as e:
            rep.violation("the crate did not answer within the time budget while cases were prepared (hang)",
                          {"hang": "crate", "cmd": str(e.cmd)}, True)
        except Exception:
            rep.violation("the correspondence run could not be completed (unexpected answer from the crate or the model)",
                          {"broken": ["correspondence run for %s" % pid], "traceback": traceback.format_exc()[-3000:]}, False)
        if hasattr(mod, "extra") and not replay:
            try:
                mod.extra(rep, cov, tier, rng)
            except subprocess.TimeoutExpired as e:
                rep.violation("the crate did not answer within the time budget (hang)", {"hang": "crate", "cmd": str(e.cmd)}, True)
            except Exception:
                rep.violation("the oracle run could not be completed (unexpected answer from the crate)",
                              {"broken": ["oracle run for %s" % pid], "traceback": traceback.format_exc()[-3000:]}, False)
    if chk is not None:
        budget = 1500 if os.environ.get("VERIF_COQCHK_WAIT") is None else int(os.environ["VERIF_COQCHK_WAIT"])
        try:
            out = chk.communicate(timeout=budget)[0].decode("utf-8", "replace")
            cov["coqchk"] = out.strip()[-600:]
            ax = re.search(r"Axioms:\s*(.*)", out)
            if chk.returncode == 124:
                cov["coqchk"] = "coqchk did not finish within its time limit (not a failure; the kernel check by coqc stands)"
            elif chk.returncode != 0 or (ax and "<none>" not in ax.group(1)):
                rep.violation("coqchk failed or reports axioms", {"broken": ["coqchk: " + out[-1500:]]}, False)
        except subprocess.TimeoutExpired:
            chk.kill()
            cov["coqchk"] = "coqchk still running after the correspondence finished + %d s; stopped (not a failure; the kernel check by coqc stands)" % budget
    return rep.finish(cov, assumptions)


def execute(mod, rep, cov, cases, tier, rng, verbose=False):
    lines = [c.line(i) for i, c in enumerate(cases)]
    tmo = getattr(mod, "TIMEOUT", {}).get(tier, 600)
    t0 = time.time()
    with ThreadPoolExecutor(max_workers=4) as ex:
        mlines = [l.replace("~d ", " ", 1) for l, c in zip(lines, cases) if "crate-only" not in c.tags]   # the model has no output objects
        fm = ex.submit(run_runner, MODELRUN, mlines, NPROC, tmo)
        fd = ex.submit(run_runner, DVH_DEV, lines, max(2, NPROC // 2), tmo)
        rel_lines = [l for l, c in zip(lines, cases) if not c.skip_release]
        fr = ex.submit(run_runner, DVH_REL, rel_lines, max(2, NPROC // 2), tmo)
        fn = ex.submit(run_runner, DVH_NAT, rel_lines, max(2, NPROC // 2), tmo)
        (m, mh), (d, dh), (r, rh), (nat, nh) = fm.result(), fd.result(), fr.result(), fn.result()
    cov["run_s"] = round(time.time() - t0, 2)
    # dirty-output pass: the same crate calls with every OUTPUT object the harness allocates (polynomials, vectors) pre-filled
    # with old values ("<fn>~d"); a result that changes means the operation reads or keeps what its output held before
    NONDET = ("live", "_rand", "volume", "selfcheck", "history", "purity", "rng_threads", "verify_race", "search", "sweep", "flips")
    idx = [i for i, c in enumerate(cases) if not any(t in c.fn for t in NONDET)]
    if dh or rh or nh:
        idx = []          # a build already hung on these cases (reported below): do not wait for the same hang again
    if len(idx) > 4000:
        idx = sorted(rng.sample(idx, 4000))
    dl = ["%d %s~d %s %s" % (i, cases[i].fn, cases[i].copy, " ".join(cases[i].args)) for i in idx]
    dd, dhang = run_runner(DVH_DEV, dl, max(2, NPROC // 2), tmo)
    ndirty = 0
    for i in idx:
        a, b = d.get(i), dd.get(i)
        if a is None or b is None or a == b:
            continue
        ndirty += 1
        if ndirty <= 3:
            rep.violation("%s/%s gives a different result when its output object holds old values on entry (clean: %s, dirty: %s)"
                          % (cases[i].fn, cases[i].copy, trunc(a, 60), trunc(b, 60)),
                          {"cases": [dict(case_json(cases[i]), fn=cases[i].fn + "~d")], "crate_dev": a, "crate_dev_dirty_output": b}, True)
    cov["dirty_output_variants_run"] = len(idx)
    cov["evaluations"] = cov.get("evaluations", 0) + len(idx)
    hist, nontrivial = {}, set()
    oracle = getattr(mod, "oracle", None)
    nontriv = getattr(mod, "nontrivial", lambda c, out: bool(c.tags))
    mism = 0
    for who, hs in (("model", mh), ("crate(dev)", dh), ("crate(release)", rh), ("crate(release, target-cpu=native)", nh)):
        for i in hs:
            c = cases[i]
            rep.violation("%s did not answer within %ds (hang)" % (who, tmo),
                          {"cases": [case_json(c)], "hang": who}, who != "model")
    for i, c in enumerate(cases):
        mo, do, ro, no = m.get(i), d.get(i), r.get(i), nat.get(i)
        for t in c.tags:
            hist[t] = hist.get(t, 0) + 1
        if verbose:
            print("case %d %s %s\n  model  : %s\n  dev    : %s\n  release: %s" % (i, c.fn, c.copy, mo, do, ro))
        if "crate-only" in c.tags:
            mo = do
        if mo is None or do is None:
            continue
        if nontriv(c, do):
            nontrivial.add(c.key())
        bad = None
        if mo in ("unknown", "crash") or mo.startswith("error") or do in ("unknown", "crash"):
            if mo == "unknown" and do == "unknown":
                continue   # argument not representable in the Rust parameter type
            bad = "runner failure"
        elif do != mo:
            bad = "crate (checked build) differs from model"
        elif ro is not None and mo.startswith("ok") and ro != mo:
            bad = "crate (release build) differs from model"
        elif ro is not None and do != ro and do.startswith("ok"):
            bad = "checked and release builds differ"
        elif ro is not None and no is not None and no != ro:
            bad = "the release build with -C target-cpu=native (%s) differs from the plain release build" % trunc(no, 80)
        oerr = None
        if oracle and do.startswith("ok"):
            oerr = oracle(c, [parse_out(t) for t in do.split(" ")[1:]])
        elif oracle and do == "panic" and "in_domain" in c.tags:
            oerr = "panic on an input inside the documented domain"
        if oracle and not oerr and getattr(mod, "ORACLE_ON_RELEASE", False):
            # properties whose statement does not depend on the build profile: the unchecked builds are judged too
            for who, xo in (("release build", ro), ("release build with target-cpu=native", no)):
                if xo is not None and xo != do and xo.startswith("ok"):
                    e = oracle(c, [parse_out(t) for t in xo.split(" ")[1:]])
                    if e:
                        oerr = "%s (%s only; the checked build answers %s)" % (e, who, trunc(do, 40))
                        break
        if oerr:
            rep.violation("property fails on the crate: " + oerr,
                          {"cases": [case_json(c)], "crate_dev": do, "crate_release": ro, "model": mo}, True)
        elif bad:
            mism += 1
            failing = c.exact and "in_domain" in c.tags
            rep.violation(bad + (" (the model is proved to meet the property here, so the crate's output is wrong)" if failing
                                 else "; correspondence for %s no longer checks" % c.fn),
                          {"cases": [case_json(c)], "crate_dev": do, "crate_release": ro, "crate_release_native": no, "model": mo,
                           "broken": ["correspondence %s/%s" % (c.fn, c.copy)]}, failing)
    cov["evaluations"] = cov.get("evaluations", 0) + len(cases)
    cov["distinct_nontrivial"] = cov.get("distinct_nontrivial", 0) + len(nontrivial)
    cov["class_histogram"] = hist
    cov["mismatches"] = mism
    k = min(6, len(cases))
    for i in sorted(rng.sample(range(len(cases)), k)) if k else []:
        c = cases[i]
        cov["samples"].append({"case": trunc(c.line(i)), "model": trunc(m.get(i, "")), "crate": trunc(d.get(i, ""))})


def trunc(s, n=300):
    return s if len(s) <= n else s[:n] + "...(%d chars)" % len(s)


def case_json(c):
    return {"fn": c.fn, "copy": c.copy, "args": c.args, "tags": list(c.tags), "exact": c.exact}
