"""C17 — samplers: rej_uniform/uniform, rej_eta/uniform_eta/uniform_gamma1/challenge (6 copies), vector-level expanders (3 copies)."""
from vcore import Case
from dlib import Q, Par, ALL, LEVELS, shake128, shake256, bitunpack

RULE = ("byte routines on crafted buffers: samples = q-1, q, q+1, 0x7FFFFF, top bit set; nibbles 8/9 and 14/15; buffer lengths 0..7 and 3n+-1; "
        "alen 0, 1, 255, 256, odd (second nibble refused); dirty output arrays. Samplers on real seeds with nonces 0, 1, 255, 256, 0xFFFF, and through "
        "the armed XOF tap on scripted streams that force 1, 2 and many refills, a refill exactly at a block edge, and rejected challenge indices. "
        "The oracle recomputes every sampler from Python's hashlib SHAKE stream with the specification's rejection rules. Non-trivial = crafted or "
        "tap case; distinct (fn,copy,input).")
ASSUMPTIONS = ["(seed, nonce) space sampled; refill loops are only reachable through the XOF tap hook (feature verif-hooks)"]
TIMEOUT = {"quick": 400, "thorough": 2400}


def ref_rej_uniform(buf, want):
    vals = []
    for i in range(0, len(buf) - 2, 3):
        if len(vals) >= want: break
        t = (buf[i] | (buf[i + 1] << 8) | (buf[i + 2] << 16)) & 0x7FFFFF
        if t < Q: vals.append(t)
    return vals


def ref_rej_eta(eta, buf, want):
    vals = []
    for b in buf:
        for t in (b & 15, b >> 4):
            if len(vals) >= want: return vals
            if eta == 2 and t < 15: vals.append(2 - t % 5)
            elif eta == 4 and t < 9: vals.append(4 - t)
    return vals


def ref_challenge(tau, stream):
    signs = int.from_bytes(stream[:8], "little")
    c = [0] * 256
    pos = 8
    for i in range(256 - tau, 256):
        while True:
            b = stream[pos]; pos += 1
            if b <= i: break
        c[i] = c[b]
        c[b] = 1 - 2 * (signs & 1)
        signs >>= 1
    return c


def gamma1_endpoint_pairs(rng, p, want):
    """(seed, nonce, which) with a coefficient equal to +gamma1 resp. -(gamma1-1) in ExpandMask(seed, nonce)"""
    seed = bytes(rng.randrange(256) for _ in range(64))
    out, need = [], {"plus-gamma1": want, "minus-gamma1-plus-1": want}
    full = (1 << p.zbits) - 1
    start = rng.randrange(65536)
    for k in range(65536):
        nonce = (start + k) % 65536
        vals = bitunpack(shake256(seed + nonce.to_bytes(2, "little"), p.polyz), p.zbits, 256)
        for which, v in (("plus-gamma1", 0), ("minus-gamma1-plus-1", full)):
            if need[which] and v in vals:
                out.append((seed, nonce, which)); need[which] -= 1
        if not any(need.values()):
            break
    return out


TBL4 = [sum(1 for t in (b & 15, b >> 4) if t < 9) for b in range(256)]


def three_block_pairs(rng, want):
    import hashlib
    out = []
    seed = bytes(rng.randrange(256) for _ in range(56))
    k = rng.getrandbits(48)
    while len(out) < want:
        k += 1
        s64 = k.to_bytes(8, "little") + seed
        nonce = k % 11
        if sum(map(TBL4.__getitem__, hashlib.shake_256(s64 + nonce.to_bytes(2, "little")).digest(272))) < 256:
            out.append((s64, nonce))
    return out


def gen(tier, rng):
    out = []
    reps = 20 if tier == "quick" else 1500
    def triple(t): return bytes([t & 255, (t >> 8) & 255, (t >> 16) & 255])
    specials = [Q - 1, Q, Q + 1, 0x7FFFFF, 0x800000 | 5, 0xFFFFFF, 0, 1, 0x800000 | (Q - 1), 0x800000 | Q]
    bufs = []
    for n in range(0, 8):
        bufs.append(bytes(rng.randrange(256) for _ in range(n)))
    bufs.append(b"".join(triple(t) for t in specials))
    bufs.append(b"".join(triple(rng.choice(specials)) for _ in range(300)))
    for n in (3 * 85 - 1, 3 * 85, 3 * 85 + 1, 3 * 300 + 2):
        bufs.append(bytes(rng.randrange(256) for _ in range(n)))
    for _ in range(reps):
        bufs.append(bytes(rng.randrange(256) for _ in range(rng.randrange(0, 900))))
    for buf in bufs:
        for alen in (0, 1, 2, 255, 256):
            a = [rng.randint(-9, 9) for _ in range(256)]
            for buflen in sorted(set([len(buf), max(0, len(buf) - 1), max(0, len(buf) - 2), min(2, len(buf))])):
                out.append(Case("rej_uniform", "-", [a, alen, buf, buflen], ["in_domain", "crafted"]))
    tb_pairs = three_block_pairs(rng, 2 if tier == "quick" else 12)
    for cp in ALL:
        p = Par(cp)
        ebufs = [bytes([x]) for x in (0x00, 0x8F, 0xF8, 0x9E, 0xE9, 0xFF, 0x88, 0x99, 0xEE, 0x45)]
        ebufs += [bytes(rng.choice([0x8F, 0xF8, 0x9E, 0xE9, 0xFF, 0x45, 0x08, 0x90]) for _ in range(n)) for n in (0, 2, 3, 127, 128, 129, 200)]
        ebufs += [bytes(rng.randrange(256) for _ in range(rng.randrange(0, 300))) for _ in range(reps // 2)]
        for buf in ebufs:
            for alen in (0, 1, 2, 3, 255, 256):
                a = [rng.randint(-9, 9) for _ in range(256)]
                for buflen in sorted(set([len(buf), max(0, len(buf) - 1)])):
                    out.append(Case("rej_eta", cp, [a, alen, buf, buflen], ["in_domain", "crafted"]))
        if p.eta == 4:
            # rare path with the REAL sponge (the XOF tap bypasses the sponge state): (seed, nonce) pairs whose first two
            # SHAKE-256 blocks yield fewer than 256 coefficients, so that a third block is squeezed (about 1 pair in 50 000)
            for seed, nonce in tb_pairs:
                out.append(Case("uniform_eta", cp, [seed, nonce], ["in_domain", "seeded", "third-block"]))
        # range endpoints of the mask: a stream field of all zeros gives +gamma1, all ones gives -(gamma1-1); (seed, nonce) pairs
        # whose stream contains such a field are found by search (about 1 polynomial in 2^10..2^12)
        for seed, nonce, what in gamma1_endpoint_pairs(rng, p, 1 if tier == "quick" else 4):
            out.append(Case("uniform_gamma1", cp, [seed, nonce], ["in_domain", "seeded", "endpoint-" + what]))
        for nonce in (0, 1, 255, 256, 0xFFFF, rng.randrange(65536)):
            seed = bytes(rng.randrange(256) for _ in range(64))
            out.append(Case("uniform_eta", cp, [seed, nonce], ["in_domain", "seeded"]))
            out.append(Case("uniform_gamma1", cp, [seed, nonce], ["in_domain", "seeded"]))
        for _ in range(4 if tier == "quick" else 100):
            out.append(Case("challenge", cp, [bytes(rng.randrange(256) for _ in range(64))], ["in_domain", "seeded"]))
        # XOF tap: scripted streams
        for kind in ("eta-refill1", "eta-refill3", "eta-exact"):
            rej = 0xFF if p.eta == 2 else 0x9A
            if kind == "eta-refill1":
                tape = bytes([rej] * 100) + bytes(rng.randrange(256) for _ in range(136 * 6 - 100))
            elif kind == "eta-refill3":
                tape = bytes([rej] * (136 * 3)) + bytes(rng.randrange(256) for _ in range(136 * 4))
            else:   # exactly 256 accepted in the first block: 128 bytes accepted twice, then 8 rejecting bytes
                tape = bytes([0x00] * 128 + [rej] * 8) + bytes(136)
            out.append(Case("uniform_eta_tap", cp, [tape], ["in_domain", "tap", kind]))
        for kind in ("ch-reject", "ch-refill", "ch-edge"):
            if kind == "ch-reject":
                tape = bytes(8) + bytes([255] * 60) + bytes(rng.randrange(0, 190) for _ in range(136 * 3))
            elif kind == "ch-refill":
                tape = bytes([0xA5] * 8) + bytes([255] * 128) + bytes([255] * 136) + bytes(rng.randrange(0, 190) for _ in range(136 * 3))
            else:
                tape = bytes([0xFF] * 8) + bytes([255] * (128 - p.tau + 5)) + bytes(range(1, 136 * 2 + 1 - 0)[:136 * 2 - 0] if False else [i % 190 for i in range(136 * 3)])
            out.append(Case("challenge_tap", cp, [tape], ["in_domain", "tap", kind]))
    for nonce in (0, 1, 255, 256, 0xFFFF, 258, 1027):
        seed = bytes(rng.randrange(256) for _ in range(32))
        out.append(Case("uniform", "-", [seed, nonce], ["in_domain", "seeded"]))
    for kind in ("u-refill1", "u-refill2", "u-many", "u-edge"):
        rejt = triple(0x7FFFFF)
        if kind == "u-refill1":
            tape = rejt * 60 + bytes(rng.randrange(256) for _ in range(168 * 7 - 180))
        elif kind == "u-refill2":
            tape = rejt * (280 + 30) + bytes(rng.randrange(256) for _ in range(168 * 9))
        elif kind == "u-many":
            tape = rejt * (56 * 20) + bytes(rng.randrange(256) for _ in range(168 * 8))
        else:  # 255 accepted in the first five blocks, last sample accepted in the final triple of the sixth block
            tape = triple(5) * 255 + rejt * 25 + rejt * 55 + triple(Q - 1) + bytes(168)
        out.append(Case("uniform_tap", "-", [tape], ["in_domain", "tap", kind]))
    for lv in LEVELS:
        p = Par(lv)
        for nonce in (0, 1, 7, 255, 1000):
            seed = bytes(rng.randrange(256) for _ in range(64))
            out.append(Case("l_uniform_eta", lv, [seed, nonce], ["in_domain", "vec"]))
            out.append(Case("k_uniform_eta", lv, [seed, nonce], ["in_domain", "vec"]))
            out.append(Case("l_uniform_gamma1", lv, [seed, nonce], ["in_domain", "vec"]))
        out.append(Case("matrix_expand", lv, [bytes(rng.randrange(256) for _ in range(32))], ["in_domain", "vec"]))
        # nonce arithmetic edges: L*nonce + i overflows u16 -> panic in the checked build (modelled), wraps in release
        out.append(Case("l_uniform_gamma1", lv, [bytes(64), 65535 // p.L + 1], ["overflow"], skip_release=True))
    return out


def extra(rep, cov, tier, rng):
    """Counter wrap: the specification encodes the ExpandMask counter L*kappa+i in TWO bytes; where the product passes 65535 the
    checked build panics (overflow, modelled) and the unchecked builds must give ExpandMask with the counter reduced mod 2^16."""
    from dlib import crate
    n = 0
    for lv in LEVELS:
        p = Par(lv)
        for kappa in (65535 // p.L + 1, 65536 // p.L + 7, 65535, rng.randrange(65536 // p.L + 1, 65536)):
            seed = bytes(rng.randrange(256) for _ in range(64))
            r = crate([("l_uniform_gamma1", lv, [seed, kappa])])[0]
            n += 1
            if r is None:
                continue     # an unchecked build that panics here is not a wrong value
            for i in range(p.L):
                ctr = (p.L * kappa + i) % 65536
                exp = [p.g1 - v for v in bitunpack(shake256(seed + ctr.to_bytes(2, "little"), p.polyz), p.zbits, 256)]
                if r[0][256 * i:256 * (i + 1)] != exp:
                    rep.violation("l_uniform_gamma1/%s (release build), kappa = %d: component %d is not ExpandMask with the two-byte counter (L*kappa+%d) mod 2^16 = %d"
                                  % (lv, kappa, i, i, ctr),
                                  {"cases": [{"fn": "l_uniform_gamma1", "copy": lv, "args": ["x" + seed.hex(), str(kappa)], "profile": "release"}]}, True)
                    break
    cov["counter_wrap_cases_release"] = n
    cov["evaluations"] = cov.get("evaluations", 0) + n


def nontrivial(c, out):
    return any(t in ("crafted", "tap", "overflow") for t in c.tags)


def oracle(c, outs):
    if "in_domain" not in c.tags:
        return None
    fn = c.fn
    arg = lambda i: bytes.fromhex(c.args[i][1:])
    if fn in ("rej_uniform", "rej_eta"):
        a = [int(x) for x in c.args[0][1:].split(",")]
        alen, buf, buflen = int(c.args[1]), arg(2), int(c.args[3])
        vals = ref_rej_uniform(buf[:buflen], alen) if fn == "rej_uniform" else ref_rej_eta(Par(c.copy).eta, buf[:buflen], alen)
        if outs[1] != len(vals) or outs[0] != vals + a[len(vals):]:
            return "%s/%s returned %d values; the specification accepts %d (or stored values/untouched tail differ)" % (fn, c.copy, outs[1], len(vals))
    elif fn in ("uniform", "uniform_tap"):
        stream = arg(0) if fn == "uniform_tap" else shake128(arg(0) + int(c.args[1]).to_bytes(2, "little"), 168 * 40)
        exp = ref_rej_uniform(stream, 256)
        if outs[0] != exp or any(not 0 <= x < Q for x in outs[0]):
            return "%s is not RejNTTPoly of its stream" % fn
    elif fn in ("uniform_eta", "uniform_eta_tap"):
        p = Par(c.copy)
        stream = arg(0) if fn == "uniform_eta_tap" else shake256(arg(0)[:64] + int(c.args[1]).to_bytes(2, "little"), 136 * 20)
        exp = ref_rej_eta(p.eta, stream, 256)
        if outs[0] != exp or any(abs(x) > p.eta for x in outs[0]):
            return "%s/%s is not RejBoundedPoly of its stream" % (fn, c.copy)
    elif fn == "uniform_gamma1":
        p = Par(c.copy)
        stream = shake256(arg(0)[:64] + int(c.args[1]).to_bytes(2, "little"), p.polyz)
        exp = [p.g1 - v for v in bitunpack(stream, p.zbits, 256)]
        if outs[0] != exp or any(not -p.g1 < x <= p.g1 for x in outs[0]):
            return "uniform_gamma1/%s is not BitUnpack of the mask stream" % c.copy
    elif fn in ("challenge", "challenge_tap"):
        p = Par(c.copy)
        stream = arg(0) if fn == "challenge_tap" else shake256(arg(0)[:p.ct], 136 * 10)
        exp = ref_challenge(p.tau, stream)
        r = outs[0]
        if r != exp or sum(1 for x in r if x in (1, -1)) != p.tau or any(x not in (-1, 0, 1) for x in r):
            return "challenge/%s is not SampleInBall of its stream (or weight != tau)" % c.copy
    elif fn in ("l_uniform_eta", "k_uniform_eta"):
        p = Par(c.copy); n = p.L if fn[0] == "l" else p.K
        nonce = int(c.args[1])
        for i in range(n):
            exp = ref_rej_eta(p.eta, shake256(arg(0)[:64] + (nonce + i).to_bytes(2, "little"), 136 * 20), 256)
            if outs[0][256 * i:256 * (i + 1)] != exp:
                return "%s/%s component %d is not ExpandS with nonce %d" % (fn, c.copy, i, nonce + i)
    elif fn == "l_uniform_gamma1":
        p = Par(c.copy); nonce = int(c.args[1])
        for i in range(p.L):
            exp = [p.g1 - v for v in bitunpack(shake256(arg(0)[:64] + (p.L * nonce + i).to_bytes(2, "little"), p.polyz), p.zbits, 256)]
            if outs[0][256 * i:256 * (i + 1)] != exp:
                return "l_uniform_gamma1/%s component %d is not ExpandMask with nonce L*kappa+%d" % (c.copy, i, i)
    elif fn == "matrix_expand":
        p = Par(c.copy)
        for i in range(p.K):
            for j in range(p.L):
                exp = ref_rej_uniform(shake128(arg(0)[:32] + bytes([j, i]), 168 * 40), 256)
                if outs[0][256 * (i * p.L + j):256 * (i * p.L + j + 1)] != exp:
                    return "matrix_expand/%s entry (%d,%d) is not RejNTTPoly(rho||%d||%d)" % (c.copy, i, j, j, i)
    return None
