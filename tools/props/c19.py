"""C19 — vector and matrix operations are exact component-wise lifts (polyvec::{lvl2,lvl3,lvl5}::*)."""
from vcore import Case
from dlib import Q, Par, LEVELS, flat, crate

RULE = ("every pub fn of the three polyvec copies on index-tagged vectors (component i filled with values encoding (i, position), "
        "pairwise different between components and neighbours, plus random and extreme-magnitude vectors); the oracle recomputes each "
        "result by calling the crate's polynomial-level operation on every component separately (and the matrix product as the sum of "
        "pointwise products), so a skipped, repeated or transposed index shows; hint application also on sparse hint vectors (weight <= omega), vectors "
        "with a component without hints and the all-zero vector; the matrix product and the row accumulation also into output buffers that are not "
        "zero on entry. Non-trivial = every case; distinct (fn,copy,input).")
ASSUMPTIONS = ["inputs sampled within the documented coefficient bounds"]
TIMEOUT = {"quick": 400, "thorough": 2400}


def tagged(n, rng, lo, hi, r):
    return [[((i * 1009 + j * 13 + r * 7919) % (hi - lo + 1)) + lo if rng.random() < 0.8 else rng.randint(lo, hi) for j in range(256)] for i in range(n)]


def plant(vec, rng, vals):
    """overwrite a few random positions of every component with the given boundary values (exact 0, +-1, extremes)"""
    for comp in vec:
        for v in vals:
            comp[rng.randrange(256)] = v
    return vec


def gen(tier, rng):
    out = []
    reps = 2 if tier == "quick" else 40
    for lv in LEVELS:
        p = Par(lv)
        K, L = p.K, p.L
        for r in range(reps):
            small = lambda n: tagged(n, rng, -Q + 1, Q - 1, r)
            red = lambda n: tagged(n, rng, -6283009, 6283008, r)
            std = lambda n: tagged(n, rng, 0, Q - 1, r)
            big = lambda n: tagged(n, rng, -(1 << 30), (1 << 30) - 1, r)
            T = ["in_domain"]
            out.append(Case("l_reduce", lv, [flat(big(L))], T)); out.append(Case("k_reduce", lv, [flat(big(K))], T))
            out.append(Case("k_caddq", lv, [flat(small(K))], T))
            out.append(Case("k_caddq", lv, [flat(plant(small(K), rng, [0, 0, 1, -1, Q - 1, -(Q - 1)]))], T + ["boundary-values"]))
            out.append(Case("k_reduce", lv, [flat(plant(big(K), rng, [0, 1, -1, Q, -Q, 4190208, 4190209, -4190208, -4190209]))], T + ["boundary-values"]))
            out.append(Case("l_reduce", lv, [flat(plant(big(L), rng, [0, 1, -1, Q, -Q, 4190208, 4190209, -4190208, -4190209]))], T + ["boundary-values"]))
            out.append(Case("l_add", lv, [flat(big(L)), flat(big(L))], T)); out.append(Case("k_add", lv, [flat(big(K)), flat(big(K))], T))
            out.append(Case("k_sub", lv, [flat(big(K)), flat(big(K))], T))
            out.append(Case("k_shiftl", lv, [flat(tagged(K, rng, 0, 1023, r))], T))
            out.append(Case("l_ntt", lv, [flat(small(L))], T)); out.append(Case("k_ntt", lv, [flat(small(K))], T))
            out.append(Case("l_invntt", lv, [flat(small(L))], T)); out.append(Case("k_invntt", lv, [flat(small(K))], T))
            # forward transform of unreduced vectors (coefficients at and beyond +-q; the transform itself never reduces its input)
            wide = lambda n: plant(tagged(n, rng, -4 * Q, 4 * Q, r), rng, [Q, -Q, Q + 1, 2 * Q, -2 * Q - 1])
            out.append(Case("l_ntt", lv, [flat(wide(L))], T + ["unreduced-input"])); out.append(Case("k_ntt", lv, [flat(wide(K))], T + ["unreduced-input"]))
            a = tagged(1, rng, -9 * Q + 1, 9 * Q - 1, r)[0]
            out.append(Case("l_pointwise_poly", lv, [a, flat(tagged(L, rng, -9 * Q + 1, 9 * Q - 1, r))], T))
            out.append(Case("k_pointwise_poly", lv, [a, flat(tagged(K, rng, -9 * Q + 1, 9 * Q - 1, r))], T))
            mat = [tagged(L, rng, 0, Q - 1, r + i) for i in range(K)]
            v = tagged(L, rng, -9 * Q + 1, 9 * Q - 1, r)
            out.append(Case("matrix_pointwise", lv, [[x for row in mat for pl in row for x in pl], flat(v)], T))
            out.append(Case("l_pointwise_acc", lv, [flat(mat[0]), flat(v)], T))
            # output buffers that are not zero on entry (second product into the same vector, reused scratch)
            out.append(Case("matrix_pointwise_dirty", lv, [[x for row in mat for pl in row for x in pl], flat(v), flat(tagged(K, rng, -Q + 1, Q - 1, r + 3))], T + ["dirty-output"]))
            out.append(Case("l_pointwise_acc_dirty", lv, [flat(mat[0]), flat(v), tagged(1, rng, -Q + 1, Q - 1, r + 5)[0]], T + ["dirty-output"]))
            b = rng.choice([p.g1 - p.beta, p.g2 - p.beta, p.g2])
            vv = tagged(L, rng, -b + 1, b - 1, r); kk = tagged(K, rng, -b + 1, b - 1, r)
            if r % 2:
                vv[rng.randrange(L)][rng.randrange(256)] = b; kk[K - 1][255] = -b
            out.append(Case("l_chknorm", lv, [flat(vv), b], T)); out.append(Case("k_chknorm", lv, [flat(kk), b], T))
            dirty = tagged(K, rng, -9, 9, r)
            out.append(Case("k_power2round", lv, [flat(std(K)), flat(dirty)], T))
            out.append(Case("k_decompose", lv, [flat(std(K)), flat(dirty)], T))
            bvals = [0, 0, 1, Q - 1, p.g2, p.g2 + 1, Q - 1 - p.g2, Q - p.g2, 2 * p.g2, 2 * p.g2 - 1]
            out.append(Case("k_decompose", lv, [flat(plant(std(K), rng, bvals)), flat(dirty)], T + ["boundary-values"]))
            out.append(Case("k_power2round", lv, [flat(plant(std(K), rng, [0, 0, 1, 4095, 4096, 4097, 8191, 8192, Q - 1])), flat(dirty)], T + ["boundary-values"]))
            out.append(Case("k_make_hint", lv, [flat(tagged(K, rng, -2 * p.g2 + 1, 2 * p.g2 - 1, r)), flat(tagged(K, rng, 0, p.m - 1, r))], T))
            # joint boundary values of (low part, high part) at the same index
            v0j = tagged(K, rng, -p.g2 + 2, p.g2 - 2, r); v1j = tagged(K, rng, 0, p.m - 1, r)
            for comp in range(K):
                for (x0, x1) in ((-p.g2, 0), (-p.g2, 1), (-p.g2, p.m - 1), (p.g2, 0), (p.g2, 3), (-p.g2 - 1, 0), (p.g2 + 1, 0), (0, 0)):
                    i = rng.randrange(256); v0j[comp][i] = x0; v1j[comp][i] = x1
            out.append(Case("k_make_hint", lv, [flat(v0j), flat(v1j)], T + ["joint-boundary"]))
            out.append(Case("k_use_hint", lv, [flat(std(K)), flat(tagged(K, rng, 0, 1, r))], T))
            # realistic (sparse) hint vectors, incl. components without any hint and the all-zero vector
            for kind in ("sparse", "empty-component", "all-zero", "single"):
                hv = [[0] * 256 for _ in range(K)]
                if kind == "sparse":
                    for _ in range(p.omega): hv[rng.randrange(K)][rng.randrange(256)] = 1
                elif kind == "empty-component":
                    skip = rng.randrange(K)
                    for _ in range(p.omega):
                        i = rng.randrange(K)
                        if i != skip: hv[i][rng.randrange(256)] = 1
                elif kind == "single":
                    hv[rng.randrange(K)][rng.randrange(256)] = 1
                out.append(Case("k_use_hint", lv, [flat(std(K)), flat(hv)], T + ["hints-" + kind]))
            rbuf = bytes(rng.randrange(256) for _ in range(K * p.polyw1 + 5))
            out.append(Case("k_pack_w1", lv, [rbuf, flat(tagged(K, rng, 0, p.m - 1, r))], T))
            # the signer packs w1 into the (much longer) signature buffer: over-long dirty buffers of several sizes
            for extra_len in (K, 64, 2500, 4627 - K * p.polyw1):
                rb = bytes(rng.randrange(256) for _ in range(K * p.polyw1 + extra_len))
                out.append(Case("k_pack_w1", lv, [rb, flat(tagged(K, rng, 0, p.m - 1, r))], T + ["over-long-buffer"]))
            seed = bytes(rng.randrange(256) for _ in range(64))
            nonce = rng.choice([0, 1, 255, 256, 1000])
            out.append(Case("l_uniform_eta", lv, [seed, nonce], T)); out.append(Case("k_uniform_eta", lv, [seed, nonce], T))
            out.append(Case("l_uniform_gamma1", lv, [seed, nonce], T))
        out.append(Case("matrix_expand", lv, [bytes(rng.randrange(256) for _ in range(32))], ["in_domain"]))
    return out


def nontrivial(c, out):
    return True


def split(v):
    return [v[i:i + 256] for i in range(0, len(v), 256)]


def extra(rep, cov, tier, rng):
    """Lift oracle: vector result == polynomial operation applied per component (all through the crate)."""
    cases = [c for c in gen("quick", rng)]
    calls, plan = [], []
    PO = {"l_reduce": "poly_reduce", "k_reduce": "poly_reduce", "k_caddq": "poly_caddq", "l_add": "poly_add_ip", "k_add": "poly_add_ip",
          "k_sub": "poly_sub_ip", "k_shiftl": "poly_shiftl", "l_ntt": "poly_ntt", "k_ntt": "poly_ntt", "l_invntt": "poly_invntt",
          "k_invntt": "poly_invntt", "k_use_hint": "poly_use_hint"}
    for c in cases:
        args = [[int(x) for x in a[1:].split(",")] if a.startswith("i") and len(a) > 1 else a for a in c.args]
        if c.fn in PO:
            comps = [split(a) for a in args]
            sub = [(PO[c.fn], c.copy if PO[c.fn] == "poly_use_hint" else "-", [cmp[i] for cmp in comps]) for i in range(len(comps[0]))]
        elif c.fn in ("l_pointwise_poly", "k_pointwise_poly"):
            sub = [("poly_pointwise", "-", [args[0], x]) for x in split(args[1])]
        elif c.fn == "k_power2round":
            sub = [("poly_power2round", "-", [x]) for x in split(args[0])]
        elif c.fn == "k_decompose":
            sub = [("poly_decompose", c.copy, [x]) for x in split(args[0])]
        elif c.fn == "k_make_hint":
            sub = [("poly_make_hint", c.copy, [x, y]) for x, y in zip(split(args[0]), split(args[1]))]
        elif c.fn in ("l_uniform_eta", "k_uniform_eta", "l_uniform_gamma1"):
            p = Par(c.copy)
            n = p.K if c.fn == "k_uniform_eta" else p.L
            nonce = int(args[1])
            if c.fn == "l_uniform_gamma1":
                sub = [("uniform_gamma1", c.copy, [c.args[0], p.L * nonce + i]) for i in range(n)]
            else:
                sub = [("uniform_eta", c.copy, [c.args[0], nonce + i]) for i in range(n)]
        elif c.fn == "matrix_expand":
            p = Par(c.copy)
            sub = [("uniform", "-", [c.args[0], 256 * i + j]) for i in range(p.K) for j in range(p.L)]
        else:
            continue
        plan.append((c, len(calls), len(sub)))
        calls.extend(sub)
        calls.append((c.fn, c.copy, c.args))
    res = crate(calls, dev=True)
    n = 0
    for c, start, k in plan:
        parts = res[start:start + k]
        whole = res[start + k]
        n += 1
        if whole is None or any(x is None for x in parts):
            rep.violation("lift oracle: an operation panicked inside its documented bounds", {"cases": [{"fn": c.fn, "copy": c.copy, "args": c.args}]}, True)
            continue
        ok = True
        if c.fn == "k_power2round":
            ok = whole[0] == flat([x[0] for x in parts]) and whole[1] == flat([x[1] for x in parts])
        elif c.fn == "k_decompose":   # poly_decompose returns (low, high); k_decompose must return (high, low)
            ok = whole[0] == flat([x[1] for x in parts]) and whole[1] == flat([x[0] for x in parts])
        elif c.fn == "k_make_hint":
            ok = whole[0] == flat([x[0] for x in parts]) and whole[1] == sum(x[1] for x in parts)
        else:
            ok = whole[0] == flat([x[0] for x in parts])
        if not ok:
            rep.violation("%s/%s is not the component-wise lift of the polynomial operation" % (c.fn, c.copy),
                          {"cases": [{"fn": c.fn, "copy": c.copy, "args": c.args}]}, True)
    cov["lift_oracle_cases"] = n
    cov["evaluations"] = cov.get("evaluations", 0) + n


def oracle(c, outs):
    if c.fn in ("l_add", "k_add", "k_sub"):
        a = [int(x) for x in c.args[0][1:].split(",")]; b = [int(x) for x in c.args[1][1:].split(",")]
        exp = [x + y for x, y in zip(a, b)] if c.fn != "k_sub" else [x - y for x, y in zip(a, b)]
        if outs[0] != exp:
            return "%s is not the coefficient-wise sum/difference" % c.fn
    if c.fn in ("matrix_pointwise", "matrix_pointwise_dirty"):
        p = Par(c.copy)
        m = [int(x) for x in c.args[0][1:].split(",")]; v = [int(x) for x in c.args[1][1:].split(",")]
        R = (1 << 32) % Q
        for i in range(p.K):
            for pos in (0, 100, 255):
                s = sum(m[(i * p.L + j) * 256 + pos] * v[j * 256 + pos] for j in range(p.L))
                if (outs[0][i * 256 + pos] * R - s) % Q:
                    return "matrix_pointwise row %d position %d is not the sum of products" % (i, pos)
    return None
