"""C01 — every signature the library produces verifies (six sets, all modes), with the advertised length."""
from vcore import Case
from dlib import Par, ALL, API_OF, crate, fmt_arg
import pyref
from props.c07 import mprime

RULE = ("grid: seeded and unseeded keys (two or more keys per process) x message lengths {0, 1, 33, 94 and those making tr||M' straddle one and two "
        "SHAKE-256 blocks} x contexts {None, empty, 1, 255 bytes} x {pure, SHA-256, SHA-512} x {deterministic, hedged/randomized with the real RNG}, "
        "through the API containers and through sign::<set>; oracle: the crate verifies what it signed, the length is exact, the independent Python "
        "verifier accepts it too, and the crate accepts the independent Python signer's signature. A subset of sign-then-verify chains is replayed in the "
        "model. Non-trivial = every distinct (set, key, message, ctx, mode).")
ASSUMPTIONS = ["'signing always terminates' is not provable by any technique (rejection sampling on hash output); the model theorems are per fuel, "
               "the check runs the crate under a watchdog and records the largest attempt count seen",
               "keys, messages and contexts sampled on the stated grid"]
TIMEOUT = {"quick": 1500, "thorough": 3400}


def gen(tier, rng):
    """Model-compared chain: keypair -> signature -> verify for a cheap message, one per set."""
    from dlib import keygen
    out = []
    for cp in ALL:
        p = Par(cp)
        seed = bytes(rng.randrange(256) for _ in range(32))
        pk, sk = keygen(cp, seed)
        best = min((bytes(rng.randrange(256) for _ in range(rng.randrange(0, 12))) for _ in range(10)),
                   key=lambda mm: len(pyref.sign(p, sk, mm, want_trace=True)[1]))
        sig = pyref.sign(p, sk, best)
        out.append(Case("signature", cp, [bytes(p.sig), best, sk, 0, b""], ["in_domain", "chain-sign"]))
        out.append(Case("verify", cp, [sig, best, pk], ["in_domain", "chain-verify"], aux=1))
        # the same verification through the Keypair wrapper (model and crate)
        if p.mldsa:
            from props.c07 import mprime as _mp
            s2 = pyref.sign(p, sk, _mp("pure", b"kp", best))
            out.append(Case("kp_ml_verify", API_OF[cp], [sk + pk, best, s2, b"kp", 0], ["in_domain", "chain-verify", "keypair-wrapper"], aux=1))
        else:
            out.append(Case("kp_api_verify", API_OF[cp], [sk + pk, best, sig], ["in_domain", "chain-verify", "keypair-wrapper"], aux=1))
    # committed rare shapes of genuine signatures (tools/mk_corpus.py): a hint-free polynomial, exactly omega hints. The crate signed
    # them; it must also verify them
    import json, os
    cdir = os.path.join(os.path.dirname(os.path.dirname(os.path.dirname(os.path.abspath(__file__)))), "corpus")
    for name, tag in (("c03_empty_hint_row.json", "hint-free-polynomial"), ("c03_exact_omega.json", "exactly-omega-hints")):
        fp = os.path.join(cdir, name)
        for e in (json.load(open(fp)) if os.path.exists(fp) else []):
            out.append(Case("verify", e["set"], [bytes.fromhex(e["sig"]), bytes.fromhex(e["msg"]), bytes.fromhex(e["pk"])],
                            ["in_domain", "chain-verify", tag, "corpus", "crate-only"], aux=1))
    return out


def nontrivial(c, out):
    return True


def oracle(c, outs):
    if c.fn in ("verify", "kp_ml_verify", "kp_api_verify") and outs[0] != c.aux:
        return "verification of a genuine signature returned %d" % outs[0]
    if c.fn == "signature" and len(outs[0]) != Par(c.copy).sig:
        return "signature length %d" % len(outs[0])
    return None


def volume(rep, cov, tier, rng):
    """Volume probe inside the harness: many messages signed into ONE reused, never-cleared buffer (the slice API allows it)
    and verified, a fresh key every 500 messages; deterministic and randomized. Finds rare-branch failures (hint boundary,
    high-bits wrap, more than omega hints, stale buffers) that a handful of signatures cannot."""
    from concurrent.futures import ThreadPoolExecutor
    per = 16000 if tier == "quick" else 400000
    shards = 4 if tier == "quick" else 8
    calls = []
    for cp in ALL:
        for sh in range(shards):
            calls.append(("selfcheck", cp, [rng.randrange(1 << 60), per // shards, 500, 0]))
        calls.append(("selfcheck", cp, [rng.randrange(1 << 60), per // 8, 500, 1]))
    with ThreadPoolExecutor(max_workers=16) as ex:
        res = list(ex.map(lambda c: crate([c])[0], calls))
    total = 0
    for cl, r in zip(calls, res):
        total += cl[2][1]
        if r is None:
            rep.violation("signing or verification panicked / did not return during the volume probe (%s)" % cl[1],
                          {"cases": [{"fn": "selfcheck", "copy": cl[1], "args": [str(a) for a in cl[2]]}]}, True)
        elif r[0] != 0:
            rep.violation("the library rejects its own signature: %d of %d messages (%s, %s); first: key seed %s message %s (signed into a reused buffer)"
                          % (r[0], cl[2][1], cl[1], "randomized" if cl[2][3] else "deterministic", r[2].hex(), r[3].hex()),
                          {"cases": [{"fn": "selfcheck", "copy": cl[1], "args": [str(a) for a in cl[2]]}],
                           "first_failure": {"key_seed": r[2].hex(), "message": r[3].hex(), "index": r[1]}}, True)
    cov["volume_sign_verify"] = total
    cov["evaluations"] = cov.get("evaluations", 0) + total
    cov["distinct_nontrivial"] = cov.get("distinct_nontrivial", 0) + total


def overlong(rep, cov, tier, rng):
    """sign::<set>::signature into caller buffers LONGER than SIGNBYTES (the slice API asks for 'at least'): the first SIGNBYTES bytes
    must be a signature that verifies, the rest must be untouched"""
    n = 0
    for cp in ALL:
        p = Par(cp)
        r = crate([("keypair", cp, [bytes(rng.randrange(256) for _ in range(32))])])[0]
        pk, sk = r[0], r[1]
        for extra_len in (1, 8192 - p.sig):
            for rand in (0, 1):
                msg = bytes(rng.randrange(256) for _ in range(rng.choice([0, 33, 200])))
                buf = bytes(rng.randrange(256) for _ in range(p.sig + extra_len))
                tape = bytes(rng.randrange(256) for _ in range(64))
                for dev in (True, False):
                    s = crate([("signature", cp, [buf, msg, sk, rand, tape])], dev=dev)[0]
                    n += 1
                    ok = s is not None and len(s[0]) == len(buf) and s[0][p.sig:] == buf[p.sig:]
                    v = crate([("verify", cp, [s[0][:p.sig], msg, pk])], dev=dev)[0] if ok else None
                    if not ok or v is None or v[0] != 1:
                        rep.violation("signature/%s into a caller buffer of SIGNBYTES+%d bytes: %s" %
                                      (cp, extra_len, "the first SIGNBYTES bytes do not verify" if ok else "panicked or wrote beyond SIGNBYTES"),
                                      {"cases": [{"fn": "signature", "copy": cp, "args": [fmt_arg(buf), fmt_arg(msg), fmt_arg(sk), str(rand), fmt_arg(tape)]}]}, True)
    cov["over_long_buffer_round_trips"] = n
    cov["evaluations"] = cov.get("evaluations", 0) + n


def extra(rep, cov, tier, rng):
    volume(rep, cov, tier, rng)
    overlong(rep, cov, tier, rng)
    n = 0
    hist = {}
    samples = []
    for cp in ALL:
        p = Par(cp)
        api = API_OF[cp]
        keys = []
        for s in (bytes(32), bytes(rng.randrange(256) for _ in range(32))):
            r = crate([("kp_generate", api, [s])], dev=True)[0]
            keys.append((r[0], r[1], "seeded"))
        r = crate([("keypair_live", cp, [])], dev=True)[0]
        keys.append((r[1], r[0], "unseeded"))
        lens = sorted(set([0, 1, 33, 94] + [r - p.tr - pre + d for r in (136, 272) for pre in (0, 2, 2 + 255, 2 + 11) for d in (-1, 0, 1) if r - p.tr - pre + d >= 0]))
        if tier == "quick":
            lens = lens[:4] + rng.sample(lens[4:], 6)
        # long messages around sizes at which an implementation might switch buffers (powers of two), combined below with every
        # context length: message + framing just below / at / above the size
        big = [1024, 2048, 4096, 8192, 65536]
        lens += [b - d for b in (big if tier == "thorough" else rng.sample(big, 2) + [2048]) for d in (0, 1, 8, 200, 257)] + [2049, 100000]
        calls, meta = [], []
        for sk, pk, ktag in keys:
            for ln in lens:
                msg = bytes(rng.randrange(256) for _ in range(ln))
                if p.mldsa:
                    mode = rng.choice(["pure", "pure", "sha256", "sha512"])
                    ctx = rng.choice([None, b"", b"\x01", bytes(rng.randrange(256) for _ in range(16)), bytes(rng.randrange(256) for _ in range(255))])
                    if ln >= 1000:
                        ctx = rng.choice([b"\x01", bytes(rng.randrange(256) for _ in range(16)), bytes(rng.randrange(256) for _ in range(255))])
                    hedged = rng.randrange(2)
                    c = ctx if ctx is not None else 0
                    if mode == "pure":
                        calls.append(("ml_sign", api, [sk, msg, c, hedged, b""]))
                    else:
                        calls.append(("ml_prehash_sign", api, [sk, msg, c, hedged, 0 if mode == "sha256" else 1, b""]))
                    meta.append((sk, pk, msg, mode, ctx, hedged, ktag))
                else:
                    rand = rng.randrange(2)
                    calls.append(("signature_live", cp, [msg, sk, rand]))
                    meta.append((sk, pk, msg, "dil", None, rand, ktag))
        # hedged API signing needs the live RNG: the API fn takes a scripted tape, so give it fresh bytes from python's rng
        calls2 = []
        for cl in calls:
            if cl[0] in ("ml_sign", "ml_prehash_sign"):
                a = list(cl[2]); a[-1] = bytes(rng.randrange(256) for _ in range(32)); calls2.append((cl[0], cl[1], a))
            else:
                calls2.append(cl)
        sigs = crate(calls2, dev=True)
        vcalls, pysigs = [], []
        for (sk, pk, msg, mode, ctx, hd, ktag), s in zip(meta, sigs):
            if s is None:
                rep.violation("signing panicked", {"cases": [{"fn": "sign", "copy": cp, "args": [fmt_arg(msg)]}]}, True); continue
            sig = s[1] if p.mldsa else s[0]
            if p.mldsa:
                c = ctx if ctx is not None else 0
                vcalls.append(("ml_verify", api, [pk, msg, sig, c]) if mode == "pure" else ("ml_prehash_verify", api, [pk, msg, sig, c, 0 if mode == "sha256" else 1]))
                mp = mprime(mode, ctx, msg)
            else:
                vcalls.append(("api_verify", api, [pk, msg, sig]))
                mp = msg
            # cross: independent verifier on the crate's signature; crate on the independent signer's signature
            if len(sig) != p.sig or not pyref.verify(p, pk, mp, sig):
                rep.violation("crate signature (set %s, mode %s, ctx %s, hedged %d, %s key, msg len %d) has wrong length or is rejected by the specification's verifier"
                              % (cp, mode, "None" if ctx is None else len(ctx), hd, ktag, len(msg)),
                              {"cases": [{"fn": calls2[len(vcalls) - 1][0], "copy": api, "args": [fmt_arg(a) for a in calls2[len(vcalls) - 1][2]]}]}, True)
            pysigs.append(("verify", cp, [pyref.sign(p, sk, mp), mp, pk]))
            hist[(mode, ktag)] = hist.get((mode, ktag), 0) + 1
        res = crate(vcalls, dev=True)
        res2 = crate(pysigs[:: (4 if tier == "quick" else 1)], dev=True)
        for vc, r in zip(vcalls, res):
            n += 1
            if r is None or r[0] != 1:
                rep.violation("the library does not verify its own signature (%s/%s)" % (vc[0], api),
                              {"cases": [{"fn": vc[0], "copy": vc[1], "args": [fmt_arg(a) for a in vc[2]]}]}, True)
        for r in res2:
            n += 1
            if r is None or r[0] != 1:
                rep.violation("the library rejects a signature made by an independent conforming signer (%s)" % cp, {"cases": []}, True)
        samples.append({"set": cp, "keys": len(keys), "message_lengths": lens[:8]})
    # the same through the Keypair wrappers (Keypair::{sign, verify, prehash_sign, prehash_verify}), crate and model
    kcalls, kexp = [], []
    for cp in ALL:
        p = Par(cp); api = API_OF[cp]
        r = crate([("kp_generate", api, [bytes(rng.randrange(256) for _ in range(32))])], dev=True)[0]
        sk, pk, kp = r
        for ln in (0, 33, 120):
            msg = bytes(rng.randrange(256) for _ in range(ln))
            if p.mldsa:
                for mode, ctx in ((0, None), (0, b"kp-ctx"), (1, b"kp-ctx"), (2, None)):
                    c = ctx if ctx is not None else 0
                    sg = crate([("kp_ml_sign", api, [kp, msg, c, mode])], dev=True)[0]
                    kcalls.append(("kp_ml_verify", api, [kp, msg, sg[1], c, mode])); kexp.append(1)
                    other = b"kp-ctX" if ctx else b"x"
                    kcalls.append(("kp_ml_verify", api, [kp, msg, sg[1], other, mode])); kexp.append(0)
                    kcalls.append(("kp_ml_verify", api, [kp, msg, sg[1], c, (mode + 1) % 3])); kexp.append(0)
                    mp = mprime({0: "pure", 1: "sha256", 2: "sha512"}[mode], ctx, msg)
                    if sg[0] != 1 or sg[1] != pyref.sign(p, sk, mp):
                        rep.violation("Keypair::sign/prehash_sign (%s, mode %d, ctx %r) is not the specification's signature over M'" % (api, mode, ctx),
                                      {"cases": [{"fn": "kp_ml_sign", "copy": api, "args": [fmt_arg(kp), fmt_arg(msg), fmt_arg(c), str(mode)]}]}, True)
            else:
                sg = crate([("kp_api_sign", api, [kp, msg])], dev=True)[0]
                kcalls.append(("kp_api_verify", api, [kp, msg, sg[0]])); kexp.append(1)
                kcalls.append(("kp_api_verify", api, [kp, msg + b"!", sg[0]])); kexp.append(0)
                if sg[0] != pyref.sign(p, sk, msg):
                    rep.violation("Keypair::sign (%s) is not the specification's signature" % api,
                                  {"cases": [{"fn": "kp_api_sign", "copy": api, "args": [fmt_arg(kp), fmt_arg(msg)]}]}, True)
    for cl, e, r in zip(kcalls, kexp, crate(kcalls, dev=True)):
        n += 1
        if r is None or r[0] != e:
            rep.violation("Keypair wrapper %s/%s returned %s, expected %d" % (cl[0], cl[1], None if r is None else r[0], e),
                          {"cases": [{"fn": cl[0], "copy": cl[1], "args": [fmt_arg(a) for a in cl[2]]}]}, True)
    cov["keypair_wrapper_calls"] = len(kcalls)
    cov["sign_verify_roundtrips"] = n
    cov["mode_key_histogram"] = {"%s/%s" % k: v for k, v in hist.items()}
    cov["evaluations"] = cov.get("evaluations", 0) + n
    cov["distinct_nontrivial"] = cov.get("distinct_nontrivial", 0) + n
    cov["samples"].extend(samples)
