"""C10 — operations are pure: results independent of call history and thread schedule."""
from vcore import Case
from dlib import Par, ALL, keygen, sign, crate
import pyref

RULE = ("histories mixing all six sets and all operations (seeded keygen, deterministic signing, verification incl. rejected and sibling-scheme inputs, "
        "several keys per process) evaluated in isolation and then shuffled on 1..16 barrier-started threads; every interleaved result must equal the "
        "isolated one (harness probe `purity`); dirty output buffers for the slice-taking functions (signature into a 0xA5-filled / random buffer, "
        "packing into dirty buffers) must not change results; a sample of the operations is also compared with the model (stateless by construction). "
        "Advisory source scan for static mut / unsafe / thread_local outside the hook module. Non-trivial = every interleaved evaluation.")
ASSUMPTIONS = ["data races and scheduler effects cannot be exhibited by a Gallina model: proved is that the modelled code has no state to race on, observed is that "
               "the real code behaves like it under the interleavings tried"]
TIMEOUT = {"quick": 1500, "thorough": 3400}


def gen(tier, rng):
    out = []
    for cp in ALL:
        p = Par(cp)
        pk, sk = keygen(cp, bytes(rng.randrange(256) for _ in range(32)))
        best = min((bytes(rng.randrange(256) for _ in range(8)) for _ in range(12)), key=lambda mm: len(pyref.sign(p, sk, mm, want_trace=True)[1]))
        exp = pyref.sign(p, sk, best)
        # same call with three different incoming buffers: all must give the same signature (model and crate)
        out.append(Case("signature", cp, [bytes(p.sig), best, sk, 0, b""], ["in_domain", "buffer-zero"], aux=exp))
        out.append(Case("signature", cp, [bytes([0xA5] * p.sig), best, sk, 0, b""], ["in_domain", "buffer-dirty", "crate-only"], aux=exp))
        out.append(Case("signature", cp, [bytes(rng.randrange(256) for _ in range(p.sig + 9)), best, sk, 0, b""], ["in_domain", "buffer-dirty-longer", "crate-only"], aux=exp))
    return out


def nontrivial(c, out):
    return True


def oracle(c, outs):
    p = Par(c.copy)
    if outs[0][:p.sig] != c.aux:
        return "signature depends on the incoming contents of the output buffer (%s)" % c.copy
    return None


def extra(rep, cov, tier, rng):
    import subprocess
    calls = []
    plan = [(1, 2), (2, 2), (4, 2), (8, 2), (16, 2)] if tier == "quick" else [(t, 6) for t in (1, 2, 3, 4, 6, 8, 12, 16)]
    for threads, rounds in plan:
        calls.append(("purity", "-", [rng.randrange(1 << 60), 4 if tier == "quick" else 10, threads, rounds]))
    res = crate(calls)
    ops = evals = 0
    for cl, r in zip(calls, res):
        if r is None:
            rep.violation("purity probe panicked", {"cases": [{"fn": "purity", "copy": "-", "args": [str(a) for a in cl[2]]}]}, True); continue
        ops += r[0]; evals += r[1]
        if r[2] != 0:
            rep.violation("%d results changed under interleaving on %d threads (first: operation %d of the history)" % (r[2], cl[2][2], r[3]),
                          {"cases": [{"fn": "purity", "copy": "-", "args": [str(a) for a in cl[2]]}]}, True)
    # the same probe in the checked build, single history
    r = crate([("purity", "-", [rng.randrange(1 << 60), 3, 4, 1])], dev=True)[0]
    if r is None or r[2] != 0:
        rep.violation("purity probe fails in the checked build", {"cases": []}, True)
    sc = subprocess.run("grep -rnE 'static mut|unsafe|thread_local!|lazy_static|OnceCell|Mutex|RefCell|AtomicU' /repo/src --include=*.rs | grep -v 'src/verif_hooks.rs' | wc -l",
                        shell=True, stdout=subprocess.PIPE).stdout.decode().strip()
    cov["advisory_shared_state_sites_outside_hooks"] = sc
    cov["history_operations"] = ops
    cov["interleaved_evaluations"] = evals
    cov["thread_counts"] = [p[0] for p in plan]
    cov["evaluations"] = cov.get("evaluations", 0) + evals
    cov["distinct_nontrivial"] = cov.get("distinct_nontrivial", 0) + ops
