"""C10 — operations are pure: results independent of call history and thread schedule."""
from vcore import Case
from dlib import Par, ALL, API_OF, keygen, sign, crate, fmt_arg
import pyref

RULE = ("histories mixing all six sets and all operations (seeded keygen, deterministic signing, verification incl. rejected and sibling-scheme inputs, "
        "several keys per process) evaluated in isolation and then shuffled on 1..16 barrier-started threads; every interleaved result must equal the "
        "isolated one (harness probe `purity`); dirty output buffers for the slice-taking functions (signature into a 0xA5-filled / random buffer, "
        "packing into dirty buffers) must not change results; a sample of the operations is also compared with the model (stateless by construction). "
        "Key OBJECTS reused after their public byte fields were overwritten in place must behave like fresh ones; a schedule probe with 64..256 KiB "
        "messages (long hashing widens check-then-use windows) on 2..16 threads alternating between two keys. "
        "Advisory source scan for static mut / unsafe / thread_local outside the hook module. Non-trivial = every interleaved evaluation.")
ASSUMPTIONS = ["data races and scheduler effects cannot be exhibited by a Gallina model: proved is that the modelled code has no state to race on, observed is that "
               "the real code behaves like it under the interleavings tried"]
TIMEOUT = {"quick": 1500, "thorough": 3400}


def gen(tier, rng):
    out = []
    for cp in ALL:
        p = Par(cp)
        pk, sk = keygen(cp, bytes(rng.randrange(256) for _ in range(32)))
        best = min((bytes(rng.randrange(256) for _ in range(8)) for _ in range(12)), key=lambda mm: len(pyref.sign(p, sk, mm, want_trace=True)[1]))
        exp = pyref.sign(p, sk, best)
        # same call with three different incoming buffers: all must give the same signature (model and crate)
        out.append(Case("signature", cp, [bytes(p.sig), best, sk, 0, b""], ["in_domain", "buffer-zero"], aux=exp))
        out.append(Case("signature", cp, [bytes([0xA5] * p.sig), best, sk, 0, b""], ["in_domain", "buffer-dirty", "crate-only"], aux=exp))
        out.append(Case("signature", cp, [bytes(rng.randrange(256) for _ in range(p.sig + 9)), best, sk, 0, b""], ["in_domain", "buffer-dirty-longer", "crate-only"], aux=exp))
    return out


def nontrivial(c, out):
    return True


def oracle(c, outs):
    p = Par(c.copy)
    if outs[0][:p.sig] != c.aux:
        return "signature depends on the incoming contents of the output buffer (%s)" % c.copy
    return None


def fnv(data):
    h = 0xcbf29ce484222325
    for x in data:
        h ^= x
        h = (h * 0x100000001b3) & 0xFFFFFFFFFFFFFFFF
    return h


def history_probe(rep, cov, tier, rng):
    """Histories with EXPECTED results from the independent Python reference (so the baseline has no process or thread history
    at all): low-level and API-level operations of all six sets, several keys per set, look-alike secret keys (same tr, one rho
    bit flipped — a cache keyed on the wrong field would confuse them), API calls alternating contexts / absent context / pure /
    pre-hash on the same thread (stale scratch would show), interleaved with NOISE operations that have no expectation — hedged /
    randomized signing and unseeded key generation with the real RNG, and malformed calls (key one byte short) that panic inside the
    library under catch_unwind, so that counters, poisoned locks or half-written scratch would show in the others —, run in order on one thread twice and shuffled on 1..16 threads."""
    from props.c07 import mprime
    SETID = {n: i for i, n in enumerate(ALL)}
    ops = []
    def add(kind, cp, bs, expect_bytes, ctx=None, mode=0):
        ops.append((kind, SETID[cp], mode, ctx, fnv(expect_bytes).to_bytes(8, "little"), bs))
    def noise(kind, cp, bs, ctx=None, mode=0):
        """operations without an expectation: randomized/hedged signing and unseeded generation with the real RNG, and malformed
        calls that panic inside the library (run under catch_unwind) — they only leave history behind for the others"""
        ops.append((kind, SETID[cp], mode, ctx, b"\xff" * 8, bs))
    for cp in ALL:
        p = Par(cp)
        for kidx in range(2):
            seed = bytes(rng.randrange(256) for _ in range(32))
            pk, sk = pyref.keygen(p, seed)
            add(0, cp, [seed], pk + sk)
            # look-alike secret key: same tr/key/s/t0, rho with one bit flipped
            sk2 = bytes([sk[0] ^ (1 << rng.randrange(8))]) + sk[1:]
            for m in (b"", bytes(rng.randrange(256) for _ in range(40))):
                for skk in (sk, sk2, sk):
                    sig = pyref.sign(p, skk, m, max_attempts=400)
                    if sig is None: continue
                    add(1, cp, [skk, m], sig)
                    if skk is sk:
                        add(2, cp, [sig, m, pk], b"\x01")
                        bad = bytearray(sig); bad[rng.randrange(len(bad))] ^= 1 << rng.randrange(8)
                        add(2, cp, [bytes(bad), m, pk], bytes([1 if pyref.verify(p, pk, m, bytes(bad)) else 0]))
            if kidx == 0:
                m0 = bytes(rng.randrange(256) for _ in range(12))
                noise(5, cp, [sk, m0]); noise(6, cp, []); noise(7, cp, [bytes(p.sig), m0, pk]); noise(8, cp, [sk, m0])
                noise(10, cp, [sk, m0])     # right-length secret key with corrupted content (out-of-range codes)
                if p.mldsa:
                    noise(9, cp, [sk, m0], None, 0); noise(9, cp, [sk, m0], b"h", 1)
            # API level, alternating descriptors on the same thread
            m = bytes(rng.randrange(256) for _ in range(20))
            if p.mldsa:
                descs = [("pure", b"context"), ("pure", None), ("sha256", b"c2"), ("pure", None), ("sha512", None), ("pure", b""), ("sha256", None), ("pure", None)]
                for mode, ctx in descs:
                    mp = mprime(mode, ctx, m)
                    sig = pyref.sign(p, sk, mp, max_attempts=400)
                    if sig is None: continue
                    mi = {"pure": 0, "sha256": 1, "sha512": 2}[mode]
                    add(3, cp, [sk, m], sig, ctx, mi)
                    add(4, cp, [pk, m, sig], b"\x01", ctx, mi)
            else:
                sig = pyref.sign(p, sk, m)
                add(3, cp, [sk, m], sig)
                add(4, cp, [pk, m, sig], b"\x01")
    plan = [(1, 1), (4, 1), (16, 1)] if tier == "quick" else [(t, 4) for t in (1, 2, 3, 4, 8, 16)]
    total = 0
    for threads, rounds in plan:
        order = list(ops)
        rng.shuffle(order)
        # make sure every kind of noise operation also occurs EARLY in the history (before most expectations are checked)
        early = [o for o in order if o[4] == b"\xff" * 8]
        order = early[: len(early) // 2] + [o for o in order if o not in early[: len(early) // 2]]
        args = [threads, rounds, rng.randrange(1 << 60)]
        for kind, sid, mode, ctx, exp, bs in order:
            args += [kind, sid, mode, ctx if ctx is not None else 0, exp, len(bs)] + list(bs)
        for dev in (False, True) if threads == plan[0][0] else (False,):
            r = crate([("history", "-", args)], dev=dev)[0]
            case = {"fn": "history", "copy": "-", "args": [fmt if isinstance(fmt, str) else str(fmt) for fmt in ["threads=%d" % threads, "ops=%d" % len(order)]]}
            if r is None:
                rep.violation("history probe panicked (%d threads)" % threads, {"cases": [case]}, True); continue
            total += 2 * r[0] + r[3]
            if r[1] or r[4]:
                k = r[2] % len(order) if r[2] >= 0 else r[5]
                o = order[k]
                what = {0: "seeded key generation", 1: "deterministic signing (core)", 2: "verification (core)", 3: "API signing", 4: "API verification"}.get(o[0], "noise")
                rep.violation("result depends on call history / other threads: %d in-order and %d interleaved results differ from the history-free expectation; "
                              "first: %s, set %s, mode %d, ctx %s (operation %d of the history, %d threads)" %
                              (r[1], r[4], what, ALL[o[1]], o[2], "None" if o[3] is None else o[3].hex()[:16], k, threads),
                              {"cases": [case], "first_operation": {"kind": what, "set": ALL[o[1]], "args": [b.hex() for b in o[5]],
                                                                   "ctx": None if o[3] is None else o[3].hex(), "mode": o[2]}}, True)
    cov["history_ops_with_independent_expectation"] = len([o for o in ops if o[4] != b"\xff" * 8])
    cov["history_noise_ops(randomized, unseeded, panicking malformed calls)"] = len([o for o in ops if o[4] == b"\xff" * 8])
    cov["evaluations"] = cov.get("evaluations", 0) + total
    cov["distinct_nontrivial"] = cov.get("distinct_nontrivial", 0) + len(ops)


def object_and_race_probes(rep, cov, tier, rng):
    """(a) one Keypair / PublicKey OBJECT used under key A, overwritten in place with key B (the byte fields are public) and
    used again: results must be those of a fresh object holding B (state memoised inside the object would show);
    (b) schedule probe with LONG messages (hashing a long message widens any check-then-use window on shared state): threads
    hammering two keys alternately, every genuine signature must verify."""
    n = 0
    for cp in ALL:
        p = Par(cp); api = API_OF[cp]
        (pkA, skA), (pkB, skB) = (pyref.keygen(p, bytes(rng.randrange(256) for _ in range(32))) for _ in range(2))
        m = bytes(rng.randrange(256) for _ in range(30))
        mp = m if not p.mldsa else bytes([0, 0]) + m
        sA, sB = pyref.sign(p, skA, mp), pyref.sign(p, skB, mp)
        for dev in (True, False):
            r = crate([("obj_reuse", api, [skA, pkA, skB, pkB, m, sA, sB])], dev=dev)[0]
            n += 1
            if r is None or r != [1, 1, 1]:
                rep.violation("a key object reused after its bytes were overwritten in place behaves differently from a fresh object (%s): "
                              "[verify under first key, verify under second key, signature equals fresh object's] = %s" % (api, r),
                              {"cases": [{"fn": "obj_reuse", "copy": api, "args": [fmt_arg(x) for x in (skA, pkA, skB, pkB, m, sA, sB)]}]}, True)
        # deterministic signing under load: every thread's signature of every message equals the single-threaded reference
        for threads, iters in ([(16, 48)] if tier == "quick" else [(2, 400), (16, 200), (32, 100)]):
            sd = bytes(rng.randrange(256) for _ in range(32))
            r = crate([("sign_race", cp, [threads, iters, sd])])[0]
            n += threads * iters
            if r is None or r[1] != 0:
                rep.violation("deterministic signing is schedule-dependent (%s): %s of %s signatures made on %d concurrent threads differ from the single-threaded "
                              "signature of the same key and message (first: message %s as 4-byte LE, key seed %s)"
                              % (cp, "?" if r is None else r[1], "?" if r is None else r[0], threads, "?" if r is None else r[2], sd.hex()),
                              {"cases": [{"fn": "sign_race", "copy": cp, "args": [str(threads), str(iters), "x" + sd.hex()]}]}, True)
        # long messages widen a check-then-use window that spans the message hash; SHORT messages in high volume are needed for
        # a window of a few instructions (e.g. a shared cache looked up under one lock and copied out under a second one)
        plan = ([(4, 24, 1 << 17), (16, 6000, 8)] if tier == "quick"
                else [(2, 150, 1 << 18), (8, 60, 1 << 18), (16, 40, 1 << 16), (16, 40000, 8), (8, 40000, 8), (3, 60000, 8)])
        for threads, iters, mlen in plan:
            r = crate([("verify_race", cp, [threads, iters, mlen])])[0]
            n += threads * iters
            if r is None or r[1] != 0:
                rep.violation("verification of genuine signatures fails under concurrency (%s): %s of %s verifications on %d threads with %d-byte messages "
                              "returned false" % (cp, "?" if r is None else r[1], "?" if r is None else r[0], threads, mlen),
                              {"cases": [{"fn": "verify_race", "copy": cp, "args": [str(threads), str(iters), str(mlen)]}]}, True)
    cov["object_reuse_and_race_probe_evaluations"] = n
    cov["evaluations"] = cov.get("evaluations", 0) + n


def extra(rep, cov, tier, rng):
    import subprocess
    history_probe(rep, cov, tier, rng)
    object_and_race_probes(rep, cov, tier, rng)
    calls = []
    plan = [(1, 2), (2, 2), (4, 2), (8, 2), (16, 2)] if tier == "quick" else [(t, 6) for t in (1, 2, 3, 4, 6, 8, 12, 16)]
    for threads, rounds in plan:
        calls.append(("purity", "-", [rng.randrange(1 << 60), 4 if tier == "quick" else 10, threads, rounds]))
    res = crate(calls)
    ops = evals = 0
    for cl, r in zip(calls, res):
        if r is None:
            rep.violation("purity probe panicked", {"cases": [{"fn": "purity", "copy": "-", "args": [str(a) for a in cl[2]]}]}, True); continue
        ops += r[0]; evals += r[1]
        if r[2] != 0:
            rep.violation("%d results changed under interleaving on %d threads (first: operation %d of the history)" % (r[2], cl[2][2], r[3]),
                          {"cases": [{"fn": "purity", "copy": "-", "args": [str(a) for a in cl[2]]}]}, True)
    # the same probe in the checked build, single history
    r = crate([("purity", "-", [rng.randrange(1 << 60), 3, 4, 1])], dev=True)[0]
    if r is None or r[2] != 0:
        rep.violation("purity probe fails in the checked build", {"cases": []}, True)
    sc = subprocess.run("grep -rnE 'static mut|unsafe|thread_local!|lazy_static|OnceCell|Mutex|RefCell|AtomicU' /repo/src --include=*.rs | grep -v 'src/verif_hooks.rs' | wc -l",
                        shell=True, stdout=subprocess.PIPE).stdout.decode().strip()
    cov["advisory_shared_state_sites_outside_hooks"] = sc
    cov["history_operations"] = ops
    cov["interleaved_evaluations"] = evals
    cov["thread_counts"] = [p[0] for p in plan]
    cov["evaluations"] = cov.get("evaluations", 0) + evals
    cov["distinct_nontrivial"] = cov.get("distinct_nontrivial", 0) + ops
