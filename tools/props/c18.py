"""C18 — infinity-norm check: poly::chknorm and l_chknorm / k_chknorm of the three vector copies."""
from vcore import Case
from dlib import Q, Par, LEVELS, ALL, flat

RULE = ("zero polynomial/vector with a single coefficient set to +-(b-1), +-b, +-(b+1), +-6283009 at enumerated positions "
        "(quick: 24 positions per polynomial incl. 0 and 255, every polynomial of the vector; thorough: every one of the 256 positions for poly::chknorm, every 8th position and 255 of every polynomial for the vector functions) for every "
        "bound used by the six parameter sets and the boundary bounds 0, 1, (q-1)/8, (q-1)/8+1, 2^31-1; plus random reduced vectors. "
        "Non-trivial = single-coefficient boundary case; distinct (fn,copy,input).")
ASSUMPTIONS = ["positions are enumerated (all 256 for chknorm, a stride for the vector copies in the thorough tier); coefficient values at the decision boundaries"]
TIMEOUT = {"quick": 300, "thorough": 2400}
RMAX = 6283009
QM8 = (Q - 1) // 8


def bounds():
    bs = set([0, 1, 2, QM8 - 1, QM8, QM8 + 1, (1 << 31) - 1, -1, -5])
    for s in ALL:
        p = Par(s)
        bs.update([p.g1 - p.beta, p.g2 - p.beta, p.g2])
    return sorted(bs)


def gen(tier, rng):
    out = []
    pos = list(range(256)) if tier == "thorough" else sorted(set([0, 1, 2, 127, 128, 253, 254, 255] + [rng.randrange(256) for _ in range(16)]))
    for b in bounds():
        vals = sorted(set(v for v in (b - 1, b, b + 1, RMAX, 0, 1) if 0 <= v <= RMAX))
        for i in pos:
            for v in vals:
                for s in (1, -1):
                    if v == 0 and s == -1:
                        continue
                    a = [0] * 256
                    a[i] = s * v
                    out.append(Case("chknorm", "-", [a, b], ["in_domain", "single"]))
        for lv in LEVELS:
            p = Par(lv)
            for fn, n in (("l_chknorm", p.L), ("k_chknorm", p.K)):
                for j in range(n):
                    for i in (pos[::8] + [255] if tier == "thorough" else [0, 255, pos[len(pos) // 2]]):
                        for v in (b - 1, b):
                            if not 0 <= v <= RMAX:
                                continue
                            vec = [0] * (256 * n)
                            vec[j * 256 + i] = -v if (i + j) % 2 else v
                            out.append(Case(fn, lv, [vec, b], ["in_domain", "single"]))
    # saturated inputs: EVERY coefficient at or beyond the bound (a counter of violations, a vectorised OR, an early exit could all
    # behave differently from a single violation), both signs and mixed, also through the vector wrappers
    for b in bounds():
        if not 1 <= b <= QM8:
            continue
        for fill in ("+b", "-b", "mixed-b", "rmax", "mixed-rmax", "b+1"):
            def val(i, fill=fill, b=b):
                v = {"+b": b, "-b": -b, "mixed-b": b if i % 2 else -b, "rmax": RMAX, "mixed-rmax": RMAX if i % 3 else -RMAX, "b+1": min(b + 1, RMAX)}[fill]
                return v
            out.append(Case("chknorm", "-", [[val(i) for i in range(256)], b], ["in_domain", "saturated"]))
        out.append(Case("chknorm", "-", [[(b if i != 77 else b - 1) for i in range(256)], b], ["in_domain", "saturated"]))
        for lv in LEVELS:
            p = Par(lv)
            if b in (p.g1 - p.beta, p.g2 - p.beta, p.g2, 1, QM8):
                out.append(Case("l_chknorm", lv, [[b if i % 2 else -b for i in range(256 * p.L)], b], ["in_domain", "saturated"]))
                out.append(Case("k_chknorm", lv, [[-b] * (256 * p.K), b], ["in_domain", "saturated"]))
                one = [0] * (256 * p.K); one[256 * (p.K - 1):] = [b] * 256
                out.append(Case("k_chknorm", lv, [one, b], ["in_domain", "saturated"]))
    for _ in range(60 if tier == "quick" else 3000):
        b = rng.choice(bounds())
        a = [rng.randint(-RMAX, RMAX) if rng.random() < 0.1 else rng.randint(-max(1, abs(b)), max(1, abs(b))) for _ in range(256)]
        out.append(Case("chknorm", "-", [a, b], ["in_domain"]))
    for lv in LEVELS:
        p = Par(lv)
        for _ in range(10 if tier == "quick" else 300):
            b = rng.choice(bounds())
            for fn, n in (("l_chknorm", p.L), ("k_chknorm", p.K)):
                vec = [rng.randint(-abs(b) - 2, abs(b) + 2) if rng.random() < 0.002 else rng.randint(-abs(b) // 2, abs(b) // 2) for _ in range(256 * n)]
                out.append(Case(fn, lv, [vec, b], ["in_domain"]))
    return out


def nontrivial(c, out):
    return "single" in c.tags or "saturated" in c.tags


def oracle(c, outs):
    a = [int(x) for x in c.args[0][1:].split(",")]
    b = int(c.args[1])
    exp = 1 if (b > QM8 or any(abs(x) >= b for x in a)) else 0
    if outs[0] != exp:
        return "%s(bound %d) = %d, expected %d (max |coeff| = %d)" % (c.fn, b, outs[0], exp, max(abs(x) for x in a))
    return None


def extra(rep, cov, tier, rng):
    """The verifier's acceptance test is the norm check with ITS OWN set's bound: for every set, a signature from a modified signer
    whose verification equation holds and whose largest |z| is EXACTLY gamma1-beta (either sign) must be rejected by verify."""
    from concurrent.futures import ProcessPoolExecutor
    jobs = [(cp, rng.getrandbits(64), 40 if tier == "quick" else 400) for cp in SETS6]
    with ProcessPoolExecutor(max_workers=6) as ex:
        found = [x for part in ex.map(_bound_cases, jobs) for x in part]
    from dlib import crate, fmt_arg
    n = 0
    for cp, sig, m, pk, sgn in found:
        for dev in (True, False):
            r = crate([("verify", cp, [sig, m, pk])], dev=dev)[0]
            n += 1
            if r is None or r[0] != 0:
                rep.violation("verify/%s accepts a signature whose largest |z| is exactly gamma1-beta (%s side): the verifier's norm bound is not its own set's"
                              % (cp, "positive" if sgn > 0 else "negative"),
                              {"cases": [{"fn": "verify", "copy": cp, "args": [fmt_arg(sig), fmt_arg(m), fmt_arg(pk)]}]}, True)
    cov["verifier_bound_cases"] = n
    cov["evaluations"] = cov.get("evaluations", 0) + n
    cov["distinct_nontrivial"] = cov.get("distinct_nontrivial", 0) + len(found)


SETS6 = ["lvl2", "lvl3", "lvl5", "ml_dsa_44", "ml_dsa_65", "ml_dsa_87"]


def _bound_cases(job):
    import random
    import pyref
    from props.c03 import sign_skip_znorm
    cp, seed, budget = job
    rng = random.Random(seed)
    p = Par(cp)
    pk, sk = pyref.keygen(p, bytes(rng.randrange(256) for _ in range(32)))
    out = []
    for sgn in (1, -1):
        for _ in range(budget):
            mm = bytes(rng.randrange(256) for _ in range(12))
            zb = sign_skip_znorm(p, sk, mm, tries=60, exact=sgn)
            if zb is not None:
                out.append((cp, zb, mm, pk, sgn))
                break
    return out
