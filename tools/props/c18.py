"""C18 — infinity-norm check: poly::chknorm and l_chknorm / k_chknorm of the three vector copies."""
from vcore import Case
from dlib import Q, Par, LEVELS, ALL, flat

RULE = ("zero polynomial/vector with a single coefficient set to +-(b-1), +-b, +-(b+1), +-6283009 at enumerated positions "
        "(quick: 24 positions per polynomial incl. 0 and 255, every polynomial of the vector; thorough: every one of the 256 positions for poly::chknorm, every 8th position and 255 of every polynomial for the vector functions) for every "
        "bound used by the six parameter sets and the boundary bounds 0, 1, (q-1)/8, (q-1)/8+1, 2^31-1; plus random reduced vectors. "
        "Non-trivial = single-coefficient boundary case; distinct (fn,copy,input).")
ASSUMPTIONS = ["positions are enumerated (all 256 for chknorm, a stride for the vector copies in the thorough tier); coefficient values at the decision boundaries"]
TIMEOUT = {"quick": 300, "thorough": 2400}
RMAX = 6283009
QM8 = (Q - 1) // 8


def bounds():
    bs = set([0, 1, 2, QM8 - 1, QM8, QM8 + 1, (1 << 31) - 1, -1, -5])
    for s in ALL:
        p = Par(s)
        bs.update([p.g1 - p.beta, p.g2 - p.beta, p.g2])
    return sorted(bs)


def gen(tier, rng):
    out = []
    pos = list(range(256)) if tier == "thorough" else sorted(set([0, 1, 2, 127, 128, 253, 254, 255] + [rng.randrange(256) for _ in range(16)]))
    for b in bounds():
        vals = sorted(set(v for v in (b - 1, b, b + 1, RMAX, 0, 1) if 0 <= v <= RMAX))
        for i in pos:
            for v in vals:
                for s in (1, -1):
                    if v == 0 and s == -1:
                        continue
                    a = [0] * 256
                    a[i] = s * v
                    out.append(Case("chknorm", "-", [a, b], ["in_domain", "single"]))
        for lv in LEVELS:
            p = Par(lv)
            for fn, n in (("l_chknorm", p.L), ("k_chknorm", p.K)):
                for j in range(n):
                    for i in (pos[::8] + [255] if tier == "thorough" else [0, 255, pos[len(pos) // 2]]):
                        for v in (b - 1, b):
                            if not 0 <= v <= RMAX:
                                continue
                            vec = [0] * (256 * n)
                            vec[j * 256 + i] = -v if (i + j) % 2 else v
                            out.append(Case(fn, lv, [vec, b], ["in_domain", "single"]))
    for _ in range(60 if tier == "quick" else 3000):
        b = rng.choice(bounds())
        a = [rng.randint(-RMAX, RMAX) if rng.random() < 0.1 else rng.randint(-max(1, abs(b)), max(1, abs(b))) for _ in range(256)]
        out.append(Case("chknorm", "-", [a, b], ["in_domain"]))
    for lv in LEVELS:
        p = Par(lv)
        for _ in range(10 if tier == "quick" else 300):
            b = rng.choice(bounds())
            for fn, n in (("l_chknorm", p.L), ("k_chknorm", p.K)):
                vec = [rng.randint(-abs(b) - 2, abs(b) + 2) if rng.random() < 0.002 else rng.randint(-abs(b) // 2, abs(b) // 2) for _ in range(256 * n)]
                out.append(Case(fn, lv, [vec, b], ["in_domain"]))
    return out


def nontrivial(c, out):
    return "single" in c.tags


def oracle(c, outs):
    a = [int(x) for x in c.args[0][1:].split(",")]
    b = int(c.args[1])
    exp = 1 if (b > QM8 or any(abs(x) >= b for x in a)) else 0
    if outs[0] != exp:
        return "%s(bound %d) = %d, expected %d (max |coeff| = %d)" % (c.fn, b, outs[0], exp, max(abs(x) for x in a))
    return None
