"""C05 — signing is the specification's function of key, message and randomness (six sets, all modes)."""
import hashlib, json, os
from vcore import Case
from dlib import Q, Par, ALL, API_OF, keygen, bitpack
import pyref
from props.c07 import mprime

RULE = ("message lengths 0, 1, 33, 94 and every length that makes tr||M' straddle one or two SHAKE-256 blocks (32- and 64-byte tr, with/without "
        "context and OID); keys from seeds; deterministic, hedged (ML-DSA, scripted 32-byte rnd) and randomized (Dilithium, scripted 64-byte rho'') modes; "
        "the API wrappers with contexts and both pre-hashes; over-long dirty caller buffers; the MakeHint corner cases as kernel dependency; crafted secret keys (t0 at +-2^12, found with the independent Python signer) that force "
        "the c*t0 and hint-count rejections; a committed corpus of (crafted key, message) pairs whose signing needs 37..165 rejections, so that the "
        "ExpandMask counter L*kappa+i passes 255 (second counter byte), and of pairs for the gamma2=(q-1)/88 sets in which one attempt is rejected ONLY "
        "by ||c*t0|| >= gamma2; model = crate byte for byte on a subset chosen to need few attempts, crate = independent Python "
        "Sign_internal on all. Evidence records the histogram of rejection causes seen. Non-trivial = every distinct (set, key, message, mode).")
ASSUMPTIONS = ["termination is not provable (rejection sampling on hash output): the theorems are per fuel; evidence records the largest attempt count seen",
               "keys/messages sampled; rare rejection causes forced through crafted keys"]
TIMEOUT = {"quick": 500, "thorough": 2400}
TRACE_HIST = {}
CORPUS_DIR = os.path.join(os.path.dirname(os.path.dirname(os.path.dirname(os.path.abspath(__file__)))), "corpus")


def corpus(name):
    p = os.path.join(CORPUS_DIR, name)
    return json.load(open(p)) if os.path.exists(p) else []


def lengths(p, extra_prefix):
    """message lengths such that tr || prefix || msg crosses 136 and 272"""
    base = p.tr + extra_prefix
    ls = set([0, 1, 33, 94])
    for r in (136, 272):
        for d in (-2, -1, 0, 1, 2):
            if r - base + d >= 0:
                ls.add(r - base + d)
    return sorted(ls)


def crafted_sk(p, sk, rng, mode):
    """re-encode the t0 part of a genuine secret key with extreme values"""
    off = 64 + p.tr + (p.K + p.L) * p.polyeta
    t0 = []
    for i in range(p.K):
        if mode == "max":
            t0.append([rng.choice([4096, -4095]) for _ in range(256)])
        else:
            t0.append([rng.choice([4096, -4095]) if rng.random() < 0.25 else rng.randint(-4095, 4096) for _ in range(256)])
    return sk[:off] + b"".join(bitpack([4096 - x for x in t], 13) for t in t0)


def gen(tier, rng):
    out = []
    for cp in ALL:
        p = Par(cp)
        pk, sk = keygen(cp, bytes(rng.randrange(256) for _ in range(32)))
        zero = bytes(p.sig)
        cand = []
        for n in lengths(p, 0):
            cand.append(bytes(rng.randrange(256) for _ in range(n)))
        traces = [(m, pyref.sign(p, sk, m, want_trace=True)[1]) for m in cand]
        for m, tr in traces:
            for t in tr: TRACE_HIST[t] = TRACE_HIST.get(t, 0) + 1
        easy = sorted(traces, key=lambda x: len(x[1]))
        nm = 2 if tier == "quick" else 8
        for m, tr in easy[:nm]:
            out.append(Case("signature", cp, [bytes([0xA5] * p.sig), m, sk, 0, b""], ["in_domain", "deterministic", "attempts-%d" % min(len(tr) + 1, 9)], aux=("core", m, None)))
        for m, tr in easy[nm:]:
            out.append(Case("signature", cp, [zero, m, sk, 0, b""], ["in_domain", "deterministic", "crate-only"], aux=("core", m, None)))
        # caller buffers longer than SIGNBYTES with old content (the slice API asks for 'at least' SIGNBYTES): same signature in the
        # first SIGNBYTES bytes, the rest untouched
        for k, extra_len in enumerate((1, 64, p.sig)):
            m0, tr0 = easy[k % len(easy)]
            buf = bytes(rng.randrange(256) for _ in range(p.sig + extra_len))
            out.append(Case("signature", cp, [buf, m0, sk, 0, b""], ["in_domain", "deterministic", "over-long-buffer"] + ([] if k == 0 and len(tr0) < 4 else ["crate-only"]),
                            aux=("core", m0, None)))
        # kernel dependency: MakeHint at the corner the signer reaches about once per q coefficients (low part exactly -gamma2 with
        # high part 0 -> no hint; with high part != 0 -> hint), and around +-gamma2
        from dlib import LEVEL_OF
        for a0, a1, exp in ((-p.g2, 0, 0), (-p.g2, 1, 1), (-p.g2, p.m - 1, 1), (-p.g2 - 1, 0, 1), (-p.g2 + 1, 3, 0), (p.g2, 0, 0), (p.g2, 5, 0), (p.g2 + 1, 0, 1), (0, 0, 0)):
            out.append(Case("make_hint", LEVEL_OF[cp], [a0, a1], ["in_domain", "kernel-dependency"], aux=("makehint", exp, None)))
        # scripted randomness
        tape = bytes(rng.randrange(256) for _ in range(70))
        m = bytes(rng.randrange(256) for _ in range(50))
        short = sorted([bytes(rng.randrange(256) for _ in range(20 + i)) for i in range(12)],
                       key=lambda mm: len(pyref.sign(p, sk, mm, rnd=tape[:32], rhopp_override=(None if p.mldsa else tape[:64]), want_trace=True)[1]))
        out.append(Case("signature", cp, [zero, short[0], sk, 1, tape], ["in_domain", "scripted-rng"], aux=("core", short[0], tape)))
        for mm in short[1:5]:
            out.append(Case("signature", cp, [zero, mm, sk, 1, tape], ["in_domain", "scripted-rng", "crate-only"], aux=("core", mm, tape)))
        # API wrappers
        api = API_OF[cp]
        if p.mldsa:
            for mode, ctx in (("pure", None), ("pure", b"ctx"), ("pure", bytes(255)), ("sha256", b"c"), ("sha512", None), ("sha512", bytes(rng.randrange(256) for _ in range(255)))):
                pre = 2 + (len(ctx) if ctx else 0) + (0 if mode == "pure" else 11)
                for n in ([5] + ([l for l in lengths(p, pre)][-3:] if mode == "pure" else [32, 64])):
                    msg = bytes(rng.randrange(256) for _ in range(n))
                    c = ctx if ctx is not None else 0
                    if mode == "pure":
                        out.append(Case("ml_sign", api, [sk, msg, c, 0, b""], ["in_domain", "api", "crate-only"], aux=("api", mprime(mode, ctx, msg), None)))
                    else:
                        out.append(Case("ml_prehash_sign", api, [sk, msg, c, 0, 0 if mode == "sha256" else 1, b""], ["in_domain", "api", "crate-only"], aux=("api", mprime(mode, ctx, msg), None)))
            out.append(Case("ml_sign", api, [sk, b"hedged", b"ctx", 1, tape], ["in_domain", "api", "scripted-rng", "crate-only"], aux=("api", mprime("pure", b"ctx", b"hedged"), tape)))
            for cx in (None, b"", b"ctx"):   # hedged through every wrapper arm (absent / empty / non-empty context, both pre-hashes)
                for md, phi in (("sha256", 0), ("sha512", 1)):
                    out.append(Case("ml_prehash_sign", api, [sk, b"hedged", cx if cx is not None else 0, 1, phi, tape], ["in_domain", "api", "scripted-rng", "crate-only"],
                                    aux=("api", mprime(md, cx, b"hedged"), tape)))
                out.append(Case("ml_sign", api, [sk, b"hedged2", cx if cx is not None else 0, 1, tape], ["in_domain", "api", "scripted-rng", "crate-only"], aux=("api", mprime("pure", cx, b"hedged2"), tape)))
        else:
            for n in (0, 1, 94, 200):
                msg = bytes(rng.randrange(256) for _ in range(n))
                out.append(Case("api_sign", api, [sk, msg], ["in_domain", "api", "crate-only"], aux=("dil", msg, None)))
        # crafted keys forcing the rare rejection causes (search with the Python signer, bounded attempts)
        found = 0
        for mode in ("mixed", "mixed", "max", "mixed", "mixed", "mixed"):
            csk = crafted_sk(p, sk, rng, mode)
            for _ in range(6):
                m = bytes(rng.randrange(256) for _ in range(rng.randrange(0, 40)))
                r = pyref.sign(p, csk, m, max_attempts=12, want_trace=True)
                if r is None: continue
                sig, tr = r
                if 3 in tr or 4 in tr:
                    for t in tr: TRACE_HIST[t] = TRACE_HIST.get(t, 0) + 1
                    tag = ["in_domain", "crafted-key"] + (["cause-ct0"] if 3 in tr else []) + (["cause-hints"] if 4 in tr else [])
                    if found >= (1 if tier == "quick" else 4) or len(tr) > 6: tag.append("crate-only")
                    out.append(Case("signature", cp, [zero, m, csk, 0, b""], tag, aux=("core", m, None)))
                    found += 1
                    break
    # committed rare-path corpus (tools/mk_corpus.py): long rejection chains and c*t0-only rejections
    seen = set()
    for e in corpus("c05_ct0_rejections.json"):
        m, csk = bytes.fromhex(e["msg"]), bytes.fromhex(e["sk"])
        tags = ["in_domain", "crafted-key", "cause-ct0", "corpus"]
        if e["set"] in seen or e["rejections"] > 8: tags.append("crate-only")
        seen.add(e["set"])
        out.append(Case("signature", e["set"], [bytes(Par(e["set"]).sig), m, csk, 0, b""], tags, aux=("core", m, None)))
    for e in corpus("c05_long_chains.json"):
        m, csk = bytes.fromhex(e["msg"]), bytes.fromhex(e["sk"])
        out.append(Case("signature", e["set"], [bytes(Par(e["set"]).sig), m, csk, 0, b""],
                        ["in_domain", "crafted-key", "long-chain", "counter-above-255", "corpus", "crate-only"], aux=("core", m, None)))
    # rare shapes of the FINAL attempt: (key seed, message) pairs whose signature has exactly omega hints, or a hint-free polynomial;
    # the expected signature is the committed one (validated by the reference when the corpus was made and again by C03's checks)
    for name, tag in (("c03_exact_omega.json", "exactly-omega-hints"), ("c03_empty_hint_row.json", "hint-free-polynomial")):
        for e in corpus(name):
            pk_, sk_ = keygen(e["set"], bytes.fromhex(e["key_seed"]))
            m = bytes.fromhex(e["msg"])
            out.append(Case("signature", e["set"], [bytes(Par(e["set"]).sig), m, sk_, 0, b""], ["in_domain", tag, "corpus", "crate-only"],
                            aux=("stored", m, bytes.fromhex(e["sig"]))))
    # rejection chains of more than 1000 attempts (beyond any 'reasonable' iteration cap, e.g. the 814 of FIPS 204 appendix C):
    # the expected signature is stored with the entry (quick tier); the thorough tier recomputes it with the reference
    for e in corpus("c05_very_long_chains.json"):
        m, csk = bytes.fromhex(e["msg"]), bytes.fromhex(e["sk"])
        out.append(Case("signature", e["set"], [bytes(Par(e["set"]).sig), m, csk, 0, b""],
                        ["in_domain", "crafted-key", "very-long-chain", "corpus", "crate-only"],
                        aux=("stored" if tier == "quick" else "core", m, bytes.fromhex(e["sig"]) if tier == "quick" else None)))
    return out


def nontrivial(c, out):
    return True


def extra(rep, cov, tier, rng):
    cov["rejection_cause_histogram(1=z,2=lowbits,3=ct0,4=hints)"] = dict(TRACE_HIST)


def oracle(c, outs):
    cp = c.copy
    for k, v in API_OF.items():
        if v == cp and c.fn in ("ml_sign", "ml_prehash_sign", "api_sign"):
            cp = k
    p = Par(cp)
    kind, m, tape = c.aux
    if kind == "makehint":
        return None if outs[0] == m else "make_hint(%s, %s) = %d, the specification's MakeHint condition gives %d" % (c.args[0], c.args[1], outs[0], m)
    if c.fn == "signature":
        sk = bytes.fromhex(c.args[2][1:]); sig, rest = outs
        buf0 = bytes.fromhex(c.args[0][1:])
        if len(buf0) > p.sig:
            if len(sig) != len(buf0) or sig[p.sig:] != buf0[p.sig:]:
                return "signature/%s wrote beyond SIGNBYTES of an over-long caller buffer (or changed its length)" % c.copy
            sig = sig[:p.sig]
        rand = int(c.args[3])
        if rand and kind != "stored":
            need = 32 if p.mldsa else 64
            if rest != len(tape) - need:
                return "randomized signing consumed %d random bytes, expected %d" % (len(tape) - rest, need)
        elif rest != 0:
            return "deterministic signing drew randomness"
    else:
        sk = bytes.fromhex(c.args[0][1:])
        if c.fn == "api_sign":
            sig = outs[0]
        else:
            if outs[0] != 1: return "wrapper returned no signature"
            sig = outs[1]
            if tape is not None and outs[2] != len(tape) - 32:
                return "hedged signing consumed %d random bytes" % (len(tape) - outs[2])
    if kind == "stored":
        exp = tape
    elif tape is None:
        exp = pyref.sign(p, sk, m, max_attempts=8000)
    elif p.mldsa:
        exp = pyref.sign(p, sk, m, rnd=tape[:32])
    else:
        exp = pyref.sign(p, sk, m, rhopp_override=tape[:64])
    if sig != exp:
        return "%s/%s: signature differs from the specification's Sign_internal (message length %d)" % (c.fn, c.copy, len(m))
    return None
