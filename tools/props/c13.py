"""C13 — NTT: ntt::{ntt,invntt_tomont}, poly::{ntt,invntt_tomont,pointwise_montgomery}."""
from vcore import Case
from dlib import Q, negacyclic_mul, rand_poly

RULE = ("forward: the 256 basis vectors, +-(q-1) everywhere / alternating, the repository's test vector shape (coefficients in [-4,4]), random in (-q,q); "
        "inverse: the same classes; products: X^255*X^255, (q-1)*(q-1) everywhere, random pairs, checked against the schoolbook negacyclic product; "
        "pointwise on 9q-bounded inputs. Non-trivial = basis/extreme/product case; distinct (fn,input).")
ASSUMPTIONS = ["(-q,q)^256 is sampled; the theorem covers it entirely for the model"]
TIMEOUT = {"quick": 300, "thorough": 2400}
MONT = (1 << 32) % Q
MONT_INV = pow(MONT, -1, Q)
ROOTS = None


def brv8(i):
    return int("{:08b}".format(i)[::-1], 2)


def roots():
    global ROOTS
    if ROOTS is None:
        ROOTS = [pow(1753, 2 * brv8(i) + 1, Q) for i in range(256)]
    return ROOTS


def gen(tier, rng):
    out = []
    polys = []
    for j in (range(256) if tier == "thorough" else list(range(0, 256, 9)) + [255]):
        e = [0] * 256; e[j] = 1
        polys.append((e, "basis"))
    polys.append(([Q - 1] * 256, "extreme")); polys.append(([-(Q - 1)] * 256, "extreme"))
    polys.append(([(Q - 1) if i % 2 else -(Q - 1) for i in range(256)], "extreme"))
    polys.append(([rng.randint(-4, 4) for _ in range(256)], "small"))
    for _ in range(40 if tier == "quick" else 1000):
        polys.append((rand_poly(rng, -Q + 1, Q - 1), "random"))
    for a, t in polys:
        out.append(Case("ntt_ntt", "-", [a], ["in_domain", t, "fwd"]))
        out.append(Case("poly_ntt", "-", [a], ["in_domain", t, "fwd"]))
        out.append(Case("ntt_invntt", "-", [a], ["in_domain", t, "inv"]))
        out.append(Case("poly_invntt", "-", [a], ["in_domain", t, "inv"]))
    big = 9 * Q - 1
    for _ in range(10 if tier == "quick" else 300):
        a = [rng.choice([big, -big, rng.randint(-big, big)]) for _ in range(256)]
        b = [rng.choice([big, -big, rng.randint(-big, big)]) for _ in range(256)]
        out.append(Case("poly_pointwise", "-", [a, b], ["in_domain", "extreme", "pw"]))
    # the output polynomial is fully written whatever it held before, also where an input coefficient is 0
    for _ in range(6 if tier == "quick" else 200):
        a = [0 if rng.random() < 0.3 else rng.randint(-big, big) for _ in range(256)]
        b = [0 if rng.random() < 0.3 else rng.randint(-big, big) for _ in range(256)]
        dirty = [rng.randint(-Q, Q) or 1 for _ in range(256)]
        out.append(Case("poly_pointwise_dirty", "-", [a, b, dirty], ["in_domain", "extreme", "pw", "dirty-output"]))
    # accumulation through the crate's own reused temporary: NTT-domain inputs with exact zeros
    for lv in ("lvl2", "lvl3", "lvl5"):
        L = {"lvl2": 4, "lvl3": 5, "lvl5": 7}[lv]
        for _ in range(3 if tier == "quick" else 60):
            u = [0 if rng.random() < 0.3 else rng.randint(0, Q - 1) for _ in range(256 * L)]
            v = [0 if rng.random() < 0.3 else rng.randint(-big, big) for _ in range(256 * L)]
            out.append(Case("l_pointwise_acc", lv, [u, v], ["in_domain", "extreme", "acc-with-zeros"]))
    # monomials that drive a Montgomery reduction onto the input whose low 32 bits times q^-1 is exactly -2^31 (found by
    # simulating the transform; committed corpus) -- a negation or abs of that intermediate overflows only there
    import json, os
    cp = os.path.join(os.path.dirname(os.path.dirname(os.path.dirname(os.path.abspath(__file__)))), "corpus", "c13_low32_min_probes.json")
    probes = json.load(open(cp))
    for pth, c in probes["fwd"]:
        a = [0] * 256; a[pth] = c
        out.append(Case("ntt_ntt", "-", [a], ["in_domain", "basis", "fwd", "low32-min-probe"]))
        a2 = [rng.randint(-1000, 1000) for _ in range(256)]; a2[pth] = c
        out.append(Case("poly_ntt", "-", [a2], ["in_domain", "random", "fwd", "low32-min-probe"]))
    for pth, c in probes["inv"]:
        a = [0] * 256; a[pth] = c
        out.append(Case("ntt_invntt", "-", [a], ["in_domain", "basis", "inv", "low32-min-probe"]))
    # kernel the transforms stand on: montgomery_reduce at the wrap boundaries of its 32-bit intermediate
    for k in list(range(-6, 7)) + [rng.randrange(-(1 << 21), 1 << 21) for _ in range(40)]:
        for d in (-1, 0, 1):
            out.append(Case("montgomery_reduce", "-", [k * (1 << 32) + (1 << 31) + d], ["in_domain", "kernel-dependency"]))
            out.append(Case("montgomery_reduce", "-", [k * (1 << 32) + d], ["in_domain", "kernel-dependency"]))
    # out-of-domain: overflow must show as a panic in the checked build and in the model alike
    out.append(Case("ntt_ntt", "-", [[(1 << 31) - 1] * 256], ["overflow"], skip_release=True))
    out.append(Case("ntt_invntt", "-", [[(1 << 30)] * 256], ["overflow"], skip_release=True))
    return out


def extra(rep, cov, tier, rng):
    """Full multiplication pipeline through the crate, checked against the schoolbook product."""
    from dlib import crate
    pairs = []
    x255 = [0] * 255 + [1]
    pairs.append((x255, x255)); pairs.append(([Q - 1] * 256, [Q - 1] * 256)); pairs.append(([-(Q - 1)] * 256, [Q - 1] * 256))
    for _ in range(12 if tier == "quick" else 400):
        pairs.append((rand_poly(rng, -Q + 1, Q - 1), rand_poly(rng, -Q + 1, Q - 1)))
    fw = crate([("poly_ntt", "-", [a]) for a, b in pairs] + [("poly_ntt", "-", [b]) for a, b in pairs], dev=True)
    n = len(pairs)
    pw = crate([("poly_pointwise", "-", [fw[i][0], fw[n + i][0]]) for i in range(n)], dev=True)
    iv = crate([("poly_invntt", "-", [pw[i][0]]) for i in range(n)], dev=True)
    bad = 0
    for i, (a, b) in enumerate(pairs):
        r = iv[i][0]
        ref = negacyclic_mul(a, b)
        if any((x - y) % Q for x, y in zip(r, ref)) or any(abs(x) >= Q for x in r) or any(abs(x) >= 9 * Q for x in fw[i][0]):
            bad += 1
            rep.violation("NTT multiplication differs from the negacyclic product (or bounds exceeded)",
                          {"cases": [{"fn": "mul", "copy": "-", "args": ["i" + ",".join(map(str, a)), "i" + ",".join(map(str, b))]}]}, True)
    cov["evaluations"] = cov.get("evaluations", 0) + n
    cov["distinct_nontrivial"] = cov.get("distinct_nontrivial", 0) + n
    cov["products_checked_against_schoolbook"] = n


def nontrivial(c, out):
    return any(t in ("basis", "extreme", "overflow") for t in c.tags)


def oracle(c, outs):
    if "in_domain" not in c.tags:
        return None
    if c.fn == "montgomery_reduce":
        a, r = int(c.args[0]), outs[0]
        return None if ((r << 32) - a) % Q == 0 and -Q < r < Q else "montgomery_reduce(%d) = %d" % (a, r)
    if c.fn == "l_pointwise_acc":
        u = [int(x) for x in c.args[0][1:].split(",")]; v = [int(x) for x in c.args[1][1:].split(",")]
        L = len(u) // 256
        for i in range(256):
            s = sum(u[j * 256 + i] * v[j * 256 + i] for j in range(L))
            if (outs[0][i] * MONT - s) % Q:
                return "l_pointwise_acc coefficient %d is not the sum of the pointwise products" % i
        return None
    r = outs[0]
    a = [int(x) for x in c.args[0][1:].split(",")]
    if "fwd" in c.tags:
        if any(abs(x) >= 9 * Q for x in r):
            return "forward output magnitude reaches 9q"
        rs = roots()
        idx = range(256) if ("basis" in c.tags or "small" in c.tags) else range(0, 256, 37)
        for i in idx:
            w, acc = rs[i], 0
            for cf in reversed(a):
                acc = (acc * w + cf) % Q
            if (r[i] - acc) % Q:
                return "ntt output %d is not the evaluation at 1753^(2*brv8(%d)+1)" % (i, i)
    elif "inv" in c.tags:
        if any(abs(x) >= Q for x in r):
            return "inverse output magnitude reaches q"
    elif "pw" in c.tags:
        b = [int(x) for x in c.args[1][1:].split(",")]
        for i in range(256):
            if (r[i] * MONT - a[i] * b[i]) % Q or abs(r[i]) >= Q:
                return "pointwise product coefficient %d wrong" % i
    return None
