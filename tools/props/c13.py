"""C13 — NTT: ntt::{ntt,invntt_tomont}, poly::{ntt,invntt_tomont,pointwise_montgomery}."""
from vcore import Case
from dlib import Q, negacyclic_mul, rand_poly

RULE = ("forward: the 256 basis vectors, +-(q-1) everywhere / alternating, the repository's test vector shape (coefficients in [-4,4]), random in (-q,q); "
        "inverse: the same classes; products: X^255*X^255, (q-1)*(q-1) everywhere, random pairs, checked against the schoolbook negacyclic product; "
        "pointwise on 9q-bounded inputs. Non-trivial = basis/extreme/product case; distinct (fn,input).")
ASSUMPTIONS = ["(-q,q)^256 is sampled; the theorem covers it entirely for the model"]
TIMEOUT = {"quick": 300, "thorough": 2400}
MONT = (1 << 32) % Q
MONT_INV = pow(MONT, -1, Q)
ROOTS = None


def brv8(i):
    return int("{:08b}".format(i)[::-1], 2)


def roots():
    global ROOTS
    if ROOTS is None:
        ROOTS = [pow(1753, 2 * brv8(i) + 1, Q) for i in range(256)]
    return ROOTS


def gen(tier, rng):
    out = []
    polys = []
    for j in (range(256) if tier == "thorough" else list(range(0, 256, 9)) + [255]):
        e = [0] * 256; e[j] = 1
        polys.append((e, "basis"))
    polys.append(([Q - 1] * 256, "extreme")); polys.append(([-(Q - 1)] * 256, "extreme"))
    polys.append(([(Q - 1) if i % 2 else -(Q - 1) for i in range(256)], "extreme"))
    polys.append(([rng.randint(-4, 4) for _ in range(256)], "small"))
    for _ in range(40 if tier == "quick" else 3000):
        polys.append((rand_poly(rng, -Q + 1, Q - 1), "random"))
    for a, t in polys:
        out.append(Case("ntt_ntt", "-", [a], ["in_domain", t, "fwd"]))
        out.append(Case("poly_ntt", "-", [a], ["in_domain", t, "fwd"]))
        out.append(Case("ntt_invntt", "-", [a], ["in_domain", t, "inv"]))
        out.append(Case("poly_invntt", "-", [a], ["in_domain", t, "inv"]))
    big = 9 * Q - 1
    for _ in range(10 if tier == "quick" else 300):
        a = [rng.choice([big, -big, rng.randint(-big, big)]) for _ in range(256)]
        b = [rng.choice([big, -big, rng.randint(-big, big)]) for _ in range(256)]
        out.append(Case("poly_pointwise", "-", [a, b], ["in_domain", "extreme", "pw"]))
    # out-of-domain: overflow must show as a panic in the checked build and in the model alike
    out.append(Case("ntt_ntt", "-", [[(1 << 31) - 1] * 256], ["overflow"], skip_release=True))
    out.append(Case("ntt_invntt", "-", [[(1 << 30)] * 256], ["overflow"], skip_release=True))
    return out


def extra(rep, cov, tier, rng):
    """Full multiplication pipeline through the crate, checked against the schoolbook product."""
    from dlib import crate
    pairs = []
    x255 = [0] * 255 + [1]
    pairs.append((x255, x255)); pairs.append(([Q - 1] * 256, [Q - 1] * 256)); pairs.append(([-(Q - 1)] * 256, [Q - 1] * 256))
    for _ in range(12 if tier == "quick" else 400):
        pairs.append((rand_poly(rng, -Q + 1, Q - 1), rand_poly(rng, -Q + 1, Q - 1)))
    fw = crate([("poly_ntt", "-", [a]) for a, b in pairs] + [("poly_ntt", "-", [b]) for a, b in pairs], dev=True)
    n = len(pairs)
    pw = crate([("poly_pointwise", "-", [fw[i][0], fw[n + i][0]]) for i in range(n)], dev=True)
    iv = crate([("poly_invntt", "-", [pw[i][0]]) for i in range(n)], dev=True)
    bad = 0
    for i, (a, b) in enumerate(pairs):
        r = iv[i][0]
        ref = negacyclic_mul(a, b)
        if any((x - y) % Q for x, y in zip(r, ref)) or any(abs(x) >= Q for x in r) or any(abs(x) >= 9 * Q for x in fw[i][0]):
            bad += 1
            rep.violation("NTT multiplication differs from the negacyclic product (or bounds exceeded)",
                          {"cases": [{"fn": "mul", "copy": "-", "args": ["i" + ",".join(map(str, a)), "i" + ",".join(map(str, b))]}]}, True)
    cov["evaluations"] = cov.get("evaluations", 0) + n
    cov["distinct_nontrivial"] = cov.get("distinct_nontrivial", 0) + n
    cov["products_checked_against_schoolbook"] = n


def nontrivial(c, out):
    return any(t in ("basis", "extreme", "overflow") for t in c.tags)


def oracle(c, outs):
    if "in_domain" not in c.tags:
        return None
    r = outs[0]
    a = [int(x) for x in c.args[0][1:].split(",")]
    if "fwd" in c.tags:
        if any(abs(x) >= 9 * Q for x in r):
            return "forward output magnitude reaches 9q"
        rs = roots()
        idx = range(256) if ("basis" in c.tags or "small" in c.tags) else range(0, 256, 37)
        for i in idx:
            w, acc = rs[i], 0
            for cf in reversed(a):
                acc = (acc * w + cf) % Q
            if (r[i] - acc) % Q:
                return "ntt output %d is not the evaluation at 1753^(2*brv8(%d)+1)" % (i, i)
    elif "inv" in c.tags:
        if any(abs(x) >= Q for x in r):
            return "inverse output magnitude reaches q"
    elif "pw" in c.tags:
        b = [int(x) for x in c.args[1][1:].split(",")]
        for i in range(256):
            if (r[i] * MONT - a[i] * b[i]) % Q or abs(r[i]) >= Q:
                return "pointwise product coefficient %d wrong" % i
    return None
