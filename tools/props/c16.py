"""C16 — bit-packing: coefficient codecs (t1, t0, eta, z, w1) and the three container codecs, six sets."""
from vcore import Case
from dlib import Q, Par, ALL, LEVEL_OF, flat, bitpack, bitunpack, hint_pack, hint_unpack

RULE = ("encoders: all-min, all-max, alternating, a single extreme at each position of a group, random in range, into dirty output buffers "
        "longer than needed; decoders: the encodings, random bytes, all-00, all-FF; containers: generated-shape values; hint vectors of weight "
        "0, 1, omega-1, omega, all in one polynomial, one per polynomial, empty rows, last index 255; unpack_sig on canonical encodings with one "
        "defect (swapped/duplicate indices, counter +-1, counter > omega, counter < previous, dirty padding in each slot). The oracle is an "
        "independent FIPS 204 bit-packing / HintBitPack in Python. Non-trivial = extreme, defect or boundary-weight case; distinct (fn,copy,input).")
ASSUMPTIONS = ["in-range coefficient vectors are sampled with all extremes enumerated; out-of-range encoder inputs are outside the property"]
TIMEOUT = {"quick": 400, "thorough": 2400}


def codec_polys(rng, lo, hi, group, reps):
    ps = [([lo] * 256, "extreme"), ([hi] * 256, "extreme"), ([lo if i % 2 else hi for i in range(256)], "extreme"),
          ([hi if i % 2 else lo for i in range(256)], "extreme")]
    for g in range(group):
        a = [rng.randint(lo, hi) for _ in range(256)]
        for k in range(g, 256, group):
            a[k] = hi if (k // group) % 2 else lo
        ps.append((a, "extreme"))
    mid = (lo + hi) // 2
    for g in range(group):
        a = [mid] * 256
        a[g] = hi; a[255 - g] = lo
        ps.append((a, "extreme"))
    for _ in range(reps):
        ps.append(([rng.randint(lo, hi) for _ in range(256)], "random"))
    return ps


def gen(tier, rng):
    out = []
    reps = 6 if tier == "quick" else 300
    dirty = lambda n: bytes(rng.randrange(256) for _ in range(n + 7))
    byt = lambda n: [bytes(n), bytes([255] * n)] + [bytes(rng.randrange(256) for _ in range(n)) for _ in range(reps)]
    for a, t in codec_polys(rng, 0, 1023, 4, reps):
        out.append(Case("t1_pack", "-", [dirty(320), a], ["in_domain", t], aux=("t1", 10)))
    for a, t in codec_polys(rng, -4095, 4096, 8, reps):
        out.append(Case("t0_pack", "-", [dirty(416), a], ["in_domain", t], aux=("t0", 13)))
    for b in byt(320):
        out.append(Case("t1_unpack", "-", [b], ["in_domain", "decode"], aux=("t1", 10)))
    for b in byt(416):
        out.append(Case("t0_unpack", "-", [b], ["in_domain", "decode"], aux=("t0", 13)))
    for cp in ALL:
        p = Par(cp)
        eb = 3 if p.eta == 2 else 4
        for a, t in codec_polys(rng, -p.eta, p.eta, 8 if p.eta == 2 else 2, reps):
            out.append(Case("eta_pack", cp, [dirty(p.polyeta), a], ["in_domain", t], aux=("eta", eb)))
        for a, t in codec_polys(rng, -p.g1 + 1, p.g1, 4 if p.zbits == 18 else 2, reps):
            out.append(Case("z_pack", cp, [dirty(p.polyz), a], ["in_domain", t], aux=("z", p.zbits)))
        for a, t in codec_polys(rng, 0, p.m - 1, 4 if p.m == 44 else 2, reps):
            out.append(Case("w1_pack", cp, [dirty(p.polyw1), a], ["in_domain", t], aux=("w1", 6 if p.m == 44 else 4)))
        for b in byt(p.polyz):
            out.append(Case("z_unpack", cp, [b], ["in_domain", "decode"], aux=("z", p.zbits)))
        for b in byt(p.polyeta):
            out.append(Case("eta_unpack", cp, [b], ["in_domain", "decode"], aux=("eta", eb)))
        # containers
        for r in range(2 if tier == "quick" else 30):
            rho, key, tr = (bytes(rng.randrange(256) for _ in range(n)) for n in (32, 32, p.tr))
            t1 = [[rng.randint(0, 1023) for _ in range(256)] for _ in range(p.K)]
            t0 = [[rng.choice([-4095, 4096, rng.randint(-4095, 4096)]) for _ in range(256)] for _ in range(p.K)]
            s1 = [[rng.randint(-p.eta, p.eta) for _ in range(256)] for _ in range(p.L)]
            s2 = [[rng.randint(-p.eta, p.eta) for _ in range(256)] for _ in range(p.K)]
            out.append(Case("pack_pk", cp, [dirty(p.pk), rho, flat(t1)], ["in_domain", "container"], aux=(rho, t1)))
            out.append(Case("pack_sk", cp, [dirty(p.sk), rho, tr, key, flat(t0), flat(s1), flat(s2)], ["in_domain", "container"],
                            aux=(rho, key, tr, s1, s2, t0)))
            out.append(Case("unpack_pk", cp, [bytes(rng.randrange(256) for _ in range(p.pk))], ["in_domain", "container"]))
            sk = bytes(rng.randrange(256) for _ in range(p.sk))
            out.append(Case("unpack_sk", cp, [sk], ["in_domain", "container"]))
        # signatures: hint vectors of interesting weights
        for kind in ("w0", "w1", "wm1", "wmax", "onepoly", "oneeach", "last255", "random", "random"):
            h = [[0] * 256 for _ in range(p.K)]
            if kind == "w1":
                h[rng.randrange(p.K)][rng.randrange(256)] = 1
            elif kind in ("wm1", "wmax"):
                w = p.omega - (1 if kind == "wm1" else 0)
                for _ in range(w):
                    while True:
                        i, j = rng.randrange(p.K), rng.randrange(256)
                        if not h[i][j]:
                            h[i][j] = 1; break
            elif kind == "onepoly":
                i = rng.randrange(p.K)
                for j in rng.sample(range(256), p.omega):
                    h[i][j] = 1
            elif kind == "oneeach":
                for i in range(p.K):
                    h[i][rng.randrange(256)] = 1
            elif kind == "last255":
                h[0][255] = 1; h[p.K - 1][255] = 1; h[p.K - 1][0] = 1
            elif kind == "random":
                for _ in range(rng.randrange(p.omega + 1)):
                    h[rng.randrange(p.K)][rng.randrange(256)] = 1
            z = [[rng.choice([-p.g1 + 1, p.g1, rng.randint(-p.g1 + 1, p.g1)]) for _ in range(256)] for _ in range(p.L)]
            c = bytes(rng.randrange(256) for _ in range(p.ct))
            buf = dirty(p.sig)
            out.append(Case("pack_sig", cp, [buf, c, flat(z), flat(h)], ["in_domain", "sig", "hint-" + kind], aux=(c, z, h, None)))
            out.append(Case("pack_sig", cp, [buf, 0, flat(z), flat(h)], ["in_domain", "sig", "hint-" + kind, "no-challenge"], aux=(bytes(buf[:p.ct]), z, h, None)))
            if kind in ("random", "oneeach"):
                # caller buffers longer than SIGNBYTES (the signer's own work buffer may be; the API says 'at least'): the encoding
                # occupies the first SIGNBYTES bytes, the excess is untouched
                for extra_len in (1, 64):
                    lb = dirty(p.sig + extra_len)
                    out.append(Case("pack_sig", cp, [lb, c, flat(z), flat(h)], ["in_domain", "sig", "hint-" + kind, "over-long-buffer"], aux=(c, z, h, None)))
            enc = c + b"".join(bitpack([p.g1 - x for x in zi], p.zbits) for zi in z) + hint_pack(h, p.omega)
            zero_h = [0] * (256 * p.K)
            out.append(Case("unpack_sig", cp, [enc, zero_h], ["in_domain", "sig", "hint-" + kind], aux="canonical"))
            ho = p.ct + p.L * p.polyz
            # one defect each
            for dk in ("swap", "dup", "cnt+1", "cnt>omega", "cnt<prev", "pad", "cnt255"):
                e = bytearray(enc)
                cnt = [e[ho + p.omega + i] for i in range(p.K)]
                tot = cnt[-1]
                if dk == "swap":
                    rows = [i for i in range(p.K) if cnt[i] - (cnt[i - 1] if i else 0) >= 2]
                    if not rows: continue
                    i = rng.choice(rows); s = cnt[i - 1] if i else 0
                    e[ho + s], e[ho + s + 1] = e[ho + s + 1], e[ho + s]
                elif dk == "dup":
                    rows = [i for i in range(p.K) if cnt[i] - (cnt[i - 1] if i else 0) >= 2]
                    if not rows: continue
                    i = rng.choice(rows); s = cnt[i - 1] if i else 0
                    e[ho + s + 1] = e[ho + s]
                elif dk == "cnt+1":
                    i = rng.randrange(p.K); e[ho + p.omega + i] = min(255, e[ho + p.omega + i] + 1)
                elif dk == "cnt>omega":
                    e[ho + p.omega + p.K - 1] = p.omega + 1
                elif dk == "cnt255":
                    e[ho + p.omega + rng.randrange(p.K)] = 255
                elif dk == "cnt<prev":
                    if p.K < 2 or cnt[0] == 0: continue
                    e[ho + p.omega + 1] = cnt[0] - 1
                elif dk == "pad":
                    if tot >= p.omega: continue
                    e[ho + rng.randrange(tot, p.omega)] = rng.choice([1, 255])
                out.append(Case("unpack_sig", cp, [bytes(e), zero_h], ["in_domain", "sig", "defect-" + dk], aux="defect"))
        for _ in range(reps):
            out.append(Case("unpack_sig", cp, [bytes(rng.randrange(256) for _ in range(p.sig)), [0] * (256 * p.K)], ["in_domain", "sig", "random-bytes"], aux="random"))
    return out


def nontrivial(c, out):
    return any(t == "extreme" or t.startswith("defect") or t.startswith("hint-") or t == "container" for t in c.tags)


ENC = {"t1": lambda x: x, "t0": lambda x: 4096 - x}


def oracle(c, outs):
    fn = c.fn
    p = Par(c.copy) if c.copy != "-" else None
    if fn.endswith("_pack") and fn[:-5] in ("t1", "t0", "eta", "z", "w1"):
        kind, bits = c.aux
        a = [int(x) for x in c.args[1][1:].split(",")]
        buf = bytes.fromhex(c.args[0][1:])
        if kind == "t1": vals = a
        elif kind == "t0": vals = [4096 - x for x in a]
        elif kind == "eta": vals = [p.eta - x for x in a]
        elif kind == "z": vals = [p.g1 - x for x in a]
        else: vals = a
        exp = bitpack(vals, bits)
        if outs[0] != exp + buf[len(exp):]:
            return "%s/%s is not the specification's bit-packing (or touched bytes beyond its output)" % (fn, c.copy)
    elif fn.endswith("_unpack") and fn[:-7] in ("t1", "t0", "eta", "z"):
        kind, bits = c.aux
        b = bytes.fromhex(c.args[0][1:])
        vals = bitunpack(b, bits, 256)
        if kind == "t1": exp = vals
        elif kind == "t0": exp = [4096 - x for x in vals]
        elif kind == "eta": exp = [p.eta - x for x in vals]
        else: exp = [p.g1 - x for x in vals]
        if outs[0] != exp:
            return "%s/%s is not the specification's bit-unpacking" % (fn, c.copy)
    elif fn == "pack_pk":
        rho, t1 = c.aux
        exp = rho + b"".join(bitpack(t, 10) for t in t1)
        buf = bytes.fromhex(c.args[0][1:])
        if outs[0] != exp + buf[len(exp):] or len(exp) != p.pk:
            return "pack_pk/%s is not pkEncode" % c.copy
    elif fn == "pack_sk":
        rho, key, tr, s1, s2, t0 = c.aux
        eb = 3 if p.eta == 2 else 4
        exp = rho + key + tr + b"".join(bitpack([p.eta - x for x in s], eb) for s in s1 + s2) + b"".join(bitpack([4096 - x for x in t], 13) for t in t0)
        buf = bytes.fromhex(c.args[0][1:])
        if outs[0] != exp + buf[len(exp):] or len(exp) != p.sk:
            return "pack_sk/%s is not skEncode" % c.copy
    elif fn == "pack_sig":
        cc, z, h, _ = c.aux
        exp = cc + b"".join(bitpack([p.g1 - x for x in zi], p.zbits) for zi in z) + hint_pack(h, p.omega)
        buf = bytes.fromhex(c.args[0][1:])
        if outs[0] != exp + buf[len(exp):] or len(exp) != p.sig:
            return "pack_sig/%s is not sigEncode" % c.copy
    elif fn == "unpack_sig":
        sig = bytes.fromhex(c.args[0][1:])
        cc, z, h, ok = outs
        ho = p.ct + p.L * p.polyz
        exp_h = hint_unpack(sig[ho:], p.omega, p.K)
        if (exp_h is not None) != bool(ok):
            return "unpack_sig/%s accepts=%d but the specification's HintBitUnpack says %s" % (c.copy, ok, "valid" if exp_h is not None else "malformed")
        if ok:
            if h != flat(exp_h) or cc != sig[:p.ct]:
                return "unpack_sig/%s decoded hints/challenge differ from the specification" % c.copy
            for i in range(p.L):
                if z[256 * i:256 * (i + 1)] != [p.g1 - v for v in bitunpack(sig[p.ct + i * p.polyz: p.ct + (i + 1) * p.polyz], p.zbits, 256)]:
                    return "unpack_sig/%s decoded z differs" % c.copy
    return None
