"""C08 — verification is total on untrusted bytes; no operation panics or overflows (checked = release)."""
from vcore import Case
from dlib import Par, ALL, API_OF, keygen, sign, crate, fmt_arg, bitpack
import pyref

RULE = ("verify (core and API entry points) in the build with overflow checks and debug assertions under catch_unwind, and in release: signature "
        "lengths 0..SIGNBYTES+8; hint counters 0..255 in every counter slot; hint indices 0/255; z fields all-0 / all-1 bits (largest magnitudes, both "
        "signs) and just inside/outside the norm gate; t1 all 0x3FF; public key all-FF / all-00; mutated valid signatures; random bytes; the API entry points on a grid of {pure, SHA-256, SHA-512} x context "
        "lengths {None, 0, 1, 190..192, 222..225, 243..245, 254, 255, 256} (framed-message sizes around 256/300/320 bytes) for verify and sign; plus the honest "
        "path (keygen from extreme seeds, signing) in both builds. Oracle: no panic, a boolean answer, checked build = release build; a subset also "
        "= model (whose Panic is the checked build's panic). Non-trivial = adversarial case; distinct (fn,copy,input).")
ASSUMPTIONS = ["byte strings sampled around the structure of the decoder; the no-panic theorems quantify over all of them for the model"]
TIMEOUT = {"quick": 1500, "thorough": 3400}


def gen(tier, rng):
    out = []
    for cp in ALL:
        p = Par(cp)
        pk, sk = keygen(cp, bytes(rng.randrange(256) for _ in range(32)))
        m = bytes(rng.randrange(256) for _ in range(30))
        sig = sign(cp, sk, m)
        ho = p.ct + p.L * p.polyz
        budget = [4 if tier == "quick" else 16]
        def add(s, mm, pkk, tags):
            t = ["in_domain", "adversarial"] + tags
            if budget[0] > 0 and ("model" in tags):
                budget[0] -= 1
            else:
                t.append("crate-only")
            out.append(Case("verify", cp, [s, mm, pkk], t))
        for n in list(range(0, 6)) + [p.ct, ho - 1, ho, ho + p.omega, p.sig - 1, p.sig, p.sig + 1, p.sig + 8]:
            add((sig + bytes(16))[:n], m, pk, ["length"])
        for slot in range(p.K):
            for v in (0, 1, p.omega - 1, p.omega, p.omega + 1, 128, 254, 255) if tier == "quick" else range(256):
                e = bytearray(sig); e[ho + p.omega + slot] = v
                add(bytes(e), m, pk, ["counter"] + (["model"] if v == 255 and slot == 0 else []))
        # all counters maximal / indices extreme
        e = bytearray(sig)
        for i in range(p.omega): e[ho + i] = 255
        for i in range(p.K): e[ho + p.omega + i] = p.omega
        add(bytes(e), m, pk, ["indices-255", "model"])
        e = bytearray(sig)
        for i in range(p.omega): e[ho + i] = i % 256
        for i in range(p.K): e[ho + p.omega + i] = p.omega
        add(bytes(e), m, pk, ["indices-increasing-all-in-first"])
        # indices strictly increasing so that the ordering check keeps passing, counters beyond omega in every pattern:
        # only the per-counter bound stops the index loop from running off the signature
        for pat in ("incr-above", "all255", "first255", "omega+K", "last-only"):
            e = bytearray(sig)
            for i in range(p.omega): e[ho + i] = i
            for i in range(p.K):
                e[ho + p.omega + i] = {"incr-above": min(255, p.omega + p.K + i), "all255": 255, "first255": 255 if i == 0 else p.omega,
                                       "omega+K": min(255, p.omega + p.K), "last-only": (p.omega if i < p.K - 1 else min(255, p.omega + p.K + 1))}[pat]
            add(bytes(e), m, pk, ["counters-beyond-omega-" + pat] + (["model"] if pat == "incr-above" else []))
            # same with the index bytes continuing to increase into the counter area
            e2 = bytearray(e)
            for i in range(p.omega): e2[ho + i] = min(255, i + 1)
            add(bytes(e2), m, pk, ["counters-beyond-omega-" + pat + "-shifted"])
        # z extremes: all-zero bits (z = gamma1), all-one bits (z = gamma1 - 2^bits + 1), values at the gate
        for fill, tag in ((0x00, "z-allzero-bits"), (0xFF, "z-allone-bits")):
            e = bytearray(sig)
            for i in range(p.ct, ho): e[i] = fill
            add(bytes(e), m, pk, [tag, "model"])
        for val, tag in ((p.g1 - p.beta - 1, "z-gate-inside"), (-(p.g1 - p.beta - 1), "z-gate-inside-neg"), (p.g1 - p.beta, "z-gate-outside")):
            zb = b"".join(bitpack([p.g1 - val] * 256, p.zbits) for _ in range(p.L))
            add(sig[:p.ct] + zb + sig[ho:], m, pk, [tag, "model"])
        # hostile public keys
        add(sig, m, bytes([255] * p.pk), ["pk-allFF", "model"])
        add(sig, m, bytes(p.pk), ["pk-all00"])
        add(sig, m, pk[:32] + bytes([255] * (p.pk - 32)), ["t1-all-3FF"])
        zb = b"".join(bitpack([p.g1 - (p.g1 - p.beta - 1)] * 256, p.zbits) for _ in range(p.L))
        add(sig[:p.ct] + zb + sig[ho:], m, pk[:32] + bytes([255] * (p.pk - 32)), ["t1-all-3FF+z-max", "model"])
        for _ in range(20 if tier == "quick" else 2000):
            add(bytes(rng.randrange(256) for _ in range(p.sig)), m, pk, ["random"])
            e = bytearray(sig)
            for _ in range(rng.randrange(1, 4)):
                e[rng.randrange(len(e))] = rng.randrange(256)
            add(bytes(e), m, pk, ["mutated"])
            # random hint section on a valid body
            add(sig[:ho] + bytes(rng.randrange(256) for _ in range(p.omega + p.K)), m, pk, ["random-hints"])
        # API entry points with hostile lengths / contexts
        api = API_OF[cp]
        if p.mldsa:
            for n in (0, p.sig - 1, p.sig + 1):
                out.append(Case("ml_verify", api, [pk, m, (sig + b"\x00")[:n], b"c"], ["in_domain", "adversarial", "api", "crate-only"]))
                out.append(Case("ml_prehash_verify", api, [pk, m, (sig + b"\x00")[:n], 0, 1], ["in_domain", "adversarial", "api", "crate-only"]))
            out.append(Case("ml_verify", api, [pk, m, sig, bytes(300)], ["in_domain", "adversarial", "api", "crate-only"]))
            # every mode x hash x context length (None, 0, 1, around the sizes at which the framed message M' crosses 256/300/320
            # bytes, 255, and over-long), with a random-byte signature and with a mutated genuine one; signing likewise
            rb = bytes(rng.randrange(256) for _ in range(p.sig))
            for cl in (None, 0, 1, 190, 191, 192, 222, 223, 224, 225, 243, 244, 245, 254, 255, 256):
                ctx = 0 if cl is None else bytes(rng.randrange(256) for _ in range(cl))
                mm = bytes(rng.randrange(256) for _ in range(rng.choice([0, 1, 64, 200, 1024 - 2, 2048 - 2 - (cl or 0), 2048 - (cl or 0) + 1, 2040, 2048, 4096 - 2 - (cl or 0), 4096, 65536 - 2])))
                tg = ["in_domain", "adversarial", "api", "ctx-grid"]
                out.append(Case("ml_verify", api, [pk, mm, rb, ctx], tg + ["crate-only"]))
                for ph in (0, 1):
                    out.append(Case("ml_prehash_verify", api, [pk, mm, rb, ctx, ph], tg + ([] if cl in (224, 255) else ["crate-only"])))
                    out.append(Case("ml_prehash_sign", api, [sk, mm, ctx, 0, ph, b""], tg + ["sign", "crate-only"]))
                out.append(Case("ml_sign", api, [sk, mm, ctx, 1, bytes(rng.randrange(256) for _ in range(32))], tg + ["sign", "crate-only"]))
        else:
            for n in (0, p.sig - 1, p.sig + 1):
                out.append(Case("api_verify", api, [pk, m, (sig + b"\x00")[:n]], ["in_domain", "adversarial", "api", "crate-only"]))
        # sampler refill paths through the XOF tap (no real seed reaches them with useful probability)
        rej = 0xFF if p.eta == 2 else 0x9A
        for tape in (bytes([rej] * 100) + bytes(rng.randrange(256) for _ in range(136 * 6 - 100)),
                     bytes([rej] * (136 * 3)) + bytes(rng.randrange(256) for _ in range(136 * 4)),
                     bytes(rng.randrange(256) for _ in range(136 * 3))):
            out.append(Case("uniform_eta_tap", cp, [tape], ["in_domain", "adversarial", "refill"]))
        out.append(Case("challenge_tap", cp, [bytes(8) + bytes([255] * 200) + bytes(rng.randrange(0, 190) for _ in range(136 * 3))], ["in_domain", "adversarial", "refill"]))
        # honest path, both builds
        for seed in (bytes(32), bytes([255] * 32), bytes(rng.randrange(256) for _ in range(32))):
            out.append(Case("keypair", cp, [seed], ["in_domain", "honest", "crate-only"]))
        for n in (0, 1, 200):
            out.append(Case("signature", cp, [bytes(p.sig), bytes(rng.randrange(256) for _ in range(n)), sk, 0, b""], ["in_domain", "honest", "crate-only"]))
    return out


def nontrivial(c, out):
    return "adversarial" in c.tags


def oracle(c, outs):
    if c.fn in ("verify", "ml_verify", "ml_prehash_verify", "api_verify") and outs[0] not in (0, 1):
        return "verification returned a non-boolean"
    return None


def extra(rep, cov, tier, rng):
    """Honest-path volume in both builds: key generation from many seeds (and a signature + verification every 50 keys) under
    catch_unwind; rare sampler branches (refills) and rounding boundaries only occur once per 10^4..10^5 seeds."""
    from concurrent.futures import ThreadPoolExecutor
    from dlib import crate
    per = 60000 if tier == "quick" else 1500000
    calls = []
    for cp in ALL:
        for sh in range(4):
            calls.append((("keygen_volume", cp, [rng.randrange(1 << 60), per // 4, 50]), sh == 0))
    with ThreadPoolExecutor(max_workers=16) as ex:
        res = list(ex.map(lambda c: crate([c[0]], dev=c[1])[0], calls))
    total = 0
    for (cl, dev), r in zip(calls, res):
        total += cl[2][1]
        case = {"fn": "keygen_volume", "copy": cl[1], "args": [str(a) for a in cl[2]], "profile": "dev" if dev else "release"}
        if r is None:
            rep.violation("key generation volume probe aborted (%s)" % cl[1], {"cases": [case]}, True)
        elif r[0] != 0 or r[2] != 0:
            rep.violation("%d of %d seeded key generations panic (%s, %s build), first seed %s; %d sign/verify failures" %
                          (r[0], cl[2][1], cl[1], "checked" if dev else "release", r[1].hex(), r[2]),
                          {"cases": [{"fn": "keypair", "copy": cl[1], "args": ["x" + r[1].hex()], "tags": ["in_domain"], "exact": True}]}, True)
    uft = Case("uniform_tap", "-", [bytes([255, 255, 127] * 400) + bytes(rng.randrange(256) for _ in range(168 * 8))], ["in_domain", "adversarial", "refill"])
    cov["honest_keygens"] = total
    cov["evaluations"] = cov.get("evaluations", 0) + total
