"""C06 — emitted signatures respect the rejection bounds that protect the secret key (all modes, six sets)."""
from vcore import Case
from dlib import Q, Par, ALL, API_OF, keygen, decode_sig, decode_sk, cmod
import pyref
from props.c05 import crafted_sk, corpus

RULE = ("signatures produced by the crate in every mode (deterministic; hedged/randomized with the REAL RNG, whose output cannot be predicted; scripted), "
        "with generated keys and with crafted secret keys (t0 at +-2^12) that make the c*t0 and hint-count tests matter; each signature is decoded "
        "with an independent decoder and, using the secret key, y = z - c*s1 is recovered and all conditions are recomputed with the independent Python "
        "arithmetic: ||z|| < gamma1-beta, canonical hints of weight <= omega, ||LowBits(Ay - c s2)|| < gamma2-beta, ||c t0|| < gamma2, "
        "ctilde = H(mu || w1Encode(HighBits(Ay))). A subset is also byte-compared with the model. Non-trivial = every distinct signature.")
ASSUMPTIONS = ["keys/messages/randomness sampled; the conditions are recomputed independently of the crate and of the Coq model"]
TIMEOUT = {"quick": 1500, "thorough": 3400}


def gen(tier, rng):
    out = []
    n = 12 if tier == "quick" else 600
    for cp in ALL:
        p = Par(cp)
        pk, sk = keygen(cp, bytes(rng.randrange(256) for _ in range(32)))
        keys = [(sk, "generated-key")]
        for mode in ("mixed", "mixed"):
            csk = crafted_sk(p, sk, rng, mode)
            # keep crafted keys only if the independent signer terminates quickly on a probe message
            if pyref.sign(p, csk, b"probe", max_attempts=40) is not None:
                keys.append((csk, "crafted-key"))
        for k, (skk, ktag) in enumerate(keys):
            for i in range(n if k == 0 else max(2, n // 4)):
                m = bytes(rng.randrange(256) for _ in range(rng.choice([0, 1, 33, 94, 104, 200])))
                if ktag == "crafted-key" and pyref.sign(p, skk, m, max_attempts=60) is None:
                    continue
                out.append(Case("signature_live", cp, [m, skk, 0], ["in_domain", "deterministic", ktag, "crate-only"], skip_release=(i % 2 == 0)))
                if ktag == "generated-key":
                    out.append(Case("signature_live", cp, [m, skk, 1], ["in_domain", "live-rng", ktag, "crate-only"], skip_release=True))
        # one model-compared case per set (cheap message found with the Python signer)
        best = min((bytes(rng.randrange(256) for _ in range(10)) for _ in range(10)), key=lambda mm: len(pyref.sign(p, sk, mm, want_trace=True)[1]))
        out.append(Case("signature", cp, [bytes(p.sig), best, sk, 0, b""], ["in_domain", "deterministic", "model-compared"]))
    # kernel dependency: the low-bits test uses Decompose; its wrap-around bucket (a > q-1-gamma2, where r1 becomes 0 and r0 is
    # lowered by one) is reached by about 1 coefficient in 32..88, and the bound gamma2-beta is missed by ONE there if the fix-up is lost
    from dlib import LEVEL_OF, Q as _Q
    for lv in ("lvl2", "lvl3", "lvl5"):
        pp = Par(lv)
        for a in [_Q - 1, _Q - 2, _Q - pp.g2, _Q - pp.g2 - 1, _Q - pp.g2 + 1, _Q - 1 - pp.g2 + pp.beta, _Q - pp.g2 + pp.beta, _Q - 1 - (pp.g2 - pp.beta), _Q - (pp.g2 - pp.beta),
                  0, 1, pp.g2, pp.g2 + 1, 2 * pp.g2] + [rng.randrange(_Q - pp.g2, _Q) for _ in range(12)] + [rng.randrange(_Q) for _ in range(12)]:
            r1, r0 = pyref.decompose(pp, a)
            out.append(Case("decompose", lv, [a], ["in_domain", "kernel-dependency"], aux=("decompose", r0, r1)))
    # committed rare-path corpus: attempts rejected only by ||c*t0|| >= gamma2, and rejection chains of 37..165 attempts
    for name, tag in (("c05_ct0_rejections.json", "cause-ct0"), ("c05_long_chains.json", "long-chain"), ("c05_very_long_chains.json", "very-long-chain")):
        for e in corpus(name):
            out.append(Case("signature_live", e["set"], [bytes.fromhex(e["msg"]), bytes.fromhex(e["sk"]), 0],
                            ["in_domain", "deterministic", "crafted-key", tag, "corpus", "crate-only"]))
    return out


def nontrivial(c, out):
    return True


def check_sig(p, sk, m, sig):
    rho, key, tr, s1, s2, t0 = decode_sk(p, sk)
    if len(sig) != p.sig:
        return "signature length %d" % len(sig)
    ct, z, h = decode_sig(p, sig)
    if h is None:
        return "hint section is not canonical"
    if sum(sum(r) for r in h) > p.omega:
        return "more than omega hints"
    zmax = max(abs(x) for poly in z for x in poly)
    if zmax >= p.g1 - p.beta:
        return "||z|| = %d >= gamma1 - beta = %d" % (zmax, p.g1 - p.beta)
    c = pyref.sample_in_ball(p, ct)
    ch = pyref.ntt(c)
    y = [pyref.psub([x % Q for x in zi], pyref.intt(pyref.pmul(ch, pyref.ntt(s)))) for zi, s in zip(z, s1)]
    if max(abs(cmod(x)) for poly in y for x in poly) > p.g1:
        return "recovered y outside the mask range"
    A = pyref.expand_a(p, rho)
    w = [pyref.intt(x) for x in pyref.matvec(A, [pyref.ntt(v) for v in y])]
    cs2 = [pyref.intt(pyref.pmul(ch, pyref.ntt(s))) for s in s2]
    ct0 = [pyref.intt(pyref.pmul(ch, pyref.ntt(t))) for t in t0]
    lb = max(abs(pyref.lowbits(p, x)) for a, b in zip(w, cs2) for x in pyref.psub(a, b))
    if lb >= p.g2 - p.beta:
        return "||LowBits(Ay - c s2)|| = %d >= gamma2 - beta = %d" % (lb, p.g2 - p.beta)
    c0 = max(abs(cmod(x)) for poly in ct0 for x in poly)
    if c0 >= p.g2:
        return "||c t0|| = %d >= gamma2 = %d" % (c0, p.g2)
    mu = pyref.H(bytes(tr) + bytes(m), 64)
    w1 = [[pyref.highbits(p, x) for x in poly] for poly in w]
    if ct != pyref.H(mu + pyref.w1_encode(p, w1), p.ct):
        return "challenge is not H(mu || w1Encode(HighBits(Ay)))"
    return None


def oracle(c, outs):
    if c.fn == "decompose":
        _, r0, r1 = c.aux
        return None if (outs[0], outs[1]) == (r0, r1) else "decompose/%s(%s) = (a0=%d, a1=%d), the specification gives (r0=%d, r1=%d)" % (c.copy, c.args[0], outs[0], outs[1], r0, r1)
    p = Par(c.copy)
    if c.fn == "signature_live":
        m, sk = bytes.fromhex(c.args[0][1:]), bytes.fromhex(c.args[1][1:])
        sig, lens, drawn = outs
    else:
        m, sk = bytes.fromhex(c.args[1][1:]), bytes.fromhex(c.args[2][1:])
        sig = outs[0]
    e = check_sig(p, sk, m, sig)
    return None if e is None else "%s/%s emitted a signature violating a rejection bound: %s" % (c.fn, c.copy, e)


def extra(rep, cov, tier, rng):
    """Volume probe in the harness: thousands of signatures per set (deterministic and randomized, reused buffer) decoded
    with an independent structural decoder: ||z|| < gamma1-beta, canonical hint section, weight <= omega."""
    from concurrent.futures import ThreadPoolExecutor
    from dlib import crate
    per = 12000 if tier == "quick" else 300000
    shards = 4 if tier == "quick" else 8
    calls = []
    for cp in ALL:
        for sh in range(shards):
            calls.append(("selfcheck", cp, [rng.randrange(1 << 60), per // shards, 400, 0]))
        calls.append(("selfcheck", cp, [rng.randrange(1 << 60), per // 8, 400, 1]))
    with ThreadPoolExecutor(max_workers=16) as ex:
        res = list(ex.map(lambda c: crate([c])[0], calls))
    total = 0
    for cl, r in zip(calls, res):
        total += cl[2][1]
        case = {"fn": "selfcheck", "copy": cl[1], "args": [str(a) for a in cl[2]]}
        if r is None:
            rep.violation("signing panicked during the volume probe (%s) — e.g. more hints than the signature has room for" % cl[1], {"cases": [case]}, True)
        elif r[4] != 0:
            rep.violation("%d of %d emitted signatures (%s) violate a bound: %s; first: key seed %s message %s" %
                          (r[4], cl[2][1], cl[1], "||z|| >= gamma1-beta" if r[5] == 1 else "hint section not canonical / more than omega hints",
                           r[6].hex(), r[7].hex()), {"cases": [case], "first_failure": {"key_seed": r[6].hex(), "message": r[7].hex()}}, True)
    cov["volume_signatures_structurally_checked"] = total
    cov["evaluations"] = cov.get("evaluations", 0) + total
    cov["distinct_nontrivial"] = cov.get("distinct_nontrivial", 0) + total
