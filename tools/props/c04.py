"""C04 — key generation is the specification's function of the seed (six sets, seeded and unseeded)."""
import json, os
from vcore import Case
from dlib import Q, Par, ALL, API_OF, crate, decode_pk, decode_sk, negacyclic_mul
import pyref

RULE = ("seeds all-00, all-FF, single-bit, random, for sign::<set>::keypair and <set>::Keypair::generate; model = crate byte for byte on a subset "
        "(the model is slow), crate = independent FIPS 204 / Dilithium 3.1 KeyGen (Python, hashlib) on all; unseeded generation with a scripted RNG tape "
        "and with the real RNG recorded by the tap: the keys must be KeyGen of exactly the 32 bytes drawn; algebraic relation t1*2^13+t0 = A s1 + s2 by "
        "schoolbook multiplication on decoded keys; committed corpus of seeds for which an s1/s2 polynomial of the eta=4 sets needs a THIRD SHAKE-256 block "
        "(1 seed in 14000; thorough tier searches fresh ones); key generation into over-long, dirty caller buffers (the slice API asks for 'at least' the "
        "standard sizes): the key is the same prefix and the excess bytes are untouched. Non-trivial = every distinct (set, seed).")
ASSUMPTIONS = ["2^256 seeds sampled; the Python reference is the search oracle, the claim rests on the model's theorems and the correspondence"]
TIMEOUT = {"quick": 900, "thorough": 3000}


CORPUS = os.path.join(os.path.dirname(os.path.dirname(os.path.dirname(os.path.abspath(__file__)))), "corpus", "c04_three_block_seeds.json")


def seeds(rng, n):
    s = [bytes(32), bytes([255] * 32)]
    for b in (0, 7, 128, 255):
        x = bytearray(32); x[b // 8] = 1 << (b % 8); s.append(bytes(x))
    while len(s) < n:
        s.append(bytes(rng.randrange(256) for _ in range(32)))
    return s[:n]


def gen(tier, rng):
    out = []
    nm = 3 if tier == "quick" else 12
    for cp in ALL:
        for sd in seeds(rng, nm):
            out.append(Case("keypair", cp, [sd], ["in_domain", "seeded"]))
        out.append(Case("kp_generate", API_OF[cp], [bytes(rng.randrange(256) for _ in range(32))], ["in_domain", "api"]))
        for sd in seeds(rng, 6):   # all-00, all-FF, single-bit seeds through the API wrapper too
            out.append(Case("kp_generate", API_OF[cp], [sd], ["in_domain", "api", "special-seed", "crate-only"]))
        tape = bytes(rng.randrange(256) for _ in range(40))
        out.append(Case("keypair_rand", cp, [tape], ["in_domain", "scripted-rng"]))
        out.append(Case("kp_generate_rand", API_OF[cp], [tape], ["in_domain", "scripted-rng", "api"]))
        # crate-only bulk (oracle = Python reference)
        for sd in seeds(rng, 30 if tier == "quick" else 300)[nm:]:
            out.append(Case("keypair", cp, [sd], ["in_domain", "seeded", "crate-only"]))
        for _ in range(4 if tier == "quick" else 100):
            out.append(Case("keypair_live", cp, [], ["in_domain", "live-rng", "crate-only"], skip_release=True))
        # caller buffers longer than the standard sizes, with arbitrary old content
        p = Par(cp)
        for k, (ep, es) in enumerate(((0, 0), (1, 0), (0, 1), (64, 32), (p.pk, p.sk))):
            sd = bytes(rng.randrange(256) for _ in range(32))
            pk0 = bytes(rng.randrange(256) for _ in range(p.pk + ep)); sk0 = bytes(rng.randrange(256) for _ in range(p.sk + es))
            out.append(Case("keypair_buf", cp, [pk0, sk0, sd], ["in_domain", "seeded", "caller-buffers"] + ([] if k in (1, 3) else ["crate-only"])))
    # rare path: third SHAKE-256 block in the eta = 4 rejection sampler
    three = json.load(open(CORPUS)) if os.path.exists(CORPUS) else []
    seen = set()
    for e in three:
        tags = ["in_domain", "seeded", "three-block-seed", "corpus"] + (["crate-only"] if e["set"] in seen else [])
        seen.add(e["set"])
        out.append(Case("keypair", e["set"], [bytes.fromhex(e["seed"])], tags))
    # rare values: seeds whose t = A*s1 + s2 has a coefficient exactly 0 or exactly q-1 (about 1 seed in 8000 / 10000)
    tv = os.path.join(os.path.dirname(CORPUS), "c04_t_value_seeds.json")
    seen = set()
    for e in (json.load(open(tv)) if os.path.exists(tv) else []):
        key = (e["set"], e["t_value"])
        tags = ["in_domain", "seeded", "t-coefficient-%s" % ("zero" if e["t_value"] == 0 else "q-1"), "corpus"] + (["crate-only"] if key in seen or e["t_value"] else [])
        seen.add(key)
        out.append(Case("keypair", e["set"], [bytes.fromhex(e["seed"])], tags))
    if tier == "thorough":
        for cp, sd in fresh_three_block_seeds(rng, 2):
            out.append(Case("keypair", cp, [sd], ["in_domain", "seeded", "three-block-seed", "crate-only"]))
    return out


TBL4 = [sum(1 for t in (b & 15, b >> 4) if t < 9) for b in range(256)]


def _three_block(job):
    import hashlib, random
    cp, seed, want = job
    p = Par(cp); rng = random.Random(seed); out = []
    for _ in range(60000):
        xi = bytes(rng.randrange(256) for _ in range(32))
        rhop = pyref.H(xi + (bytes([p.K, p.L]) if p.mldsa else b""), 128)[32:96]
        for r in range(p.K + p.L):
            if sum(map(TBL4.__getitem__, hashlib.shake_256(rhop + r.to_bytes(2, "little")).digest(272))) < 256:
                out.append((cp, xi)); break
        if len(out) >= want: break
    return out


def fresh_three_block_seeds(rng, want):
    from concurrent.futures import ProcessPoolExecutor
    jobs = [(cp, rng.getrandbits(64), 1) for cp in ALL if Par(cp).eta == 4 for _ in range(want)]
    with ProcessPoolExecutor(max_workers=8) as ex:
        return [x for part in ex.map(_three_block, jobs) for x in part]


def nontrivial(c, out):
    return True


def oracle(c, outs):
    cp = c.copy
    for k, v in API_OF.items():
        if v == cp and c.fn.startswith("kp_"):
            cp = k
    p = Par(cp)
    if c.fn == "keypair":
        pk, sk = outs
        seed = bytes.fromhex(c.args[0][1:])
    elif c.fn == "keypair_buf":
        pk0, sk0, seed = (bytes.fromhex(c.args[i][1:]) for i in range(3))
        if len(outs[0]) != len(pk0) or len(outs[1]) != len(sk0) or outs[0][p.pk:] != pk0[p.pk:] or outs[1][p.sk:] != sk0[p.sk:]:
            return "keypair/%s wrote outside the standard key sizes of the caller's buffers" % c.copy
        pk, sk = outs[0][:p.pk], outs[1][:p.sk]
    elif c.fn == "kp_generate":
        sk, pk, whole = outs
        seed = bytes.fromhex(c.args[0][1:])
    elif c.fn in ("keypair_rand", "kp_generate_rand"):
        tape = bytes.fromhex(c.args[0][1:])
        if c.fn == "keypair_rand": pk, sk, rest = outs
        else: sk, pk, rest = outs
        if rest != len(tape) - 32:
            return "unseeded generation consumed %d bytes of randomness, expected 32" % (len(tape) - rest)
        seed = tape[:32]
    else:
        pk, sk, lens, drawn = outs
        if lens != [32]:
            return "unseeded generation made RNG requests %s, expected one of 32 bytes" % lens
        seed = drawn
    epk, esk = pyref.keygen(p, seed)
    if len(pk) != p.pk or len(sk) != p.sk:
        return "key sizes %d/%d, standard %d/%d" % (len(pk), len(sk), p.pk, p.sk)
    if pk != epk or sk != esk:
        which = "public" if pk != epk else "secret"
        return "%s/%s: %s key differs from the specification's KeyGen for seed %s" % (c.fn, c.copy, which, seed.hex())
    return None


def _ref_digest(job):
    cp, seed = job
    import hashlib
    pk, sk = pyref.keygen(Par(cp), seed)
    return hashlib.shake_256(pk + sk).digest(32)


def volume(rep, cov, tier, rng):
    """Volume: thousands of seeds per set, crate (digest of pk||sk computed in the harness with the crate's SHAKE) against the
    independent Python KeyGen (computed in a process pool). Rare sampler/rounding boundary events (a rejection-sampling candidate
    equal to q, a coefficient of A*s1 within eta of 0 or q) occur about once per 600..2000 keys."""
    from concurrent.futures import ProcessPoolExecutor
    per = 6000 if tier == "quick" else 60000
    jobs = []
    for cp in ALL:
        for i in range(per):
            jobs.append((cp, (rng.getrandbits(64)).to_bytes(8, "little") + bytes(16) + rng.getrandbits(64).to_bytes(8, "little")))
    with ProcessPoolExecutor(max_workers=16) as ex:
        ref = list(ex.map(_ref_digest, jobs, chunksize=200))
    got = crate([("keypair_digest", cp, [sd]) for cp, sd in jobs])
    bad = 0
    for (cp, sd), r, g in zip(jobs, ref, got):
        if g is None or g[0] != r:
            bad += 1
            if bad <= 3:
                rep.violation("%s: key pair for seed %s differs from the specification's KeyGen" % (cp, sd.hex()),
                              {"cases": [{"fn": "keypair", "copy": cp, "args": ["x" + sd.hex()], "tags": ["in_domain"], "exact": True}]}, True)
    cov["volume_keygens_vs_reference"] = len(jobs)
    cov["evaluations"] = cov.get("evaluations", 0) + len(jobs)
    cov["distinct_nontrivial"] = cov.get("distinct_nontrivial", 0) + len(jobs)


def extra(rep, cov, tier, rng):
    """Algebraic relation on decoded keys (independent of both the model and the Python KeyGen)."""
    volume(rep, cov, tier, rng)
    n = 0
    for cp in ALL:
        p = Par(cp)
        r = crate([("keypair_live", cp, [])], dev=True)[0]
        pk, sk = r[0], r[1]
        rho, t1 = decode_pk(p, pk)
        rho2, key, tr, s1, s2, t0 = decode_sk(p, sk)
        A = pyref.expand_a(p, rho)          # coefficients are in the NTT domain
        ok = rho == rho2 and tr == pyref.H(pk, p.tr) and all(abs(x) <= p.eta for s in s1 + s2 for x in s)
        s1h = [pyref.ntt(s) for s in s1]
        for i in range(p.K):
            acc = [0] * 256
            for j in range(p.L):
                acc = pyref.padd(acc, pyref.pmul(A[i][j], s1h[j]))
            t = pyref.padd(pyref.intt(acc), s2[i])
            if any((t1[i][k] * 8192 + t0[i][k] - t[k]) % Q for k in range(256)):
                ok = False
        n += 1
        if not ok:
            rep.violation("generated key pair violates t1*2^13 + t0 = A s1 + s2 / same rho / tr = H(pk) / |s| <= eta (%s)" % cp,
                          {"cases": [{"fn": "keypair_live", "copy": cp, "args": [], "pk": pk.hex(), "sk": sk.hex()}]}, True)
    cov["algebraic_relation_checks"] = n
    cov["evaluations"] = cov.get("evaluations", 0) + n
