"""C02 — any alteration of signature, message, context, mode or key is rejected."""
from vcore import Case
from dlib import Par, ALL, API_OF, keygen, sign, crate, fmt_arg
import pyref
from props.c07 import mprime

RULE = ("for each set, for valid (pk, M, sig) triples: EVERY single-bit flip of the signature (exhaustive, 8*SIGNBYTES verifications in the crate), "
        "truncation and extension by 1..8 bytes, every single-bit flip and +-1-byte change of short messages, other context / mode / hash (incl. over-long "
        "contexts of 256, 257, 300, 511, 512 bytes against a signature for the framing with the wrapped length byte), another key, "
        "the sibling scheme of equal sizes (Dilithium2 <-> ML-DSA-44, keys of other seeds), EVERY single-bit flip of the public key (exhaustive), crafted cross-mode "
        "messages (OID||H(m) in pure mode against a pre-hash signature and conversely) and framed representatives offered as bare messages; each must be rejected. The model re-evaluates a "
        "stratified sample of the flips (challenge, each z polynomial region, hint indices, counters, padding; each bit position) and must agree. "
        "Non-trivial = every altered input; distinct by (set, altered triple).")
ASSUMPTIONS = ["rejection of altered data is a strong-unforgeability statement resting on SHAKE-256 collision resistance and SelfTargetMSIS; what is "
               "proved are the structural facts (length gate, strict decoding, full challenge comparison, framing injectivity); the negatives are evaluated",
               "a verifier that compares only part of the challenge accepts no bit-flipped genuine signature (the flipped byte still changes the sampled challenge); "
               "it is caught by C03's signatures from a modified signer that alters one byte of the commitment hash, and through the model correspondence"]
TIMEOUT = {"quick": 1500, "thorough": 3400}


def regions(p):
    ho = p.ct + p.L * p.polyz
    r = [("ctilde", 0, p.ct)]
    for i in range(p.L):
        r.append(("z%d" % i, p.ct + i * p.polyz, p.ct + (i + 1) * p.polyz))
    r.append(("hint-indices", ho, ho + p.omega))
    r.append(("hint-counters", ho + p.omega, ho + p.omega + p.K))
    return r


def gen(tier, rng):
    out = []
    for cp in ALL:
        p = Par(cp)
        pk, sk = keygen(cp, bytes(rng.randrange(256) for _ in range(32)))
        m = bytes(rng.randrange(256) for _ in range(20))
        sig = sign(cp, sk, m)
        picks = []
        regs = regions(p)
        for k in range(3 if tier == "quick" else 12):
            name, a, b = regs[(k * 7 + rng.randrange(len(regs))) % len(regs)]
            picks.append((name, rng.randrange(a, b) * 8 + (k % 8)))
        picks.append(("last-bit", p.sig * 8 - 1)); picks.append(("first-bit", 0))
        for name, bit in picks[: (4 if tier == "quick" else 14)]:
            e = bytearray(sig); e[bit // 8] ^= 1 << (bit % 8)
            out.append(Case("verify", cp, [bytes(e), m, pk], ["in_domain", "flip-" + name.rstrip("0123456789")], aux=0))
        out.append(Case("verify", cp, [sig[:-1], m, pk], ["in_domain", "truncated"], aux=0))
        out.append(Case("verify", cp, [sig + b"\x00", m, pk], ["in_domain", "extended"], aux=0))
    return out


def nontrivial(c, out):
    return True


def oracle(c, outs):
    if outs[0] != c.aux:
        return "verification returned %d for an altered input [%s]" % (outs[0], ",".join(c.tags))
    return None


def extra(rep, cov, tier, rng):
    total = 0
    samples = []
    for cp in ALL:
        p = Par(cp)
        api = API_OF[cp]
        nkeys = 1 if tier == "quick" else 4
        for _ in range(nkeys):
            pk, sk = keygen(cp, bytes(rng.randrange(256) for _ in range(32)))
            pk2, sk2 = keygen(cp, bytes(rng.randrange(256) for _ in range(32)))
            for mlen in ((5,) if tier == "quick" else (0, 5, 120)):
                m = bytes(rng.randrange(256) for _ in range(mlen))
                sig = sign(cp, sk, m)
                r = crate([("verify_flips", cp, [sig, m, pk])])[0]
                total += 8 * len(sig)
                if r is None or r[2] != 1 or r[0] != 0:
                    bit = -1 if r is None else r[1]
                    e = bytearray(sig)
                    if bit >= 0: e[bit // 8] ^= 1 << (bit % 8)
                    rep.violation("a signature with bit %d flipped verifies (%d accepted flips), or the genuine one does not (%s)" % (bit, -1 if r is None else r[0], cp),
                                  {"cases": [{"fn": "verify", "copy": cp, "args": [fmt_arg(bytes(e)), fmt_arg(m), fmt_arg(pk)]}]}, True)
                if mlen == 5:
                    # every single-bit flip of the public key (another key that differs from the signer's in one bit only)
                    r = crate([("verify_pk_flips", cp, [sig, m, pk])])[0]
                    total += 8 * len(pk)
                    if r is None or r[2] != 1 or r[0] != 0:
                        bit = -1 if r is None else r[1]
                        e = bytearray(pk)
                        if bit >= 0: e[bit // 8] ^= 1 << (bit % 8)
                        rep.violation("a genuine signature verifies under a public key with bit %d flipped (%d accepted flips), or not under the genuine one (%s)"
                                      % (bit, -1 if r is None else r[0], cp),
                                      {"cases": [{"fn": "verify", "copy": cp, "args": [fmt_arg(sig), fmt_arg(m), fmt_arg(bytes(e))]}]}, True)
                calls, why = [], []
                for k in range(1, 9):
                    calls.append(("verify", cp, [sig[:-k], m, pk])); why.append("truncated by %d" % k)
                    calls.append(("verify", cp, [sig + bytes(k), m, pk])); why.append("extended by %d" % k)
                for i in range(len(m) * 8):
                    e = bytearray(m); e[i // 8] ^= 1 << (i % 8)
                    calls.append(("verify", cp, [sig, bytes(e), pk])); why.append("message bit %d flipped" % i)
                if mlen == 5:
                    # long messages: tr || M crosses one and two SHAKE-256 blocks with tails of every length mod 8; every bit of
                    # the last 16 bytes and of the first 2 bytes is flipped
                    for ln in (104 + rng.randrange(8), 150 + rng.randrange(8), 2 * 136 + 9 + rng.randrange(8)):
                        lm = bytes(rng.randrange(256) for _ in range(ln))
                        ls = sign(cp, sk, lm)
                        calls.append(("verify", cp, [ls, lm, pk])); why.append("GENUINE")
                        for i in list(range(16)) + list(range(ln * 8 - 128, ln * 8)):
                            e = bytearray(lm); e[i // 8] ^= 1 << (i % 8)
                            calls.append(("verify", cp, [ls, bytes(e), pk])); why.append("bit %d of a %d-byte message flipped" % (i, ln))
                if len(m) > 0:      # the empty message has no proper prefix (m[:-1] would be m itself)
                    calls.append(("verify", cp, [sig, m[:-1], pk])); why.append("message truncated")
                calls.append(("verify", cp, [sig, m + b"\x00", pk])); why.append("message extended")
                calls.append(("verify", cp, [sig, m, pk2])); why.append("other public key (other seed)")
                # sibling scheme of equal key/signature sizes
                sib = {"lvl2": "ml_dsa_44", "ml_dsa_44": "lvl2"}.get(cp)
                if sib:
                    calls.append(("verify", sib, [sig, m, pk])); why.append("sibling scheme %s" % sib)
                res = crate(calls)
                for cl, w, r in zip(calls, why, res):
                    total += 1
                    if w == "GENUINE":
                        if r is None or r[0] != 1:
                            rep.violation("a genuine signature on a long message does not verify (%s)" % cp,
                                          {"cases": [{"fn": cl[0], "copy": cl[1], "args": [fmt_arg(a) for a in cl[2]]}]}, True)
                        continue
                    if r is None or r[0] != 0:
                        rep.violation("altered input verifies: %s (%s)" % (w, cp),
                                      {"cases": [{"fn": cl[0], "copy": cl[1], "args": [fmt_arg(a) for a in cl[2]]}]}, True)
                samples.append({"set": cp, "sig_bit_flips": 8 * len(sig), "other_alterations": len(calls)})
        if p.mldsa:
            # other context / mode / hash through the API
            pk, sk = keygen(cp, bytes(rng.randrange(256) for _ in range(32)))
            m = bytes(rng.randrange(256) for _ in range(40))
            ds = [("pure", None), ("pure", b"a"), ("pure", b"ab"), ("sha256", None), ("sha256", b"a"), ("sha512", None), ("sha512", b"a")]
            sigs = [pyref.sign(p, sk, mprime(mode, ctx, m)) for mode, ctx in ds]
            calls, why = [], []
            for i, (mode, ctx) in enumerate(ds):
                for j, (mode2, ctx2) in enumerate(ds):
                    if i == j or mprime(mode, ctx, m) == mprime(mode2, ctx2, m): continue
                    c2 = ctx2 if ctx2 is not None else 0
                    calls.append(("ml_verify", api, [pk, m, sigs[i], c2]) if mode2 == "pure" else
                                 ("ml_prehash_verify", api, [pk, m, sigs[i], c2, 0 if mode2 == "sha256" else 1]))
                    why.append("signed under (%s,%r) verified under (%s,%r)" % (mode, ctx, mode2, ctx2))
            # crafted cross-mode messages: a pre-hash signature on m must not verify in pure mode on the message OID||H(m) under the
            # same context (the framings differ in the mode byte only), and conversely; and the framed representative itself,
            # offered as a bare message without context, must not verify (a verifier must not fall back to an unframed message)
            from props.c07 import OID as _OID
            import hashlib as _h
            for ctx in (None, b"", b"ctx", bytes(rng.randrange(256) for _ in range(255))):
                c = ctx if ctx is not None else 0
                for ph, hf in ((0, _h.sha256), (1, _h.sha512)):
                    mode = "sha256" if ph == 0 else "sha512"
                    crafted = _OID[ph] + hf(m).digest()
                    sg_pre = pyref.sign(p, sk, mprime(mode, ctx, m))
                    sg_pure = pyref.sign(p, sk, mprime("pure", ctx, crafted))
                    calls.append(("ml_verify", api, [pk, crafted, sg_pre, c])); why.append("pre-hash signature (%s, ctx %r) verified in pure mode on OID||H(m)" % (mode, ctx))
                    calls.append(("ml_prehash_verify", api, [pk, m, sg_pure, c, ph])); why.append("pure signature on OID||H(m) (ctx %r) verified in pre-hash mode %s" % (ctx, mode))
                    calls.append(("ml_verify", api, [pk, mprime(mode, ctx, m), sg_pre, 0])); why.append("pre-hash signature verified in pure mode without context on its own framed representative")
                sg = pyref.sign(p, sk, mprime("pure", ctx, m))
                if ctx:
                    calls.append(("ml_verify", api, [pk, mprime("pure", ctx, m), sg, 0])); why.append("signature under ctx %r verified without context on its own framed representative" % ctx)
                calls.append(("verify", cp, [sg, m, pk])); why.append("API signature (ctx %r) verified by the core verifier on the bare message" % ctx)
            bare = pyref.sign(p, sk, m)
            calls.append(("ml_verify", api, [pk, m, bare, 0])); why.append("core signature on the bare message verified through the API without context")
            # a context longer than 255 bytes is a different (invalid) context: a signature for (ctx = X[:n mod 256] .., message = rest)
            # whose framed bytes coincide with the wrapped-length framing of (ctx = X, M) must not verify under (X, M)
            from props.c07 import OID
            import hashlib
            for n in (256, 257, 300, 511, 512):
                ctx = bytes(rng.randrange(256) for _ in range(n))
                for mode in ("pure", "sha256", "sha512"):
                    tail = m if mode == "pure" else OID[0 if mode == "sha256" else 1] + (hashlib.sha256(m).digest() if mode == "sha256" else hashlib.sha512(m).digest())
                    wrapped = bytes([0 if mode == "pure" else 1, n % 256]) + ctx + tail
                    sg = pyref.sign(p, sk, wrapped)
                    calls.append(("ml_verify", api, [pk, m, sg, ctx]) if mode == "pure" else ("ml_prehash_verify", api, [pk, m, sg, ctx, 0 if mode == "sha256" else 1]))
                    why.append("signature for the framing with length byte %d verified under a %d-byte context (%s)" % (n % 256, n, mode))
            for cl, w, r in zip(calls, why, crate(calls)):
                total += 1
                if r is None or r[0] != 0:
                    rep.violation("altered descriptor verifies: %s (%s)" % (w, cp),
                                  {"cases": [{"fn": cl[0], "copy": cl[1], "args": [fmt_arg(a) for a in cl[2]]}]}, True)
    cov["alterations_evaluated_in_crate"] = total
    cov["evaluations"] = cov.get("evaluations", 0) + total
    cov["distinct_nontrivial"] = cov.get("distinct_nontrivial", 0) + total
    cov["samples"].extend(samples[:6])
