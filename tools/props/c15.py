"""C15 — rounding and hints: power2round, decompose, make_hint, use_hint (3 rounding copies), the six
per-set polynomial copies and the three vector copies (k_decompose, k_make_hint, k_use_hint)."""
from vcore import Case
from dlib import Q, Par, LEVELS, ALL, LEVEL_OF, decompose as ref_decompose, flat

RULE = ("scalar functions: every multiple of gamma2 +-{0,1,2}, 0, q-1, q-gamma2+-1, every k*128+-1 neighbourhood of the "
        "magic-constant step at the a1 boundaries, a mod 2^13 in {4095,4096,4097,0,8191}; make_hint: a0 in {-G-1,-G,-G+1,-1,0,1,G-1,G,G+1} "
        "and random |a0|<2G x every w1 in [0,m); use_hint: boundary a x h in {0,1}; hint round trip on (w1,a0) pairs; stride/random fill. "
        "Polynomial and vector copies: polynomials made of the boundary values. Non-trivial = tagged boundary case; distinct (fn,copy,input).")
SOURCE_TIE = "kernels"   # C14/C15 are also stated about the translated text of reduce.rs / rounding*.rs (GenK.v)
ASSUMPTIONS = ["[0,q) is enumerated at all boundaries and sampled elsewhere in the quick tier; the theorems cover it entirely for the model"]
TIMEOUT = {"quick": 300, "thorough": 2400}
GS = {"lvl2": 95232, "lvl3": 261888, "lvl5": 261888}


def boundary_a(G):
    s = set([0, 1, 2, Q - 1, Q - 2, Q - G - 2, Q - G - 1, Q - G, Q - G + 1, Q - G + 2])
    k = 0
    while k * G < Q + 3:
        for d in (-2, -1, 0, 1, 2):
            v = k * G + d
            if 0 <= v < Q:
                s.add(v)
        k += 1
    return sorted(s)


def gen(tier, rng):
    out = []
    n = 4000 if tier == "quick" else 400000
    # power2round
    for a in sorted(set([0, 1, Q - 1, Q - 2] + [k * 8192 + d for k in (0, 1, 2, 511, 1022, 1023) for d in (0, 1, 4095, 4096, 4097, 8191)]
                        + [rng.randrange(Q) for _ in range(n)])):
        if 0 <= a < Q:
            out.append(Case("power2round", "-", [a], ["in_domain"] + (["p2r-boundary"] if a % 8192 in (0, 1, 4095, 4096, 4097, 8191) else [])))
    for lv in LEVELS:
        G = GS[lv]
        m = 44 if lv == "lvl2" else 16
        alpha = 2 * G
        bs = boundary_a(G)
        for a in bs:
            out.append(Case("decompose", lv, [a], ["in_domain", "gamma-boundary"]))
            for h in (0, 1):
                out.append(Case("use_hint", lv, [a, h], ["in_domain", "gamma-boundary"]))
        for _ in range(n):
            a = rng.randrange(Q)
            out.append(Case("decompose", lv, [a], ["in_domain"]))
            out.append(Case("use_hint", lv, [a, rng.randrange(2)], ["in_domain"]))
        # magic-constant step: values of a around every change of the final a1
        for a1 in range(m + 1):
            for d in range(-130, 131, 13):
                a = a1 * alpha - G + d
                if 0 <= a < Q:
                    out.append(Case("decompose", lv, [a], ["in_domain", "magic-boundary"]))
        # make_hint and the round trip
        for w1 in range(m):
            for a0 in [-G - 1, -G, -G + 1, -1, 0, 1, G - 1, G, G + 1, -alpha + 1, alpha - 1] + [rng.randrange(-alpha + 1, alpha) for _ in range(max(4, n // 400))]:
                tag = ["in_domain"] + (["hint-boundary"] if abs(abs(a0) - G) <= 1 or abs(a0) <= 1 else [])
                out.append(Case("make_hint", lv, [a0, w1], tag))
                out.append(Case("hint_roundtrip", lv, [w1, a0], tag))
    # polynomial and vector copies on boundary-rich polynomials
    for cp in ALL:
        lv = LEVEL_OF[cp]
        G = GS[lv]
        m = 44 if lv == "lvl2" else 16
        bs = boundary_a(G)
        for r in range(2 if tier == "quick" else 20):
            a = [bs[(i * 7 + r * 31) % len(bs)] if i % 2 == 0 else rng.randrange(Q) for i in range(256)]
            h = [rng.randrange(2) for _ in range(256)]
            a0 = [rng.choice([-G - 1, -G, -G + 1, 0, G, G + 1, rng.randrange(-2 * G + 1, 2 * G)]) for _ in range(256)]
            a1 = [rng.randrange(m) for _ in range(256)]
            out.append(Case("poly_decompose", cp, [a], ["in_domain", "poly"]))
            az = list(a)
            for _ in range(6): az[rng.randrange(256)] = rng.choice([0, 0, 1, Q - 1, G, Q - 1 - G])
            out.append(Case("poly_decompose", cp, [az], ["in_domain", "poly", "zeros"]))
            out.append(Case("poly_use_hint", cp, [a, h], ["in_domain", "poly"]))
            out.append(Case("poly_use_hint", cp, [a, [0] * 256], ["in_domain", "poly", "no-hint"]))       # hint-free polynomial: HighBits
            out.append(Case("poly_use_hint_ip", cp, [a, [0] * 256], ["in_domain", "poly", "no-hint"]))
            one = [0] * 256; one[rng.randrange(256)] = 1
            out.append(Case("poly_use_hint", cp, [a, one], ["in_domain", "poly", "single-hint"]))
            out.append(Case("poly_use_hint_ip", cp, [a, h], ["in_domain", "poly"]))
            out.append(Case("poly_make_hint", cp, [a0, a1], ["in_domain", "poly"]))
    for lv in LEVELS:
        p = Par(lv)
        G = p.g2
        bs = boundary_a(G)
        for r in range(2 if tier == "quick" else 10):
            v = [[bs[(i * 5 + j * 11 + r) % len(bs)] if (i + j) % 3 else rng.randrange(Q) for i in range(256)] for j in range(p.K)]
            dirty = [[rng.randrange(-5, 5) for _ in range(256)] for _ in range(p.K)]
            h = [[rng.randrange(2) for _ in range(256)] for _ in range(p.K)]
            v0 = [[rng.choice([-G - 1, -G, -G + 1, 0, G, G + 1, rng.randrange(-2 * G + 1, 2 * G)]) for _ in range(256)] for _ in range(p.K)]
            v1 = [[rng.randrange(p.m) for _ in range(256)] for _ in range(p.K)]
            out.append(Case("k_decompose", lv, [flat(v), flat(dirty)], ["in_domain", "vec"]))
            vz = [list(x) for x in v]
            for x in vz:
                for _ in range(4): x[rng.randrange(256)] = rng.choice([0, 0, 1, Q - 1])
            big_dirty = [[rng.randrange(-Q + 1, Q) for _ in range(256)] for _ in range(p.K)]
            out.append(Case("k_decompose", lv, [flat(vz), flat(big_dirty)], ["in_domain", "vec", "zeros"]))
            out.append(Case("k_power2round", lv, [flat(v), flat(dirty)], ["in_domain", "vec"]))
            out.append(Case("k_use_hint", lv, [flat(v), flat(h)], ["in_domain", "vec"]))
            hs = [[0] * 256 for _ in range(p.K)]          # sparse hints with one hint-free component (what real signatures look like)
            skip = rng.randrange(p.K)
            for _ in range(p.omega):
                i = rng.randrange(p.K)
                if i != skip: hs[i][rng.randrange(256)] = 1
            out.append(Case("k_use_hint", lv, [flat(v), flat(hs)], ["in_domain", "vec", "no-hint-component"]))
            out.append(Case("k_use_hint", lv, [flat(v), [0] * (256 * p.K)], ["in_domain", "vec", "no-hint"]))
            out.append(Case("k_make_hint", lv, [flat(v0), flat(v1)], ["in_domain", "vec"]))
    # hint_roundtrip is evaluated by the oracle from make_hint/use_hint answers: expand into two cases
    exp = []
    for c in out:
        if c.fn == "hint_roundtrip":
            w1, a0 = int(c.args[0]), int(c.args[1])
            G = GS[c.copy]
            r = (w1 * 2 * G + a0) % Q
            hb = 1 if (a0 > G or a0 < -G or (a0 == -G and w1 != 0)) else 0     # what make_hint must return (checked separately)
            exp.append(Case("use_hint", c.copy, [r, hb], list(c.tags) + ["roundtrip"], aux=w1))
        else:
            exp.append(c)
    return exp


def nontrivial(c, out):
    return any(t.endswith("boundary") or t in ("poly", "vec") or t == "roundtrip" for t in c.tags)


def oracle(c, outs):
    if c.fn == "power2round":
        a = int(c.args[0]); a0, a1 = outs
        if a != a1 * 8192 + a0 or not (-4096 < a0 <= 4096):
            return "power2round(%d) = (%d,%d)" % (a, a0, a1)
    elif c.fn == "decompose":
        a = int(c.args[0]); a0, a1 = outs
        G = GS[c.copy]
        r1, r0 = ref_decompose(a, G)
        if (a1, a0) != (r1, r0):
            return "decompose(%d) = (a0=%d,a1=%d), specification gives (r0=%d,r1=%d)" % (a, a0, a1, r0, r1)
    elif c.fn == "use_hint":
        a, h = int(c.args[0]), int(c.args[1])
        G = GS[c.copy]; m = 44 if c.copy == "lvl2" else 16
        r1, r0 = ref_decompose(a, G)
        exp = r1 if h == 0 else ((r1 + 1) % m if r0 > 0 else (r1 - 1) % m)
        if outs[0] != exp:
            return "use_hint(%d,%d) = %d, specification gives %d" % (a, h, outs[0], exp)
        if c.aux is not None and outs[0] != c.aux:
            return "hint round trip: use_hint(%d,%d) = %d but the signer's high part is %d" % (a, h, outs[0], c.aux)
    elif c.fn == "make_hint":
        a0, a1 = int(c.args[0]), int(c.args[1])
        G = GS[c.copy]
        r = (a1 * 2 * G + a0) % Q
        exp = 0 if ref_decompose(r, G)[0] == a1 else 1
        if outs[0] != exp:
            return "make_hint(%d,%d) = %d, specification MakeHint gives %d" % (a0, a1, outs[0], exp)
    elif c.fn == "k_decompose":
        lv = c.copy; p = Par(lv)
        v = [int(x) for x in c.args[0][1:].split(",")]
        hi, lo = outs
        for i, a in enumerate(v):
            r1, r0 = ref_decompose(a, p.g2)
            if hi[i] != r1 or lo[i] != r0:
                return "k_decompose: coefficient %d of input %d: first operand %d second %d, expected high %d low %d" % (i, a, hi[i], lo[i], r1, r0)
    return None


def extra(rep, cov, tier, rng):
    """Sweeps: checksum of outputs over whole ranges, model vs crate, plus the predicate evaluated by the harness on every
    input. Thorough: EXHAUSTIVE over [0,q) (power2round, decompose, use_hint x {0,1}) and over all (w1, a0) with |a0| < 2*gamma2
    (make_hint); quick: a few random windows of 50 000 values."""
    from vcore import MODELRUN, DVH_REL, DVH_DEV, run_runner
    lines, meta = [], []
    def add(fnid, copy, fixed, lo, hi):
        lines.append("%d sweep %s i%d %d %d %d" % (len(lines), copy, fnid, fixed, lo, hi)); meta.append((fnid, copy, fixed, lo, hi))
    if tier == "thorough":
        CH = 262144
        for lo in range(0, Q, CH):
            hi = min(Q, lo + CH)
            add(0, "-", 0, lo, hi)
            for lv in LEVELS:
                add(1, lv, 0, lo, hi); add(4, lv, 0, lo, hi); add(4, lv, 1, lo, hi)
        for lv in LEVELS:
            G = GS[lv]; m = 44 if lv == "lvl2" else 16
            for w1 in range(m):
                add(5, lv, w1, -2 * G + 1, 2 * G)
    else:
        for _ in range(3):
            lo = rng.randrange(0, Q - 50000)
            add(0, "-", 0, lo, lo + 50000)
            for lv in LEVELS:
                add(1, lv, 0, lo, lo + 50000); add(4, lv, rng.randrange(2), lo, lo + 50000)
        for lv in LEVELS:
            G = GS[lv]
            add(1, lv, 0, Q - 60000, Q); add(4, lv, 1, Q - 60000, Q); add(5, lv, rng.randrange(44 if lv == "lvl2" else 16), -G - 25000, -G + 25000)
    (m, _), (d, _), (r, _) = run_runner(MODELRUN, lines, 16, 3000), run_runner(DVH_DEV, lines, 8, 3000), run_runner(DVH_REL, lines, 8, 3000)
    total = 0
    names = ["power2round", "decompose", "caddq", "reduce32", "use_hint", "make_hint"]
    for i, (fnid, copy, fixed, lo, hi) in enumerate(meta):
        total += hi - lo
        mo, do, ro = m.get(i, "").split(), d.get(i, "").split(), r.get(i, "").split()
        case = {"fn": "sweep", "copy": copy, "args": ["i%d" % fnid, str(fixed), str(lo), str(hi)]}
        if len(do) < 5 or do[0] != "ok" or do != ro:
            rep.violation("sweep of %s/%s over [%d,%d): checked and release builds differ or failed" % (names[fnid], copy, lo, hi), {"cases": [case]}, False)
        elif int(do[3]) != 0:
            rep.violation("%s/%s violates its specification at input %s (fixed argument %d); %s failing inputs in [%d,%d)" %
                          (names[fnid], copy, do[4], fixed, do[3], lo, hi),
                          {"cases": [{"fn": names[fnid], "copy": copy, "args": [do[4], str(fixed)] if fnid >= 4 else [do[4]]}]}, True)
        elif mo[:3] != do[:3]:
            rep.violation("sweep of %s/%s over [%d,%d): crate output checksum differs from the model's" % (names[fnid], copy, lo, hi),
                          {"cases": [case], "broken": ["correspondence %s/%s" % (names[fnid], copy)]}, False)
    cov["swept_inputs"] = total
    cov["exhaustive"] = (tier == "thorough")
    cov["evaluations"] = cov.get("evaluations", 0) + total
