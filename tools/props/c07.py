"""C07 — ML-DSA context and mode framing (ml_dsa_{44,65,87}::{sign, prehash_sign, verify, prehash_verify})."""
import hashlib
from vcore import Case, MODELRUN
from dlib import Par, API_OF, keygen, crate, run_lines, fmt_arg

RULE = ("descriptors (mode in {pure, SHA-256, SHA-512}, ctx of length 0, 1, 254, 255 and None; 256 and 300 for the length gate, message lengths 0..300 "
        "incl. pairs with equal ctx||M but different split, and messages equal to another message's digest). For each descriptor the deterministic API "
        "signature must equal the core signature over the Python-computed representative M' (0||len||ctx||M resp. 1||len||ctx||OID||H(M)), the API "
        "verifier must agree with the core verifier on M', and every ordered pair of distinct descriptors must cross-reject. The model's frame_pure/"
        "frame_hash (about which the theorems speak) are compared with the same Python M'. Non-trivial = every descriptor pair; distinct by descriptor.")
ASSUMPTIONS = ["'never verifies under another descriptor' beyond M'1 <> M'2 rests on SHAKE-256 collision resistance (not a theorem)"]
TIMEOUT = {"quick": 600, "thorough": 2400}
ML = ["ml_dsa_44", "ml_dsa_65", "ml_dsa_87"]
OID = {0: bytes([6, 9, 0x60, 0x86, 0x48, 1, 0x65, 3, 4, 2, 1]), 1: bytes([6, 9, 0x60, 0x86, 0x48, 1, 0x65, 3, 4, 2, 3])}


def mprime(mode, ctx, msg):
    c = ctx if ctx is not None else b""
    if mode == "pure":
        return bytes([0, len(c)]) + c + msg
    ph = 0 if mode == "sha256" else 1
    d = hashlib.sha256(msg).digest() if ph == 0 else hashlib.sha512(msg).digest()
    return bytes([1, len(c)]) + c + OID[ph] + d


def descriptors(rng, tier):
    ds = []
    msgs = [b"", b"a", bytes(rng.randrange(256) for _ in range(33)), bytes(rng.randrange(256) for _ in range(200))]
    ctxs = [None, b"", b"\x00", bytes(rng.randrange(256) for _ in range(254)), bytes(rng.randrange(256) for _ in range(255))]
    for mode in ("pure", "sha256", "sha512"):
        for ctx in ctxs:
            ds.append((mode, ctx, rng.choice(msgs)))
    # messages whose length equals a digest size (32, 48, 64, 28) or OID + digest size: they are messages like any other
    for n in (32, 64, 48, 28, 43, 75):
        mm = bytes(rng.randrange(256) for _ in range(n))
        for mode in ("sha256", "sha512"):
            ds.append((mode, rng.choice([None, b"", b"c"]), mm))
    # equal concatenation, different split
    blob = bytes(rng.randrange(256) for _ in range(40))
    for k in (0, 1, 7, 39, 40):
        ds.append(("pure", blob[:k], blob[k:]))
        ds.append(("sha256", blob[:k], blob[k:]))
    # a raw message equal to OID||digest of another
    m = bytes(rng.randrange(256) for _ in range(50))
    ds.append(("sha256", b"ctx", m)); ds.append(("pure", b"ctx", OID[0] + hashlib.sha256(m).digest()))
    ds.append(("sha512", b"ctx", m)); ds.append(("pure", b"ctx", OID[1] + hashlib.sha512(m).digest()))
    if tier == "thorough":
        for _ in range(60):
            ds.append((rng.choice(["pure", "sha256", "sha512"]), bytes(rng.randrange(256) for _ in range(rng.randrange(0, 256))),
                       bytes(rng.randrange(256) for _ in range(rng.randrange(0, 300)))))
    return ds


def call_sign(api, sk, d, hedged=0, tape=b""):
    mode, ctx, msg = d
    c = ctx if ctx is not None else 0
    if mode == "pure":
        return ("ml_sign", api, [sk, msg, c, hedged, tape])
    return ("ml_prehash_sign", api, [sk, msg, c, hedged, 0 if mode == "sha256" else 1, tape])


def call_verify(api, pk, d, sig):
    mode, ctx, msg = d
    c = ctx if ctx is not None else 0
    if mode == "pure":
        return ("ml_verify", api, [pk, msg, sig, c])
    return ("ml_prehash_verify", api, [pk, msg, sig, c, 0 if mode == "sha256" else 1])


def gen(tier, rng):
    """Model-vs-crate cases: the length gate (no signing needed) and a few verifications."""
    out = []
    for cp in ML:
        p = Par(cp)
        pk, sk = keygen(cp, bytes(rng.randrange(256) for _ in range(32)))
        for n in (256, 300):
            ctx = bytes(rng.randrange(256) for _ in range(n))
            out.append(Case("ml_sign", cp, [sk, b"msg", ctx, 0, b""], ["in_domain", "ctx-too-long"], aux="none"))
            out.append(Case("ml_sign", cp, [sk, b"msg", ctx, 1, bytes(32)], ["in_domain", "ctx-too-long"], aux="none"))
            out.append(Case("ml_prehash_sign", cp, [sk, b"msg", ctx, 0, 1, b""], ["in_domain", "ctx-too-long"], aux="none"))
            out.append(Case("ml_verify", cp, [pk, b"msg", bytes(p.sig), ctx], ["in_domain", "ctx-too-long"], aux="false"))
            out.append(Case("ml_prehash_verify", cp, [pk, b"msg", bytes(p.sig), ctx, 0], ["in_domain", "ctx-too-long"], aux="false"))
        # the length byte must not simply wrap: a signature over the representative with len(ctx) mod 256 in the length byte
        # (which is what a gate that lets 256+ bytes through would verify) must be rejected under the long context
        for n in (256, 257, 300, 511, 512):
            ctx = bytes(rng.randrange(256) for _ in range(n))
            msg = b"wrapped"
            core = crate([("signature", cp, [bytes(p.sig), bytes([0, n % 256]) + ctx + msg, sk, 0, b""])])[0][0]
            out.append(Case("ml_verify", cp, [pk, msg, core, ctx], ["in_domain", "ctx-too-long", "wrapped-length-byte", "crate-only"], aux="false"))
            d5 = hashlib.sha512(msg).digest()
            coreh = crate([("signature", cp, [bytes(p.sig), bytes([1, n % 256]) + ctx + OID[1] + d5, sk, 0, b""])])[0][0]
            out.append(Case("ml_prehash_verify", cp, [pk, msg, coreh, ctx, 1], ["in_domain", "ctx-too-long", "wrapped-length-byte", "crate-only"], aux="false"))
            # and signing under it must return nothing, in every mode
            out.append(Case("ml_sign", cp, [sk, msg, ctx, 0, b""], ["in_domain", "ctx-too-long", "crate-only"], aux="none"))
            out.append(Case("ml_prehash_sign", cp, [sk, msg, ctx, 0, 0, b""], ["in_domain", "ctx-too-long", "crate-only"], aux="none"))
            out.append(Case("ml_prehash_sign", cp, [sk, msg, ctx, 1, 1, bytes(32)], ["in_domain", "ctx-too-long", "crate-only"], aux="none"))
        d = ("sha512", bytes(rng.randrange(256) for _ in range(255)), b"hello")
        sig = crate([call_sign(cp, sk, d)])[0][1]
        fn, api, args = call_verify(cp, pk, d, sig)
        out.append(Case(fn, api, args, ["in_domain", "verify-255"], aux="true"))
        d2 = ("sha256", d[1], d[2])
        fn, api, args = call_verify(cp, pk, d2, sig)
        out.append(Case(fn, api, args, ["in_domain", "verify-other-hash"], aux="false"))
    return out


def nontrivial(c, out):
    return True


def oracle(c, outs):
    if c.aux == "none" and outs[0] != 0:
        return "%s returned a signature for a context longer than 255 bytes" % c.fn
    if c.aux == "false" and outs[0] != 0:
        return "%s accepted (context too long / other hash)" % c.fn
    if c.aux == "true" and outs[0] != 1:
        return "%s rejected a genuine signature with a 255-byte context" % c.fn
    return None


def extra(rep, cov, tier, rng):
    n_pairs = n_desc = 0
    samples = []
    for cp in ML:
        p = Par(cp)
        pk, sk = keygen(cp, bytes(rng.randrange(256) for _ in range(32)))
        ds = descriptors(rng, tier)
        sigs = crate([call_sign(cp, sk, d) for d in ds])
        core = crate([("signature", cp, [bytes(p.sig), mprime(*d), sk, 0, b""]) for d in ds])
        for d, s, c in zip(ds, sigs, core):
            n_desc += 1
            if s is None or s[0] != 1 or s[1] != c[0]:
                rep.violation("API signature is not the core signature over M' = framing(%s, ctx len %s, msg len %d)" %
                              (d[0], "None" if d[1] is None else len(d[1]), len(d[2])),
                              {"cases": [dict(zip(("fn", "copy", "args"), (lambda t: (t[0], t[1], [fmt_arg(a) for a in t[2]]))(call_sign(cp, sk, d))))]}, True)
        # verification agrees with core verification on M', and cross-rejection for all ordered pairs
        calls = []
        for i, di in enumerate(ds):
            for j, dj in enumerate(ds):
                calls.append(call_verify(cp, pk, dj, sigs[i][1]))
        res = crate(calls)
        k = 0
        for i, di in enumerate(ds):
            for j, dj in enumerate(ds):
                same = mprime(*di) == mprime(*dj)
                got = res[k][0]; k += 1
                n_pairs += 1
                if bool(got) != same:
                    rep.violation("signature made under (%s, ctx %r.., msg len %d) %s under (%s, ctx %r.., msg len %d)" %
                                  (di[0], (di[1] or b"")[:4], len(di[2]), "verifies" if got else "is rejected", dj[0], (dj[1] or b"")[:4], len(dj[2])),
                                  {"cases": [dict(zip(("fn", "copy", "args"), (lambda t: (t[0], t[1], [fmt_arg(a) for a in t[2]]))(call_verify(cp, pk, dj, sigs[i][1]))))]}, True)
        # verification operates ONLY on the framed representative: a signature offered together with its own representative
        # bytes as a bare message (no context, pure) must be rejected, and so must the bare message through the core verifier
        calls, why = [], []
        for d, s in list(zip(ds, sigs))[: (12 if tier == "quick" else len(ds))]:
            if mprime(*d) != mprime("pure", None, mprime(*d)):
                calls.append(("ml_verify", cp, [pk, mprime(*d), s[1], 0])); why.append(("API verify(None, pure) on the framed representative of", d))
                calls.append(("ml_verify", cp, [pk, mprime(*d), s[1], b""])); why.append(("API verify(empty ctx, pure) on the framed representative of", d))
            calls.append(("verify", cp, [s[1], d[2], pk])); why.append(("core verify on the unframed message of", d))
        for (w, d), r in zip(why, crate(calls)):
            n_pairs += 1
            if r is None or r[0] != 0:
                rep.violation("%s (%s, ctx %r.., msg len %d) accepts: verification does not operate on the framed representative only" %
                              (w, d[0], (d[1] or b"")[:4], len(d[2])), {"cases": [{"fn": "ml_verify", "copy": cp, "args": []}], "descriptor": [d[0], None if d[1] is None else d[1].hex(), d[2].hex()]}, True)
        samples.append({"set": cp, "descriptors": len(ds), "example": [ds[0][0], None if ds[0][1] is None else ds[0][1].hex()[:16], ds[0][2].hex()[:16]]})
    # the model's framing functions against the same Python M'
    ds = descriptors(rng, tier)
    lines = []
    for i, (mode, ctx, msg) in enumerate(ds):
        c = fmt_arg(ctx) if ctx is not None else "0"
        if mode == "pure":
            lines.append("%d frame_pure ml_dsa_44 %s %s" % (i, c, fmt_arg(msg)))
        else:
            lines.append("%d frame_hash ml_dsa_44 %d %s %s" % (i, 0 if mode == "sha256" else 1, c, fmt_arg(msg)))
    for (mode, ctx, msg), r in zip(ds, run_lines(MODELRUN, lines)):
        if r != "ok x" + mprime(mode, ctx, msg).hex():
            rep.violation("model framing differs from the specification's M' (model/oracle inconsistency)", {"broken": ["MApi.frame_* vs python M'"]}, False)
    cov["descriptors"] = n_desc
    cov["ordered_pairs_cross_verified"] = n_pairs
    cov["model_frames_checked"] = len(ds)
    cov["evaluations"] = cov.get("evaluations", 0) + n_desc + n_pairs + len(ds)
    cov["distinct_nontrivial"] = cov.get("distinct_nontrivial", 0) + n_pairs
    cov["samples"].extend(samples)
