"""C11 — key containers: {Keypair, SecretKey, PublicKey}::{to_bytes, from_bytes} for the six sets."""
from vcore import Case
from dlib import Par, ALL, API_OF, keygen, crate

RULE = ("generated keys, random bytes of the right length, every wrong length 0..130 (seed-, hash- and nibble-sized inputs), the sizes of the other containers "
        "and their parts, n-1, n+1, n+7, n/2, SK only, PK only, PK||SK (swapped order) "
        "offered as a pair, 2n; every case in the checked AND the unchecked builds (a refusal that only a debug assertion makes is no refusal); round trip through every container; sign/verify through re-serialised containers. from_bytes refusing = panic "
        "(model: Panic). Non-trivial = wrong-length or swapped case; distinct (fn,copy,input).")
ASSUMPTIONS = ["key bytes sampled"]
TIMEOUT = {"quick": 400, "thorough": 2400}
ORACLE_ON_RELEASE = True     # a length refused only by a debug assertion is accepted by a release build


def gen(tier, rng):
    out = []
    for cp in ALL:
        p = Par(cp); api = API_OF[cp]
        keys = [keygen(cp, bytes(rng.randrange(256) for _ in range(32))) for _ in range(2 if tier == "quick" else 20)]
        for pk, sk in keys:
            out.append(Case("sk_roundtrip", api, [sk], ["in_domain"], aux=("sk", p)))
            out.append(Case("pk_roundtrip", api, [pk], ["in_domain"], aux=("pk", p)))
            out.append(Case("kp_roundtrip", api, [sk + pk], ["in_domain"], aux=("kp", p)))
            out.append(Case("kp_roundtrip", api, [pk + sk], ["in_domain", "swapped"], aux=("kp", p)))
            out.append(Case("kp_roundtrip", api, [sk], ["wrong-length"], aux=("kp", p)))
            out.append(Case("kp_roundtrip", api, [pk], ["wrong-length"], aux=("kp", p)))
        out.append(Case("kp_generate", api, [bytes(rng.randrange(256) for _ in range(32))], ["in_domain", "generate"], aux=("gen", p)))
        for fn, n in (("sk_roundtrip", p.sk), ("pk_roundtrip", p.pk), ("kp_roundtrip", p.sk + p.pk)):
            rb = bytes(rng.randrange(256) for _ in range(2 * n))
            out.append(Case(fn, api, [rb[:n]], ["in_domain", "random-bytes"], aux=(fn[:2], p)))
            # every small length (a seed, a hash, a nibble of a key ...), the sizes of the OTHER containers and of their parts, and
            # the neighbours / multiples of the right one
            wl = set(range(0, 131)) | {n - 1, n + 1, n + 7, 2 * n, p.sk, p.pk, p.sk + p.pk, p.sig, p.sk - 32, p.pk - 32, p.sk + 32, p.pk + 32, n // 2, 64 + p.tr}
            wl.discard(n)
            for m in sorted(x for x in wl if 0 <= x <= 2 * n):
                out.append(Case(fn, api, [rb[:m]], ["wrong-length"], aux=(fn[:2], p)))
    return out


def nontrivial(c, out):
    return "wrong-length" in c.tags or "swapped" in c.tags


def extra(rep, cov, tier, rng):
    """Identical behaviour through a round-tripped container: sign/verify with re-serialised keys."""
    n = 0
    for cp in ALL:
        p = Par(cp); api = API_OF[cp]
        pk, sk = keygen(cp, bytes(rng.randrange(256) for _ in range(32)))
        msg = bytes(rng.randrange(256) for _ in range(rng.randrange(0, 200)))
        kp = crate([("kp_roundtrip", api, [sk + pk])])[0]
        sk2, pk2, whole = kp
        if p.mldsa:
            s1 = crate([("ml_sign", api, [sk, msg, 0, 0, b""])])[0][1]
            s2 = crate([("ml_sign", api, [sk2, msg, 0, 0, b""])])[0][1]
            v = crate([("ml_verify", api, [pk2, msg, s1, 0])])[0][0]
        else:
            s1 = crate([("api_sign", api, [sk, msg])])[0][0]
            s2 = crate([("api_sign", api, [sk2, msg])])[0][0]
            v = crate([("api_verify", api, [pk2, msg, s1])])[0][0]
        n += 1
        if s1 != s2 or v != 1 or whole != sk + pk:
            rep.violation("behaviour changes through a round-tripped key container (%s)" % api,
                          {"cases": [{"fn": "kp_roundtrip", "copy": api, "args": ["x" + (sk + pk).hex()]}]}, True)
    cov["roundtrip_behaviour_cases"] = n
    cov["evaluations"] = cov.get("evaluations", 0) + n


def oracle(c, outs):
    kind, p = c.aux
    b = bytes.fromhex(c.args[0][1:])
    if kind == "gen":
        sk, pk, whole = outs
        if len(sk) != p.sk or len(pk) != p.pk or whole != sk + pk:
            return "Keypair::generate/to_bytes: lengths or SK||PK layout wrong"
        return None
    if "wrong-length" in c.tags:
        return "from_bytes accepted %d bytes (must refuse any length other than the standard one)" % len(b)
    if kind in ("sk", "pk"):
        if outs[0] != b:
            return "to_bytes(from_bytes(b)) != b"
    else:
        sk, pk, whole = outs
        if sk != b[:p.sk] or pk != b[p.sk:] or whole != b:
            return "Keypair bytes are not SK||PK or do not round-trip"
    return None
