"""C12 — SHAKE-128/256: every exposed fips202 function under arbitrary absorb/squeeze call patterns."""
from vcore import Case
from dlib import shake128, shake256

RULE = ("histories = (absorb chunk)* finalize (squeeze n | squeezeblocks k)*: input lengths 0..3r+1 around every multiple of the rate r, random "
        "partitions into 1..6 absorb calls including empty ones, output split into requests of sizes {0,1,r-1,r,r+1,2r,2r+1,...} with squeezeblocks "
        "only at block boundaries (its documented precondition), both rates; absorb_once, one-shot shake256 for every output length class, "
        "stream_init with nonces, also on a state that was used before; the one-shot interface with an input buffer longer than inlen. The oracle is Python's hashlib SHAKE. Non-trivial = a history with a chunk or request crossing a block "
        "boundary; distinct (fn,ops).")
ASSUMPTIONS = ["call patterns sampled; misaligned squeezeblocks calls are outside the function's documented contract and not generated"]
TIMEOUT = {"quick": 400, "thorough": 2400}


def gen(tier, rng):
    out = []
    reps = 150 if tier == "quick" else 6000
    for rate, fn in ((136, "shake256_hist"), (168, "shake128_hist")):
        lens = sorted(set([0, 1, 2] + [k * rate + d for k in (1, 2, 3) for d in (-2, -1, 0, 1, 2)]))
        for _ in range(reps):
            total = rng.choice(lens) if rng.random() < 0.7 else rng.randrange(0, 4 * rate)
            data = bytes(rng.randrange(256) for _ in range(total))
            ops, cuts = [], sorted(rng.randrange(0, total + 1) for _ in range(rng.randrange(0, 6)))
            prev = 0
            cross = False
            once = fn == "shake256_hist" and rng.random() < 0.15
            if once:
                ops += [4, data]
            else:
                for cpos in cuts + [total]:
                    ops += [0, data[prev:cpos]]
                    if prev // rate != cpos // rate: cross = True
                    prev = cpos
                ops += [1]
            pos, reqs = 0, []
            for _ in range(rng.randrange(1, 6)):
                if fn == "shake128_hist" or (pos % rate == 0 and rng.random() < 0.4):
                    k = rng.choice([0, 1, 1, 2, 3])
                    ops += [3, k]; reqs.append(k * rate); pos += k * rate
                else:
                    n = rng.choice([0, 1, rate - pos % rate - 1, rate - pos % rate, rate - pos % rate + 1, rate, rate + 1, 2 * rate, 2 * rate + 1, rng.randrange(0, 3 * rate)])
                    n = max(0, n)
                    if n > rate - pos % rate or (pos % rate == 0 and n > rate): cross = True
                    ops += [2, n]; reqs.append(n); pos += n
            tags = ["in_domain"] + (["crossing"] if cross else []) + (["absorb_once"] if once else [])
            out.append(Case(fn, "-", ops, tags, aux=(rate, data, reqs)))
        for nonce in (0, 1, 255, 256, 0xABCD, 0xFFFF):
            seed = bytes(rng.randrange(256) for _ in range(64))
            slen = 32 if rate == 168 else 64
            out.append(Case(fn, "-", [6, seed, nonce, 3, 2], ["in_domain", "stream_init"], aux=(rate, seed[:slen] + nonce.to_bytes(2, "little"), [2 * rate])))
        # stream_init on a state that was used before must give the same stream as on a fresh one
        for nonce in (0, 513):
            seed = bytes(rng.randrange(256) for _ in range(64))
            d0 = bytes(rng.randrange(256) for _ in range(rng.choice([1, 50, rate, rate + 7])))
            xof = shake256 if rate == 136 else shake128
            slen = 32 if rate == 168 else 64
            fresh = xof(seed[:slen] + nonce.to_bytes(2, "little"), 2 * rate)
            out.append(Case(fn, "-", [0, d0, 1, 3, 1, 6, seed, nonce, 3, 2], ["in_domain", "stream_init", "reused-state", "crossing"],
                            aux=(rate, "explicit", [xof(d0, rate), fresh])))
            out.append(Case(fn, "-", [6, seed, nonce, 3, 1, 6, seed, nonce, 3, 2], ["in_domain", "stream_init", "reused-state", "crossing"],
                            aux=(rate, "explicit", [fresh[:rate], fresh])))
        # init() restores the initial state
        d = bytes(rng.randrange(256) for _ in range(200))
        out.append(Case(fn, "-", [0, d, 1, 3, 1, 5, 0, d[:50], 1, 3, 1], ["in_domain", "init"], aux=(rate, None, None)))
    for n in sorted(set([0, 1, 2, 31, 32, 64, 135, 136, 137, 271, 272, 273, 408, 500] + [rng.randrange(0, 700) for _ in range(reps // 5)])):
        for ilen in (0, 1, 135, 136, 137, 272, 300):
            inp = bytes(rng.randrange(256) for _ in range(ilen))
            out.append(Case("shake256", "-", [n, inp], ["in_domain", "oneshot"] + (["crossing"] if n > 136 else []), aux=(136, inp, [n])))
    # one-shot interface with an input buffer longer than inlen: only inlen bytes may be read
    for ilen in (0, 1, 33, 135, 136, 137, 272, 300):
        for extra in (1, 7, 136, 250):
            inp = bytes(rng.randrange(256) for _ in range(ilen + extra))
            out.append(Case("shake256_inlen", "-", [64, inp, ilen], ["in_domain", "oneshot", "over-long-input", "crossing"], aux=(136, inp[:ilen], [64])))
    return out


def nontrivial(c, out):
    return "crossing" in c.tags or "stream_init" in c.tags


def oracle(c, outs):
    rate, data, reqs = c.aux
    if data is None:
        return None
    if data == "explicit":
        if list(outs) != list(reqs):
            return "stream_init on a previously used state does not give SHAKE(seed || nonce) (or the earlier output is wrong)"
        return None
    total = sum(reqs)
    stream = shake256(data, total) if rate == 136 else shake128(data, total)
    if c.fn == "shake256":
        return None if outs[0] == stream else "shake256 one-shot output (outlen %d, inlen %d) differs from FIPS 202" % (reqs[0], len(data))
    pos = 0
    if len(outs) != len(reqs):
        return "wrong number of outputs"
    for o, n in zip(outs, reqs):
        if o != stream[pos:pos + n]:
            return "squeeze request of %d bytes at stream offset %d differs from FIPS 202 SHAKE%d" % (n, pos, 256 if rate == 136 else 128)
        pos += n
    return None
