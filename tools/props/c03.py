"""C03 — verification decides exactly as the specification (strict decoding, bounds), six sets."""
import json, os
from vcore import Case
from dlib import Q, Par, ALL, API_OF, keygen, sign, bitpack, hint_pack, decode_sig, cmod, crate
import pyref

CORPUS = os.path.join(os.path.dirname(os.path.dirname(os.path.dirname(os.path.abspath(__file__)))), "corpus", "c03_exact_omega.json")

RULE = ("for each set: genuine signatures (crate signer and the independent Python signer, incl. hedged with arbitrary rnd); every structural mutation "
        "of the hint section (swapped/duplicate indices, counters +-1, > omega, < previous, dirty padding), which for swaps/padding are hash-consistent "
        "near-misses (same hint set, non-canonical bytes); a signature from a modified signer that skips only the z-norm rejection (verification equation "
        "holds but ||z|| >= gamma1-beta); boundary accepts found by search (largest allowed |z|, heaviest hint weight seen); random bytes; wrong lengths; "
        "flipped public-key bits. Decision of crate = independent Python Verify_internal on all, = model on a subset. Non-trivial = near-miss, "
        "boundary or mutation; distinct (set, sig, msg, pk).")
ASSUMPTIONS = ["signature space sampled around valid signatures; the Python reference is the search oracle"]
TIMEOUT = {"quick": 1500, "thorough": 3400}


def sign_skip_znorm(p, sk, mprime, tries=400, exact=0):
    """Modified signer: emits an attempt whose only failed test is the z-norm bound (still encodable).
    exact = +1 / -1: the extreme coefficient must be exactly +(gamma1-beta) / -(gamma1-beta) and nothing beyond."""
    rho, key, tr, s1, s2, t0 = pyref.sk_decode(p, sk)
    A = pyref.expand_a(p, rho)
    s1h, s2h, t0h = [pyref.ntt(x) for x in s1], [pyref.ntt(x) for x in s2], [pyref.ntt(x) for x in t0]
    mu = pyref.H(bytes(tr) + bytes(mprime), 64)
    rhopp = pyref.H(bytes(key) + (bytes(32) if p.mldsa else b"") + mu, 64)
    kappa = 0
    for _ in range(tries):
        y = pyref.expand_mask(p, rhopp, kappa); kappa += p.L
        w = [pyref.intt(x) for x in pyref.matvec(A, [pyref.ntt(v) for v in y])]
        w1 = [[pyref.highbits(p, c) for c in poly] for poly in w]
        ct = pyref.H(mu + pyref.w1_encode(p, w1), p.ct)
        ch = pyref.ntt(pyref.sample_in_ball(p, ct))
        cs1 = [pyref.intt(pyref.pmul(ch, s)) for s in s1h]
        cs2 = [pyref.intt(pyref.pmul(ch, s)) for s in s2h]
        z = [pyref.padd(a, b) for a, b in zip(y, cs1)]
        zc = [cmod(x) for poly in z for x in poly]
        zmax = max(abs(x) for x in zc)
        if zmax < p.g1 - p.beta or zmax >= p.g1:
            continue
        if exact:
            if zmax != p.g1 - p.beta or (exact * (p.g1 - p.beta)) not in zc or (-exact * (p.g1 - p.beta)) in zc:
                continue
        r0 = [[pyref.lowbits(p, x) for x in pyref.psub(a, b)] for a, b in zip(w, cs2)]
        if max(abs(x) for poly in r0 for x in poly) >= p.g2 - p.beta:
            continue
        ct0 = [pyref.intt(pyref.pmul(ch, t)) for t in t0h]
        if max(abs(cmod(x)) for poly in ct0 for x in poly) >= p.g2:
            continue
        h = [[pyref.make_hint(p, -c0 % Q, (wv - c2 + c0) % Q) for wv, c2, c0 in zip(a, b, d)] for a, b, d in zip(w, cs2, ct0)]
        if sum(sum(x) for x in h) > p.omega:
            continue
        return pyref.sig_encode(p, ct, z, h)
    return None


def hint_mutations(p, sig, rng):
    ho = p.ct + p.L * p.polyz
    res = []
    cnt = [sig[ho + p.omega + i] for i in range(p.K)]
    tot = cnt[-1]
    rows = [i for i in range(p.K) if cnt[i] - (cnt[i - 1] if i else 0) >= 2]
    # hash-consistent duplicate: one index listed twice in place, later indices shifted, this and all later counters + 1;
    # the decoded hint SET is unchanged, so only the strict-ordering check rejects it
    if tot < p.omega:
        ne_rows = [i for i in range(p.K) if cnt[i] - (cnt[i - 1] if i else 0) >= 1]
        if ne_rows:
            i = rng.choice(ne_rows); s0 = cnt[i - 1] if i else 0
            j = rng.randrange(s0, cnt[i])
            idxs = list(sig[ho:ho + tot])
            idxs.insert(j, idxs[j])
            e = bytearray(sig)
            e[ho:ho + p.omega] = bytes(idxs) + bytes(p.omega - len(idxs))
            for r in range(i, p.K): e[ho + p.omega + r] = cnt[r] + 1
            res.append((bytes(e), "dup-insert"))
    for dk in ("swap", "dup", "cnt+1", "cnt-1", "cnt>omega", "cnt255", "cnt<prev", "pad1", "pad255", "padlast"):
        e = bytearray(sig)
        if dk in ("swap", "dup"):
            if not rows: continue
            i = rng.choice(rows); s = cnt[i - 1] if i else 0
            if dk == "swap": e[ho + s], e[ho + s + 1] = e[ho + s + 1], e[ho + s]
            else: e[ho + s + 1] = e[ho + s]
        elif dk == "cnt+1":
            i = rng.randrange(p.K); e[ho + p.omega + i] = min(255, e[ho + p.omega + i] + 1)
        elif dk == "cnt-1":
            i = rng.randrange(p.K); e[ho + p.omega + i] = max(0, e[ho + p.omega + i] - 1)
        elif dk == "cnt>omega":
            e[ho + p.omega + p.K - 1] = p.omega + 1
        elif dk == "cnt255":
            e[ho + p.omega + rng.randrange(p.K)] = 255
        elif dk == "cnt<prev":
            if cnt[0] == 0: continue
            e[ho + p.omega + 1] = cnt[0] - 1
        elif dk in ("pad1", "pad255", "padlast"):
            if tot >= p.omega: continue
            pos = p.omega - 1 if dk == "padlast" else rng.randrange(tot, p.omega)
            e[ho + pos] = 255 if dk == "pad255" else 1
        res.append((bytes(e), dk))
    return res


def gen(tier, rng):
    """one worker process per parameter set (the near-miss searches dominate the run time)"""
    import random
    from concurrent.futures import ProcessPoolExecutor
    jobs = [(tier, rng.getrandbits(64), cp) for cp in ALL]
    with ProcessPoolExecutor(max_workers=6) as ex:
        parts = list(ex.map(_gen_set, jobs))
    out = [c for part in parts for c in part]
    # committed corpus: specification-valid signatures with exactly omega hints (the accept side of the hint-count boundary)
    er = os.path.join(os.path.dirname(CORPUS), "c03_empty_hint_row.json")
    if os.path.exists(er):
        seen2 = set()
        for e in json.load(open(er)):
            tags = ["in_domain", "boundary", "hint-free-polynomial", "corpus"] + (["crate-only"] if e["set"] in seen2 else [])
            seen2.add(e["set"])
            out.append(Case("verify", e["set"], [bytes.fromhex(e["sig"]), bytes.fromhex(e["msg"]), bytes.fromhex(e["pk"])], tags))
    if os.path.exists(CORPUS):
        seen = set()
        for e in json.load(open(CORPUS)):
            tags = ["in_domain", "boundary", "exactly-omega-hints", "corpus"]
            if e["set"] in seen:
                tags.append("crate-only")
            seen.add(e["set"])
            out.append(Case("verify", e["set"], [bytes.fromhex(e["sig"]), bytes.fromhex(e["msg"]), bytes.fromhex(e["pk"])], tags))
    return out


def extra(rep, cov, tier, rng):
    """Live search with the crate's own signer for a signature with exactly omega hints; the independent verifier and the
    crate (both builds) must accept it."""
    n = 1500 if tier == "quick" else 40000
    calls = [("hint_weight_search", cp, [bytes(rng.randrange(256) for _ in range(32)), n, Par(cp).omega]) for cp in ALL]
    from concurrent.futures import ThreadPoolExecutor
    with ThreadPoolExecutor(max_workers=6) as ex:
        res = list(ex.map(lambda c: crate([c])[0], calls))
    found = {}
    for cl, r in zip(calls, res):
        cp = cl[1]; p = Par(cp)
        if r is None:
            rep.violation("signing panicked during the exactly-omega search (%s)" % cp,
                          {"cases": [{"fn": cl[0], "copy": cp, "args": ["x" + cl[2][0].hex(), str(n), str(p.omega)]}]}, True)
            continue
        idx, maxw, pk, sig = r
        found[cp] = {"found_at": idx, "max_hint_weight_seen": maxw, "omega": p.omega, "searched": n if idx < 0 else idx + 1}
        if idx < 0:
            continue
        msg = int(idx).to_bytes(4, "little")
        exp = pyref.verify(p, pk, msg, sig)
        got = [crate([("verify", cp, [sig, msg, pk])], dev=d)[0] for d in (True, False)]
        cov["evaluations"] = cov.get("evaluations", 0) + 2
        cov["distinct_nontrivial"] = cov.get("distinct_nontrivial", 0) + 1
        if not exp:
            rep.violation("the crate's signer emitted a signature with %d hints that the specification's Verify rejects (%s)" % (p.omega, cp),
                          {"cases": [{"fn": "verify", "copy": cp, "args": ["x" + sig.hex(), "x" + msg.hex(), "x" + pk.hex()]}]}, True)
        elif any(g is None or g[0] != 1 for g in got):
            rep.violation("verify/%s rejects a specification-valid signature with exactly omega = %d hints (key seed %s, message %s)"
                          % (cp, p.omega, cl[2][0].hex(), msg.hex()),
                          {"cases": [{"fn": "verify", "copy": cp, "args": ["x" + sig.hex(), "x" + msg.hex(), "x" + pk.hex()]}]}, True)
    cov["exactly_omega_live_search"] = found


def _gen_set(job):
    import random
    tier, seed, cp = job
    rng = random.Random(seed)
    out = []
    for cp in [cp]:
        p = Par(cp)
        pk, sk = keygen(cp, bytes(rng.randrange(256) for _ in range(32)))
        msgs = [bytes(rng.randrange(256) for _ in range(n)) for n in (0, 33, 150)]
        sigs = [sign(cp, sk, m) for m in msgs]
        model_budget = 5 if tier == "quick" else 20
        def add(sig, m, pkk, tags, use_model=False):
            nonlocal model_budget
            t = ["in_domain"] + tags
            if use_model and model_budget > 0:
                model_budget -= 1
            else:
                t.append("crate-only")
            out.append(Case("verify", cp, [sig, m, pkk], t))
        add(sigs[0], msgs[0], pk, ["valid"], True)
        add(sigs[1], msgs[1], pk, ["valid"])
        add(sigs[2], msgs[2], pk, ["valid"])
        # another conforming signer, hedged with arbitrary rnd
        m = bytes(rng.randrange(256) for _ in range(60))
        other = pyref.sign(p, sk, m, rnd=bytes(rng.randrange(256) for _ in range(32))) if p.mldsa else \
            pyref.sign(p, sk, m, rhopp_override=bytes(rng.randrange(256) for _ in range(64)))
        add(other, m, pk, ["valid", "other-signer"], True)
        # near misses
        first = True
        for s, m in zip(sigs, msgs):
            for e, dk in hint_mutations(p, s, rng):
                add(e, m, pk, ["mutation", "hint-" + dk], first and dk in ("swap", "pad1", "dup-insert"))
            first = False
        zbig = sign_skip_znorm(p, sk, msgs[1])
        if zbig is not None:
            add(zbig, msgs[1], pk, ["near-miss", "z-norm"], True)
        # hash-consistent near-misses from a modified signer: one byte of the commitment hash altered before the challenge is
        # sampled; the verifier recomputes the unaltered hash, so every byte of c~ must take part in the comparison
        for j, idx in enumerate(sorted({0, p.ct // 2, 31, 32 % p.ct, p.ct - 1})):
            mm = bytes(rng.randrange(256) for _ in range(20))
            nm = pyref.sign(p, sk, mm, ct_tweak=(idx, 1 << rng.randrange(8)))
            if nm is not None:
                add(nm, mm, pk, ["near-miss", "ctilde-byte-%d-of-%d" % (idx, p.ct)], idx == p.ct - 1)
        # exactly at the bound, both signs (the strict comparison and the branch-free |.| matter only here)
        for sgn, tag in ((1, "z-exactly-at-bound-pos"), (-1, "z-exactly-at-bound-neg")):
            for t in range(40 if tier == "quick" else 400):
                mm = bytes(rng.randrange(256) for _ in range(12))
                zb = sign_skip_znorm(p, sk, mm, tries=60, exact=sgn)
                if zb is not None:
                    add(zb, mm, pk, ["near-miss", tag])
                    break
        # boundary accepts: search for the largest |z| and the heaviest hint vector
        best_z, best_h = None, None
        for _ in range(40 if tier == "quick" else 1500):
            mm = bytes(rng.randrange(256) for _ in range(16))
            s = pyref.sign(p, sk, mm)
            c, z, h = decode_sig(p, s)
            zm = max(abs(x) for poly in z for x in poly)
            hw = sum(sum(r) for r in h)
            if best_z is None or zm > best_z[0]: best_z = (zm, s, mm)
            if best_h is None or hw > best_h[0]: best_h = (hw, s, mm)
        add(best_z[1], best_z[2], pk, ["boundary", "zmax-%d-below-bound" % (p.g1 - p.beta - best_z[0])])
        add(best_h[1], best_h[2], pk, ["boundary", "weight-omega-minus-%d" % (p.omega - best_h[0])])
        # other structural cases
        s, m = sigs[1], msgs[1]
        for n in (0, 1, p.sig - 1, p.sig + 1, p.sig + 8):
            add((s + bytes(8))[:n], m, pk, ["wrong-length"])
        for _ in range(3 if tier == "quick" else 60):
            add(bytes(rng.randrange(256) for _ in range(p.sig)), m, pk, ["random-bytes"])
            e = bytearray(s); i = rng.randrange(len(e) * 8); e[i // 8] ^= 1 << (i % 8)
            add(bytes(e), m, pk, ["bitflip-sig"])
            e = bytearray(pk); i = rng.randrange(len(e) * 8); e[i // 8] ^= 1 << (i % 8)
            add(s, m, bytes(e), ["bitflip-pk"])
        add(s, m + b"\x00", pk, ["other-message"])
        # kernels the verdict depends on, at the verifier's bound (C18's cases restricted to gamma1-beta)
        from dlib import LEVEL_OF
        b = p.g1 - p.beta
        for v in (b - 1, b, -(b - 1), -b):
            vec = [0] * (256 * p.L); vec[rng.randrange(256 * p.L)] = v
            out.append(Case("l_chknorm", LEVEL_OF[cp], [vec, b], ["in_domain", "kernel-dependency"], aux=("norm", 1 if abs(v) >= b else 0)))
        # UseHint at the tie r0 = 0 with the hint set (the specification decrements): honest signers never hint there, so only
        # a crafted signature reaches it in verification; the kernel is compared directly
        for kk in (0, 1, rng.randrange(2, p.m - 1), p.m - 1):
            a = kk * 2 * p.g2
            out.append(Case("use_hint", LEVEL_OF[cp], [a, 1], ["in_domain", "kernel-dependency"], aux=("usehint", pyref.use_hint(p, 1, a))))
        # UseHint with a hint polynomial without any bit (valid, rare): it is HighBits of every coefficient
        av = [rng.randrange(Q) for _ in range(256)]
        out.append(Case("poly_use_hint", LEVEL_OF[cp], [av, [0] * 256], ["in_domain", "kernel-dependency"], aux=("highbits", [pyref.highbits(p, x) for x in av])))
        # the same through the API
        api = API_OF[cp]
        if p.mldsa:
            ss = pyref.sign(p, sk, bytes([0, 3]) + b"ctx" + m)
            out.append(Case("ml_verify", api, [pk, m, ss, b"ctx"], ["in_domain", "api", "crate-only"], aux=(bytes([0, 3]) + b"ctx" + m,)))
            out.append(Case("ml_verify", api, [pk, m, ss, b"ctX"], ["in_domain", "api", "crate-only"], aux=(bytes([0, 3]) + b"ctX" + m,)))
            for n in (256, 300):   # a context longer than 255 bytes is invalid whatever the signature is: also one valid for the wrapped framing
                lc = bytes(rng.randrange(256) for _ in range(n))
                sw = pyref.sign(p, sk, bytes([0, n % 256]) + lc + m)
                out.append(Case("ml_verify", api, [pk, m, sw, lc], ["in_domain", "api", "ctx-too-long", "crate-only"], aux=None))
        else:
            out.append(Case("api_verify", api, [pk, m, s], ["in_domain", "api", "crate-only"], aux=(m,)))
            out.append(Case("api_verify", api, [pk, m, s[:-1]], ["in_domain", "api", "crate-only"], aux=(m,)))
    return out


def nontrivial(c, out):
    return any(t in ("mutation", "near-miss", "boundary", "wrong-length", "other-signer") for t in c.tags)


def oracle(c, outs):
    if c.fn == "poly_use_hint":
        return None if outs[0] == c.aux[1] else "poly_use_hint with an all-zero hint polynomial is not HighBits of the coefficients"
    if c.fn == "use_hint":
        return None if outs[0] == c.aux[1] else "use_hint(%s, 1) = %d, the specification's UseHint gives %d (tie r0 = 0)" % (c.args[0], outs[0], c.aux[1])
    if c.fn == "l_chknorm":
        return None if outs[0] == c.aux[1] else "l_chknorm at the verifier's bound gamma1-beta returned %d, expected %d (the z gate is not exact)" % (outs[0], c.aux[1])
    if c.fn == "ml_verify" and c.aux is None:
        return None if outs[0] == 0 else "ml_verify/%s accepts under a context longer than 255 bytes" % c.copy
    cp = c.copy
    for k, v in API_OF.items():
        if v == cp and c.fn in ("ml_verify", "api_verify"):
            cp = k
    p = Par(cp)
    if c.fn == "verify":
        sig, m, pk = (bytes.fromhex(c.args[i][1:]) for i in range(3))
    else:
        pk, _, sig = (bytes.fromhex(c.args[i][1:]) for i in range(3))
        m = c.aux[0]
    exp = pyref.verify(p, pk, m, sig)
    if bool(outs[0]) != exp:
        return "%s/%s returned %d but the specification's Verify decides %s [%s]" % (c.fn, c.copy, outs[0], exp, ",".join(c.tags))
    if "valid" in c.tags and not exp:
        return "oracle inconsistency: a genuine signature is rejected by the specification"
    return None
