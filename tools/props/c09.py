"""C09 — randomness discipline: fresh CSPRNG bytes, right amount, only where specified."""
from vcore import Case
from dlib import Par, ALL, API_OF, keygen, crate
import pyref

RULE = ("with the RNG tap (feature verif-hooks): scripted tapes -> outputs must equal the model's on the same tape and the number of bytes left must "
        "match (32 for unseeded keygen and hedged ML-DSA signing, 64 for randomized Dilithium signing, 0 for seeded keygen / deterministic signing / "
        "verification); recording mode with the real RNG -> the request log must be exactly [32] / [64] / [] and feeding the recorded bytes to the "
        "independent Python reference must reproduce the output (randomness enters only as the specification's seed / rnd / rho''); repeated calls: "
        "pairwise distinct draws and outputs, identical deterministic signatures; the same across 2..16 fresh OS threads started on a barrier (outputs must "
        "be pairwise distinct across threads too); seeded generation through the API wrappers with all-00 / all-FF / single-bit seeds draws nothing and "
        "equals KeyGen(seed). Non-trivial = every distinct call.")
ASSUMPTIONS = ["'fresh from an OS-seeded CSPRNG' is a property of rand 0.7.3 / the OS (random_bytes -> rand::thread_rng().try_fill_bytes), outside any model; "
               "the distinctness statistics are supporting evidence, not proof"]
TIMEOUT = {"quick": 1500, "thorough": 3400}


def gen(tier, rng):
    out = []
    for cp in ALL:
        p = Par(cp)
        pk, sk = keygen(cp, bytes(rng.randrange(256) for _ in range(32)))
        tape = bytes(rng.randrange(256) for _ in range(100))
        out.append(Case("keypair_rand", cp, [tape], ["in_domain", "scripted", "keygen"], aux=("rest", 68)))
        out.append(Case("kp_generate_rand", API_OF[cp], [tape], ["in_domain", "scripted", "keygen", "crate-only"], aux=("rest", 68)))
        best = min((bytes(rng.randrange(256) for _ in range(8)) for _ in range(12)),
                   key=lambda mm: len(pyref.sign(p, sk, mm, rnd=tape[:32], rhopp_override=(None if p.mldsa else tape[:64]), want_trace=True)[1]))
        need = 32 if p.mldsa else 64
        out.append(Case("signature", cp, [bytes(p.sig), best, sk, 1, tape], ["in_domain", "scripted", "sign-random"], aux=("rest1", 100 - need)))
        # deterministic signing must not depend on what the caller's buffer holds (e.g. the randomness of an earlier hedged call)
        out.append(Case("signature", cp, [bytes(rng.randrange(256) for _ in range(p.sig)), best, sk, 0, tape], ["in_domain", "scripted", "sign-deterministic", "dirty-buffer"], aux=("rest1", 100)))
        out.append(Case("keypair", cp, [tape[:32]], ["in_domain", "seeded", "crate-only"], aux=None))
        if p.mldsa:
            out.append(Case("ml_sign", API_OF[cp], [sk, best, b"c", 1, tape], ["in_domain", "scripted", "api", "crate-only"], aux=("rest2", 68)))
            out.append(Case("ml_prehash_sign", API_OF[cp], [sk, best, b"c", 1, 1, tape], ["in_domain", "scripted", "api", "crate-only"], aux=("rest2", 68)))
            out.append(Case("ml_sign", API_OF[cp], [sk, best, b"c", 0, tape], ["in_domain", "scripted", "api", "crate-only"], aux=("rest2", 100)))
            out.append(Case("ml_sign", API_OF[cp], [sk, best, bytes(256), 1, tape], ["in_domain", "scripted", "api", "ctx-too-long"], aux=("rest2", 100)))
        # seeded generation through the API wrapper draws nothing, whatever the seed looks like (no sentinel values)
        specials = [bytes(32), bytes([255] * 32), bytes([0] * 31 + [1]), bytes([128] + [0] * 31), bytes(rng.randrange(256) for _ in range(32))]
        for sd in specials:
            out.append(Case("kp_generate_log", API_OF[cp], [sd], ["in_domain", "seeded", "api", "special-seed", "crate-only"], aux=("seeded-api", sd, cp)))
    # rare path: rejection chains of 37..165 attempts (committed corpus): deterministic signing still draws nothing and randomized
    # signing still draws exactly one request, however long the loop runs
    from props.c05 import corpus
    for e in corpus("c05_long_chains.json"):
        m, csk = bytes.fromhex(e["msg"]), bytes.fromhex(e["sk"])
        out.append(Case("signature_live", e["set"], [m, csk, 0], ["in_domain", "long-chain", "corpus", "crate-only"], aux=("log", [], None)))
        need = 32 if Par(e["set"]).mldsa else 64
        out.append(Case("signature_live", e["set"], [m, csk, 1], ["in_domain", "long-chain", "corpus", "crate-only"], aux=("log", [need], None), skip_release=True))
    return out


def nontrivial(c, out):
    return True


def oracle(c, outs):
    if c.aux is None:
        return None
    if c.aux[0] == "seeded-api":
        _, sd, cp = c.aux
        if outs[2] != 0:
            return "seeded Keypair::generate (%s) made %d RNG request(s) for seed %s" % (c.copy, outs[2], sd.hex())
        epk, esk = pyref.keygen(Par(cp), sd)
        if (outs[1], outs[0]) != (epk, esk):
            return "seeded Keypair::generate (%s) is not KeyGen(seed) for seed %s" % (c.copy, sd.hex())
        return None
    if c.aux[0] == "log":
        if outs[1] != c.aux[1]:
            return "signature_live/%s (%s, long rejection chain) made RNG requests %s, expected %s" % (c.copy, "randomized" if c.args[2] == "1" else "deterministic", outs[1], c.aux[1])
        return None
    kind, exp = c.aux
    got = outs[2] if kind in ("rest", "rest2") else outs[1]
    if got != exp:
        return "%s/%s left %d bytes on a 100-byte tape, expected %d" % (c.fn, c.copy, got, exp)
    return None


def extra(rep, cov, tier, rng):
    n = 0
    reps = 24 if tier == "quick" else 256
    for cp, dev in [(c, d) for c in ALL for d in (True, False)]:
        p = Par(cp)
        pk, sk = keygen(cp, bytes(rng.randrange(256) for _ in range(32)))
        m = b"one message"
        kl = crate([("keypair_live", cp, [])] * reps, dev=dev)
        sl = crate([("signature_live", cp, [m, sk, 1])] * reps, dev=dev)
        sd = crate([("signature_live", cp, [m, sk, 0])] * 3, dev=dev)
        ds = crate([("draws_seeded", cp, [bytes(32), m])], dev=dev)[0]
        n += 2 * reps + 4
        bad = None
        need = 32 if p.mldsa else 64
        for r in kl:
            if r[2] != [32] or pyref.keygen(p, r[3]) != (r[0], r[1]):
                bad = "unseeded key generation: request log %s or keys are not KeyGen(drawn seed)" % r[2]
        for r in sl:
            exp = pyref.sign(p, sk, m, rnd=r[2]) if p.mldsa else pyref.sign(p, sk, m, rhopp_override=r[2])
            if r[1] != [need] or r[0] != exp:
                bad = "randomized signing: request log %s, or signature is not Sign(sk, M, drawn bytes)" % r[1]
        if len(set(r[3] for r in kl)) != reps or len(set(r[0] for r in kl)) != reps:
            bad = "repeated unseeded key generations are not pairwise distinct"
        if len(set(r[2] for r in sl)) != reps or len(set(r[0] for r in sl)) != reps:
            bad = "repeated randomized signatures of one message are not pairwise distinct"
        if any(r[1] != [] for r in sd) or len(set(r[0] for r in sd)) != 1:
            bad = "deterministic signing drew randomness or is not repeatable"
        if ds[:3] != [0, 0, 0] or ds[3] != 1:
            bad = "seeded key generation, deterministic signing or verification drew randomness (%s)" % ds
        if bad:
            rep.violation(bad + " (%s, %s build)" % (cp, "checked" if dev else "release"),
                          {"cases": [{"fn": "keypair_live / signature_live (repeated %d times)" % reps, "copy": cp, "args": [], "profile": "dev" if dev else "release"}]}, True)
        hist = [0] * 256
        for r in kl:
            for b in r[3]: hist[b] += 1
        cov.setdefault("seed_byte_histogram_minmax", {})[cp + ("/checked" if dev else "/release")] = [min(hist), max(hist)]
    # freshness across OS threads (fresh threads, barrier start): all outputs pairwise distinct
    tplan = [(2, 6), (8, 4)] if tier == "quick" else [(2, 40), (4, 40), (16, 40)]
    for cp in ALL:
        pk, sk = keygen(cp, bytes(rng.randrange(256) for _ in range(32)))
        for threads, per in tplan:
            r = crate([("rng_threads", cp, [threads, per, sk])])[0]
            n += 2 * threads * per
            if r is None or r[0] != r[1] or r[2] != r[3]:
                rep.violation("randomness repeats across threads (%s): %s unseeded key pairs of which %s distinct, %s randomized signatures of which %s distinct "
                              "(%d threads x %d calls)" % ((cp,) + tuple(r or ["?"] * 4) + (threads, per)),
                              {"cases": [{"fn": "rng_threads", "copy": cp, "args": [str(threads), str(per), "x" + sk.hex()]}]}, True)
    # environment-dependent randomness: every environment variable NAME the library source mentions is set (to "", "1", "seed") and the
    # freshness probe repeated; outputs must stay pairwise distinct and unpredictable from the variable
    import re, glob, vcore
    names = set()
    for f in glob.glob("/repo/src/**/*.rs", recursive=True):
        if f.endswith("verif_hooks.rs"):
            continue
        src = open(f).read().split("#[cfg(test)]")[0]
        names.update(re.findall(r'(?:env::var|env::var_os|option_env!|env!)\s*\(\s*"([A-Za-z_][A-Za-z0-9_]*)"', src))
    cov["environment_variables_read_by_the_library"] = sorted(names)
    for name in sorted(names):
        for val in ("", "1", "seed"):
            vcore.ENV[name] = val
            try:
                for cp in ALL:
                    pk, sk = keygen(cp, bytes(rng.randrange(256) for _ in range(32)))
                    r = crate([("rng_threads", cp, [2, 4, sk])])[0]
                    r2 = crate([("rng_threads", cp, [1, 2, sk])])[0]
                    n += 24
                    if r is None or r[0] != r[1] or r[2] != r[3]:
                        rep.violation("with the environment variable %s=%r set, randomness repeats (%s): %s unseeded key pairs of which %s distinct, %s randomized "
                                      "signatures of which %s distinct" % ((name, val, cp) + tuple(r or ["?"] * 4)),
                                      {"cases": [{"fn": "rng_threads", "copy": cp, "args": ["2", "4", "x" + sk.hex()], "environment": {name: val}}]}, True)
                        break
            finally:
                vcore.ENV.pop(name, None)
    import subprocess
    rc = subprocess.run("grep -rn 'thread_rng\\|try_fill_bytes' /repo/src --include=*.rs | grep -v verif_hooks | wc -l", shell=True, stdout=subprocess.PIPE)
    cov["advisory_rng_call_sites"] = rc.stdout.decode().strip()
    cov["live_calls"] = n
    cov["evaluations"] = cov.get("evaluations", 0) + n
    cov["distinct_nontrivial"] = cov.get("distinct_nontrivial", 0) + n
