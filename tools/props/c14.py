"""C14 — reduction kernels. Cases: every boundary of the documented domains, structured values, random."""
from vcore import Case

Q = 8380417
RULE = ("montgomery_reduce: domain edges +-2^31*q +-{0,1,2}, k*2^32+{-1,0,1}, values whose low 32 bits are +-2^31, "
        "multiples of q +-1, i64 extremes, uniform random in and out of the domain; reduce32: edges -2^31, "
        "2^31-2^22-{2,1,0,-1}, 2^31-1, k*2^23-2^22+{-1,0,1}, multiples of q, random i32; caddq: -q..q edges, 0, random, "
        "and (thorough) every a in (-q,q). A case is non-trivial when it lies within 2 of a domain edge, a wrap "
        "boundary or a multiple of q, or is out of domain (panic expected); distinct = distinct (fn,input).")
SOURCE_TIE = "kernels"   # C14/C15 are also stated about the translated text of reduce.rs / rounding*.rs (GenK.v)
ASSUMPTIONS = ["i64/i32 input spaces are sampled (boundaries enumerated); the theorems cover them entirely for the model"]
TIMEOUT = {"quick": 300, "thorough": 1500}


def gen(tier, rng):
    n = 30000 if tier == "quick" else 1500000
    E = (1 << 31) * Q
    out = []
    def mr(a, *tags):
        a = max(-(1 << 63), min((1 << 63) - 1, a))
        t = list(tags)
        if -E <= a < E:
            t.append("in_domain")
        out.append(Case("montgomery_reduce", "-", [a], t))
    for d in range(-3, 4):
        mr(-E + d, "edge"); mr(E + d, "edge"); mr(d, "edge")
        mr((1 << 63) - 1 - abs(d), "i64-extreme"); mr(-(1 << 63) + abs(d), "i64-extreme")
    mr(23, "repo-vector")
    for k in list(range(-40, 41)) + [rng.randrange(-(1 << 22), 1 << 22) for _ in range(300)]:
        for d in (-1, 0, 1):
            mr(k * (1 << 32) + d, "wrap32")
            mr(k * (1 << 32) + (1 << 31) + d, "wrap31")
            mr(k * Q + d, "mult-q")
            mr(k * Q * (1 << 32) // 7 + d, "mixed")
    for _ in range(n):
        mr(rng.randrange(-E, E))
    for _ in range(n // 10):
        mr(rng.randrange(-(1 << 63), 1 << 63), "random-i64")
    def r32(a, *tags):
        t = list(tags)
        if -(1 << 31) <= a <= (1 << 31) - (1 << 22) - 1:
            t.append("in_domain")
        out.append(Case("reduce32", "-", [a], t))
    top = (1 << 31) - (1 << 22)
    for a in (-(1 << 31), -(1 << 31) + 1, top - 2, top - 1, top, top + 1, (1 << 31) - 1, 0, 1, -1):
        r32(a, "edge")
    for k in range(-256, 257):
        for d in (-1, 0, 1):
            r32(max(-(1 << 31), min((1 << 31) - 1, k * (1 << 23) - (1 << 22) + d)), "round-boundary")
            r32(max(-(1 << 31), min((1 << 31) - 1, k * Q + d)), "mult-q")
    for _ in range(n):
        r32(rng.randrange(-(1 << 31), 1 << 31))
    def cq(a, *tags):
        t = list(tags)
        if -Q < a < Q:
            t.append("in_domain")
        out.append(Case("caddq", "-", [a], t))
    for a in (-Q - 1, -Q, -Q + 1, -1, 0, 1, Q - 1, Q, Q + 1, -(1 << 31), (1 << 31) - 1, (1 << 31) - Q, (1 << 31) - Q - 1):
        cq(a, "edge")
    for _ in range(min(n, 200000)):
        cq(rng.randrange(-Q + 1, Q))
    return out


def nontrivial(c, out):
    return any(t in ("edge", "wrap32", "wrap31", "mult-q", "round-boundary", "i64-extreme", "repo-vector") for t in c.tags) \
        or "in_domain" not in c.tags


def oracle(c, outs):
    """The property's own predicate, evaluated on the crate's output."""
    if "in_domain" not in c.tags:
        return None
    a, r = int(c.args[0]), outs[0]
    if c.fn == "montgomery_reduce":
        if (r * (1 << 32) - a) % Q != 0:
            return "montgomery_reduce(%d) = %d is not congruent to a*2^-32 mod q" % (a, r)
        if not -Q < r < Q:
            return "montgomery_reduce(%d) = %d outside (-q,q)" % (a, r)
    elif c.fn == "reduce32":
        if (r - a) % Q != 0:
            return "reduce32(%d) = %d not congruent to a mod q" % (a, r)
        if abs(r) > 6283009:
            return "reduce32(%d) = %d exceeds 6283009" % (a, r)
    elif c.fn == "caddq":
        if r != a % Q:
            return "caddq(%d) = %d, expected %d" % (a, r, a % Q)
    return None


def extra(rep, cov, tier, rng):
    """Sweeps with checksums (model vs crate) and the predicate evaluated on every input by the harness:
    caddq over ALL of (-q, q) in the thorough tier (exhaustive), windows in the quick tier; reduce32 over windows of its domain."""
    from vcore import MODELRUN, DVH_REL, DVH_DEV, run_runner
    lines, meta = [], []
    def add(fnid, lo, hi):
        lines.append("%d sweep - i%d 0 %d %d" % (len(lines), fnid, lo, hi)); meta.append((fnid, lo, hi))
    if tier == "thorough":
        CH = 1 << 19
        for lo in range(-Q + 1, Q, CH):
            add(2, lo, min(Q, lo + CH))
        for _ in range(64):
            lo = rng.randrange(-(1 << 31), (1 << 31) - (1 << 22) - CH)
            add(3, lo, lo + CH)
        add(3, (1 << 31) - (1 << 22) - CH, (1 << 31) - (1 << 22)); add(3, -(1 << 31), -(1 << 31) + CH)
    else:
        add(2, -Q + 1, -Q + 1 + 60000); add(2, -30000, 30000); add(2, Q - 60000, Q)
        add(3, (1 << 31) - (1 << 22) - 60000, (1 << 31) - (1 << 22)); add(3, -(1 << 31), -(1 << 31) + 60000)
        lo = rng.randrange(-(1 << 31), (1 << 31) - (1 << 23)); add(3, lo, lo + 60000)
    (m, _), (d, _), (r, _) = run_runner(MODELRUN, lines, 16, 3000), run_runner(DVH_DEV, lines, 8, 3000), run_runner(DVH_REL, lines, 8, 3000)
    total = 0
    names = {2: "caddq", 3: "reduce32"}
    for i, (fnid, lo, hi) in enumerate(meta):
        total += hi - lo
        mo, do, ro = m.get(i, "").split(), d.get(i, "").split(), r.get(i, "").split()
        case = {"fn": "sweep", "copy": "-", "args": ["i%d" % fnid, "0", str(lo), str(hi)]}
        if len(do) < 5 or do[0] != "ok" or do != ro:
            rep.violation("sweep of %s over [%d,%d): checked and release builds differ or failed" % (names[fnid], lo, hi), {"cases": [case]}, False)
        elif int(do[3]) != 0 or int(do[2]) != 0:
            rep.violation("%s violates its specification (or panics) at input %s; %s failing inputs in [%d,%d)" % (names[fnid], do[4], do[3], lo, hi),
                          {"cases": [{"fn": names[fnid], "copy": "-", "args": [do[4]]}]}, True)
        elif mo[:3] != do[:3]:
            rep.violation("sweep of %s over [%d,%d): crate output checksum differs from the model's" % (names[fnid], lo, hi),
                          {"cases": [case], "broken": ["correspondence %s" % names[fnid]]}, False)
    # montgomery_reduce: contiguous windows at both ends of the documented domain, around 0 and at random places, with the
    # predicate evaluated inside the harness on every input (a defect whose inputs are a 2^-17 fraction of the top of the domain
    # has hundreds of witnesses in a window of 2^25 inputs there)
    from dlib import crate
    E = (1 << 31) * Q
    W = 1 << (22 if tier == "quick" else 26)
    wins = [(-E, -E + W), (E - W, E), (-W // 2, W // 2), (E - (1 << 15) * Q - W // 2, E - (1 << 15) * Q + W // 2), (-E + (1 << 15) * Q - W // 2, -E + (1 << 15) * Q + W // 2)]
    for _ in range(3 if tier == "quick" else 24):
        lo = rng.randrange(-E, E - W); wins.append((lo, lo + W))
    from concurrent.futures import ThreadPoolExecutor
    with ThreadPoolExecutor(max_workers=16) as ex:
        res = list(ex.map(lambda w: [crate([("mont_sweep", "-", [w[0], w[1]])], dev=dv)[0] for dv in (True, False)], wins))
    for (lo, hi), rr in zip(wins, res):
        for dv, r in zip(("checked", "release"), rr):
            total += hi - lo
            if r is None or r[1] != 0 or r[2] != 0:
                rep.violation("montgomery_reduce violates its specification (or panics) inside its documented domain at input %s (%s build); %s violations and %s panics in [%d,%d)"
                              % ("?" if r is None else r[3], dv, "?" if r is None else r[2], "?" if r is None else r[1], lo, hi),
                              {"cases": [{"fn": "montgomery_reduce", "copy": "-", "args": [str(0 if r is None else r[3])]}]}, True)
                break
    cov["swept_inputs"] = total
    cov["caddq_exhaustive"] = (tier == "thorough")
    cov["evaluations"] = cov.get("evaluations", 0) + total
