(** Vector and matrix operations of MPolyvec.v are exact component-wise lifts of the polynomial
    operations.

    Style of the statements.  Wherever the loop and the obvious list recursion fail in the same order,
    the theorem is an UNCONDITIONAL equation between results (not only in the [Ok] case):
      [vec_map n f v = mapM f v],  [for_idx2 n f w v = map2M f w v],
      [k_power2round P v1 v0 = do l <- mapM poly_power2round v1; Ok (map fst l, map snd l)], ...
    so both success and the exact kind of failure ([Panic]/[OutOfFuel], and which component failed first)
    are transported.  The [Ok (map g v)] forms asked for are then corollaries through [mapM_ok]/[map2M_ok].
    For [k_make_hint] and [k_pack_w1] the loop interleaves extra checked operations (the i32 sum, the
    splice) with the per-polynomial work, so these are stated in the [Ok] direction only. *)
From DV Require Import Base Gen MReduce MRounding MParams MKeccak MNtt MPoly MPolyvec PReduce.

Local Ltac Zify.zify_post_hook ::= Z.div_mod_to_equations.

(** * 1. Index ranges *)

Lemma zrange_seq_gen a m s : 0 <= a ->
  map (fun i => a + Z.of_nat i) (seq s m) = map Z.of_nat (seq (Z.to_nat a + s) m).
Proof.
  intros Ha. revert s. induction m as [|m IH]; intros s; [reflexivity|].
  cbn [seq map]. f_equal; [lia|].
  rewrite IH. replace (Z.to_nat a + S s)%nat with (S (Z.to_nat a + s)) by lia. reflexivity.
Qed.

Lemma zrange_seq a b : 0 <= a -> zrange a b = map Z.of_nat (seq (Z.to_nat a) (Z.to_nat (b - a))).
Proof.
  intros Ha. unfold zrange. rewrite zrange_seq_gen by exact Ha.
  rewrite Nat.add_0_r. reflexivity.
Qed.

Lemma zrange0_seq n : zrange 0 n = map Z.of_nat (seq 0 (Z.to_nat n)).
Proof. rewrite zrange_seq by lia. rewrite Z.sub_0_r. reflexivity. Qed.

Lemma zrange_length a b : length (zrange a b) = Z.to_nat (b - a).
Proof. unfold zrange. rewrite map_length, seq_length. reflexivity. Qed.

Lemma zrange_nth a b j : (j < Z.to_nat (b - a))%nat -> nth_error (zrange a b) j = Some (a + Z.of_nat j).
Proof.
  intros H. unfold zrange. rewrite nth_error_map.
  rewrite (nth_error_nth' _ 0%nat) by (rewrite seq_length; exact H).
  rewrite seq_nth by exact H. reflexivity.
Qed.

Lemma zrange_In a b i : In i (zrange a b) <-> a <= i < b.
Proof.
  unfold zrange. rewrite in_map_iff. split.
  - intros (j & <- & Hj). apply in_seq in Hj. lia.
  - intros H. exists (Z.to_nat (i - a)). split; [lia|]. apply in_seq. lia.
Qed.

(** * 2. Checked access in the middle of a list *)

Lemma get_of_nat {A} (l : list A) j :
  get l (Z.of_nat j) = match nth_error l j with Some x => Ok x | None => Panic end.
Proof.
  unfold get. destruct (Z.ltb_spec (Z.of_nat j) 0) as [H|H]; [lia|].
  rewrite Nat2Z.id. reflexivity.
Qed.

Lemma get_app_mid {A} (pre : list A) x suf : get (pre ++ x :: suf) (Z.of_nat (length pre)) = Ok x.
Proof.
  rewrite get_of_nat. rewrite nth_error_app2 by lia. rewrite Nat.sub_diag. reflexivity.
Qed.

Lemma set_nat_app_mid {A} (pre : list A) x suf y :
  set_nat (pre ++ x :: suf) (length pre) y = Ok (pre ++ y :: suf).
Proof.
  induction pre as [|p pre IH]; [reflexivity|].
  cbn [app length set_nat]. rewrite IH. reflexivity.
Qed.

Lemma set_app_mid {A} (pre : list A) x suf y :
  set (pre ++ x :: suf) (Z.of_nat (length pre)) y = Ok (pre ++ y :: suf).
Proof.
  unfold set. destruct (Z.ltb_spec (Z.of_nat (length pre)) 0) as [H|H]; [lia|].
  rewrite Nat2Z.id. apply set_nat_app_mid.
Qed.

(** read-only vectors are followed through [skipn] *)
Lemma get_skipn {A} (v : list A) k x rest :
  skipn k v = x :: rest -> get v (Z.of_nat k) = Ok x /\ skipn (S k) v = rest.
Proof.
  revert v. induction k as [|k IH]; intros v H.
  - destruct v as [|y v]; [discriminate|]. cbn [skipn] in H. inversion H; subst.
    split; reflexivity.
  - destruct v as [|y v]; [discriminate|]. cbn [skipn] in H.
    destruct (IH v H) as (G & S'). split; [|exact S'].
    rewrite get_of_nat in *. exact G.
Qed.

Lemma snoc_app {A} (pre : list A) y suf : pre ++ y :: suf = (pre ++ [y]) ++ suf.
Proof. rewrite <- app_assoc. reflexivity. Qed.

Lemma snoc_length {A} (pre : list A) y : length (pre ++ [y]) = S (length pre).
Proof. rewrite app_length. cbn [length]. lia. Qed.

(** * 3. Indexed monadic map and its pure counterpart *)

Fixpoint imapM {A B} (f : Z -> A -> res B) (k : Z) (l : list A) : res (list B) :=
  match l with
  | [] => Ok []
  | x :: xs => do y <- f k x; do ys <- imapM f (k + 1) xs; Ok (y :: ys)
  end.

Fixpoint imap {A B} (g : Z -> A -> B) (k : Z) (l : list A) : list B :=
  match l with
  | [] => []
  | x :: xs => g k x :: imap g (k + 1) xs
  end.

Lemma imapM_ext {A B} (f g : Z -> A -> res B) l : forall k,
  (forall j x, nth_error l j = Some x -> f (k + Z.of_nat j) x = g (k + Z.of_nat j) x) ->
  imapM f k l = imapM g k l.
Proof.
  induction l as [|x xs IH]; intros k H; [reflexivity|].
  cbn [imapM]. pose proof (H 0%nat x eq_refl) as H0. rewrite Z.add_0_r in H0. rewrite H0.
  rewrite (IH (k + 1)); [reflexivity|].
  intros j y Hj. specialize (H (S j) y Hj).
  replace (k + 1 + Z.of_nat j) with (k + Z.of_nat (S j)) by lia. exact H.
Qed.

Lemma imapM_const {A B} (f : A -> res B) l k : imapM (fun _ => f) k l = mapM f l.
Proof.
  revert k. induction l as [|x xs IH]; intros k; [reflexivity|].
  cbn [imapM mapM]. rewrite IH. reflexivity.
Qed.

Lemma imapM_shift {A B} (f : Z -> A -> res B) d l k :
  imapM f (k + d) l = imapM (fun i => f (i + d)) k l.
Proof.
  revert k. induction l as [|x xs IH]; intros k; [reflexivity|].
  cbn [imapM]. replace (k + d + 1) with (k + 1 + d) by lia. rewrite IH. reflexivity.
Qed.

Lemma imapM_ok {A B} (f : Z -> A -> res B) (g : Z -> A -> B) l : forall k,
  (forall j x, nth_error l j = Some x -> f (k + Z.of_nat j) x = Ok (g (k + Z.of_nat j) x)) ->
  imapM f k l = Ok (imap g k l).
Proof.
  induction l as [|x xs IH]; intros k H; [reflexivity|].
  cbn [imapM imap]. pose proof (H 0%nat x eq_refl) as H0. rewrite Z.add_0_r in H0. rewrite H0.
  cbn [bind]. rewrite (IH (k + 1)); [reflexivity|].
  intros j y Hj. specialize (H (S j) y Hj).
  replace (k + 1 + Z.of_nat j) with (k + Z.of_nat (S j)) by lia. exact H.
Qed.

Lemma imapM_length {A B} (f : Z -> A -> res B) l : forall k r, imapM f k l = Ok r -> length r = length l.
Proof.
  induction l as [|x xs IH]; intros k r H; cbn [imapM] in H.
  - inversion H. reflexivity.
  - apply bind_ok in H as (y & _ & H). apply bind_ok in H as (ys & Hys & H).
    inversion H; subst. cbn [length]. f_equal. eauto.
Qed.

Lemma imap_length {A B} (g : Z -> A -> B) l k : length (imap g k l) = length l.
Proof. revert k. induction l as [|x xs IH]; intros k; cbn [imap length]; auto. Qed.

Lemma imap_const {A B} (g : A -> B) l k : imap (fun _ => g) k l = map g l.
Proof. revert k. induction l as [|x xs IH]; intros k; cbn [imap map]; [|rewrite IH]; reflexivity. Qed.

Lemma imap_nth {A B} (g : Z -> A -> B) l : forall k j,
  nth_error (imap g k l) j = option_map (g (k + Z.of_nat j)) (nth_error l j).
Proof.
  induction l as [|x xs IH]; intros k j.
  - destruct j; reflexivity.
  - destruct j as [|j]; cbn [imap nth_error option_map].
    + rewrite Z.add_0_r. reflexivity.
    + rewrite IH. replace (k + 1 + Z.of_nat j) with (k + Z.of_nat (S j)) by lia. reflexivity.
Qed.

(** the formulation with [combine (seq ..)] *)
Lemma imap_combine_gen {A B} (g : Z -> A -> B) l s :
  imap g (Z.of_nat s) l = map (fun p => g (Z.of_nat (fst p)) (snd p)) (combine (seq s (length l)) l).
Proof.
  revert s. induction l as [|x xs IH]; intros s; [reflexivity|].
  cbn [imap length seq combine map fst snd]. f_equal.
  replace (Z.of_nat s + 1) with (Z.of_nat (S s)) by lia. apply IH.
Qed.

Lemma imap_combine {A B} (g : Z -> A -> B) l :
  imap g 0 l = map (fun p => g (Z.of_nat (fst p)) (snd p)) (combine (seq 0 (length l)) l).
Proof. apply (imap_combine_gen g l 0). Qed.

(** a map over the index range alone *)
Lemma imapM_index {A B} (F : Z -> res B) (t : list A) s :
  imapM (fun i _ => F i) (Z.of_nat s) t = mapM F (map Z.of_nat (seq s (length t))).
Proof.
  revert s. induction t as [|x xs IH]; intros s; [reflexivity|].
  cbn [imapM length seq map mapM].
  replace (Z.of_nat s + 1) with (Z.of_nat (S s)) by lia. rewrite IH. reflexivity.
Qed.

(** reading a second vector by index inside an indexed map is a zip *)
Lemma mapM_get_index {A B} (F : A -> res B) (v : list A) m : forall k,
  (k + m = length v)%nat ->
  mapM (fun i => do x <- get v i; F x) (map Z.of_nat (seq k m)) = mapM F (skipn k v).
Proof.
  induction m as [|m IH]; intros k H.
  - rewrite skipn_all2 by lia. reflexivity.
  - destruct (skipn k v) as [|x rest] eqn:E.
    { exfalso. apply (f_equal (@length A)) in E. rewrite skipn_length in E. cbn [length] in E. lia. }
    destruct (get_skipn _ _ _ _ E) as (G & S').
    cbn [seq map mapM]. rewrite G. cbn [bind]. rewrite IH by lia. rewrite S'. reflexivity.
Qed.

(** general facts on [mapM]/[map2M] used to pass from the equational theorems to [Ok] forms *)
Lemma mapM_Forall2 {A B} (f : A -> res B) l r :
  mapM f l = Ok r <-> Forall2 (fun a y => f a = Ok y) l r.
Proof.
  revert r. induction l as [|x xs IH]; intros r; cbn [mapM].
  - split; intros H; [inversion H; constructor | inversion H; reflexivity].
  - split; intros H.
    + apply bind_ok in H as (y & Hy & H). apply bind_ok in H as (ys & Hys & H).
      inversion H; subst. constructor; [exact Hy | apply IH; exact Hys].
    + inversion H as [|? y ? ys Hy Hys]; subst. rewrite Hy. cbn [bind].
      apply IH in Hys. rewrite Hys. reflexivity.
Qed.

Lemma mapM_exists {A B} (f : A -> res B) (Q : A -> B -> Prop) l :
  (forall a, In a l -> exists y, f a = Ok y /\ Q a y) ->
  exists r, mapM f l = Ok r /\ Forall2 Q l r.
Proof.
  induction l as [|x xs IH]; intros H.
  - exists []. split; [reflexivity | constructor].
  - destruct (H x (or_introl eq_refl)) as (y & Hy & Qy).
    destruct IH as (r & Hr & Qr); [intros a Ha; apply H; right; exact Ha|].
    exists (y :: r). cbn [mapM]. rewrite Hy. cbn [bind]. rewrite Hr. split; [reflexivity|].
    constructor; assumption.
Qed.

Lemma map2M_length {A B C} (f : A -> B -> res C) l1 : forall l2 r,
  map2M f l1 l2 = Ok r -> length l1 = length l2 /\ length r = length l1.
Proof.
  induction l1 as [|x xs IH]; intros [|y ys] r H; cbn [map2M] in H; try discriminate.
  - inversion H. split; reflexivity.
  - apply bind_ok in H as (z & _ & H). apply bind_ok in H as (zs & Hzs & H).
    inversion H; subst. destruct (IH _ _ Hzs) as (E1 & E2). cbn [length]. split; congruence.
Qed.

(** * 4. The two generic index loops *)

Lemma for_idx_core {A} (f : Z -> A -> res A) suf : forall pre,
  foldM (fun v i => do x <- get v i; do y <- f i x; set v i y)
        (map Z.of_nat (seq (length pre) (length suf))) (pre ++ suf)
  = do r <- imapM f (Z.of_nat (length pre)) suf; Ok (pre ++ r).
Proof.
  induction suf as [|x suf IH]; intros pre.
  - cbn [length seq map foldM imapM bind]. reflexivity.
  - cbn [length seq map foldM imapM]. rewrite get_app_mid. cbn [bind].
    destruct (f (Z.of_nat (length pre)) x) as [y| |]; cbn [bind]; try reflexivity.
    rewrite set_app_mid. cbn [bind].
    rewrite snoc_app. rewrite <- (snoc_length pre y). rewrite IH.
    rewrite snoc_length. replace (Z.of_nat (S (length pre))) with (Z.of_nat (length pre) + 1) by lia.
    destruct (imapM f (Z.of_nat (length pre) + 1) suf) as [ys| |]; cbn [bind]; try reflexivity.
    rewrite <- app_assoc. reflexivity.
Qed.

(** [for i in 0..n { v[i] = f(i, v[i]) }] is the indexed monadic map — unconditionally *)
Theorem for_idx_imapM {A} (f : Z -> A -> res A) n v :
  length v = Z.to_nat n -> for_idx n f v = imapM f 0 v.
Proof.
  intros Hl. unfold for_idx. rewrite zrange0_seq, <- Hl.
  pose proof (for_idx_core f v []) as H. cbn [length app] in H. rewrite H.
  change (Z.of_nat 0) with 0. destruct (imapM f 0 v); reflexivity.
Qed.

(** the requested [Ok] form, index-dependent *)
Theorem for_idx_map {A} (f : Z -> A -> res A) (g : Z -> A -> A) n v :
  0 <= n -> length v = Z.to_nat n ->
  (forall i x, 0 <= i < n -> nth_error v (Z.to_nat i) = Some x -> f i x = Ok (g i x)) ->
  for_idx n f v = Ok (map (fun p => g (Z.of_nat (fst p)) (snd p)) (combine (seq 0 (length v)) v)).
Proof.
  intros Hn Hl H. rewrite for_idx_imapM by exact Hl. rewrite <- imap_combine.
  apply imapM_ok. intros j x Hj. rewrite Z.add_0_l. apply H.
  - assert (j < length v)%nat by (apply nth_error_Some; congruence). lia.
  - rewrite Nat2Z.id. exact Hj.
Qed.

(** index-independent corollaries *)
Theorem for_idx_mapM {A} (f : A -> res A) n v :
  length v = Z.to_nat n -> for_idx n (fun _ => f) v = mapM f v.
Proof. intros Hl. rewrite for_idx_imapM by exact Hl. apply imapM_const. Qed.

Theorem for_idx_map_const {A} (f : Z -> A -> res A) (g : A -> A) n v :
  length v = Z.to_nat n ->
  (forall i x, In x v -> f i x = Ok (g x)) ->
  for_idx n f v = Ok (map g v).
Proof.
  intros Hl H. rewrite for_idx_imapM by exact Hl.
  rewrite (imapM_ok f (fun _ => g)); [rewrite imap_const; reflexivity|].
  intros j x Hj. apply H. eapply nth_error_In; eauto.
Qed.

(** a loop body that ignores the old entry: a map over the index range *)
Theorem for_idx_index {A} (F : Z -> res A) n t :
  length t = Z.to_nat n -> for_idx n (fun i _ => F i) t = mapM F (zrange 0 n).
Proof.
  intros Hl. rewrite for_idx_imapM by exact Hl. rewrite zrange0_seq, <- Hl.
  apply (imapM_index F t 0).
Qed.

Lemma for_idx2_core {A B} (f : A -> B -> res A) suf : forall pre k (v : list B),
  k = length pre -> length (skipn k v) = length suf ->
  foldM (fun w i => do x <- get w i; do y <- get v i; do z <- f x y; set w i z)
        (map Z.of_nat (seq k (length suf))) (pre ++ suf)
  = do r <- map2M f suf (skipn k v); Ok (pre ++ r).
Proof.
  induction suf as [|x suf IH]; intros pre k v Hk Hv; subst k.
  - cbn [length seq map foldM]. destruct (skipn (length pre) v); [|discriminate]. reflexivity.
  - destruct (skipn (length pre) v) as [|y rest] eqn:E; [discriminate|].
    destruct (get_skipn _ _ _ _ E) as (G & S').
    cbn [length seq map foldM map2M]. rewrite get_app_mid. cbn [bind].
    rewrite G. cbn [bind].
    destruct (f x y) as [z| |]; cbn [bind]; try reflexivity.
    rewrite set_app_mid. cbn [bind].
    rewrite snoc_app. rewrite (IH (pre ++ [z]) (S (length pre)) v).
    + rewrite S'. destruct (map2M f suf rest); cbn [bind]; try reflexivity.
      rewrite <- app_assoc. reflexivity.
    + rewrite snoc_length. lia.
    + rewrite S'. cbn [length] in Hv. lia.
Qed.

(** [for i in 0..n { w[i] = f(w[i], v[i]) }] is the monadic zip — unconditionally *)
Theorem for_idx2_map2M {A B} (f : A -> B -> res A) n w v :
  length w = Z.to_nat n -> length v = Z.to_nat n -> for_idx2 n f w v = map2M f w v.
Proof.
  intros Hw Hv. unfold for_idx2. rewrite zrange0_seq, <- Hw.
  pose proof (for_idx2_core f w [] 0%nat v eq_refl) as H. cbn [skipn app] in H.
  rewrite H by lia. destruct (map2M f w v); reflexivity.
Qed.

Theorem for_idx2_map2 {A B} (f : A -> B -> res A) (g : A -> B -> A) n w v :
  length w = Z.to_nat n -> length v = Z.to_nat n ->
  (forall x y, In (x, y) (combine w v) -> f x y = Ok (g x y)) ->
  for_idx2 n f w v = Ok (map (fun p => g (fst p) (snd p)) (combine w v)).
Proof.
  intros Hw Hv H. rewrite for_idx2_map2M by assumption. apply map2M_ok; [lia | exact H].
Qed.

Lemma mapM_ext_in {A B} (f g : A -> res B) l :
  (forall x, In x l -> f x = g x) -> mapM f l = mapM g l.
Proof.
  induction l as [|x xs IH]; intros H; [reflexivity|].
  cbn [mapM]. rewrite (H x) by (left; reflexivity). rewrite IH; [reflexivity|].
  intros y Hy. apply H. right. exact Hy.
Qed.

Lemma imap_index {A B} (G : Z -> B) (t : list A) s :
  imap (fun i _ => G i) (Z.of_nat s) t = map G (map Z.of_nat (seq s (length t))).
Proof.
  revert s. induction t as [|x xs IH]; intros s; [reflexivity|].
  cbn [imap length seq map]. replace (Z.of_nat s + 1) with (Z.of_nat (S s)) by lia.
  rewrite IH. reflexivity.
Qed.

(** * 5. [vec_map] and its eight instances *)

Theorem vec_map_mapM n f v : length v = Z.to_nat n -> vec_map n f v = mapM f v.
Proof. intros H. unfold vec_map. apply for_idx_mapM. exact H. Qed.

Theorem vec_map_ok n f (g : list Z -> list Z) v :
  length v = Z.to_nat n -> (forall a, In a v -> f a = Ok (g a)) -> vec_map n f v = Ok (map g v).
Proof. intros Hl H. rewrite vec_map_mapM by exact Hl. apply mapM_ok. exact H. Qed.

(** relational form, for polynomial operations only known through an existential specification *)
Theorem vec_map_spec n f (Q : list Z -> list Z -> Prop) v :
  length v = Z.to_nat n -> (forall a, In a v -> exists y, f a = Ok y /\ Q a y) ->
  exists r, vec_map n f v = Ok r /\ Forall2 Q v r.
Proof. intros Hl H. rewrite vec_map_mapM by exact Hl. apply mapM_exists. exact H. Qed.

Section VecInstances.
  Variable P : params.
  Variable v : list (list Z).

  Lemma l_reduce_lift : length v = Z.to_nat (pL P) -> l_reduce P v = mapM poly_reduce v.
  Proof. apply vec_map_mapM. Qed.
  Lemma k_reduce_lift : length v = Z.to_nat (pK P) -> k_reduce P v = mapM poly_reduce v.
  Proof. apply vec_map_mapM. Qed.
  Lemma k_caddq_lift : length v = Z.to_nat (pK P) -> k_caddq P v = mapM poly_caddq v.
  Proof. apply vec_map_mapM. Qed.
  Lemma l_ntt_lift : length v = Z.to_nat (pL P) -> l_ntt P v = mapM poly_ntt v.
  Proof. apply vec_map_mapM. Qed.
  Lemma k_ntt_lift : length v = Z.to_nat (pK P) -> k_ntt P v = mapM poly_ntt v.
  Proof. apply vec_map_mapM. Qed.
  Lemma l_invntt_tomont_lift : length v = Z.to_nat (pL P) -> l_invntt_tomont P v = mapM poly_invntt_tomont v.
  Proof. apply vec_map_mapM. Qed.
  Lemma k_invntt_tomont_lift : length v = Z.to_nat (pK P) -> k_invntt_tomont P v = mapM poly_invntt_tomont v.
  Proof. apply vec_map_mapM. Qed.
  Lemma k_shiftl_lift : length v = Z.to_nat (pK P) -> k_shiftl P v = mapM poly_shiftl v.
  Proof. apply vec_map_mapM. Qed.
End VecInstances.

(** closed forms of the two scalar kernels on their documented domains (PReduce has them existentially) *)
Definition reduce32_val (c : Z) : Z := c - ((c + 4194304) / 8388608) * Q.

Lemma reduce32_exact a : - 2 ^ 31 <= a <= 2 ^ 31 - 2 ^ 22 - 1 -> reduce32 a = Ok (reduce32_val a).
Proof.
  intros Ha. unfold reduce32, reduce32_val, i32_add, i32_sub, i32_wrapping_mul.
  change (2 ^ 31) with 2147483648 in Ha. change (2 ^ 22) with 4194304 in Ha.
  rewrite chk_s_ok by (rewrite two31; lia). cbn [bind].
  rewrite shr_ok by lia. cbn [bind].
  change (2 ^ 23) with 8388608.
  set (t := (a + 4194304) / 8388608).
  assert (Bt : -256 <= t <= 255) by (unfold t; lia).
  rewrite (wrap_id 32 (t * Q)) by (try lia; rewrite two31; unfold Q; lia).
  assert (Br : -6283009 <= a - t * Q <= 6283008) by (unfold t, Q; lia).
  rewrite chk_s_ok by (rewrite two31; lia). reflexivity.
Qed.

Lemma reduce32_val_spec a : - 2 ^ 31 <= a <= 2 ^ 31 - 2 ^ 22 - 1 ->
  cong Q (reduce32_val a) a /\ -6283009 <= reduce32_val a <= 6283008.
Proof.
  intros Ha. destruct (reduce32_ok a Ha) as (r & E & C & B).
  rewrite reduce32_exact in E by exact Ha. inversion E; subst. split; assumption.
Qed.

Definition coeffs_in (lo hi : Z) (v : list (list Z)) : Prop :=
  forall a, In a v -> forall c, In c a -> lo <= c <= hi.

Theorem poly_reduce_exact a :
  (forall c, In c a -> - 2 ^ 31 <= c <= 2 ^ 31 - 2 ^ 22 - 1) -> poly_reduce a = Ok (map reduce32_val a).
Proof. intros H. apply mapM_ok. intros c Hc. apply reduce32_exact. auto. Qed.

Theorem poly_caddq_exact a :
  (forall c, In c a -> - Q < c < Q) -> poly_caddq a = Ok (map (fun c => c mod Q) a).
Proof. intros H. apply mapM_ok. intros c Hc. apply caddq_ok. auto. Qed.

Theorem k_reduce_exact P v : length v = Z.to_nat (pK P) ->
  coeffs_in (- 2 ^ 31) (2 ^ 31 - 2 ^ 22 - 1) v ->
  k_reduce P v = Ok (map (map reduce32_val) v).
Proof.
  intros Hl H. apply vec_map_ok; [exact Hl|]. intros a Ha. apply poly_reduce_exact. exact (H a Ha).
Qed.

Theorem l_reduce_exact P v : length v = Z.to_nat (pL P) ->
  coeffs_in (- 2 ^ 31) (2 ^ 31 - 2 ^ 22 - 1) v ->
  l_reduce P v = Ok (map (map reduce32_val) v).
Proof.
  intros Hl H. apply vec_map_ok; [exact Hl|]. intros a Ha. apply poly_reduce_exact. exact (H a Ha).
Qed.

(** what the result looks like: congruent mod Q, in the centred range, nothing else touched *)
Theorem reduce_result_spec v :
  coeffs_in (- 2 ^ 31) (2 ^ 31 - 2 ^ 22 - 1) v ->
  length (map (map reduce32_val) v) = length v /\
  Forall2 (Forall2 (fun c y => cong Q y c /\ -6283009 <= y <= 6283008)) v (map (map reduce32_val) v).
Proof.
  intros H. split; [apply map_length|].
  induction v as [|a v IH]; cbn [map]; constructor.
  - assert (Ha : forall c, In c a -> - 2 ^ 31 <= c <= 2 ^ 31 - 2 ^ 22 - 1) by (apply H; left; reflexivity).
    clear - Ha. induction a as [|c a IHa]; cbn [map]; constructor.
    + apply reduce32_val_spec. apply Ha. left. reflexivity.
    + apply IHa. intros x Hx. apply Ha. right. exact Hx.
  - apply IH. intros a' Ha' c Hc. exact (H a' (or_intror Ha') c Hc).
Qed.

(** the existential packaging: success, same shape, every coefficient congruent and centred *)
Corollary k_reduce_spec P v : length v = Z.to_nat (pK P) ->
  coeffs_in (- 2 ^ 31) (2 ^ 31 - 2 ^ 22 - 1) v ->
  exists r, k_reduce P v = Ok r /\ length r = length v /\
    Forall2 (Forall2 (fun c y => cong Q y c /\ -6283009 <= y <= 6283008)) v r.
Proof.
  intros Hl H. exists (map (map reduce32_val) v). split; [apply k_reduce_exact; assumption|].
  apply reduce_result_spec. exact H.
Qed.

Corollary l_reduce_spec P v : length v = Z.to_nat (pL P) ->
  coeffs_in (- 2 ^ 31) (2 ^ 31 - 2 ^ 22 - 1) v ->
  exists r, l_reduce P v = Ok r /\ length r = length v /\
    Forall2 (Forall2 (fun c y => cong Q y c /\ -6283009 <= y <= 6283008)) v r.
Proof.
  intros Hl H. exists (map (map reduce32_val) v). split; [apply l_reduce_exact; assumption|].
  apply reduce_result_spec. exact H.
Qed.

Theorem k_caddq_exact P v : length v = Z.to_nat (pK P) ->
  (forall a, In a v -> forall c, In c a -> - Q < c < Q) ->
  k_caddq P v = Ok (map (map (fun c => c mod Q)) v).
Proof.
  intros Hl H. apply vec_map_ok; [exact Hl|]. intros a Ha. apply poly_caddq_exact. exact (H a Ha).
Qed.

(** * 6. Zipped operations *)

Section Zips.
  Variable P : params.
  Variables w v : list (list Z).

  Theorem l_add_lift : length w = Z.to_nat (pL P) -> length v = Z.to_nat (pL P) ->
    l_add P w v = map2M poly_add w v.
  Proof. apply for_idx2_map2M. Qed.
  Theorem k_add_lift : length w = Z.to_nat (pK P) -> length v = Z.to_nat (pK P) ->
    k_add P w v = map2M poly_add w v.
  Proof. apply for_idx2_map2M. Qed.
  Theorem k_sub_lift : length w = Z.to_nat (pK P) -> length v = Z.to_nat (pK P) ->
    k_sub P w v = map2M poly_sub w v.
  Proof. apply for_idx2_map2M. Qed.
  Theorem k_use_hint_lift : length w = Z.to_nat (pK P) -> length v = Z.to_nat (pK P) ->
    k_use_hint P w v = map2M (poly_use_hint (pG88 P)) w v.
  Proof. apply for_idx2_map2M. Qed.

  Variable g : list Z -> list Z -> list Z.
  Let zipg := map (fun p => g (fst p) (snd p)) (combine w v).

  Theorem l_add_ok : length w = Z.to_nat (pL P) -> length v = Z.to_nat (pL P) ->
    (forall a b, In (a, b) (combine w v) -> poly_add a b = Ok (g a b)) -> l_add P w v = Ok zipg.
  Proof. apply for_idx2_map2. Qed.
  Theorem k_add_ok : length w = Z.to_nat (pK P) -> length v = Z.to_nat (pK P) ->
    (forall a b, In (a, b) (combine w v) -> poly_add a b = Ok (g a b)) -> k_add P w v = Ok zipg.
  Proof. apply for_idx2_map2. Qed.
  Theorem k_sub_ok : length w = Z.to_nat (pK P) -> length v = Z.to_nat (pK P) ->
    (forall a b, In (a, b) (combine w v) -> poly_sub a b = Ok (g a b)) -> k_sub P w v = Ok zipg.
  Proof. apply for_idx2_map2. Qed.
  Theorem k_use_hint_ok : length w = Z.to_nat (pK P) -> length v = Z.to_nat (pK P) ->
    (forall a b, In (a, b) (combine w v) -> poly_use_hint (pG88 P) a b = Ok (g a b)) ->
    k_use_hint P w v = Ok zipg.
  Proof. apply for_idx2_map2. Qed.
End Zips.

(** coefficient level for add/sub: succeeds exactly with the integer sums when they all fit in i32 *)
Theorem poly_add_exact a b : length a = length b ->
  (forall x y, In (x, y) (combine a b) -> - 2 ^ 31 <= x + y < 2 ^ 31) ->
  poly_add a b = Ok (map (fun p => fst p + snd p) (combine a b)).
Proof.
  intros Hl H. unfold poly_add. apply (map2M_ok i32_add Z.add); [exact Hl|].
  intros x y Hxy. apply chk_s_ok. rewrite two31. apply H. exact Hxy.
Qed.

Theorem poly_sub_exact a b : length a = length b ->
  (forall x y, In (x, y) (combine a b) -> - 2 ^ 31 <= x - y < 2 ^ 31) ->
  poly_sub a b = Ok (map (fun p => fst p - snd p) (combine a b)).
Proof.
  intros Hl H. unfold poly_sub. apply (map2M_ok i32_sub Z.sub); [exact Hl|].
  intros x y Hxy. apply chk_s_ok. rewrite two31. apply H. exact Hxy.
Qed.

(** * 7. Pointwise product by one polynomial: the incoming [r] only contributes its length *)

Theorem l_pointwise_poly_montgomery_lift P r a v :
  length r = Z.to_nat (pL P) -> length v = Z.to_nat (pL P) ->
  l_pointwise_poly_montgomery P r a v = mapM (poly_pointwise_montgomery a) v.
Proof.
  intros Hr Hv. unfold l_pointwise_poly_montgomery.
  rewrite (for_idx_index (fun i => do vi <- get v i; poly_pointwise_montgomery a vi)) by exact Hr.
  rewrite zrange0_seq. apply (mapM_get_index (poly_pointwise_montgomery a) v _ 0). lia.
Qed.

Theorem k_pointwise_poly_montgomery_lift P r a v :
  length r = Z.to_nat (pK P) -> length v = Z.to_nat (pK P) ->
  k_pointwise_poly_montgomery P r a v = mapM (poly_pointwise_montgomery a) v.
Proof.
  intros Hr Hv. unfold k_pointwise_poly_montgomery.
  rewrite (for_idx_index (fun i => do vi <- get v i; poly_pointwise_montgomery a vi)) by exact Hr.
  rewrite zrange0_seq. apply (mapM_get_index (poly_pointwise_montgomery a) v _ 0). lia.
Qed.

Theorem l_pointwise_poly_montgomery_ok P r a v (g : list Z -> list Z) :
  length r = Z.to_nat (pL P) -> length v = Z.to_nat (pL P) ->
  (forall b, In b v -> poly_pointwise_montgomery a b = Ok (g b)) ->
  l_pointwise_poly_montgomery P r a v = Ok (map g v).
Proof. intros Hr Hv H. rewrite l_pointwise_poly_montgomery_lift by assumption. apply mapM_ok. exact H. Qed.

Theorem k_pointwise_poly_montgomery_ok P r a v (g : list Z -> list Z) :
  length r = Z.to_nat (pK P) -> length v = Z.to_nat (pK P) ->
  (forall b, In b v -> poly_pointwise_montgomery a b = Ok (g b)) ->
  k_pointwise_poly_montgomery P r a v = Ok (map g v).
Proof. intros Hr Hv H. rewrite k_pointwise_poly_montgomery_lift by assumption. apply mapM_ok. exact H. Qed.

(** * 8. Row times vector, matrix times vector *)

(** reference: accumulate the products of the zipped row into [w], left to right *)
Fixpoint acc_ref (w : list Z) (uv : list (list Z * list Z)) : res (list Z) :=
  match uv with
  | [] => Ok w
  | (a, b) :: rest =>
    do t <- poly_pointwise_montgomery a b; do w' <- poly_add w t; acc_ref w' rest
  end.

(** the row product starts from the j = 0 product (not from a zero polynomial) *)
Definition row_ref (u v : list (list Z)) : res (list Z) :=
  match combine u v with
  | [] => Panic
  | (a, b) :: rest => do w <- poly_pointwise_montgomery a b; acc_ref w rest
  end.

Lemma acc_core (u v : list (list Z)) m : forall k w,
  (k + m = length u)%nat -> length v = length u ->
  foldM (fun w i => do ui <- get u i; do vi <- get v i;
                    do t <- poly_pointwise_montgomery ui vi; poly_add w t)
        (map Z.of_nat (seq k m)) w
  = acc_ref w (combine (skipn k u) (skipn k v)).
Proof.
  induction m as [|m IH]; intros k w Hk Hv.
  - rewrite (skipn_all2 u) by lia. reflexivity.
  - destruct (skipn k u) as [|x ru] eqn:Eu.
    { exfalso. apply (f_equal (@length _)) in Eu. rewrite skipn_length in Eu. cbn [length] in Eu. lia. }
    destruct (skipn k v) as [|y rv] eqn:Ev.
    { exfalso. apply (f_equal (@length _)) in Ev. rewrite skipn_length in Ev. cbn [length] in Ev. lia. }
    destruct (get_skipn _ _ _ _ Eu) as (Gu & Su). destruct (get_skipn _ _ _ _ Ev) as (Gv & Sv).
    cbn [seq map foldM combine acc_ref]. rewrite Gu, Gv. cbn [bind].
    destruct (poly_pointwise_montgomery x y) as [t| |]; cbn [bind]; try reflexivity.
    destruct (poly_add w t) as [w'| |]; cbn [bind]; try reflexivity.
    rewrite IH by lia. rewrite Su, Sv. reflexivity.
Qed.

Theorem l_pointwise_acc_montgomery_lift P u v :
  1 <= pL P -> length u = Z.to_nat (pL P) -> length v = Z.to_nat (pL P) ->
  l_pointwise_acc_montgomery P u v = row_ref u v.
Proof.
  intros HL Hu Hv. unfold l_pointwise_acc_montgomery, row_ref.
  destruct u as [|u0 u']; [cbn [length] in Hu; lia|].
  destruct v as [|v0 v']; [cbn [length] in Hv; lia|].
  change (get (u0 :: u') 0) with (Ok u0). change (get (v0 :: v') 0) with (Ok v0).
  cbn [bind combine].
  destruct (poly_pointwise_montgomery u0 v0) as [w| |]; cbn [bind]; try reflexivity.
  rewrite zrange_seq by lia. change (Z.to_nat 1) with 1%nat.
  rewrite (acc_core (u0 :: u') (v0 :: v') (Z.to_nat (pL P - 1)) 1 w).
  - reflexivity.
  - cbn [length] in *. lia.
  - cbn [length] in *. lia.
Qed.

Theorem matrix_pointwise_montgomery_lift P t mat v :
  1 <= pL P -> length t = Z.to_nat (pK P) -> length mat = Z.to_nat (pK P) ->
  (forall row, In row mat -> length row = Z.to_nat (pL P)) -> length v = Z.to_nat (pL P) ->
  matrix_pointwise_montgomery P t mat v = mapM (fun row => row_ref row v) mat.
Proof.
  intros HL Ht Hm Hrows Hv. unfold matrix_pointwise_montgomery.
  rewrite (for_idx_index (fun i => do row <- get mat i; l_pointwise_acc_montgomery P row v)) by exact Ht.
  rewrite zrange0_seq.
  rewrite (mapM_get_index (fun row => l_pointwise_acc_montgomery P row v) mat _ 0) by lia.
  cbn [skipn]. apply mapM_ext_in. intros row Hrow.
  apply l_pointwise_acc_montgomery_lift; auto.
Qed.

Theorem matrix_pointwise_montgomery_ok P t mat v (h : list (list Z) -> list Z) :
  1 <= pL P -> length t = Z.to_nat (pK P) -> length mat = Z.to_nat (pK P) ->
  (forall row, In row mat -> length row = Z.to_nat (pL P)) -> length v = Z.to_nat (pL P) ->
  (forall row, In row mat -> row_ref row v = Ok (h row)) ->
  matrix_pointwise_montgomery P t mat v = Ok (map h mat).
Proof.
  intros HL Ht Hm Hrows Hv H. rewrite matrix_pointwise_montgomery_lift by assumption.
  apply mapM_ok. exact H.
Qed.

(** * 9. Loops that update two vectors at once: [k_power2round], [k_decompose] *)

Definition pair_step {A B} (F : A -> res (A * B)) : list A * list B -> Z -> res (list A * list B) :=
  fun '(v1, v0) i =>
    do a <- get v1 i; do _ <- get v0 i;
    do '(a1, a0) <- F a;
    do v1' <- set v1 i a1; do v0' <- set v0 i a0; Ok (v1', v0').

Lemma pair_core {A B} (F : A -> res (A * B)) suf1 : forall suf0 pre1 pre0,
  length pre0 = length pre1 -> length suf0 = length suf1 ->
  foldM (pair_step F) (map Z.of_nat (seq (length pre1) (length suf1))) (pre1 ++ suf1, pre0 ++ suf0)
  = do l <- mapM F suf1; Ok (pre1 ++ map fst l, pre0 ++ map snd l).
Proof.
  induction suf1 as [|a suf1 IH]; intros [|b suf0] pre1 pre0 Hp Hs; try discriminate.
  - cbn [length seq map foldM mapM bind]. reflexivity.
  - cbn [length seq map foldM mapM].
    assert (G0 : get (pre0 ++ b :: suf0) (Z.of_nat (length pre1)) = Ok b)
      by (rewrite <- Hp; apply get_app_mid).
    unfold pair_step at 1. rewrite get_app_mid, G0. cbn [bind].
    destruct (F a) as [[a1 a0]| |]; cbn [bind]; try reflexivity.
    rewrite set_app_mid. cbn [bind].
    assert (S0 : set (pre0 ++ b :: suf0) (Z.of_nat (length pre1)) a0 = Ok (pre0 ++ a0 :: suf0))
      by (rewrite <- Hp; apply set_app_mid).
    rewrite S0. cbn [bind].
    rewrite (snoc_app pre1), (snoc_app pre0). rewrite <- (snoc_length pre1 a1).
    rewrite IH.
    + destruct (mapM F suf1) as [l| |]; cbn [bind map fst snd]; try reflexivity.
      rewrite <- !app_assoc. reflexivity.
    + rewrite !snoc_length. lia.
    + cbn [length] in Hs. lia.
Qed.

Theorem pair_loop {A B} (F : A -> res (A * B)) n v1 v0 :
  length v1 = Z.to_nat n -> length v0 = Z.to_nat n ->
  foldM (pair_step F) (zrange 0 n) (v1, v0) = do l <- mapM F v1; Ok (map fst l, map snd l).
Proof.
  intros H1 H0. rewrite zrange0_seq, <- H1.
  apply (pair_core F v1 v0 [] []); [reflexivity | lia].
Qed.

(** [v0] contributes only its length *)
Theorem k_power2round_lift P v1 v0 :
  length v1 = Z.to_nat (pK P) -> length v0 = Z.to_nat (pK P) ->
  k_power2round P v1 v0 = do l <- mapM poly_power2round v1; Ok (map fst l, map snd l).
Proof. intros H1 H0. exact (pair_loop poly_power2round (pK P) v1 v0 H1 H0). Qed.

Theorem k_power2round_ok P v1 v0 (g1 g0 : list Z -> list Z) :
  length v1 = Z.to_nat (pK P) -> length v0 = Z.to_nat (pK P) ->
  (forall a, In a v1 -> poly_power2round a = Ok (g1 a, g0 a)) ->
  k_power2round P v1 v0 = Ok (map g1 v1, map g0 v1).
Proof.
  intros H1 H0 H. rewrite k_power2round_lift by assumption.
  rewrite (mapM_ok poly_power2round (fun a => (g1 a, g0 a))) by exact H. cbn [bind].
  rewrite !map_map. reflexivity.
Qed.

(** down to coefficients: scalar [power2round] returns (a0, a1); the first vector receives the a1 parts *)
Theorem k_power2round_coeffs P v1 v0 ll :
  length v1 = Z.to_nat (pK P) -> length v0 = Z.to_nat (pK P) ->
  mapM (mapM power2round) v1 = Ok ll ->
  k_power2round P v1 v0 = Ok (map (map snd) ll, map (map fst) ll).
Proof.
  intros H1 H0 H. rewrite k_power2round_lift by assumption.
  assert (E : mapM poly_power2round v1 = Ok (map (fun l => (map snd l, map fst l)) ll)).
  { clear H1 H0. revert ll H. induction v1 as [|a v1 IH]; intros ll H; cbn [mapM] in *.
    - inversion H. reflexivity.
    - apply bind_ok in H as (l & Hl & H). apply bind_ok in H as (ls & Hls & H). inversion H; subst.
      unfold poly_power2round at 1. rewrite Hl. cbn [bind]. rewrite (IH _ Hls). reflexivity. }
  rewrite E. cbn [bind]. rewrite !map_map. reflexivity.
Qed.

Theorem k_decompose_lift P v1 v0 :
  length v1 = Z.to_nat (pK P) -> length v0 = Z.to_nat (pK P) ->
  k_decompose P v1 v0 = do l <- mapM (poly_decompose (pG88 P)) v1; Ok (map snd l, map fst l).
Proof.
  intros H1 H0. unfold k_decompose.
  change (foldM _ (zrange 0 (pK P)) (v1, v0))
    with (foldM (pair_step (poly_decompose (pG88 P))) (zrange 0 (pK P)) (v1, v0)).
  rewrite pair_loop by assumption.
  destruct (mapM (poly_decompose (pG88 P)) v1); reflexivity.
Qed.

(** [poly_decompose] returns (low, high); [k_decompose] returns (HIGH, LOW) *)
Theorem k_decompose_high_low P v1 v0 (lo hi : list Z -> list Z) :
  length v1 = Z.to_nat (pK P) -> length v0 = Z.to_nat (pK P) ->
  (forall a, In a v1 -> poly_decompose (pG88 P) a = Ok (lo a, hi a)) ->
  k_decompose P v1 v0 = Ok (map hi v1, map lo v1).
Proof.
  intros H1 H0 H. rewrite k_decompose_lift by assumption.
  rewrite (mapM_ok (poly_decompose (pG88 P)) (fun a => (lo a, hi a))) by exact H. cbn [bind].
  rewrite !map_map. reflexivity.
Qed.

(** down to coefficients: scalar [decompose] returns (a0, a1) = (low, high); the FIRST component of
    [k_decompose]'s result collects the a1 (high) parts, the second the a0 (low) parts *)
Theorem k_decompose_coeffs P v1 v0 ll :
  length v1 = Z.to_nat (pK P) -> length v0 = Z.to_nat (pK P) ->
  mapM (mapM (decompose (pG88 P))) v1 = Ok ll ->
  k_decompose P v1 v0 = Ok (map (map snd) ll, map (map fst) ll).
Proof.
  intros H1 H0 H. rewrite k_decompose_lift by assumption.
  assert (E : mapM (poly_decompose (pG88 P)) v1 = Ok (map (fun l => (map fst l, map snd l)) ll)).
  { clear H1 H0. revert ll H. induction v1 as [|a v1 IH]; intros ll H; cbn [mapM] in *.
    - inversion H. reflexivity.
    - apply bind_ok in H as (l & Hl & H). apply bind_ok in H as (ls & Hls & H). inversion H; subst.
      unfold poly_decompose at 1. rewrite Hl. cbn [bind]. rewrite (IH _ Hls). reflexivity. }
  rewrite E. cbn [bind]. rewrite !map_map. reflexivity.
Qed.

(** * 10. [k_make_hint]: per-polynomial hints and the sum of the counts *)

Definition zsum (l : list Z) : Z := fold_right Z.add 0 l.

Definition mh_step (g88 : bool) (v0 v1 : list (list Z)) : list (list Z) * Z -> Z -> res (list (list Z) * Z) :=
  fun '(h, s) i =>
    do _ <- get h i; do a0 <- get v0 i; do a1 <- get v1 i;
    do '(hi, n) <- poly_make_hint g88 a0 a1;
    do h' <- set h i hi; do s' <- i32_add s n; Ok (h', s').

Lemma mh_core g88 v0 v1 suf : forall pre l s,
  map2M (poly_make_hint g88) (skipn (length pre) v0) (skipn (length pre) v1) = Ok l ->
  length suf = length l ->
  Forall (fun p => 0 <= snd p <= 256) l ->
  0 <= s -> s + 256 * Z.of_nat (length l) < 2 ^ 31 ->
  foldM (mh_step g88 v0 v1) (map Z.of_nat (seq (length pre) (length suf))) (pre ++ suf, s)
  = Ok (pre ++ map fst l, s + zsum (map snd l)).
Proof.
  induction suf as [|x suf IH]; intros pre l s Hm Hl HF Hs Hb.
  - destruct l; [|discriminate]. cbn [length seq map foldM zsum fold_right].
    rewrite Z.add_0_r. reflexivity.
  - destruct l as [|[hi n] l]; [discriminate|].
    destruct (skipn (length pre) v0) as [|a0 r0] eqn:E0;
      destruct (skipn (length pre) v1) as [|a1 r1] eqn:E1; cbn [map2M] in Hm; try discriminate.
    destruct (get_skipn _ _ _ _ E0) as (G0 & S0). destruct (get_skipn _ _ _ _ E1) as (G1 & S1).
    apply bind_ok in Hm as (p & Hp & Hm). apply bind_ok in Hm as (l' & Hl' & Hm).
    inversion Hm; subst p l'. clear Hm.
    inversion HF as [|? ? Hn HF']; subst. cbn [snd] in Hn.
    cbn [length] in Hl, Hb. change (2 ^ 31) with 2147483648 in Hb.
    cbn [length seq map foldM]. unfold mh_step at 1.
    rewrite get_app_mid, G0, G1. cbn [bind]. rewrite Hp. cbn [bind].
    rewrite set_app_mid. cbn [bind].
    unfold i32_add. rewrite chk_s_ok by (rewrite two31; lia). cbn [bind].
    rewrite snoc_app. rewrite <- (snoc_length pre hi).
    rewrite (IH (pre ++ [hi]) l (s + n)).
    + cbn [map fst snd zsum fold_right]. rewrite <- app_assoc. f_equal. f_equal.
      fold (zsum (map snd l)). lia.
    + rewrite snoc_length. exact Hl'.
    + lia.
    + exact HF'.
    + lia.
    + change (2 ^ 31) with 2147483648. lia.
Qed.

(** [h] contributes only its length.  The hypothesis on the counts is discharged for real polynomials by
    [poly_make_hint_count] below; [pK P <= 8388607] is what keeps 256*K inside i32 (K <= 8 in practice). *)
Theorem k_make_hint_ok P h v0 v1 l :
  length h = Z.to_nat (pK P) -> 0 <= pK P <= 8388607 ->
  map2M (poly_make_hint (pG88 P)) v0 v1 = Ok l ->
  length l = Z.to_nat (pK P) ->
  Forall (fun p => 0 <= snd p <= 256) l ->
  k_make_hint P h v0 v1 = Ok (map fst l, zsum (map snd l)).
Proof.
  intros Hh HK Hm Hl HF. unfold k_make_hint.
  change (foldM _ (zrange 0 (pK P)) (h, 0))
    with (foldM (mh_step (pG88 P) v0 v1) (zrange 0 (pK P)) (h, 0)).
  rewrite zrange0_seq, <- Hh.
  pose proof (mh_core (pG88 P) v0 v1 h [] l 0) as H. cbn [length app skipn] in H.
  rewrite H; try assumption.
  - reflexivity.
  - lia.
  - lia.
  - change (2 ^ 31) with 2147483648. lia.
Qed.

(** the count returned by [poly_make_hint] is the number of ones, hence between 0 and the length *)
Lemma make_hint_bit g88 a0 a1 y : make_hint g88 a0 a1 = Ok y -> y = 0 \/ y = 1.
Proof.
  unfold make_hint. intros H. apply bind_ok in H as (ng & _ & H).
  destruct ((GAMMA2 g88 <? a0) || (a0 <? ng) || ((a0 =? ng) && negb (a1 =? 0))); inversion H; auto.
Qed.

Lemma map2M_Forall {A B C} (f : A -> B -> res C) (Q : C -> Prop) l1 : forall l2 r,
  (forall x y z, f x y = Ok z -> Q z) -> map2M f l1 l2 = Ok r -> Forall Q r.
Proof.
  induction l1 as [|x xs IH]; intros [|y ys] r HQ H; cbn [map2M] in H; try discriminate.
  - inversion H. constructor.
  - apply bind_ok in H as (z & Hz & H). apply bind_ok in H as (zs & Hzs & H). inversion H; subst.
    constructor; eauto.
Qed.

Lemma sum_bits_ok h : forall s,
  Forall (fun y => y = 0 \/ y = 1) h -> 0 <= s -> s + Z.of_nat (length h) < 2 ^ 31 ->
  exists t, foldM (fun s x => i32_add s x) h s = Ok t /\ t = s + zsum h /\ s <= t <= s + Z.of_nat (length h).
Proof.
  induction h as [|y h IH]; intros s HF Hs Hb.
  - exists s. cbn [foldM zsum fold_right length]. repeat split; lia.
  - inversion HF as [|? ? Hy HF']; subst. cbn [length] in Hb. change (2 ^ 31) with 2147483648 in Hb.
    cbn [foldM]. unfold i32_add at 1. rewrite chk_s_ok by (rewrite two31; lia). cbn [bind].
    destruct (IH (s + y) HF') as (t & Ht & Et & Bt); [lia | change (2 ^ 31) with 2147483648; lia|].
    exists t. split; [exact Ht|]. cbn [zsum fold_right length]. fold (zsum h). lia.
Qed.

Theorem poly_make_hint_count g88 a0 a1 h s :
  Z.of_nat (length a0) < 2 ^ 31 ->
  poly_make_hint g88 a0 a1 = Ok (h, s) ->
  length h = length a0 /\ Forall (fun y => y = 0 \/ y = 1) h /\ s = zsum h /\ 0 <= s <= Z.of_nat (length a0).
Proof.
  intros Hlen H. unfold poly_make_hint in H.
  apply bind_ok in H as (h' & Hh & H). apply bind_ok in H as (s' & Hs & H). inversion H; subst h' s'.
  destruct (map2M_length _ _ _ _ Hh) as (_ & Lh).
  assert (HF : Forall (fun y => y = 0 \/ y = 1) h)
    by (eapply map2M_Forall; [|exact Hh]; intros x y z Hz; eapply make_hint_bit; exact Hz).
  destruct (sum_bits_ok h 0 HF) as (t & Ht & Et & Bt); [lia | rewrite Lh; lia|].
  rewrite Ht in Hs. inversion Hs; subst t. rewrite Lh in Bt. repeat split; try assumption; lia.
Qed.

(** the version with the count hypothesis discharged: polynomials of 256 coefficients *)
Theorem k_make_hint_256 P h v0 v1 l :
  length h = Z.to_nat (pK P) -> 0 <= pK P <= 8388607 ->
  (forall a, In a v0 -> length a = 256%nat) ->
  map2M (poly_make_hint (pG88 P)) v0 v1 = Ok l ->
  length l = Z.to_nat (pK P) ->
  k_make_hint P h v0 v1 = Ok (map fst l, zsum (map snd l)) /\
  0 <= zsum (map snd l) <= 256 * pK P.
Proof.
  intros Hh HK H256 Hm Hl.
  assert (HF : Forall (fun p => 0 <= snd p <= 256) l).
  { clear Hl Hh. revert v1 l Hm. induction v0 as [|a0 v0 IH]; intros [|a1 v1] l Hm; cbn [map2M] in Hm;
      try discriminate.
    - inversion Hm. constructor.
    - apply bind_ok in Hm as ([hi n] & Hp & Hm). apply bind_ok in Hm as (l' & Hl' & Hm).
      inversion Hm; subst. constructor.
      + cbn [snd]. apply poly_make_hint_count in Hp.
        * rewrite (H256 a0 (or_introl eq_refl)) in Hp. lia.
        * rewrite (H256 a0 (or_introl eq_refl)). reflexivity.
      + eapply IH; [|exact Hl']. intros a Ha. apply H256. right. exact Ha. }
  split; [apply k_make_hint_ok; assumption|].
  assert (B : 0 <= zsum (map snd l) <= 256 * Z.of_nat (length l)).
  { clear - HF. induction HF as [|p l Hp HF IH]; cbn [map zsum fold_right length]; [lia|].
    fold (zsum (map snd l)). lia. }
  rewrite Hl in B. lia.
Qed.

(** * 11. [k_pack_w1]: the K encodings, concatenated, overwrite the first K*POLYW1 bytes of [r] *)

Lemma skipn_skipn' {A} (b a : nat) (l : list A) : skipn a (skipn b l) = skipn (b + a) l.
Proof.
  revert l. induction b as [|b IH]; intros l; [reflexivity|].
  destruct l as [|x l]; [rewrite !skipn_nil; reflexivity|]. cbn [skipn Nat.add]. apply IH.
Qed.

Lemma splice_mid {A} (done tail src : list A) off :
  off = zlen done -> zlen src <= zlen tail ->
  splice (done ++ tail) off src = Ok (done ++ src ++ skipn (length src) tail).
Proof.
  unfold splice, zlen. intros -> Hs. rewrite app_length.
  destruct (Z.leb_spec 0 (Z.of_nat (length done))) as [_|H]; [|lia].
  destruct (Z.leb_spec (Z.of_nat (length done) + Z.of_nat (length src))
                       (Z.of_nat (length done + length tail))) as [_|H]; [|lia].
  cbn [andb]. rewrite Nat2Z.id.
  replace (Z.to_nat (Z.of_nat (length done) + Z.of_nat (length src))) with (length done + length src)%nat by lia.
  rewrite firstn_app, firstn_all, Nat.sub_diag. cbn [firstn]. rewrite app_nil_r.
  rewrite skipn_app. rewrite skipn_all2 by lia. cbn [app].
  replace (length done + length src - length done)%nat with (length src) by lia. reflexivity.
Qed.

Definition pw_step (g88 : bool) (W : Z) (a : list (list Z)) : list Z -> Z -> res (list Z) :=
  fun r i => do ai <- get a i; do b <- w1_pack_bytes g88 ai; splice r (i * W) b.

Lemma zlen_concat W (el : list (list Z)) :
  Forall (fun e => zlen e = W) el -> zlen (concat el) = Z.of_nat (length el) * W.
Proof.
  unfold zlen. induction 1 as [|e el He HF IH]; [reflexivity|].
  cbn [concat length]. rewrite app_length, Nat2Z.inj_succ, Z.mul_succ_l. lia.
Qed.

Lemma pw_core g88 W a m : forall k done tail el,
  mapM (w1_pack_bytes g88) (skipn k a) = Ok el -> length el = m ->
  Forall (fun e => zlen e = W) el ->
  zlen done = Z.of_nat k * W -> W * Z.of_nat m <= zlen tail -> 0 <= W ->
  foldM (pw_step g88 W a) (map Z.of_nat (seq k m)) (done ++ tail)
  = Ok (done ++ concat el ++ skipn (Z.to_nat (W * Z.of_nat m)) tail).
Proof.
  induction m as [|m IH]; intros k done tail el Hm Hl HF Hd Ht HW.
  - destruct el; [|discriminate]. cbn [seq map foldM concat app]. rewrite Z.mul_0_r. reflexivity.
  - destruct el as [|e el]; [discriminate|].
    destruct (skipn k a) as [|ai rest] eqn:E; cbn [mapM] in Hm; [discriminate|].
    destruct (get_skipn _ _ _ _ E) as (G & S').
    apply bind_ok in Hm as (e' & He & Hm). apply bind_ok in Hm as (el' & Hel & Hm).
    inversion Hm; subst e' el'. clear Hm.
    pose proof (Forall_inv HF) as Hze. pose proof (Forall_inv_tail HF) as HF'. cbn beta in Hze.
    cbn [length] in Hl.
    assert (Hmul : W * Z.of_nat (S m) = W * Z.of_nat m + W) by (rewrite Nat2Z.inj_succ, Z.mul_succ_r; reflexivity).
    assert (Hpos : 0 <= W * Z.of_nat m) by (apply Z.mul_nonneg_nonneg; lia).
    rewrite Hmul in *.
    cbn [seq map foldM]. unfold pw_step at 1. rewrite G. cbn [bind]. rewrite He. cbn [bind].
    rewrite splice_mid by lia. cbn [bind].
    rewrite app_assoc.
    rewrite (IH (S k) (done ++ e) (skipn (length e) tail) el).
    + rewrite skipn_skipn'. cbn [concat]. rewrite <- !app_assoc. do 5 f_equal.
      unfold zlen in Hze. lia.
    + rewrite S'. exact Hel.
    + lia.
    + exact HF'.
    + unfold zlen in *. rewrite app_length, Nat2Z.inj_succ, Z.mul_succ_l. lia.
    + unfold zlen in *. rewrite skipn_length. lia.
    + exact HW.
Qed.

Theorem k_pack_w1_ok P r a encs :
  0 <= pK P -> length a = Z.to_nat (pK P) ->
  mapM (w1_pack_bytes (pG88 P)) a = Ok encs ->
  Forall (fun e => zlen e = pPOLYW1 P) encs ->
  pK P * pPOLYW1 P <= zlen r ->
  k_pack_w1 P r a = Ok (concat encs ++ skipn (Z.to_nat (pK P * pPOLYW1 P)) r)
  /\ k_pack_w1 P r a = splice r 0 (concat encs)
  /\ zlen (concat encs) = pK P * pPOLYW1 P.
Proof.
  intros HK Ha Hm HF Hr.
  assert (HW : 0 <= pPOLYW1 P) by (unfold pPOLYW1; destruct (pG88 P); lia).
  assert (Hle : length encs = Z.to_nat (pK P)) by (rewrite (mapM_length _ _ _ Hm); exact Ha).
  assert (Hc : zlen (concat encs) = pK P * pPOLYW1 P).
  { rewrite (zlen_concat (pPOLYW1 P)) by exact HF. rewrite Hle. rewrite Z2Nat.id by lia. reflexivity. }
  assert (E : k_pack_w1 P r a = Ok (concat encs ++ skipn (Z.to_nat (pK P * pPOLYW1 P)) r)).
  { unfold k_pack_w1.
    change (foldM _ (zrange 0 (pK P)) r)
      with (foldM (pw_step (pG88 P) (pPOLYW1 P) a) (zrange 0 (pK P)) r).
    rewrite zrange0_seq.
    pose proof (pw_core (pG88 P) (pPOLYW1 P) a (Z.to_nat (pK P)) 0 [] r encs) as H.
    cbn [skipn app] in H. rewrite H; try assumption.
    - rewrite Z2Nat.id by lia. rewrite (Z.mul_comm (pPOLYW1 P)). reflexivity.
    - reflexivity.
    - rewrite Z2Nat.id by lia. rewrite Z.mul_comm. exact Hr. }
  split; [exact E|]. split; [|exact Hc].
  rewrite E. unfold splice. rewrite Hc.
  destruct (Z.leb_spec (0 + pK P * pPOLYW1 P) (zlen r)) as [_|H]; [|lia].
  cbn [Z.leb andb firstn app]. rewrite Z.add_0_l. reflexivity.
Qed.

(** the length hypothesis holds for polynomials of 256 coefficients *)
Lemma w1_len_88 n : forall a, length a = (4 * n)%nat ->
  exists e, w1_pack_bytes true a = Ok e /\ length e = (3 * n)%nat.
Proof.
  induction n as [|n IH]; intros a Ha.
  - destruct a; [|discriminate]. exists []. split; reflexivity.
  - destruct a as [|c0 [|c1 [|c2 [|c3 rest]]]]; cbn [length] in Ha; try lia.
    destruct (IH rest) as (e & He & Le); [lia|].
    cbn [w1_pack_bytes]. rewrite He. cbn [bind]. eexists. split; [reflexivity|]. cbn [length]. lia.
Qed.

Lemma w1_len_32 n : forall a, length a = (2 * n)%nat ->
  exists e, w1_pack_bytes false a = Ok e /\ length e = n.
Proof.
  induction n as [|n IH]; intros a Ha.
  - destruct a; [|discriminate]. exists []. split; reflexivity.
  - destruct a as [|c0 [|c1 rest]]; cbn [length] in Ha; try lia.
    destruct (IH rest) as (e & He & Le); [lia|].
    cbn [w1_pack_bytes]. rewrite He. cbn [bind]. eexists. split; [reflexivity|]. cbn [length]. lia.
Qed.

Theorem w1_pack_bytes_256 P a : length a = 256%nat ->
  exists e, w1_pack_bytes (pG88 P) a = Ok e /\ zlen e = pPOLYW1 P.
Proof.
  intros Ha. unfold pPOLYW1, zlen. destruct (pG88 P).
  - destruct (w1_len_88 64 a Ha) as (e & He & Le). exists e. split; [exact He | lia].
  - destruct (w1_len_32 128 a Ha) as (e & He & Le). exists e. split; [exact He | lia].
Qed.

Theorem k_pack_w1_256 P r a :
  0 <= pK P -> length a = Z.to_nat (pK P) -> (forall p, In p a -> length p = 256%nat) ->
  pK P * pPOLYW1 P <= zlen r ->
  exists encs, mapM (w1_pack_bytes (pG88 P)) a = Ok encs /\
    Forall (fun e => zlen e = pPOLYW1 P) encs /\
    k_pack_w1 P r a = Ok (concat encs ++ skipn (Z.to_nat (pK P * pPOLYW1 P)) r).
Proof.
  intros HK Ha H256 Hr.
  destruct (mapM_exists (w1_pack_bytes (pG88 P)) (fun _ e => zlen e = pPOLYW1 P) a) as (encs & Hm & HQ).
  { intros p Hp. apply w1_pack_bytes_256. apply H256. exact Hp. }
  assert (HF : Forall (fun e => zlen e = pPOLYW1 P) encs).
  { clear - HQ. induction HQ; constructor; assumption. }
  exists encs. split; [exact Hm|]. split; [exact HF|].
  apply (k_pack_w1_ok P r a encs); assumption.
Qed.

(** * 12. Samplers: which nonce reaches which component *)

Definition ue_step (S : list Z -> Z -> res (list Z)) : list (list Z) * Z -> Z -> res (list (list Z) * Z) :=
  fun '(v, nonce) i =>
    do a <- get v i; do a' <- S a nonce; do v' <- set v i a'; do nonce' <- u16_add nonce 1; Ok (v', nonce').

Lemma ue_core S suf : forall pre c,
  0 <= c -> c + Z.of_nat (length suf) <= 65535 ->
  foldM (ue_step S) (map Z.of_nat (seq (length pre) (length suf))) (pre ++ suf, c)
  = do r <- imapM (fun c a => S a c) c suf; Ok (pre ++ r, c + Z.of_nat (length suf)).
Proof.
  induction suf as [|x suf IH]; intros pre c Hc Hb.
  - cbn [length seq map foldM imapM bind]. rewrite app_nil_r, Z.add_0_r. reflexivity.
  - cbn [length] in Hb. cbn [length seq map foldM imapM]. unfold ue_step at 1.
    rewrite get_app_mid. cbn [bind].
    destruct (S x c) as [y| |]; cbn [bind]; try reflexivity.
    rewrite set_app_mid. cbn [bind].
    unfold u16_add. rewrite chk_u_ok by (change (2 ^ 16) with 65536; lia). cbn [bind].
    rewrite snoc_app. rewrite <- (snoc_length pre y). rewrite IH by lia.
    destruct (imapM (fun c a => S a c) (c + 1) suf) as [ys| |]; cbn [bind]; try reflexivity.
    rewrite <- app_assoc. cbn [app]. do 2 f_equal. lia.
Qed.

Lemma imapM_shift_l {A B} (f : Z -> A -> res B) d l :
  imapM f d l = imapM (fun i => f (d + i)) 0 l.
Proof.
  rewrite <- (Z.add_0_l d) at 1. rewrite imapM_shift. apply imapM_ext.
  intros j x _. rewrite Z.add_comm. reflexivity.
Qed.

(** component i is sampled with nonce + i; the whole loop additionally needs the LAST increment
    [nonce + n] to fit in u16 (the Rust code does [nonce += 1] after every polynomial) *)
Theorem vec_uniform_eta_lift P n v seed nonce :
  length v = Z.to_nat n -> 0 <= n -> 0 <= nonce -> nonce + n <= 65535 ->
  vec_uniform_eta P n v seed nonce
  = imapM (fun i a => poly_uniform_eta (pETA P) a seed (nonce + i)) 0 v.
Proof.
  intros Hl Hn Hc Hb. unfold vec_uniform_eta.
  change (foldM _ (zrange 0 n) (v, nonce))
    with (foldM (ue_step (fun a c => poly_uniform_eta (pETA P) a seed c)) (zrange 0 n) (v, nonce)).
  rewrite zrange0_seq, <- Hl.
  pose proof (ue_core (fun a c => poly_uniform_eta (pETA P) a seed c) v [] nonce Hc) as H.
  cbn [length app] in H. rewrite H by lia.
  rewrite (imapM_shift_l (fun c a => poly_uniform_eta (pETA P) a seed c) nonce v).
  destruct (imapM _ 0 v); reflexivity.
Qed.

Theorem vec_uniform_eta_ok P n v seed nonce (g : Z -> list Z -> list Z) :
  length v = Z.to_nat n -> 0 <= n -> 0 <= nonce -> nonce + n <= 65535 ->
  (forall i a, 0 <= i < n -> nth_error v (Z.to_nat i) = Some a ->
     poly_uniform_eta (pETA P) a seed (nonce + i) = Ok (g i a)) ->
  vec_uniform_eta P n v seed nonce = Ok (imap g 0 v).
Proof.
  intros Hl Hn Hc Hb H. rewrite vec_uniform_eta_lift by assumption.
  apply imapM_ok. intros j a Hj. rewrite Z.add_0_l. apply H.
  - assert (j < length v)%nat by (apply nth_error_Some; congruence). lia.
  - rewrite Nat2Z.id. exact Hj.
Qed.

Theorem l_uniform_eta_lift P v seed nonce :
  length v = Z.to_nat (pL P) -> 0 <= pL P -> 0 <= nonce -> nonce + pL P <= 65535 ->
  l_uniform_eta P v seed nonce = imapM (fun i a => poly_uniform_eta (pETA P) a seed (nonce + i)) 0 v.
Proof. exact (vec_uniform_eta_lift P (pL P) v seed nonce). Qed.

Theorem k_uniform_eta_lift P v seed nonce :
  length v = Z.to_nat (pK P) -> 0 <= pK P -> 0 <= nonce -> nonce + pK P <= 65535 ->
  k_uniform_eta P v seed nonce = imapM (fun i a => poly_uniform_eta (pETA P) a seed (nonce + i)) 0 v.
Proof. exact (vec_uniform_eta_lift P (pK P) v seed nonce). Qed.

(** the overflow edge is real: with nonce + n = 65536 every sampler call can succeed and the loop still panics *)
Example vec_uniform_eta_nonce_edge :
  foldM (ue_step (fun a _ => Ok a)) (zrange 0 1) ([[0]], 65535) = Panic.
Proof. vm_compute. reflexivity. Qed.

(** [l_uniform_gamma1]: component i is sampled with nonce L*nonce + i; [v] contributes only its length *)
Theorem l_uniform_gamma1_lift P v seed nonce :
  length v = Z.to_nat (pL P) -> 0 <= pL P -> 0 <= nonce -> pL P * nonce + pL P <= 65536 ->
  l_uniform_gamma1 P v seed nonce
  = mapM (fun i => poly_uniform_gamma1 (pGAMMA1 P) seed (pL P * nonce + i)) (zrange 0 (pL P)).
Proof.
  intros Hl HL Hc Hb. unfold l_uniform_gamma1.
  rewrite (for_idx_index (fun i => do m <- u16_mul (pL P) nonce; do n <- u16_add m i;
                                    poly_uniform_gamma1 (pGAMMA1 P) seed n)) by exact Hl.
  apply mapM_ext_in. intros i Hi. apply zrange_In in Hi.
  assert (Hp : 0 <= pL P * nonce) by (apply Z.mul_nonneg_nonneg; lia).
  unfold u16_mul, u16_add.
  rewrite chk_u_ok by (change (2 ^ 16) with 65536; lia). cbn [bind].
  rewrite chk_u_ok by (change (2 ^ 16) with 65536; lia). cbn [bind]. reflexivity.
Qed.

Theorem l_uniform_gamma1_ok P v seed nonce (g : Z -> list Z) :
  length v = Z.to_nat (pL P) -> 0 <= pL P -> 0 <= nonce -> pL P * nonce + pL P <= 65536 ->
  (forall i, 0 <= i < pL P -> poly_uniform_gamma1 (pGAMMA1 P) seed (pL P * nonce + i) = Ok (g i)) ->
  l_uniform_gamma1 P v seed nonce = Ok (map g (zrange 0 (pL P))).
Proof.
  intros Hl HL Hc Hb H. rewrite l_uniform_gamma1_lift by assumption.
  apply mapM_ok. intros i Hi. apply H. apply zrange_In. exact Hi.
Qed.

(** [matrix_expand]: entry (i, j) is sampled with nonce 256*i + j *)
Lemma expand_nonce i j : 0 <= i < 256 -> 0 <= j < 256 -> Z.land (Z.shiftl i 8 + j) 65535 = 256 * i + j.
Proof.
  intros Hi Hj. rewrite Z.shiftl_mul_pow2 by lia. change (2 ^ 8) with 256.
  change 65535 with (Z.ones 16). rewrite Z.land_ones by lia. change (2 ^ 16) with 65536.
  rewrite Z.mod_small by lia. lia.
Qed.

Theorem matrix_expand_lift P mat rho :
  0 <= pK P <= 256 -> 0 <= pL P <= 256 ->
  length mat = Z.to_nat (pK P) -> (forall row, In row mat -> length row = Z.to_nat (pL P)) ->
  matrix_expand P mat rho
  = imapM (fun i row => imapM (fun j a => poly_uniform a rho (256 * i + j)) 0 row) 0 mat.
Proof.
  intros HK HL Hm Hrows. unfold matrix_expand.
  rewrite for_idx_imapM by exact Hm.
  apply imapM_ext. intros i0 row Hrow. rewrite Z.add_0_l.
  assert (Hi : (i0 < length mat)%nat) by (apply nth_error_Some; congruence).
  rewrite for_idx_imapM by (apply Hrows; eapply nth_error_In; exact Hrow).
  apply imapM_ext. intros j0 a Ha. rewrite Z.add_0_l.
  assert (Hj : (j0 < length row)%nat) by (apply nth_error_Some; congruence).
  rewrite (Hrows row) in Hj by (eapply nth_error_In; exact Hrow).
  rewrite expand_nonce by lia. reflexivity.
Qed.

Theorem matrix_expand_ok P mat rho (g : Z -> Z -> list Z) :
  0 <= pK P <= 256 -> 0 <= pL P <= 256 ->
  length mat = Z.to_nat (pK P) -> (forall row, In row mat -> length row = Z.to_nat (pL P)) ->
  (forall i j row a, nth_error mat i = Some row -> nth_error row j = Some a ->
     poly_uniform a rho (256 * Z.of_nat i + Z.of_nat j) = Ok (g (Z.of_nat i) (Z.of_nat j))) ->
  matrix_expand P mat rho = Ok (map (fun i => map (fun j => g i j) (zrange 0 (pL P))) (zrange 0 (pK P))).
Proof.
  intros HK HL Hm Hrows H. rewrite matrix_expand_lift by assumption.
  rewrite (imapM_ok _ (fun i (_ : list (list Z)) => map (fun j => g i j) (zrange 0 (pL P)))).
  - rewrite (zrange0_seq (pK P)), <- Hm. apply f_equal.
    apply (imap_index (fun i => map (fun j => g i j) (zrange 0 (pL P))) mat 0).
  - intros i row Hrow. rewrite Z.add_0_l.
    rewrite (imapM_ok _ (fun j (_ : list Z) => g (Z.of_nat i) j)).
    + rewrite (zrange0_seq (pL P)), <- (Hrows row) by (eapply nth_error_In; exact Hrow). apply f_equal.
      apply (imap_index (fun j => g (Z.of_nat i) j) row 0).
    + intros j a Ha. rewrite Z.add_0_l. eapply H; eassumption.
Qed.

(** * Assumptions *)
Print Assumptions for_idx_imapM.
Print Assumptions for_idx_map.
Print Assumptions for_idx2_map2M.
Print Assumptions vec_map_mapM.
Print Assumptions k_reduce_exact.
Print Assumptions reduce_result_spec.
Print Assumptions k_caddq_exact.
Print Assumptions k_reduce_spec.
Print Assumptions l_reduce_spec.
Print Assumptions l_add_ok.
Print Assumptions k_add_ok.
Print Assumptions k_sub_ok.
Print Assumptions k_use_hint_ok.
Print Assumptions k_use_hint_lift.
Print Assumptions poly_add_exact.
Print Assumptions poly_sub_exact.
Print Assumptions for_idx_index.
Print Assumptions vec_map_ok.
Print Assumptions vec_map_spec.
Print Assumptions l_pointwise_poly_montgomery_ok.
Print Assumptions k_pointwise_poly_montgomery_lift.
Print Assumptions l_pointwise_acc_montgomery_lift.
Print Assumptions matrix_pointwise_montgomery_lift.
Print Assumptions matrix_pointwise_montgomery_ok.
Print Assumptions k_power2round_ok.
Print Assumptions k_power2round_coeffs.
Print Assumptions k_decompose_lift.
Print Assumptions k_decompose_high_low.
Print Assumptions k_decompose_coeffs.
Print Assumptions k_make_hint_ok.
Print Assumptions poly_make_hint_count.
Print Assumptions k_make_hint_256.
Print Assumptions k_pack_w1_ok.
Print Assumptions k_pack_w1_256.
Print Assumptions vec_uniform_eta_lift.
Print Assumptions vec_uniform_eta_ok.
Print Assumptions l_uniform_eta_lift.
Print Assumptions k_uniform_eta_lift.
Print Assumptions l_uniform_gamma1_lift.
Print Assumptions l_uniform_gamma1_ok.
Print Assumptions matrix_expand_lift.
Print Assumptions matrix_expand_ok.
