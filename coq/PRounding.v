(** Proofs about src/rounding.rs (model: MRounding.v) against FIPS 204 Algorithms 35, 36, 39, 40. *)
From DV Require Import Base MReduce MRounding.

Local Ltac Zify.zify_post_hook ::= Z.div_mod_to_equations.

(** * Specification side (FIPS 204) *)
Definition ALPHA (g88 : bool) : Z := 2 * GAMMA2 g88.            (* alpha = 2 * gamma2 *)
Definition MM (g88 : bool) : Z := if g88 then 44 else 16.        (* m = (q-1)/alpha *)

(** r mod± a, in (-a/2, a/2] for even a *)
Definition cmod (r a : Z) : Z := let t := r mod a in if t <=? a / 2 then t else t - a.

(** Algorithm 35, returned as (r0, r1) *)
Definition S_power2round (r : Z) : Z * Z :=
  let r0 := cmod (r mod Q) 8192 in (r0, ((r mod Q) - r0) / 8192).

(** Algorithm 36, returned as (r0, r1) *)
Definition S_decompose (g88 : bool) (r : Z) : Z * Z :=
  let rp := r mod Q in
  let r0 := cmod rp (ALPHA g88) in
  if rp - r0 =? Q - 1 then (r0 - 1, 0) else (r0, (rp - r0) / ALPHA g88).

Definition S_highbits (g88 : bool) (r : Z) : Z := snd (S_decompose g88 r).
Definition S_lowbits (g88 : bool) (r : Z) : Z := fst (S_decompose g88 r).

(** Algorithm 40 *)
Definition S_use_hint (g88 : bool) (h r : Z) : Z :=
  let '(r0, r1) := S_decompose g88 r in
  if (h =? 1) && (0 <? r0) then (r1 + 1) mod MM g88
  else if (h =? 1) then (r1 - 1) mod MM g88
  else r1.

(** Algorithm 39 *)
Definition S_make_hint (g88 : bool) (z r : Z) : Z :=
  if S_highbits g88 r =? S_highbits g88 (r + z) then 0 else 1.

Lemma q_minus_1 g88 : Q - 1 = MM g88 * ALPHA g88.
Proof. destruct g88; reflexivity. Qed.

(** * Finite sweep for the magic-constant division *)
Fixpoint zlist (n : nat) (s : Z) : list Z :=
  match n with O => [] | S k => s :: zlist k (s + 1) end.

Lemma zlist_In n : forall s x, s <= x < s + Z.of_nat n -> In x (zlist n s).
Proof.
  induction n as [|n IH]; intros s x H.
  - lia.
  - cbn [zlist]. destruct (Z.eq_dec x s) as [->|Hne]; [left; reflexivity|].
    right. apply IH. lia.
Qed.

Lemma magic88_sweep :
  forallb (fun x => (x * 11275 + 8388608) / 16777216 =? (x + 743) / 1488) (zlist (Z.to_nat 65473) 0) = true.
Proof. vm_compute. reflexivity. Qed.

Lemma magic32_sweep :
  forallb (fun x => (x * 1025 + 2097152) / 4194304 =? (x + 2045) / 4092) (zlist (Z.to_nat 65473) 0) = true.
Proof. vm_compute. reflexivity. Qed.

Lemma magic88 x : 0 <= x < 65473 -> (x * 11275 + 8388608) / 16777216 = (x + 743) / 1488.
Proof.
  intros H. pose proof magic88_sweep as S. rewrite forallb_forall in S.
  apply Z.eqb_eq. apply (S x). apply zlist_In. lia.
Qed.

Lemma magic32 x : 0 <= x < 65473 -> (x * 1025 + 2097152) / 4194304 = (x + 2045) / 4092.
Proof.
  intros H. pose proof magic32_sweep as S. rewrite forallb_forall in S.
  apply Z.eqb_eq. apply (S x). apply zlist_In. lia.
Qed.

Lemma two31 : 2 ^ (32 - 1) = 2147483648. Proof. reflexivity. Qed.

Local Ltac ok := rewrite chk_s_ok by (rewrite two31; lia); cbn [bind].
Local Ltac sh := rewrite shr_ok by lia; cbn [bind]; try change (2 ^ 31) with 2147483648.

(** * power2round *)
Theorem power2round_ok : forall a, 0 <= a < Q ->
  exists a0 a1, power2round a = Ok (a0, a1) /\ a = a1 * 2 ^ 13 + a0 /\ - 2 ^ 12 < a0 <= 2 ^ 12 /\
                0 <= a1 < 1024 /\ (a0, a1) = S_power2round a.
Proof.
  intros a Ha. unfold power2round, i32_add, i32_sub. unfold Q in Ha.
  ok. ok. sh. rewrite shl_s_ok by lia. cbn [bind].
  change (2 ^ 13) with 8192. change (2 ^ 12) with 4096.
  set (a1 := (a + 4096 - 1) / 8192).
  assert (B1 : 0 <= a1 < 1024) by (unfold a1; lia).
  rewrite (wrap_id 32 (a1 * 8192)) by (try lia; rewrite two31; lia).
  assert (B0 : -4096 < a - a1 * 8192 <= 4096) by (unfold a1; lia).
  ok. exists (a - a1 * 8192), a1.
  split; [reflexivity|]. split; [lia|]. split; [lia|]. split; [lia|].
  unfold S_power2round, cmod. rewrite (Z.mod_small a Q) by (unfold Q; lia).
  change (8192 / 2) with 4096.
  destruct (Z.leb_spec (a mod 8192) 4096) as [Hl|Hg]; f_equal; unfold a1; lia.
Qed.

(** * decompose: closed form shared by the code and the specification *)
Definition D (g88 : bool) (a : Z) : Z * Z :=
  if Q - GAMMA2 g88 <=? a then (a - Q, 0)
  else ((a + GAMMA2 g88 - 1) mod ALPHA g88 - GAMMA2 g88 + 1, (a + GAMMA2 g88 - 1) / ALPHA g88).

Lemma S_decompose_D g88 a : 0 <= a < Q -> S_decompose g88 a = D g88 a.
Proof.
  intros Ha. unfold S_decompose, D, cmod. rewrite (Z.mod_small a Q) by lia.
  destruct g88; unfold ALPHA, GAMMA2, Q in *.
  - change (2 * 95232) with 190464. change (190464 / 2) with 95232.
    change (8380417 - 1) with 8380416. change (8380417 - 95232) with 8285185.
    destruct (Z.leb_spec (a mod 190464) 95232) as [Hl|Hg];
      destruct (Z.leb_spec 8285185 a) as [Hw|Hw].
    + destruct (Z.eqb_spec (a - a mod 190464) 8380416) as [He|He]; [f_equal; lia|]. exfalso; lia.
    + destruct (Z.eqb_spec (a - a mod 190464) 8380416) as [He|He]; [exfalso; lia|]. f_equal; lia.
    + destruct (Z.eqb_spec (a - (a mod 190464 - 190464)) 8380416) as [He|He]; [f_equal; lia|]. exfalso; lia.
    + destruct (Z.eqb_spec (a - (a mod 190464 - 190464)) 8380416) as [He|He]; [exfalso; lia|]. f_equal; lia.
  - change (2 * 261888) with 523776. change (523776 / 2) with 261888.
    change (8380417 - 1) with 8380416. change (8380417 - 261888) with 8118529.
    destruct (Z.leb_spec (a mod 523776) 261888) as [Hl|Hg];
      destruct (Z.leb_spec 8118529 a) as [Hw|Hw].
    + destruct (Z.eqb_spec (a - a mod 523776) 8380416) as [He|He]; [f_equal; lia|]. exfalso; lia.
    + destruct (Z.eqb_spec (a - a mod 523776) 8380416) as [He|He]; [exfalso; lia|]. f_equal; lia.
    + destruct (Z.eqb_spec (a - (a mod 523776 - 523776)) 8380416) as [He|He]; [f_equal; lia|]. exfalso; lia.
    + destruct (Z.eqb_spec (a - (a mod 523776 - 523776)) 8380416) as [He|He]; [exfalso; lia|]. f_equal; lia.
Qed.

Lemma land_m1 x : Z.land (-1) x = x.
Proof. change (-1) with (Z.opp 1). rewrite Z.land_comm. apply Z.land_m1_r. Qed.

Lemma decompose_D g88 a : 0 <= a < Q -> decompose g88 a = Ok (D g88 a).
Proof.
  intros Ha. unfold decompose, D, i32_add, i32_sub, i32_mul. unfold Q in Ha.
  ok. sh. change (2 ^ 7) with 128.
  set (x := (a + 127) / 128).
  assert (Bx : 0 <= x < 65473) by (unfold x; lia).
  destruct g88; unfold ALPHA, GAMMA2, Q.
  - change (2 * 95232) with 190464. change (8380417 - 95232) with 8285185.
    ok. ok. sh. change (2 ^ 24) with 16777216. rewrite magic88 by exact Bx.
    set (q := (x + 743) / 1488).
    assert (Eq : q = (a + 95232 - 1) / 190464) by (unfold q, x; lia).
    assert (Bq : 0 <= q <= 44) by (unfold q; lia).
    ok. sh. change (2 ^ 31) with 2147483648.
    destruct (Z.leb_spec 8285185 a) as [Hw|Hw].
    + assert (q = 44) as -> by lia.
      change ((43 - 44) / 2147483648) with (-1). rewrite land_m1.
      change (Z.lxor 44 44) with 0.
      ok. ok. ok. ok. sh.
      replace ((4190208 - (a - 0 * 2 * 95232)) / 2147483648) with (-1) by lia.
      rewrite land_m1. ok. f_equal. f_equal; lia.
    + assert (Bq' : 0 <= q <= 43) by lia.
      replace ((43 - q) / 2147483648) with 0 by lia.
      rewrite Z.land_0_l, Z.lxor_0_r.
      ok. ok.
      assert (B0 : -95232 < a - q * 2 * 95232 <= 95232) by lia.
      ok. ok. sh.
      replace ((4190208 - (a - q * 2 * 95232)) / 2147483648) with 0 by lia.
      rewrite Z.land_0_l. ok. f_equal. f_equal; lia.
  - change (2 * 261888) with 523776. change (8380417 - 261888) with 8118529.
    ok. ok. sh. change (2 ^ 22) with 4194304. rewrite magic32 by exact Bx.
    set (q := (x + 2045) / 4092).
    assert (Eq : q = (a + 261888 - 1) / 523776) by (unfold q, x; lia).
    assert (Bq : 0 <= q <= 16) by (unfold q; lia).
    change 15 with (Z.ones 4). rewrite Z.land_ones by lia. change (2 ^ 4) with 16.
    change (2 ^ 31) with 2147483648.
    destruct (Z.leb_spec 8118529 a) as [Hw|Hw].
    + assert (q = 16) as -> by lia.
      change (16 mod 16) with 0.
      ok. ok. ok. ok. sh.
      replace ((4190208 - (a - 0 * 2 * 261888)) / 2147483648) with (-1) by lia.
      rewrite land_m1. ok. f_equal. f_equal; lia.
    + assert (Bq' : 0 <= q <= 15) by lia.
      rewrite (Z.mod_small q 16) by lia.
      ok. ok.
      assert (B0 : -261888 < a - q * 2 * 261888 <= 261888) by lia.
      ok. ok. sh.
      replace ((4190208 - (a - q * 2 * 261888)) / 2147483648) with 0 by lia.
      rewrite Z.land_0_l. ok. f_equal. f_equal; lia.
Qed.

Lemma D_facts g88 a a0 a1 : 0 <= a < Q -> D g88 a = (a0, a1) ->
  0 <= a1 < MM g88 /\ (a1 * ALPHA g88 + a0 - a) mod Q = 0 /\ - GAMMA2 g88 <= a0 <= GAMMA2 g88 /\
  (a1 <> 0 -> - GAMMA2 g88 < a0) /\
  (Q - GAMMA2 g88 <= a -> a1 = 0 /\ a0 = a - Q) /\
  (a < Q - GAMMA2 g88 -> a = a1 * ALPHA g88 + a0 /\ - GAMMA2 g88 < a0).
Proof.
  intros Ha. unfold D.
  destruct g88; unfold MM, ALPHA, GAMMA2, Q in *.
  - change (2 * 95232) with 190464. change (8380417 - 95232) with 8285185.
    destruct (Z.leb_spec 8285185 a) as [Hw|Hw]; intros E; inversion E; subst a0 a1; clear E.
    + replace (0 * 190464 + (a - 8380417) - a) with (-1 * 8380417) by lia.
      rewrite Z.mod_mul by lia. lia.
    + replace (((a + 95232 - 1) / 190464) * 190464 + ((a + 95232 - 1) mod 190464 - 95232 + 1) - a)
        with 0 by lia.
      change (0 mod 8380417) with 0. lia.
  - change (2 * 261888) with 523776. change (8380417 - 261888) with 8118529.
    destruct (Z.leb_spec 8118529 a) as [Hw|Hw]; intros E; inversion E; subst a0 a1; clear E.
    + replace (0 * 523776 + (a - 8380417) - a) with (-1 * 8380417) by lia.
      rewrite Z.mod_mul by lia. lia.
    + replace (((a + 261888 - 1) / 523776) * 523776 + ((a + 261888 - 1) mod 523776 - 261888 + 1) - a)
        with 0 by lia.
      change (0 mod 8380417) with 0. lia.
Qed.

(** Characterisation: the pair is determined by the residue class and the range conditions. *)
Lemma D_char g88 v a0 a1 :
  0 <= v < Q -> 0 <= a1 < MM g88 -> - GAMMA2 g88 <= a0 <= GAMMA2 g88 -> (a0 = - GAMMA2 g88 -> a1 = 0) ->
  (v - (a1 * ALPHA g88 + a0)) mod Q = 0 -> D g88 v = (a0, a1).
Proof.
  intros Hv H1 H0 Hc Hm. unfold D.
  destruct g88; unfold MM, ALPHA, GAMMA2, Q in *.
  - change (2 * 95232) with 190464 in *. change (8380417 - 95232) with 8285185.
    assert (Hk : v = a1 * 190464 + a0 \/ (v = a1 * 190464 + a0 + 8380417 /\ a1 = 0 /\ a0 < 0)) by lia.
    clear Hm.
    destruct (Z.leb_spec 8285185 v) as [Hw|Hw]; f_equal; lia.
  - change (2 * 261888) with 523776 in *. change (8380417 - 261888) with 8118529.
    assert (Hk : v = a1 * 523776 + a0 \/ (v = a1 * 523776 + a0 + 8380417 /\ a1 = 0 /\ a0 < 0)) by lia.
    clear Hm.
    destruct (Z.leb_spec 8118529 v) as [Hw|Hw]; f_equal; lia.
Qed.

Lemma S_decompose_mod g88 r : S_decompose g88 r = D g88 (r mod Q).
Proof.
  rewrite <- S_decompose_D by (apply Z.mod_pos_bound; reflexivity).
  unfold S_decompose. rewrite Z.mod_mod by (unfold Q; lia). reflexivity.
Qed.

Theorem decompose_ok : forall g88 a, 0 <= a < Q ->
  exists a0 a1, decompose g88 a = Ok (a0, a1) /\ (a0, a1) = S_decompose g88 a /\
    0 <= a1 < MM g88 /\ (a1 * ALPHA g88 + a0 - a) mod Q = 0 /\
    - GAMMA2 g88 <= a0 <= GAMMA2 g88 /\ (a1 <> 0 -> - GAMMA2 g88 < a0) /\
    (Q - GAMMA2 g88 <= a -> a1 = 0 /\ a0 = a - Q) /\
    (a < Q - GAMMA2 g88 -> a = a1 * ALPHA g88 + a0 /\ - GAMMA2 g88 < a0).
Proof.
  intros g88 a Ha. destruct (D g88 a) as [a0 a1] eqn:E.
  exists a0, a1. rewrite decompose_D, S_decompose_D, E by exact Ha.
  split; [reflexivity|]. split; [reflexivity|]. exact (D_facts g88 a a0 a1 Ha E).
Qed.

(** * use_hint *)
Theorem use_hint_ok : forall g88 a h, 0 <= a < Q -> (h = 0 \/ h = 1) ->
  use_hint g88 a h = Ok (S_use_hint g88 h a) /\ 0 <= S_use_hint g88 h a < MM g88.
Proof.
  intros g88 a h Ha Hh. unfold use_hint, S_use_hint.
  rewrite decompose_D, S_decompose_D by exact Ha.
  destruct (D g88 a) as [a0 a1] eqn:E. cbn [bind].
  destruct (D_facts g88 a a0 a1 Ha E) as (B1 & _).
  destruct Hh as [-> | ->].
  - change (0 =? 0) with true. change (0 =? 1) with false. cbn [andb]. split; [reflexivity | exact B1].
  - change (1 =? 0) with false. change (1 =? 1) with true. cbn [andb].
    unfold i32_add, i32_sub.
    destruct g88; unfold MM in *.
    + destruct (Z.ltb_spec 0 a0) as [Hp|Hn].
      * destruct (Z.eqb_spec a1 43) as [->|Hne]; [split; [reflexivity | lia]|].
        ok. split; [f_equal; lia | lia].
      * destruct (Z.eqb_spec a1 0) as [->|Hne]; [split; [reflexivity | lia]|].
        ok. split; [f_equal; lia | lia].
    + change 15 with (Z.ones 4).
      destruct (Z.ltb_spec 0 a0) as [Hp|Hn]; ok; rewrite Z.land_ones by lia; change (2 ^ 4) with 16;
        (split; [reflexivity | lia]).
Qed.

(** * make_hint *)
Lemma make_hint_val g88 a0 a1 :
  make_hint g88 a0 a1 =
  Ok (if (GAMMA2 g88 <? a0) || (a0 <? - GAMMA2 g88) || ((a0 =? - GAMMA2 g88) && negb (a1 =? 0))
      then 1 else 0).
Proof.
  unfold make_hint, i32_neg.
  rewrite chk_s_ok by (rewrite two31; destruct g88; unfold GAMMA2; lia). cbn [bind].
  destruct ((GAMMA2 g88 <? a0) || (a0 <? - GAMMA2 g88) || ((a0 =? - GAMMA2 g88) && negb (a1 =? 0)));
    reflexivity.
Qed.

(** Where the reconstructed value [(w1*alpha + a0) mod Q] lands, by region of [a0]. *)
Lemma hint_core g88 w1 a0 v :
  0 <= w1 < MM g88 -> - ALPHA g88 < a0 <= ALPHA g88 -> v = (w1 * ALPHA g88 + a0) mod Q ->
  0 <= v < Q /\
  ((- GAMMA2 g88 < a0 <= GAMMA2 g88 \/ (a0 = - GAMMA2 g88 /\ w1 = 0)) -> D g88 v = (a0, w1)) /\
  (GAMMA2 g88 < a0 -> exists r0, r0 <= 0 /\ D g88 v = (r0, (w1 + 1) mod MM g88)) /\
  ((a0 < - GAMMA2 g88 \/ (a0 = - GAMMA2 g88 /\ w1 <> 0)) ->
     exists r0, 0 < r0 /\ D g88 v = (r0, (w1 - 1) mod MM g88)).
Proof.
  intros Hw Ha Hv.
  assert (Bv : 0 <= v < Q) by (subst v; apply Z.mod_pos_bound; reflexivity).
  split; [exact Bv|].
  destruct g88; unfold MM, ALPHA, GAMMA2 in *.
  - change (2 * 95232) with 190464 in *. unfold Q in Hv, Bv.
    split; [|split].
    + intros Hc. apply D_char; unfold MM, ALPHA, GAMMA2, Q; try lia.
    + intros Hc. destruct (Z.eq_dec w1 43) as [->|Hne].
      * exists (a0 - 190464 - 1). split; [lia|]. change ((43 + 1) mod 44) with 0.
        apply D_char; unfold MM, ALPHA, GAMMA2, Q; try lia.
      * exists (a0 - 190464). split; [lia|]. rewrite (Z.mod_small (w1 + 1) 44) by lia.
        apply D_char; unfold MM, ALPHA, GAMMA2, Q; try lia.
    + intros Hc. destruct (Z.eq_dec w1 0) as [->|Hne].
      * exists (a0 + 190464 + 1). split; [lia|]. change ((0 - 1) mod 44) with 43.
        apply D_char; unfold MM, ALPHA, GAMMA2, Q; try lia.
      * exists (a0 + 190464). split; [lia|]. rewrite (Z.mod_small (w1 - 1) 44) by lia.
        apply D_char; unfold MM, ALPHA, GAMMA2, Q; try lia.
  - change (2 * 261888) with 523776 in *. unfold Q in Hv, Bv.
    split; [|split].
    + intros Hc. apply D_char; unfold MM, ALPHA, GAMMA2, Q; try lia.
    + intros Hc. destruct (Z.eq_dec w1 15) as [->|Hne].
      * exists (a0 - 523776 - 1). split; [lia|]. change ((15 + 1) mod 16) with 0.
        apply D_char; unfold MM, ALPHA, GAMMA2, Q; try lia.
      * exists (a0 - 523776). split; [lia|]. rewrite (Z.mod_small (w1 + 1) 16) by lia.
        apply D_char; unfold MM, ALPHA, GAMMA2, Q; try lia.
    + intros Hc. destruct (Z.eq_dec w1 0) as [->|Hne].
      * exists (a0 + 523776 + 1). split; [lia|]. change ((0 - 1) mod 16) with 15.
        apply D_char; unfold MM, ALPHA, GAMMA2, Q; try lia.
      * exists (a0 + 523776). split; [lia|]. rewrite (Z.mod_small (w1 - 1) 16) by lia.
        apply D_char; unfold MM, ALPHA, GAMMA2, Q; try lia.
Qed.

Lemma use_hint_D g88 v r0 r1 : 0 <= v < Q -> D g88 v = (r0, r1) ->
  use_hint g88 v 0 = Ok r1 /\
  (0 < r0 -> use_hint g88 v 1 = Ok ((r1 + 1) mod MM g88)) /\
  (r0 <= 0 -> use_hint g88 v 1 = Ok ((r1 - 1) mod MM g88)).
Proof.
  intros Hv E.
  destruct (use_hint_ok g88 v 0 Hv (or_introl eq_refl)) as (U0 & _).
  destruct (use_hint_ok g88 v 1 Hv (or_intror eq_refl)) as (U1 & _).
  rewrite U0, U1. unfold S_use_hint. rewrite S_decompose_D, E by exact Hv.
  change (0 =? 1) with false. change (1 =? 1) with true. cbn [andb].
  split; [reflexivity|]. split; intros H.
  - destruct (Z.ltb_spec 0 r0); [reflexivity | lia].
  - destruct (Z.ltb_spec 0 r0); [lia | reflexivity].
Qed.

Lemma mod_pm g88 w : 0 <= w < MM g88 ->
  ((w + 1) mod MM g88 - 1) mod MM g88 = w /\ ((w - 1) mod MM g88 + 1) mod MM g88 = w /\
  (w + 1) mod MM g88 <> w /\ (w - 1) mod MM g88 <> w.
Proof. destruct g88; unfold MM; lia. Qed.

(** The round trip holds on [-alpha < a0 <= alpha], which is strictly more than was asked. *)
Theorem hint_roundtrip_strong : forall g88 w1 a0, 0 <= w1 < MM g88 -> - ALPHA g88 < a0 <= ALPHA g88 ->
  exists hb, make_hint g88 a0 w1 = Ok hb /\ (hb = 0 \/ hb = 1) /\
             use_hint g88 ((w1 * ALPHA g88 + a0) mod Q) hb = Ok w1.
Proof.
  intros g88 w1 a0 Hw Ha.
  destruct (hint_core g88 w1 a0 _ Hw Ha eq_refl) as (Bv & C1 & C2 & C3).
  destruct (mod_pm g88 w1 Hw) as (M1 & M2 & _).
  rewrite make_hint_val.
  set (v := (w1 * ALPHA g88 + a0) mod Q) in *.
  destruct (Z.ltb_spec (GAMMA2 g88) a0) as [Hg|Hg]; cbn [orb].
  { exists 1. split; [reflexivity|]. split; [right; reflexivity|].
    destruct (C2 Hg) as (r0 & Hr & E).
    destruct (use_hint_D g88 v _ _ Bv E) as (_ & _ & U). rewrite (U Hr). f_equal. exact M1. }
  destruct (Z.ltb_spec a0 (- GAMMA2 g88)) as [Hl|Hl]; cbn [orb].
  { exists 1. split; [reflexivity|]. split; [right; reflexivity|].
    destruct (C3 (or_introl Hl)) as (r0 & Hr & E).
    destruct (use_hint_D g88 v _ _ Bv E) as (_ & U & _). rewrite (U Hr). f_equal. exact M2. }
  destruct (Z.eqb_spec a0 (- GAMMA2 g88)) as [He|He]; destruct (Z.eqb_spec w1 0) as [Hz|Hz];
    cbn [andb negb].
  - exists 0. split; [reflexivity|]. split; [left; reflexivity|].
    assert (E : D g88 v = (a0, w1)) by (apply C1; right; split; assumption).
    destruct (use_hint_D g88 v _ _ Bv E) as (U & _). exact U.
  - exists 1. split; [reflexivity|]. split; [right; reflexivity|].
    destruct (C3 (or_intror (conj He Hz))) as (r0 & Hr & E).
    destruct (use_hint_D g88 v _ _ Bv E) as (_ & U & _). rewrite (U Hr). f_equal. exact M2.
  - exists 0. split; [reflexivity|]. split; [left; reflexivity|].
    assert (E : D g88 v = (a0, w1)) by (apply C1; left; lia).
    destruct (use_hint_D g88 v _ _ Bv E) as (U & _). exact U.
  - exists 0. split; [reflexivity|]. split; [left; reflexivity|].
    assert (E : D g88 v = (a0, w1)) by (apply C1; left; lia).
    destruct (use_hint_D g88 v _ _ Bv E) as (U & _). exact U.
Qed.

Theorem hint_roundtrip : forall g88 w1 a0, 0 <= w1 < MM g88 -> - ALPHA g88 < a0 < ALPHA g88 ->
  exists hb, make_hint g88 a0 w1 = Ok hb /\ (hb = 0 \/ hb = 1) /\
             use_hint g88 ((w1 * ALPHA g88 + a0) mod Q) hb = Ok w1.
Proof. intros g88 w1 a0 Hw Ha. apply hint_roundtrip_strong; [exact Hw | lia]. Qed.

(** The signer's bit is the specification's MakeHint. *)
Theorem make_hint_spec : forall g88 w1 a0, 0 <= w1 < MM g88 -> - ALPHA g88 < a0 < ALPHA g88 ->
  make_hint g88 a0 w1 = Ok (if S_highbits g88 ((w1 * ALPHA g88 + a0) mod Q) =? w1 then 0 else 1).
Proof.
  intros g88 w1 a0 Hw Ha.
  destruct (hint_core g88 w1 a0 _ Hw ltac:(lia) eq_refl) as (Bv & C1 & C2 & C3).
  destruct (mod_pm g88 w1 Hw) as (_ & _ & M1 & M2).
  rewrite make_hint_val. unfold S_highbits. rewrite S_decompose_D by exact Bv.
  set (v := (w1 * ALPHA g88 + a0) mod Q) in *.
  destruct (Z.ltb_spec (GAMMA2 g88) a0) as [Hg|Hg]; cbn [orb].
  { destruct (C2 Hg) as (r0 & Hr & E). rewrite E. cbn [snd].
    destruct (Z.eqb_spec ((w1 + 1) mod MM g88) w1); [contradiction | reflexivity]. }
  destruct (Z.ltb_spec a0 (- GAMMA2 g88)) as [Hl|Hl]; cbn [orb].
  { destruct (C3 (or_introl Hl)) as (r0 & Hr & E). rewrite E. cbn [snd].
    destruct (Z.eqb_spec ((w1 - 1) mod MM g88) w1); [contradiction | reflexivity]. }
  destruct (Z.eqb_spec a0 (- GAMMA2 g88)) as [He|He]; destruct (Z.eqb_spec w1 0) as [Hz|Hz];
    cbn [andb negb].
  - rewrite C1 by (right; split; assumption). cbn [snd]. rewrite Z.eqb_refl. reflexivity.
  - destruct (C3 (or_intror (conj He Hz))) as (r0 & Hr & E). rewrite E. cbn [snd].
    destruct (Z.eqb_spec ((w1 - 1) mod MM g88) w1); [contradiction | reflexivity].
  - rewrite C1 by (left; lia). cbn [snd]. rewrite Z.eqb_refl. reflexivity.
  - rewrite C1 by (left; lia). cbn [snd]. rewrite Z.eqb_refl. reflexivity.
Qed.

(** Corollary of [make_hint_spec] in the specification's own terms: with (r0, w1) = Decompose(r + z),
    the code's hint on the low part r0 - z is MakeHint(z, r). *)
Theorem make_hint_is_S_make_hint : forall g88 z r r0 w1,
  S_decompose g88 (r + z) = (r0, w1) -> - ALPHA g88 < r0 - z < ALPHA g88 ->
  make_hint g88 (r0 - z) w1 = Ok (S_make_hint g88 z r).
Proof.
  intros g88 z r r0 w1 E Hr.
  assert (Bm : 0 <= (r + z) mod Q < Q) by (apply Z.mod_pos_bound; reflexivity).
  rewrite S_decompose_mod in E.
  destruct (D_facts g88 _ _ _ Bm E) as (Bw & Hc & _).
  rewrite (make_hint_spec g88 w1 (r0 - z) Bw Hr).
  unfold S_make_hint, S_highbits. rewrite !S_decompose_mod, E. cbn [snd].
  rewrite Z.mod_mod by (unfold Q; lia).
  assert (Em : (w1 * ALPHA g88 + (r0 - z)) mod Q = r mod Q).
  { replace (w1 * ALPHA g88 + (r0 - z)) with (w1 * ALPHA g88 + r0 - z) by lia.
    revert Hc. generalize (w1 * ALPHA g88 + r0). clear. unfold Q. intros y Hc. lia. }
  rewrite Em. rewrite (Z.eqb_sym (snd (D g88 (r mod Q))) w1). reflexivity.
Qed.

(** * Uniqueness: the image of Decompose is exactly
      { (a0, a1) | 0 <= a1 < m, -G <= a0 <= G, a0 = -G -> a1 = 0 }   (Q pairs),
    and on that set Decompose inverts (a0, a1) |-> (a1*alpha + a0) mod Q.  The residues >= Q - G
    (the "wrap region") are exactly those with a1 = 0 and a0 < 0, including a0 = -G. *)
Theorem decompose_unique : forall g88 a1 a0,
  0 <= a1 < MM g88 -> - GAMMA2 g88 <= a0 <= GAMMA2 g88 -> (a0 = - GAMMA2 g88 -> a1 = 0) ->
  S_decompose g88 ((a1 * ALPHA g88 + a0) mod Q) = (a0, a1) /\
  decompose g88 ((a1 * ALPHA g88 + a0) mod Q) = Ok (a0, a1) /\
  (Q - GAMMA2 g88 <= (a1 * ALPHA g88 + a0) mod Q <-> a1 = 0 /\ a0 < 0).
Proof.
  intros g88 a1 a0 H1 H0 Hc.
  assert (Bv : 0 <= (a1 * ALPHA g88 + a0) mod Q < Q) by (apply Z.mod_pos_bound; reflexivity).
  assert (E : D g88 ((a1 * ALPHA g88 + a0) mod Q) = (a0, a1)).
  { apply D_char; try assumption.
    rewrite Zminus_mod_idemp_l. rewrite Z.sub_diag. reflexivity. }
  rewrite S_decompose_D, decompose_D, E by exact Bv.
  split; [reflexivity|]. split; [reflexivity|].
  destruct (D_facts g88 _ _ _ Bv E) as (_ & _ & _ & _ & Fw & Fn).
  clear E. revert Bv Fw Fn. generalize ((a1 * ALPHA g88 + a0) mod Q). intros v Bv Fw Fn.
  destruct g88; unfold MM, ALPHA, GAMMA2, Q in *; lia.
Qed.

(** The one excluded edge: a0 = -G with a1 <> 0 is represented as (G, a1 - 1). *)
Theorem decompose_unique_edge : forall g88 a1, 1 <= a1 < MM g88 ->
  S_decompose g88 ((a1 * ALPHA g88 + - GAMMA2 g88) mod Q) = (GAMMA2 g88, a1 - 1).
Proof.
  intros g88 a1 H1.
  replace (a1 * ALPHA g88 + - GAMMA2 g88) with ((a1 - 1) * ALPHA g88 + GAMMA2 g88)
    by (unfold ALPHA; lia).
  apply decompose_unique; destruct g88; unfold MM, GAMMA2 in *; lia.
Qed.

(** Converse direction, for completeness: every residue is hit (from [decompose_ok]). *)
Theorem decompose_surj : forall g88 a, 0 <= a < Q ->
  exists a0 a1, S_decompose g88 a = (a0, a1) /\ 0 <= a1 < MM g88 /\
    - GAMMA2 g88 <= a0 <= GAMMA2 g88 /\ (a0 = - GAMMA2 g88 -> a1 = 0) /\
    (a1 * ALPHA g88 + a0) mod Q = a.
Proof.
  intros g88 a Ha. destruct (decompose_ok g88 a Ha) as (a0 & a1 & _ & E & B1 & Hm & B0 & Hn & _).
  exists a0, a1. split; [symmetry; exact E|]. split; [exact B1|]. split; [exact B0|].
  split; [intros He; destruct (Z.eq_dec a1 0) as [|Hne]; [assumption | specialize (Hn Hne); lia]|].
  revert Hm. generalize (a1 * ALPHA g88 + a0). unfold Q in *. intros y Hm. lia.
Qed.

(** * Examples: the hypotheses are inhabited at the interesting points. *)
Example ex_p2r_top : power2round (Q - 1) = Ok (0, 1023). Proof. vm_compute. reflexivity. Qed.
Example ex_p2r_half : power2round 4097 = Ok (-4095, 1). Proof. vm_compute. reflexivity. Qed.
Example ex_p2r_half' : power2round 4096 = Ok (4096, 0). Proof. vm_compute. reflexivity. Qed.

Example ex_dec_top : decompose true (Q - 1) = Ok (-1, 0) /\ decompose false (Q - 1) = Ok (-1, 0).
Proof. vm_compute. split; reflexivity. Qed.
Example ex_dec_wrap : decompose true (Q - 95232) = Ok (-95232, 0) /\
                      decompose false (Q - 261888) = Ok (-261888, 0).
Proof. vm_compute. split; reflexivity. Qed.
Example ex_dec_below_wrap : decompose true (Q - 95232 - 1) = Ok (95232, 43) /\
                            decompose false (Q - 261888 - 1) = Ok (261888, 15).
Proof. vm_compute. split; reflexivity. Qed.
Example ex_S_dec : S_decompose true (Q - 1) = (-1, 0) /\ S_decompose true (Q - 95232) = (-95232, 0) /\
                   S_decompose true (Q - 95232 - 1) = (95232, 43) /\
                   S_decompose false (Q - 1) = (-1, 0) /\ S_decompose false (Q - 261888) = (-261888, 0) /\
                   S_decompose false (Q - 261888 - 1) = (261888, 15).
Proof. vm_compute. repeat split; reflexivity. Qed.

(** w1 = m-1, a0 = G+1: the reconstructed value is Q - G (wrap region), hint 1 brings 0 back to m-1 *)
Example ex_hint_top88 : (43 * ALPHA true + 95233) mod Q = Q - 95232 /\ make_hint true 95233 43 = Ok 1 /\
                        use_hint true ((43 * ALPHA true + 95233) mod Q) 1 = Ok 43.
Proof. vm_compute. repeat split; reflexivity. Qed.
Example ex_hint_top32 : (15 * ALPHA false + 261889) mod Q = Q - 261888 /\ make_hint false 261889 15 = Ok 1 /\
                        use_hint false ((15 * ALPHA false + 261889) mod Q) 1 = Ok 15.
Proof. vm_compute. repeat split; reflexivity. Qed.
(** w1 = 0, a0 = -G: no hint, value Q - G decomposes to (-G, 0) *)
Example ex_hint_mG88 : make_hint true (-95232) 0 = Ok 0 /\ use_hint true ((0 * ALPHA true + -95232) mod Q) 0 = Ok 0.
Proof. vm_compute. split; reflexivity. Qed.
Example ex_hint_mG32 : make_hint false (-261888) 0 = Ok 0 /\ use_hint false ((0 * ALPHA false + -261888) mod Q) 0 = Ok 0.
Proof. vm_compute. split; reflexivity. Qed.
(** w1 = 0, a0 = -G-1: hint 1, value Q - G - 1 has high part m-1 and positive low part, +1 wraps to 0 *)
Example ex_hint_mG1_88 : make_hint true (-95233) 0 = Ok 1 /\ use_hint true ((0 * ALPHA true + -95233) mod Q) 1 = Ok 0.
Proof. vm_compute. split; reflexivity. Qed.
Example ex_hint_mG1_32 : make_hint false (-261889) 0 = Ok 1 /\ use_hint false ((0 * ALPHA false + -261889) mod Q) 1 = Ok 0.
Proof. vm_compute. split; reflexivity. Qed.
(** a0 = -G with w1 <> 0: hint 1 (the asymmetric clause of make_hint) *)
Example ex_hint_mG_w1 : make_hint true (-95232) 7 = Ok 1 /\ use_hint true ((7 * ALPHA true + -95232) mod Q) 1 = Ok 7.
Proof. vm_compute. split; reflexivity. Qed.

(** Sharpness of the range in [hint_roundtrip_strong]: it fails at a0 = -alpha and at a0 = alpha + 1
    (no hint bit recovers w1), so (-alpha, alpha] is exact and (-alpha, alpha) is the largest symmetric one. *)
Example ex_fail_low : forall g88, make_hint g88 (- ALPHA g88) 1 = Ok 1 /\
  use_hint g88 ((1 * ALPHA g88 + - ALPHA g88) mod Q) 0 = Ok 0 /\
  use_hint g88 ((1 * ALPHA g88 + - ALPHA g88) mod Q) 1 = Ok (MM g88 - 1).
Proof. intros [|]; vm_compute; repeat split; reflexivity. Qed.
Example ex_fail_high : forall g88, make_hint g88 (ALPHA g88 + 1) 0 = Ok 1 /\
  use_hint g88 ((0 * ALPHA g88 + (ALPHA g88 + 1)) mod Q) 0 = Ok 1 /\
  use_hint g88 ((0 * ALPHA g88 + (ALPHA g88 + 1)) mod Q) 1 = Ok 2.
Proof. intros [|]; vm_compute; repeat split; reflexivity. Qed.
Example ex_ok_at_alpha : forall g88, make_hint g88 (ALPHA g88) 0 = Ok 1 /\
  use_hint g88 ((0 * ALPHA g88 + ALPHA g88) mod Q) 1 = Ok 0.
Proof. intros [|]; vm_compute; repeat split; reflexivity. Qed.

Print Assumptions power2round_ok.
Print Assumptions decompose_ok.
Print Assumptions use_hint_ok.
Print Assumptions hint_roundtrip.
Print Assumptions hint_roundtrip_strong.
Print Assumptions make_hint_spec.
Print Assumptions make_hint_is_S_make_hint.
Print Assumptions decompose_unique.
Print Assumptions decompose_unique_edge.
Print Assumptions decompose_surj.
