(** C15 — Rounding reconstructs, and hints recover exactly the signer's high bits.
    Only property theorems here, each closed by [exact] of a lemma proved in PRounding.v.
    Spec functions (S_power2round, S_decompose, S_use_hint, S_make_hint) transcribe FIPS 204 Alg. 35-40
    (pairs are (low, high)); ALPHA g = 2*GAMMA2 g, MM g = (q-1)/ALPHA g = 44 or 16. *)
From DV Require Import Base MReduce MRounding GenK PRounding PSrcRounding.

Theorem C15_power2round : forall a, 0 <= a < Q ->
  exists a0 a1, power2round a = Ok (a0, a1) /\ a = a1 * 2 ^ 13 + a0 /\ - 2 ^ 12 < a0 <= 2 ^ 12 /\
                0 <= a1 < 1024 /\ (a0, a1) = S_power2round a.
Proof. exact power2round_ok. Qed.
Print Assumptions C15_power2round.

Theorem C15_decompose : forall g88 a, 0 <= a < Q ->
  exists a0 a1, decompose g88 a = Ok (a0, a1) /\ (a0, a1) = S_decompose g88 a /\
    0 <= a1 < MM g88 /\ (a1 * ALPHA g88 + a0 - a) mod Q = 0 /\ - GAMMA2 g88 <= a0 <= GAMMA2 g88 /\
    (a1 <> 0 -> - GAMMA2 g88 < a0) /\
    (Q - GAMMA2 g88 <= a -> a1 = 0 /\ a0 = a - Q) /\
    (a < Q - GAMMA2 g88 -> a = a1 * ALPHA g88 + a0 /\ - GAMMA2 g88 < a0).
Proof. exact decompose_ok. Qed.
Print Assumptions C15_decompose.

Theorem C15_use_hint : forall g88 a h, 0 <= a < Q -> (h = 0 \/ h = 1) ->
  use_hint g88 a h = Ok (S_use_hint g88 h a) /\ 0 <= S_use_hint g88 h a < MM g88.
Proof. exact use_hint_ok. Qed.
Print Assumptions C15_use_hint.

(** every high part w1 and every low-part sum a0 the signer can emit (|a0| < 2*gamma2 - beta < alpha):
    the signer's bit makes the verifier's use_hint on the perturbed value return exactly w1 *)
Theorem C15_hint_roundtrip : forall g88 w1 a0, 0 <= w1 < MM g88 -> - ALPHA g88 < a0 < ALPHA g88 ->
  exists hb, make_hint g88 a0 w1 = Ok hb /\ (hb = 0 \/ hb = 1) /\
             use_hint g88 ((w1 * ALPHA g88 + a0) mod Q) hb = Ok w1.
Proof. exact hint_roundtrip. Qed.
Print Assumptions C15_hint_roundtrip.

(** The same, stated about the text of /repo/src/rounding.rs and rounding/lvl{2,3,5}.rs as the translator reads it on
    this run (GenK.v): each copy computes the specification's Power2Round / Decompose / UseHint / MakeHint. *)
Theorem C15_source_power2round : forall a, 0 <= a < Q -> src_power2round a = Ok (S_power2round a).
Proof. exact src_power2round_spec. Qed.
Print Assumptions C15_source_power2round.

Theorem C15_source_decompose : forall a, 0 <= a < Q ->
  src_lvl2_decompose a = Ok (S_decompose true a) /\ src_lvl3_decompose a = Ok (S_decompose false a) /\
  src_lvl5_decompose a = Ok (S_decompose false a).
Proof. exact src_decompose_spec. Qed.
Print Assumptions C15_source_decompose.

Theorem C15_source_use_hint : forall a h, 0 <= a < Q -> (h = 0 \/ h = 1) ->
  src_lvl2_use_hint a h = Ok (S_use_hint true h a) /\ src_lvl3_use_hint a h = Ok (S_use_hint false h a) /\
  src_lvl5_use_hint a h = Ok (S_use_hint false h a).
Proof. exact src_use_hint_spec. Qed.
Print Assumptions C15_source_use_hint.

Theorem C15_source_make_hint : forall g88 z r r0 w1,
  S_decompose g88 (r + z) = (r0, w1) -> - ALPHA g88 < r0 - z < ALPHA g88 ->
  (if g88 then src_lvl2_make_hint (r0 - z) w1 else src_lvl3_make_hint (r0 - z) w1) = Ok (S_make_hint g88 z r) /\
  (g88 = false -> src_lvl5_make_hint (r0 - z) w1 = Ok (S_make_hint g88 z r)).
Proof. exact src_make_hint_spec. Qed.
Print Assumptions C15_source_make_hint.

(** ... and that bit is the specification's MakeHint *)
Theorem C15_make_hint_spec : forall g88 z r r0 w1,
  S_decompose g88 (r + z) = (r0, w1) -> - ALPHA g88 < r0 - z < ALPHA g88 ->
  make_hint g88 (r0 - z) w1 = Ok (S_make_hint g88 z r).
Proof. exact make_hint_is_S_make_hint. Qed.
Print Assumptions C15_make_hint_spec.

Theorem C15_decompose_unique : forall g88 a1 a0,
  0 <= a1 < MM g88 -> - GAMMA2 g88 <= a0 <= GAMMA2 g88 -> (a0 = - GAMMA2 g88 -> a1 = 0) ->
  S_decompose g88 ((a1 * ALPHA g88 + a0) mod Q) = (a0, a1) /\
  decompose g88 ((a1 * ALPHA g88 + a0) mod Q) = Ok (a0, a1) /\
  (Q - GAMMA2 g88 <= (a1 * ALPHA g88 + a0) mod Q <-> a1 = 0 /\ a0 < 0).
Proof. exact decompose_unique. Qed.
Print Assumptions C15_decompose_unique.

(** Non-vacuity: the wrap at q-1, the -gamma2 boundary, and a failing pair just outside the range. *)
Example C15_nonvacuous :
  decompose true (Q - 1) = Ok (-1, 0) /\ decompose false (Q - 95232 * 0 - 261888) = Ok (-261888, 0) /\
  make_hint true (-95232) 7 = Ok 1 /\ use_hint true ((7 * ALPHA true + -95232) mod Q) 1 = Ok 7 /\
  make_hint true (-95232) 0 = Ok 0.
Proof. vm_compute. repeat split. Qed.
