(** The model's constants are the ones the translator read from the current source (Gen.v).
    If a constant in /repo changes, one of these lemmas stops checking. *)
From DV Require Import Base Gen MReduce MParams MKeccak MNtt.

Lemma src_scalars_ok :
  (src_Q, src_N, src_D, src_Q_INV, src_F, src_SEEDBYTES, src_CRHBYTES, src_POLYT1_PACKEDBYTES,
   src_POLYT0_PACKEDBYTES, src_TR_BYTES, src_SHAKE128_RATE, src_SHAKE256_RATE, src_R)
  = (Q, NN, DD, QINV, FF, SEEDBYTES, CRHBYTES, POLYT1, POLYT0, 64, SHAKE128_RATE, SHAKE256_RATE, 1753).
Proof. reflexivity. Qed.

Lemma src_params_ok :
  src_params_lvl2 = params_row P_lvl2 /\ src_params_lvl3 = params_row P_lvl3 /\
  src_params_lvl5 = params_row P_lvl5 /\ src_params_ml_dsa_44 = params_row P_ml44 /\
  src_params_ml_dsa_65 = params_row P_ml65 /\ src_params_ml_dsa_87 = params_row P_ml87.
Proof. repeat split; reflexivity. Qed.

(** the ML-DSA sizes are the FIPS 204 table-2 values *)
Lemma fips204_sizes :
  (pPK P_ml44, pSK P_ml44, pSIG P_ml44) = (1312, 2560, 2420) /\
  (pPK P_ml65, pSK P_ml65, pSIG P_ml65) = (1952, 4032, 3309) /\
  (pPK P_ml87, pSK P_ml87, pSIG P_ml87) = (2592, 4896, 4627).
Proof. repeat split; reflexivity. Qed.
