(** L0 model of src/polyvec/{lvl2,lvl3,lvl5}.rs. A vector is a list of K (or L) polynomials; the
    index loops [for i in 0..K] are kept as loops over the index range with checked [get]/[set]. *)
From DV Require Import Base Gen MReduce MRounding MParams MKeccak MNtt MPoly.

(** for i in 0..n { v.vec[i] = f(i, v.vec[i]) } *)
Definition for_idx {A} (n : Z) (f : Z -> A -> res A) (v : list A) : res (list A) :=
  foldM (fun v i => do x <- get v i; do y <- f i x; set v i y) (zrange 0 n) v.

(** for i in 0..n { w.vec[i] = f(w.vec[i], v.vec[i]) } *)
Definition for_idx2 {A B} (n : Z) (f : A -> B -> res A) (w : list A) (v : list B) : res (list A) :=
  foldM (fun w i => do x <- get w i; do y <- get v i; do z <- f x y; set w i z) (zrange 0 n) w.

Section Vec.
  Variable P : params.
  Let K := pK P.
  Let L := pL P.

  (** matrix_expand(mat, rho): mat[i].vec[j] = uniform(rho, ((i << 8) + j) as u16) *)
  Definition matrix_expand (mat : list (list (list Z))) (rho : list Z) : res (list (list (list Z))) :=
    for_idx K (fun i row =>
      for_idx L (fun j a => poly_uniform a rho (Z.land (Z.shiftl i 8 + j) 65535)) row) mat.

  (** l_pointwise_acc_montgomery(w, u, v): product 0, then for i in 1..L accumulate *)
  Definition l_pointwise_acc_montgomery (u v : list (list Z)) : res (list Z) :=
    do u0 <- get u 0; do v0 <- get v 0;
    do w <- poly_pointwise_montgomery u0 v0;
    foldM (fun w i => do ui <- get u i; do vi <- get v i;
                      do t <- poly_pointwise_montgomery ui vi; poly_add w t) (zrange 1 L) w.

  Definition matrix_pointwise_montgomery (t : list (list Z)) (mat : list (list (list Z))) (v : list (list Z))
    : res (list (list Z)) :=
    for_idx K (fun i _ => do row <- get mat i; l_pointwise_acc_montgomery row v) t.

  (** l_uniform_eta(v, seed, nonce): nonce += 1 after each polynomial (u16, checked) *)
  Definition vec_uniform_eta (n : Z) (v : list (list Z)) (seed : list Z) (nonce : Z) : res (list (list Z)) :=
    do '(v', _) <- foldM (fun '(v, nonce) i =>
                      do a <- get v i;
                      do a' <- poly_uniform_eta (pETA P) a seed nonce;
                      do v' <- set v i a';
                      do nonce' <- u16_add nonce 1;
                      Ok (v', nonce')) (zrange 0 n) (v, nonce);
    Ok v'.
  Definition l_uniform_eta := vec_uniform_eta L.
  Definition k_uniform_eta := vec_uniform_eta K.

  (** l_uniform_gamma1(v, seed, nonce): nonce_i = L as u16 * nonce + i as u16 (checked u16 arithmetic) *)
  Definition l_uniform_gamma1 (v : list (list Z)) (seed : list Z) (nonce : Z) : res (list (list Z)) :=
    for_idx L (fun i _ => do m <- u16_mul L nonce; do n <- u16_add m i;
                          poly_uniform_gamma1 (pGAMMA1 P) seed n) v.

  Definition vec_map (n : Z) (f : list Z -> res (list Z)) (v : list (list Z)) := for_idx n (fun _ a => f a) v.
  Definition l_reduce := vec_map L poly_reduce.
  Definition k_reduce := vec_map K poly_reduce.
  Definition k_caddq := vec_map K poly_caddq.
  Definition l_ntt := vec_map L poly_ntt.
  Definition k_ntt := vec_map K poly_ntt.
  Definition l_invntt_tomont := vec_map L poly_invntt_tomont.
  Definition k_invntt_tomont := vec_map K poly_invntt_tomont.
  Definition k_shiftl := vec_map K poly_shiftl.
  Definition l_add (w v : list (list Z)) := for_idx2 L poly_add w v.
  Definition k_add (w v : list (list Z)) := for_idx2 K poly_add w v.
  Definition k_sub (w v : list (list Z)) := for_idx2 K poly_sub w v.

  (** l_pointwise_poly_montgomery(r, a, v): r.vec[i] = a o v.vec[i] *)
  Definition l_pointwise_poly_montgomery (r : list (list Z)) (a : list Z) (v : list (list Z)) :=
    for_idx L (fun i _ => do vi <- get v i; poly_pointwise_montgomery a vi) r.
  Definition k_pointwise_poly_montgomery (r : list (list Z)) (a : list Z) (v : list (list Z)) :=
    for_idx K (fun i _ => do vi <- get v i; poly_pointwise_montgomery a vi) r.

  (** l_chknorm / k_chknorm -> u8, early return *)
  Fixpoint vec_chknorm_loop (is : list Z) (v : list (list Z)) (bound : Z) : res Z :=
    match is with
    | [] => Ok 0
    | i :: r => do a <- get v i; do c <- chknorm a bound;
                if 0 <? c then Ok 1 else vec_chknorm_loop r v bound
    end.
  Definition l_chknorm (v : list (list Z)) (bound : Z) := vec_chknorm_loop (zrange 0 L) v bound.
  Definition k_chknorm (v : list (list Z)) (bound : Z) := vec_chknorm_loop (zrange 0 K) v bound.

  (** k_power2round(v1, v0): returns (v1', v0') *)
  Definition k_power2round (v1 v0 : list (list Z)) : res (list (list Z) * list (list Z)) :=
    foldM (fun '(v1, v0) i =>
             do a <- get v1 i; do _ <- get v0 i;
             do '(a1, a0) <- poly_power2round a;
             do v1' <- set v1 i a1; do v0' <- set v0 i a0; Ok (v1', v0')) (zrange 0 K) (v1, v0).

  (** k_decompose(v1, v0): per-polynomial decompose leaves (low, high) in (v1, v0); then swap(v1, v0).
      Returns (v1', v0') = (high, low). *)
  Definition k_decompose (v1 v0 : list (list Z)) : res (list (list Z) * list (list Z)) :=
    do '(lo, hi) <- foldM (fun '(v1, v0) i =>
             do a <- get v1 i; do _ <- get v0 i;
             do '(a1, a0) <- poly_decompose (pG88 P) a;
             do v1' <- set v1 i a1; do v0' <- set v0 i a0; Ok (v1', v0')) (zrange 0 K) (v1, v0);
    Ok (hi, lo).

  (** k_make_hint(h, v0, v1) -> i32: returns (h', s) *)
  Definition k_make_hint (h v0 v1 : list (list Z)) : res (list (list Z) * Z) :=
    foldM (fun '(h, s) i =>
             do _ <- get h i; do a0 <- get v0 i; do a1 <- get v1 i;
             do '(hi, n) <- poly_make_hint (pG88 P) a0 a1;
             do h' <- set h i hi; do s' <- i32_add s n; Ok (h', s')) (zrange 0 K) (h, 0).

  Definition k_use_hint (a h : list (list Z)) := for_idx2 K (poly_use_hint (pG88 P)) a h.

  (** k_pack_w1(r, a): w1_pack(&mut r[i * POLYW1_PACKEDBYTES..], &a.vec[i]) *)
  Definition k_pack_w1 (r : list Z) (a : list (list Z)) : res (list Z) :=
    foldM (fun r i => do ai <- get a i;
                      do b <- w1_pack_bytes (pG88 P) ai;
                      splice r (i * pPOLYW1 P) b) (zrange 0 K) r.
End Vec.
