(** SKeccak: SPECIFICATION of KECCAK-p[1600,24], the sponge construction and SHAKE128/SHAKE256,
    transcribed from FIPS 202 (August 2015).  Written to be read against the standard, not to be fast.
    Nothing in this file refers to the model of the Rust code (MKeccak.v); the only thing imported from
    the translated source is the table of round constants [Gen.src_RC], and only for the cross-check
    [S_RC_is_src_RC] at the very end of the file.

    Conventions (FIPS 202 section 3.1 and appendix B.1):
    - the state array A[x,y,z] (5 x 5 x 64 bits) is held as 25 lanes; lane (x,y) is the integer
      sum_z A[x,y,z] * 2^z in [0, 2^64) and is stored at list position x + 5*y;
    - a byte b stands for the 8 bits b_0..b_7 with b = sum b_i 2^i (B.1: "h2b"), and the state string S
      is the concatenation of the lanes (0,0),(1,0),...,(4,4), so lane (x,y) is the little-endian value of
      the bytes 8*(x+5y) .. 8*(x+5y)+7 of S. *)
From Coq Require Import ZArith List Lia Bool Arith.
Import ListNotations.
Open Scope Z_scope.

(** * 1. The step mappings (FIPS 202, section 3.2), over abstract lane operations.
      [rol a n] is rotation of a lane towards the higher bit indices: bit z of [rol a n] is bit
      (z - n) mod 64 of [a]. *)
Section KeccakRound.
  Context {W : Type} (xor and : W -> W -> W) (not : W -> W) (rol : W -> Z -> W) (dflt : W).

  (** A[x, y], indices taken mod 5 *)
  Definition lane (A : list W) (x y : nat) : W := nth ((x mod 5) + 5 * (y mod 5))%nat A dflt.
  (** the state whose lane (x,y) is [f x y] *)
  Definition mk_state (f : nat -> nat -> W) : list W :=
    map (fun i => f (i mod 5) (i / 5))%nat (seq 0 25).

  (** Algorithm 1, theta:  C[x] = A[x,0] ^ A[x,1] ^ A[x,2] ^ A[x,3] ^ A[x,4];
      D[x,z] = C[(x-1) mod 5, z] ^ C[(x+1) mod 5, (z-1) mod 64];  A'[x,y] = A[x,y] ^ D[x]. *)
  Definition theta_C (A : list W) (x : nat) : W :=
    xor (xor (xor (xor (lane A x 0) (lane A x 1)) (lane A x 2)) (lane A x 3)) (lane A x 4).
  Definition theta_D (A : list W) (x : nat) : W :=
    xor (theta_C A (x + 4)) (rol (theta_C A (x + 1)) 1).
  Definition theta (A : list W) : list W :=
    mk_state (fun x y => xor (lane A x y) (theta_D A x)).

  (** Algorithm 2, rho: A'[0,0] = A[0,0]; every other lane is rotated by its offset (Table 2, reduced mod 64). *)
  Definition rho_offset (x y : nat) : Z :=
    nth (x + 5 * y)%nat
        [ 0;  1; 62; 28; 27;      (* y = 0, x = 0..4 *)
         36; 44;  6; 55; 20;      (* y = 1 *)
          3; 10; 43; 25; 39;      (* y = 2 *)
         41; 45; 15; 21;  8;      (* y = 3 *)
         18;  2; 61; 56; 14] 0.   (* y = 4 *)
  Definition rho (A : list W) : list W :=
    mk_state (fun x y => if ((x =? 0) && (y =? 0))%nat then lane A x y
                         else rol (lane A x y) (rho_offset x y)).

  (** Algorithm 3, pi: A'[x,y] = A[(x + 3y) mod 5, x]. *)
  Definition pi (A : list W) : list W :=
    mk_state (fun x y => lane A (x + 3 * y) x).

  (** Algorithm 4, chi: A'[x,y] = A[x,y] ^ ((A[x+1,y] ^ 1) & A[x+2,y]). *)
  Definition chi (A : list W) : list W :=
    mk_state (fun x y => xor (lane A x y) (and (not (lane A (x + 1) y)) (lane A (x + 2) y))).

  (** Algorithm 6, iota: A'[0,0] = A[0,0] ^ RC, all other lanes unchanged. *)
  Definition iota (rc : W) (A : list W) : list W :=
    mk_state (fun x y => if ((x =? 0) && (y =? 0))%nat then xor (lane A x y) rc else lane A x y).

  (** Rnd(A, ir) = iota(chi(pi(rho(theta(A)))), ir)   (section 3.3) *)
  Definition round (rc : W) (A : list W) : list W := iota rc (chi (pi (rho (theta A)))).
End KeccakRound.

(** * 2. 64-bit lanes as integers *)
Definition S_xor (a b : Z) : Z := Z.lxor a b.
Definition S_and (a b : Z) : Z := Z.land a b.
(** complement of the 64 bits:  a ^ 1^64 *)
Definition S_not (a : Z) : Z := Z.lxor a (Z.ones 64).
(** rotation by n (0 < n < 64): ((a << n) mod 2^64) ^ (a >> (64 - n)) *)
Definition S_rol (a n : Z) : Z := Z.lxor (Z.land (Z.shiftl a n) (Z.ones 64)) (Z.shiftr a (64 - n)).

Definition lane_ok (a : Z) : Prop := 0 <= a < 2 ^ 64.

(** * 3. Round constants (Algorithm 5 and Algorithm 6 step 2-3) *)
Fixpoint upd {A} (l : list A) (i : nat) (v : A) : list A :=
  match l, i with
  | [], _ => []
  | _ :: r, O => v :: r
  | a :: r, S i' => a :: upd r i' v
  end.

(** one iteration of step 3 of Algorithm 5 on R (8 bits):
    R = 0 || R; R[0] ^= R[8]; R[4] ^= R[8]; R[5] ^= R[8]; R[6] ^= R[8]; R = Trunc8[R] *)
Definition lfsr_step (R : list bool) : list bool :=
  let R := false :: R in
  let r8 := nth 8 R false in
  let R := upd R 0 (xorb (nth 0 R false) r8) in
  let R := upd R 4 (xorb (nth 4 R false) r8) in
  let R := upd R 5 (xorb (nth 5 R false) r8) in
  let R := upd R 6 (xorb (nth 6 R false) r8) in
  firstn 8 R.

(** Algorithm 5: rc(t).  (For t mod 255 = 0 the loop is empty and R[0] = 1, which is step 1.) *)
Definition rc (t : nat) : bool :=
  nth 0 (Nat.iter (t mod 255) lfsr_step [true; false; false; false; false; false; false; false]) false.

(** Algorithm 6 steps 2-3: RC = 0^64; for j = 0..6: RC[2^j - 1] = rc(j + 7 ir); as a lane value. *)
Definition S_RC (ir : nat) : Z :=
  fold_right Z.add 0
    (map (fun j => if rc (j + 7 * ir) then 2 ^ (2 ^ Z.of_nat j - 1) else 0) (seq 0 7)).

(** * 4. KECCAK-p[1600, 24] = KECCAK-f[1600]  (Algorithm 7; rounds ir = 0 .. 23) *)
Definition S_round (ir : nat) (A : list Z) : list Z := round S_xor S_and S_not S_rol 0 (S_RC ir) A.
Definition S_keccak_f (A : list Z) : list Z := fold_left (fun A ir => S_round ir A) (seq 0 24) A.

(** * 5. Strings of bytes and the state *)
(** little-endian value of a byte string *)
Fixpoint le_num (bs : list Z) : Z :=
  match bs with
  | [] => 0
  | b :: r => b + 256 * le_num r
  end.
(** the 8 bytes of a lane, least significant first *)
Definition lane_bytes (a : Z) : list Z := map (fun k => (a / 256 ^ Z.of_nat k) mod 256) (seq 0 8).
(** the state as the 200-byte string S *)
Definition S_state_bytes (A : list Z) : list Z := flat_map lane_bytes A.
(** S ^ (P || 00..0): each lane in turn is XORed with the little-endian value of the next 8 bytes of P
    (bytes beyond the end of P count as zero). *)
Fixpoint S_xor_block (A : list Z) (P : list Z) : list Z :=
  match A with
  | [] => []
  | a :: A' => Z.lxor a (le_num (firstn 8 P)) :: S_xor_block A' (skipn 8 P)
  end.

Definition S_zero_state : list Z := repeat 0 25.

(** * 6. The sponge construction (Algorithm 8) with f = KECCAK-f[1600], rate in BYTES *)
(** i-th block of [rate] bytes of P *)
Definition S_block (rate : nat) (P : list Z) (i : nat) : list Z := firstn rate (skipn (i * rate) P).

(** steps 2-6: n = len(P)/r;  S = 0^b;  for i = 0..n-1: S = f(S ^ (P_i || 0^c)) *)
Definition S_absorb (rate : nat) (P : list Z) : list Z :=
  fold_left (fun St i => S_keccak_f (S_xor_block St (S_block rate P i)))
            (seq 0 (length P / rate)) S_zero_state.

(** steps 7-10: Z = Trunc_r(S); while d > |Z|: S = f(S); Z = Z || Trunc_r(S); return Trunc_d(Z).
    [S_squeeze_blocks k] is the first k blocks of that sequence. *)
Fixpoint S_squeeze_blocks (k : nat) (rate : nat) (St : list Z) : list Z :=
  match k with
  | O => []
  | S k' => firstn rate (S_state_bytes St) ++ S_squeeze_blocks k' rate (S_keccak_f St)
  end.
Definition S_squeeze (rate : nat) (St : list Z) (d : nat) : list Z :=
  firstn d (S_squeeze_blocks (d / rate + 1) rate St).

(** * 7. SHAKE (section 6.2): SHAKE128(M, d) = KECCAK[256](M || 1111, d), SHAKE256(M,d) = KECCAK[512](M || 1111, d),
      KECCAK[c](N, d) = SPONGE[KECCAK-f[1600], pad10*1, 1600 - c](N, d).
      For a message of whole bytes, M || 1111 || pad10*1 is M followed by q = rate - (len M mod rate) bytes:
      0x1F 0x00 ... 0x00 0x80, or the single byte 0x9F when q = 1  (B.2, Table 6). *)
Definition S_pad (rate : nat) (M : list Z) : list Z :=
  let q := (rate - length M mod rate)%nat in
  M ++ (if (q =? 1)%nat then [0x9F] else [0x1F] ++ repeat 0 (q - 2) ++ [0x80]).

Definition S_shake (rate : nat) (M : list Z) (d : nat) : list Z :=
  S_squeeze rate (S_absorb rate (S_pad rate M)) d.

Definition S_shake128 (M : list Z) (d : nat) : list Z := S_shake 168 M d.   (* r = (1600 - 256)/8 *)
Definition S_shake256 (M : list Z) (d : nat) : list Z := S_shake 136 M d.   (* r = (1600 - 512)/8 *)

(** * 8. Sanity checks of the transcription *)

(** Table 2 is what Algorithm 2 computes: (x,y) = (1,0); for t = 0..23: offset(x,y) = (t+1)(t+2)/2 mod 64;
    (x,y) = (y, (2x+3y) mod 5). *)
Fixpoint rho_walk (n : nat) (t : nat) (x y : nat) : list (nat * nat * Z) :=
  match n with
  | O => []
  | S n' => (x, y, (Z.of_nat ((t + 1) * (t + 2) / 2)) mod 64) :: rho_walk n' (t + 1) y ((2 * x + 3 * y) mod 5)
  end.
Example rho_offset_is_alg2 :
  forallb (fun p => match p with (x, y, o) => rho_offset x y =? o end) (rho_walk 24 0 1 0) = true
  /\ map (fun p => match p with (x, y, _) => (x + 5 * y)%nat end) (rho_walk 24 0 1 0)
     = [1; 10; 7; 11; 17; 18; 3; 5; 16; 8; 21; 24; 4; 15; 23; 19; 13; 12; 2; 20; 14; 22; 9; 6]%nat
  /\ rho_offset 0 0 = 0.
Proof. vm_compute. repeat split. Qed.

(** the round constants, as printed in every reference implementation *)
Example S_RC_values :
  map S_RC (seq 0 24) =
  [0x0000000000000001; 0x0000000000008082; 0x800000000000808A; 0x8000000080008000;
   0x000000000000808B; 0x0000000080000001; 0x8000000080008081; 0x8000000000008009;
   0x000000000000008A; 0x0000000000000088; 0x0000000080008009; 0x000000008000000A;
   0x000000008000808B; 0x800000000000008B; 0x8000000000008089; 0x8000000000008003;
   0x8000000000008002; 0x8000000000000080; 0x000000000000800A; 0x800000008000000A;
   0x8000000080008081; 0x8000000000008080; 0x0000000080000001; 0x8000000080008008].
Proof. vm_compute. reflexivity. Qed.

(** [S_rol] and [S_not] are the bit-level operations of the standard. *)
Lemma S_rol_range a n : lane_ok a -> 0 <= n <= 64 -> lane_ok (S_rol a n).
Proof.
  intros Ha Hn'. assert (Hn : 0 <= n) by lia. unfold S_rol, lane_ok in *.
  assert (H1 : 0 <= Z.land (Z.shiftl a n) (Z.ones 64) < 2 ^ 64).
  { rewrite Z.land_ones by lia. apply Z.mod_pos_bound. reflexivity. }
  assert (H2 : 0 <= Z.shiftr a (64 - n) < 2 ^ 64).
  { rewrite Z.shiftr_div_pow2 by lia. split.
    - apply Z.div_pos; [lia | apply Z.pow_pos_nonneg; lia].
    - apply Z.le_lt_trans with a; [|lia]. apply Z.div_le_upper_bound.
      + apply Z.pow_pos_nonneg; lia.
      + assert (0 < 2 ^ (64 - n)) by (apply Z.pow_pos_nonneg; lia). nia. }
  split.
  - apply Z.lxor_nonneg. lia.
  - destruct (Z.eq_dec (Z.lxor (Z.land (Z.shiftl a n) (Z.ones 64)) (Z.shiftr a (64 - n))) 0) as [E|E].
    + rewrite E. reflexivity.
    + apply Z.log2_lt_pow2.
      * assert (0 <= Z.lxor (Z.land (Z.shiftl a n) (Z.ones 64)) (Z.shiftr a (64 - n))) by (apply Z.lxor_nonneg; lia). lia.
      * eapply Z.le_lt_trans; [apply Z.log2_lxor; lia|].
        apply Z.max_lub_lt.
        -- destruct (Z.eq_dec (Z.land (Z.shiftl a n) (Z.ones 64)) 0) as [E1|E1]; [rewrite E1; reflexivity|].
           apply Z.log2_lt_pow2; lia.
        -- destruct (Z.eq_dec (Z.shiftr a (64 - n)) 0) as [E1|E1]; [rewrite E1; reflexivity|].
           apply Z.log2_lt_pow2; lia.
Qed.

(** rho on bits: A'[x,y,z] = A[x,y,(z - offset) mod 64] *)
Lemma S_rol_bits a n z : lane_ok a -> 0 < n < 64 -> 0 <= z < 64 ->
  Z.testbit (S_rol a n) z = Z.testbit a ((z - n) mod 64).
Proof.
  intros Ha Hn Hz. unfold S_rol, lane_ok in *.
  rewrite Z.lxor_spec, Z.land_spec, Z.shiftl_spec, Z.shiftr_spec by lia.
  rewrite Z.testbit_ones_nonneg by lia.
  replace (z <? 64) with true by (symmetry; apply Z.ltb_lt; lia). rewrite andb_true_r.
  destruct (Z.ltb_spec z n) as [Hlt|Hge].
  - rewrite (Z.testbit_neg_r a (z - n)) by lia. rewrite xorb_false_l.
    f_equal. apply Z.mod_unique with (-1); lia.
  - replace (Z.testbit a (z + (64 - n))) with false.
    + rewrite xorb_false_r. f_equal. apply Z.mod_unique with 0; lia.
    + symmetry. destruct (Z.eq_dec a 0) as [->|Hnz]; [apply Z.testbit_0_l|].
      apply Z.bits_above_log2; [lia|]. apply Z.lt_le_trans with 64; [|lia].
      apply Z.log2_lt_pow2; lia.
Qed.

Lemma S_not_bits a z : 0 <= z < 64 -> Z.testbit (S_not a) z = negb (Z.testbit a z).
Proof.
  intros Hz. unfold S_not. rewrite Z.lxor_spec, Z.testbit_ones_nonneg by lia.
  replace (z <? 64) with true by (symmetry; apply Z.ltb_lt; lia). apply xorb_true_r.
Qed.

(** * 9. Known answers (NIST example values / every SHA-3 library) *)
Example shake256_empty :
  S_shake256 [] 16 =
  [0x46; 0xb9; 0xdd; 0x2b; 0x0b; 0xa8; 0x8d; 0x13; 0x23; 0x3b; 0x3f; 0xeb; 0x74; 0x3e; 0xeb; 0x24].
Proof. vm_compute. reflexivity. Qed.

Example shake128_empty :
  S_shake128 [] 16 =
  [0x7f; 0x9c; 0x2b; 0xa4; 0xe8; 0x8f; 0x82; 0x7d; 0x61; 0x60; 0x45; 0x50; 0x76; 0x05; 0x85; 0x3e].
Proof. vm_compute. reflexivity. Qed.

Example shake256_abc :
  S_shake256 [0x61; 0x62; 0x63] 16 =
  [0x48; 0x33; 0x66; 0x60; 0x13; 0x60; 0xa8; 0x77; 0x1c; 0x68; 0x63; 0x08; 0x0c; 0xc4; 0x11; 0x4d].
Proof. vm_compute. reflexivity. Qed.

(** * 10. The round-constant table of the Rust source is the standard's *)
From DV Require Gen.
Lemma S_RC_is_src_RC : map S_RC (seq 0 24) = Gen.src_RC.
Proof. vm_compute. reflexivity. Qed.

Print Assumptions rho_offset_is_alg2.
Print Assumptions S_RC_values.
Print Assumptions S_rol_bits.
Print Assumptions shake256_empty.
Print Assumptions shake128_empty.
Print Assumptions shake256_abc.
Print Assumptions S_RC_is_src_RC.
