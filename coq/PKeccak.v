(** PKeccak: the model of fips202.rs (MKeccak.v) computes FIPS 202 (SKeccak.v).  Property C12. *)
From DV Require Import Base Gen MKeccak SKeccak.
From Coq Require Import Arith ZifyNat.

Local Ltac Zify.zify_post_hook ::= Z.div_mod_to_equations.

(** * (a) the unrolled two-round body is two rounds of the specification, for all lane values
        and whatever the lane operations are *)
Section Round2.
  Context {W : Type} (xor and : W -> W -> W) (not : W -> W) (rol : W -> Z -> W) (dflt : W).

  Lemma round2_spec_vars (rc0 rc1 a0 a1 a2 a3 a4 a5 a6 a7 a8 a9 a10 a11 a12 a13 a14 a15 a16 a17 a18 a19
                        a20 a21 a22 a23 a24 : W) :
    src_keccak_round2 xor and not rol rc0 rc1
      [a0; a1; a2; a3; a4; a5; a6; a7; a8; a9; a10; a11; a12; a13; a14; a15; a16; a17; a18; a19; a20; a21; a22; a23; a24]
    = Some (round xor and not rol dflt rc1 (round xor and not rol dflt rc0
      [a0; a1; a2; a3; a4; a5; a6; a7; a8; a9; a10; a11; a12; a13; a14; a15; a16; a17; a18; a19; a20; a21; a22; a23; a24])).
  Proof. vm_compute. reflexivity. Qed.

  Theorem round2_spec (rc0 rc1 : W) (st : list W) :
    length st = 25%nat ->
    src_keccak_round2 xor and not rol rc0 rc1 st
    = Some (round xor and not rol dflt rc1 (round xor and not rol dflt rc0 st)).
  Proof.
    intros H.
    do 25 (destruct st as [|? st]; [discriminate H|]).
    destruct st; [|discriminate H].
    apply round2_spec_vars.
  Qed.

  Lemma round_length rc st : length (round xor and not rol dflt rc st) = 25%nat.
  Proof. reflexivity. Qed.
End Round2.


(** * (b) keccakf1600_statepermute is KECCAK-f[1600] *)
Lemma S_round_length ir st : length (S_round ir st) = 25%nat.
Proof. reflexivity. Qed.

Lemma S_keccak_f_length st : length (S_keccak_f st) = 25%nat.
Proof. reflexivity. Qed.

(** the model's lane operations are the specification's *)
Lemma ops_eq : S_xor = w_xor /\ S_and = w_and /\ S_not = w_not /\ S_rol = w_rol.
Proof. repeat split; reflexivity. Qed.

Lemma round2_Z ir0 ir1 st : length st = 25%nat ->
  src_keccak_round2 w_xor w_and w_not w_rol (S_RC ir0) (S_RC ir1) st = Some (S_round ir1 (S_round ir0 st)).
Proof.
  intros H. unfold S_round. destruct ops_eq as (-> & -> & -> & ->).
  apply (round2_spec w_xor w_and w_not w_rol 0 _ _ st H).
Qed.

Theorem keccakf_ok st : length st = 25%nat -> keccakf st = Ok (S_keccak_f st).
Proof.
  intros H. unfold keccakf. rewrite <- S_RC_is_src_RC.
  cbn [map seq rc_pairs foldM fst snd].
  repeat (rewrite round2_Z by (first [exact H | apply S_round_length]); cbn [bind]).
  reflexivity.
Qed.

(** * (c) the sponge *)
(** ** list and access lemmas *)
Lemma Forall_skipn' {A} (P : A -> Prop) n l : Forall P l -> Forall P (skipn n l).
Proof.
  revert l; induction n as [|n IH]; intros [|x l] H; cbn [skipn]; auto.
  inversion H; auto.
Qed.
Lemma Forall_firstn' {A} (P : A -> Prop) n l : Forall P l -> Forall P (firstn n l).
Proof.
  revert l; induction n as [|n IH]; intros [|x l] H; cbn [firstn]; auto.
  inversion H; auto.
Qed.

Lemma get_ok {A} (l : list A) (i : nat) d : (i < length l)%nat -> get l (Z.of_nat i) = Ok (nth i l d).
Proof.
  intros H. unfold get. destruct (Z.ltb_spec (Z.of_nat i) 0); [lia|].
  rewrite Nat2Z.id. destruct (nth_error l i) eqn:E.
  - f_equal. symmetry. apply nth_error_nth. exact E.
  - apply nth_error_None in E. lia.
Qed.

Lemma set_nat_ok {A} (l : list A) i v : (i < length l)%nat -> set_nat l i v = Ok (upd l i v).
Proof.
  revert i; induction l as [|x l IH]; intros i H; cbn [length] in H; [lia|].
  destruct i; cbn [set_nat upd]; [reflexivity|]. rewrite IH by lia. reflexivity.
Qed.
Lemma set_ok {A} (l : list A) (i : nat) v : (i < length l)%nat -> set l (Z.of_nat i) v = Ok (upd l i v).
Proof.
  intros H. unfold set. destruct (Z.ltb_spec (Z.of_nat i) 0); [lia|].
  rewrite Nat2Z.id. apply set_nat_ok, H.
Qed.
Lemma upd_length {A} (l : list A) i v : length (upd l i v) = length l.
Proof. revert i; induction l; intros [|i]; cbn [upd length]; auto. Qed.
Lemma upd_upd {A} (l : list A) i v w : upd (upd l i v) i w = upd l i w.
Proof. revert i; induction l; intros [|i]; cbn [upd]; auto. f_equal; auto. Qed.
Lemma nth_upd_same {A} (l : list A) i v d : (i < length l)%nat -> nth i (upd l i v) d = v.
Proof. revert i; induction l; intros [|i] H; cbn [length] in H; cbn [upd nth]; auto; try lia. apply IHl; lia. Qed.
Lemma upd_same {A} (l : list A) i d : upd l i (nth i l d) = l.
Proof. revert i; induction l; intros [|i]; cbn [upd nth]; auto. f_equal; auto. Qed.

(** ** bytes and lanes *)
Lemma pow256 k : 0 <= k -> 256 ^ k = 2 ^ (8 * k).
Proof. intros. rewrite Z.pow_mul_r by lia. reflexivity. Qed.

Lemma le_num_snoc t b : le_num (t ++ [b]) = le_num t + b * 2 ^ (8 * Z.of_nat (length t)).
Proof.
  induction t as [|x t IH]; cbn [app le_num length].
  - change (2 ^ (8 * Z.of_nat 0)) with 1. lia.
  - rewrite IH. replace (8 * Z.of_nat (S (length t))) with (8 + 8 * Z.of_nat (length t)) by lia.
    rewrite Z.pow_add_r by lia. change (2 ^ 8) with 256. ring.
Qed.

Lemma le_num_bound t : Forall is_byte t -> 0 <= le_num t < 2 ^ (8 * Z.of_nat (length t)).
Proof.
  induction 1 as [|x t Hx Ht IH]; cbn [le_num length].
  - change (2 ^ (8 * Z.of_nat 0)) with 1. lia.
  - replace (8 * Z.of_nat (S (length t))) with (8 + 8 * Z.of_nat (length t)) by lia.
    rewrite Z.pow_add_r by lia. change (2 ^ 8) with 256. unfold is_byte in Hx. lia.
Qed.

Lemma add_is_lxor x y k : 0 <= k -> 0 <= x < 2 ^ k -> x + y * 2 ^ k = Z.lxor x (y * 2 ^ k).
Proof.
  intros Hk Hx. apply Z.add_nocarry_lxor. apply Z.bits_inj'. intros n Hn.
  rewrite Z.land_spec, Z.bits_0.
  destruct (Z.ltb_spec n k).
  - rewrite Z.mul_pow2_bits_low by lia. apply andb_false_r.
  - replace (Z.testbit x n) with false; [reflexivity|].
    symmetry. destruct (Z.eq_dec x 0) as [->|Hnz]; [apply Z.testbit_0_l|].
    apply Z.bits_above_log2; [lia|]. apply Z.lt_le_trans with k; [|lia].
    apply Z.log2_lt_pow2; lia.
Qed.

Lemma S_xor_block_length A P : length (S_xor_block A P) = length A.
Proof. revert P; induction A; intros P; cbn [S_xor_block length]; auto. Qed.

Lemma S_xor_block_nil A : S_xor_block A [] = A.
Proof.
  induction A as [|a A IH]; cbn [S_xor_block]; [reflexivity|].
  cbn [firstn skipn le_num]. rewrite Z.lxor_0_r, IH. reflexivity.
Qed.

(** appending one byte to the string XORed into the state changes one lane *)
Lemma S_xor_block_snoc A t b :
  Forall is_byte t -> (length t < 8 * length A)%nat ->
  S_xor_block A (t ++ [b]) =
  upd (S_xor_block A t) (length t / 8)
      (Z.lxor (nth (length t / 8) (S_xor_block A t) 0) (b * 2 ^ (8 * Z.of_nat (length t mod 8)))).
Proof.
  revert t; induction A as [|a A IH]; intros t Ht Hl; cbn [length] in Hl; [lia|].
  cbn [S_xor_block].
  destruct (Nat.lt_ge_cases (length t) 8) as [Hs|Hg].
  - replace (length t / 8)%nat with 0%nat by lia. replace (length t mod 8)%nat with (length t) by lia.
    cbn [upd nth]. f_equal.
    + rewrite (@firstn_all2 _ 8 (t ++ [b])) by (rewrite app_length; cbn [length]; lia).
      rewrite (@firstn_all2 _ 8 t) by lia.
      rewrite le_num_snoc. rewrite add_is_lxor by (try lia; apply le_num_bound, Ht).
      symmetry. apply Z.lxor_assoc.
    + rewrite (@skipn_all2 _ 8 (t ++ [b])) by (rewrite app_length; cbn [length]; lia).
      rewrite (@skipn_all2 _ 8 t) by lia. reflexivity.
  - replace (length t / 8)%nat with (S ((length t - 8) / 8)) by lia.
    cbn [upd nth].
    rewrite firstn_app, skipn_app. replace (8 - length t)%nat with 0%nat by lia.
    change (firstn 0 [b]) with (@nil Z). change (skipn 0 [b]) with [b]. rewrite app_nil_r. f_equal.
    rewrite IH by (try apply Forall_skipn', Ht; rewrite skipn_length; lia).
    rewrite skipn_length. replace ((length t - 8) mod 8)%nat with (length t mod 8)%nat by lia.
    reflexivity.
Qed.

(** ** xor_bytes *)
Lemma shl_byte b k : is_byte b -> (k < 8)%nat ->
  shl_u 64 b (8 * (Z.of_nat k)) = Ok (b * 2 ^ (8 * Z.of_nat k)).
Proof.
  intros Hb Hk. rewrite shl_u_ok by lia. rewrite uwrap_mod by lia. f_equal.
  apply Z.mod_small. unfold is_byte in Hb.
  assert (0 < 2 ^ (8 * Z.of_nat k) <= 2 ^ 56).
  { split; [apply Z.pow_pos_nonneg; lia | apply Z.pow_le_mono_r; lia]. }
  change (2 ^ 64) with (256 * 2 ^ 56). nia.
Qed.

Lemma xor_bytes_ok A t bs :
  Forall is_byte t -> Forall is_byte bs -> (length t + length bs <= 8 * length A)%nat ->
  xor_bytes (S_xor_block A t) (zlen t) bs = Ok (S_xor_block A (t ++ bs)).
Proof.
  intros Ht Hbs; revert t Ht; induction Hbs as [|b bs Hb Hbs IH]; intros t Ht Hl.
  - rewrite app_nil_r. reflexivity.
  - cbn [length] in Hl. cbn [xor_bytes]. unfold zlen.
    replace (Z.of_nat (length t) / 8) with (Z.of_nat (length t / 8)) by lia.
    replace (Z.of_nat (length t) mod 8) with (Z.of_nat (length t mod 8)) by lia.
    rewrite (get_ok _ _ 0) by (rewrite S_xor_block_length; lia). cbn [bind].
    rewrite shl_byte by (try exact Hb; lia). cbn [bind].
    rewrite set_ok by (rewrite S_xor_block_length; lia). cbn [bind].
    rewrite <- S_xor_block_snoc by (try exact Ht; lia).
    replace (Z.of_nat (length t) + 1) with (zlen (t ++ [b])) by (unfold zlen; rewrite app_length; cbn [length]; lia).
    rewrite IH.
    + rewrite <- app_assoc. reflexivity.
    + apply Forall_app; split; [exact Ht | constructor; [exact Hb | constructor]].
    + rewrite app_length; cbn [length]; lia.
Qed.

Lemma xor_bytes_ok0 A bs : Forall is_byte bs -> (length bs <= 8 * length A)%nat ->
  xor_bytes A 0 bs = Ok (S_xor_block A bs).
Proof.
  intros Hb Hl. pose proof (xor_bytes_ok A [] bs (Forall_nil _) Hb Hl) as H.
  rewrite S_xor_block_nil in H. exact H.
Qed.

(** ** the absorbing phase *)
Definition rate_ok (rate : nat) : Prop := (0 < rate <= 200)%nat /\ (rate mod 8 = 0)%nat.

Lemma fold_left_ext_in {A B} (f g : A -> B -> A) l s :
  (forall s i, In i l -> f s i = g s i) -> fold_left f l s = fold_left g l s.
Proof.
  revert s; induction l as [|x l IH]; intros s H; cbn [fold_left]; [reflexivity|].
  rewrite H by (left; reflexivity). apply IH. intros; apply H; right; assumption.
Qed.
Lemma fold_left_inv {A B} (P : A -> Prop) (f : A -> B -> A) l s :
  P s -> (forall s i, P s -> P (f s i)) -> P (fold_left f l s).
Proof. revert s; induction l; intros s H0 H; cbn [fold_left]; auto. Qed.

Lemma S_absorb_length rate P : length (S_absorb rate P) = 25%nat.
Proof.
  unfold S_absorb. apply (fold_left_inv (fun s => length s = 25%nat)); [reflexivity|].
  intros; apply S_keccak_f_length.
Qed.

Lemma S_block_app_lt rate (mb x : list Z) i k :
  length mb = (k * rate)%nat -> (i < k)%nat -> S_block rate (mb ++ x) i = S_block rate mb i.
Proof.
  intros Hm Hi. unfold S_block.
  assert (i * rate + rate <= k * rate)%nat by nia.
  rewrite skipn_app, firstn_app, skipn_length.
  replace (i * rate - length mb)%nat with 0%nat by lia.
  replace (rate - (length mb - i * rate))%nat with 0%nat by lia.
  change (skipn 0 x) with x. change (firstn 0 x) with (@nil Z). apply app_nil_r.
Qed.

Lemma S_absorb_snoc rate mb blk k :
  (0 < rate)%nat -> length mb = (k * rate)%nat -> length blk = rate ->
  S_absorb rate (mb ++ blk) = S_keccak_f (S_xor_block (S_absorb rate mb) blk).
Proof.
  intros Hr Hm Hb. unfold S_absorb.
  rewrite app_length, Hm, Hb.
  replace ((k * rate + rate) / rate)%nat with (S k).
  2:{ replace (k * rate + rate)%nat with (S k * rate)%nat by lia. symmetry; apply Nat.div_mul; lia. }
  rewrite Nat.div_mul by lia. rewrite seq_S, fold_left_app. cbn [fold_left Nat.add].
  assert (E1 : S_block rate (mb ++ blk) k = blk).
  { unfold S_block. rewrite <- Hm. rewrite skipn_app, skipn_all, Nat.sub_diag.
    change (skipn 0 blk) with blk. cbn [app]. rewrite <- Hb. apply firstn_all. }
  rewrite E1.
  rewrite (fold_left_ext_in (fun St i => S_keccak_f (S_xor_block St (S_block rate (mb ++ blk) i)))
                            (fun St i => S_keccak_f (S_xor_block St (S_block rate mb i)))).
  - reflexivity.
  - intros s i Hi. apply in_seq in Hi.
    rewrite (S_block_app_lt rate mb blk i k) by (auto; lia). reflexivity.
Qed.

Definition full (rate : nat) (m : list Z) : nat := (length m / rate * rate)%nat.
(** the lanes after absorbing the byte string m: the complete blocks have gone through the permutation,
    the remaining (length m mod rate) bytes are XORed into the state at byte positions 0.. *)
Definition abs_state (rate : nat) (m : list Z) : list Z :=
  S_xor_block (S_absorb rate (firstn (full rate m) m)) (skipn (full rate m) m).
Definition abs_inv (rate : nat) (st : kstate) (m : list Z) : Prop :=
  Forall is_byte m /\ ks st = abs_state rate m /\ kpos st = Z.of_nat (length m mod rate).

Lemma full_dec rate (mb t : list Z) k : (0 < rate)%nat -> length mb = (k * rate)%nat -> (length t < rate)%nat ->
  full rate (mb ++ t) = length mb /\ (length (mb ++ t) mod rate = length t)%nat.
Proof.
  intros Hr Hm Ht. unfold full. rewrite app_length, Hm. split.
  - rewrite Nat.div_add_l by lia. rewrite (Nat.div_small (length t)) by lia. lia.
  - rewrite Nat.add_comm, Nat.mod_add by lia. apply Nat.mod_small; lia.
Qed.

Lemma abs_state_dec rate (mb t : list Z) k : (0 < rate)%nat -> length mb = (k * rate)%nat -> (length t < rate)%nat ->
  abs_state rate (mb ++ t) = S_xor_block (S_absorb rate mb) t.
Proof.
  intros Hr Hm Ht. unfold abs_state. destruct (full_dec rate mb t k Hr Hm Ht) as [-> _].
  rewrite firstn_app, skipn_app, Nat.sub_diag, firstn_all, skipn_all.
  change (firstn 0 t) with (@nil Z). change (skipn 0 t) with t. rewrite app_nil_r. reflexivity.
Qed.

Lemma dec_exists rate (m : list Z) : (0 < rate)%nat ->
  exists mb t k, m = mb ++ t /\ length mb = (k * rate)%nat /\ (length t < rate)%nat.
Proof.
  intros Hr. exists (firstn (full rate m) m), (skipn (full rate m) m), (length m / rate)%nat.
  assert (Hf : (full rate m <= length m)%nat).
  { unfold full. rewrite Nat.mul_comm. apply Nat.mul_div_le. lia. }
  split; [symmetry; apply firstn_skipn|]. split.
  - rewrite firstn_length. unfold full in *. lia.
  - rewrite skipn_length. unfold full.
    pose proof (Nat.div_mod (length m) rate ltac:(lia)) as Hd.
    pose proof (Nat.mod_upper_bound (length m) rate ltac:(lia)). lia.
Qed.

Lemma andb_leb a b c d : a <= b -> c <= d -> (a <=? b) && (c <=? d) = true.
Proof. intros. apply andb_true_intro; split; apply Z.leb_le; assumption. Qed.

Lemma usize_sub_ok a b : 0 <= b <= a -> a < 2 ^ 64 -> usize_sub a b = Ok (a - b).
Proof. intros. unfold usize_sub. apply chk_u_ok. lia. Qed.

Lemma absorb_loop_ok rate (Hr : rate_ok rate) : forall fuel inp mb t k,
  (length inp < fuel)%nat -> Forall is_byte inp -> Forall is_byte t ->
  length mb = (k * rate)%nat -> (length t < rate)%nat ->
  exists mb' t' k',
    absorb_loop fuel (Z.of_nat rate) (S_xor_block (S_absorb rate mb) t) (zlen t) inp
      = Ok (S_xor_block (S_absorb rate mb') t', zlen t')
    /\ mb ++ t ++ inp = mb' ++ t' /\ length mb' = (k' * rate)%nat /\ (length t' < rate)%nat.
Proof.
  destruct Hr as [Hr1 Hr8].
  induction fuel as [|fuel IH]; intros inp mb t k Hf Hinp Ht Hm Hlt; [lia|].
  cbn [absorb_loop]. unfold zlen.
  destruct (Z.leb_spec (Z.of_nat rate) (Z.of_nat (length t) + Z.of_nat (length inp))) as [Hge|Hsm].
  - rewrite usize_sub_ok by (change (2 ^ 64) with 18446744073709551616; lia). cbn [bind].
    replace (Z.of_nat rate - Z.of_nat (length t)) with (Z.of_nat (rate - length t)) by lia.
    rewrite Nat2Z.id. set (n := (rate - length t)%nat).
    assert (Hfl : length (firstn n inp) = n) by (apply firstn_length_le; lia).
    rewrite xor_bytes_ok
      by (try exact Ht; try (apply Forall_firstn', Hinp); rewrite S_absorb_length, Hfl; lia).
    cbn [bind]. rewrite keccakf_ok by (rewrite S_xor_block_length; apply S_absorb_length). cbn [bind].
    rewrite <- (S_absorb_snoc rate mb (t ++ firstn n inp) k)
      by (try exact Hm; try lia; rewrite app_length, Hfl; lia).
    rewrite <- (S_xor_block_nil (S_absorb rate (mb ++ t ++ firstn n inp))).
    change 0 with (Z.of_nat (length (@nil Z))).
    destruct (IH (skipn n inp) (mb ++ t ++ firstn n inp) [] (S k)) as (mb' & t' & k' & E & Hd & Hm' & Ht').
    + rewrite skipn_length. lia.
    + apply Forall_skipn', Hinp.
    + constructor.
    + rewrite !app_length, Hm, Hfl. lia.
    + cbn [length]. lia.
    + exists mb', t', k'. split; [exact E|]. split; [|auto].
      rewrite <- Hd. cbn [app]. rewrite <- !app_assoc. rewrite (firstn_skipn n inp). reflexivity.
  - rewrite xor_bytes_ok by (try exact Ht; try exact Hinp; rewrite S_absorb_length; lia). cbn [bind].
    exists mb, (t ++ inp), k. split.
    + unfold zlen. rewrite app_length. do 2 f_equal. lia.
    + split; [reflexivity|]. split; [exact Hm|]. rewrite app_length. lia.
Qed.

Theorem init_inv rate : (0 < rate)%nat -> abs_inv rate kinit [].
Proof.
  intros Hr. split; [constructor|]. split.
  - change (@nil Z) with (@nil Z ++ @nil Z). rewrite (abs_state_dec rate [] [] 0) by (cbn [length]; lia).
    rewrite S_xor_block_nil. unfold S_absorb. cbn [length]. rewrite Nat.div_0_l by lia. reflexivity.
  - cbn [length kinit kpos]. rewrite Nat.mod_0_l by lia. reflexivity.
Qed.

Theorem absorb_inv_gen rate st m inp inlen :
  rate_ok rate -> abs_inv rate st m ->
  0 <= inlen <= zlen inp -> Forall is_byte (firstn (Z.to_nat inlen) inp) ->
  exists st', keccak_absorb st (Z.of_nat rate) inp inlen = Ok st'
              /\ abs_inv rate st' (m ++ firstn (Z.to_nat inlen) inp).
Proof.
  intros Hr (Hm & Hks & Hpos) Hlen Hinp.
  assert (Hr0 : (0 < rate)%nat) by (destruct Hr; lia).
  unfold keccak_absorb, slice_to.
  replace ((0 <=? inlen) && (inlen <=? zlen inp)) with true by (symmetry; apply andb_true_intro; split; lia).
  cbn [bind]. set (inp' := firstn (Z.to_nat inlen) inp) in *.
  destruct (dec_exists rate m Hr0) as (mb & t & k & -> & Hmb & Ht).
  rewrite (abs_state_dec rate mb t k) in Hks by assumption.
  destruct (full_dec rate mb t k Hr0 Hmb Ht) as [_ Hmod]. rewrite Hmod in Hpos.
  apply Forall_app in Hm as [Hm1 Hm2].
  destruct (absorb_loop_ok rate Hr (S (S (length inp'))) inp' mb t k) as (mb' & t' & k' & E & Hd & Hmb' & Ht');
    try assumption; try lia.
  rewrite Hks, Hpos. fold (zlen t). rewrite E. cbn [bind].
  eexists; split; [reflexivity|].
  rewrite <- app_assoc, Hd.
  assert (Hall : Forall is_byte (mb' ++ t')).
  { rewrite <- Hd. apply Forall_app; split; [exact Hm1|]. apply Forall_app; split; assumption. }
  split; [exact Hall|]. cbn [ks kpos]. split.
  - symmetry. apply (abs_state_dec rate mb' t' k'); assumption.
  - destruct (full_dec rate mb' t' k' Hr0 Hmb' Ht') as [_ ->]. reflexivity.
Qed.

Corollary absorb_inv rate st m inp :
  rate_ok rate -> abs_inv rate st m -> Forall is_byte inp ->
  exists st', keccak_absorb st (Z.of_nat rate) inp (zlen inp) = Ok st' /\ abs_inv rate st' (m ++ inp).
Proof.
  intros Hr Hi Hb.
  assert (E : firstn (Z.to_nat (zlen inp)) inp = inp) by (unfold zlen; rewrite Nat2Z.id; apply firstn_all).
  destruct (absorb_inv_gen rate st m inp (zlen inp) Hr Hi) as (st' & H1 & H2).
  - unfold zlen; lia.
  - rewrite E; exact Hb.
  - rewrite E in H2. eauto.
Qed.

(** ** finalize *)
Definition pad_of (rate lt : nat) : list Z :=
  let q := (rate - lt)%nat in if (q =? 1)%nat then [159] else [31] ++ repeat 0 (q - 2) ++ [128].
Definition S_padding (rate : nat) (M : list Z) : list Z := pad_of rate (length M mod rate).
Lemma S_pad_eq rate M : S_pad rate M = M ++ S_padding rate M.
Proof. reflexivity. Qed.

Lemma pad_of_length rate lt : (lt < rate)%nat -> length (pad_of rate lt) = (rate - lt)%nat.
Proof.
  intros H. unfold pad_of. destruct (Nat.eqb_spec (rate - lt) 1) as [E|E].
  - cbn [length]. lia.
  - rewrite !app_length, repeat_length. cbn [length]. lia.
Qed.

(** the lanes just before the permutation that ends the absorbing phase of SHAKE(m) *)
Definition fin_state (rate : nat) (m : list Z) : list Z :=
  S_xor_block (S_absorb rate (firstn (full rate m) m)) (skipn (full rate m) m ++ S_padding rate m).

Lemma fin_state_dec rate (mb t : list Z) k : (0 < rate)%nat -> length mb = (k * rate)%nat -> (length t < rate)%nat ->
  fin_state rate (mb ++ t) = S_xor_block (S_absorb rate mb) (t ++ pad_of rate (length t)).
Proof.
  intros Hr Hm Ht. unfold fin_state, S_padding. destruct (full_dec rate mb t k Hr Hm Ht) as [-> ->].
  rewrite firstn_app, skipn_app, Nat.sub_diag, firstn_all, skipn_all.
  change (firstn 0 t) with (@nil Z). change (skipn 0 t) with t. rewrite app_nil_r. reflexivity.
Qed.

Lemma absorb_pad rate m : (0 < rate)%nat -> S_absorb rate (S_pad rate m) = S_keccak_f (fin_state rate m).
Proof.
  intros Hr. destruct (dec_exists rate m Hr) as (mb & t & k & -> & Hmb & Ht).
  rewrite (fin_state_dec rate mb t k) by assumption.
  rewrite S_pad_eq. unfold S_padding. destruct (full_dec rate mb t k Hr Hmb Ht) as [_ ->].
  rewrite <- app_assoc. apply (S_absorb_snoc rate mb _ k); try assumption.
  rewrite app_length, pad_of_length by lia. lia.
Qed.

Lemma S_xor_block_zeros A u n : Forall is_byte u -> (length u + n <= 8 * length A)%nat ->
  S_xor_block A (u ++ repeat 0 n) = S_xor_block A u.
Proof.
  revert u; induction n as [|n IH]; intros u Hu Hl; cbn [repeat]; [rewrite app_nil_r; reflexivity|].
  replace (u ++ 0 :: repeat 0 n) with ((u ++ [0]) ++ repeat 0 n) by (rewrite <- app_assoc; reflexivity).
  rewrite IH.
  - rewrite S_xor_block_snoc by (try exact Hu; lia).
    rewrite Z.mul_0_l, Z.lxor_0_r. apply upd_same.
  - apply Forall_app; split; [exact Hu|]. constructor; [unfold is_byte; lia | constructor].
  - rewrite app_length; cbn [length]; lia.
Qed.

Lemma finalize_core A t rate : rate_ok rate -> length A = 25%nat -> Forall is_byte t -> (length t < rate)%nat ->
  let s1 := S_xor_block A (t ++ [31]) in
  let i := (rate / 8 - 1)%nat in
  upd s1 i (Z.lxor (nth i s1 0) 9223372036854775808) = S_xor_block A (t ++ pad_of rate (length t)).
Proof.
  intros [Hr1 Hr8] HA Ht Hlt s1 i. unfold pad_of.
  destruct (Nat.eqb_spec (rate - length t) 1) as [E|E].
  - subst s1. rewrite !S_xor_block_snoc by (try exact Ht; lia).
    replace (length t / 8)%nat with i by (subst i; lia).
    replace (length t mod 8)%nat with 7%nat by lia.
    rewrite nth_upd_same by (rewrite S_xor_block_length; subst i; lia).
    rewrite upd_upd. f_equal. rewrite Z.lxor_assoc. f_equal.
  - set (u := (t ++ [31]) ++ repeat 0 (rate - length t - 2)).
    assert (Hu : Forall is_byte u).
    { unfold u. apply Forall_app; split.
      - apply Forall_app; split; [exact Ht|]. constructor; [unfold is_byte; lia|constructor].
      - apply Forall_forall. intros x Hx. apply repeat_spec in Hx. subst x. unfold is_byte; lia. }
    assert (Hlu : length u = (rate - 1)%nat).
    { unfold u. rewrite !app_length, repeat_length. cbn [length]. lia. }
    replace (t ++ [31] ++ repeat 0 (rate - length t - 2) ++ [128]) with (u ++ [128])
      by (unfold u; rewrite <- !app_assoc; reflexivity).
    rewrite S_xor_block_snoc by (try exact Hu; lia).
    rewrite Hlu.
    replace ((rate - 1) / 8)%nat with i by (subst i; lia).
    replace ((rate - 1) mod 8)%nat with 7%nat by lia.
    assert (Es : S_xor_block A u = s1).
    { unfold u, s1. apply S_xor_block_zeros.
      - apply Forall_app; split; [exact Ht|]. constructor; [unfold is_byte; lia|constructor].
      - rewrite app_length. cbn [length]. lia. }
    rewrite Es. reflexivity.
Qed.

Theorem finalize_state rate st m : rate_ok rate -> abs_inv rate st m ->
  keccak_finalize st (Z.of_nat rate) = Ok {| ks := fin_state rate m; kpos := Z.of_nat rate |}.
Proof.
  intros Hr (Hm & Hks & Hpos).
  assert (Hr0 : (0 < rate)%nat) by (destruct Hr; lia).
  destruct (dec_exists rate m Hr0) as (mb & t & k & -> & Hmb & Ht).
  rewrite (abs_state_dec rate mb t k) in Hks by assumption.
  destruct (full_dec rate mb t k Hr0 Hmb Ht) as [_ Hmod]. rewrite Hmod in Hpos.
  apply Forall_app in Hm as [Hm1 Hm2].
  rewrite (fin_state_dec rate mb t k) by assumption.
  unfold keccak_finalize. rewrite Hks, Hpos. fold (zlen t).
  destruct Hr as [Hr1 Hr8].
  rewrite xor_bytes_ok
    by (try exact Hm2; try (constructor; [unfold is_byte; lia|constructor]); rewrite S_absorb_length; cbn [length]; lia).
  cbn [bind]. rewrite usize_sub_ok by (change (2 ^ 64) with 18446744073709551616; lia). cbn [bind].
  replace (Z.of_nat rate / 8 - 1) with (Z.of_nat (rate / 8 - 1)) by lia.
  rewrite (get_ok _ _ 0) by (rewrite S_xor_block_length, S_absorb_length; lia). cbn [bind].
  rewrite set_ok by (rewrite S_xor_block_length, S_absorb_length; lia). cbn [bind].
  rewrite finalize_core by (first [assumption | split; assumption | apply S_absorb_length]).
  reflexivity.
Qed.

(** ** reading bytes from the state *)
Lemma S_state_bytes_length s : length (S_state_bytes s) = (8 * length s)%nat.
Proof.
  induction s as [|a s IH]; [reflexivity|].
  change (S_state_bytes (a :: s)) with (lane_bytes a ++ S_state_bytes s).
  rewrite app_length, IH. cbn [length]. change (length (lane_bytes a)) with 8%nat. lia.
Qed.

Lemma nth_state_bytes s i : (i < 8 * length s)%nat ->
  nth i (S_state_bytes s) 0 = (nth (i / 8) s 0 / 2 ^ (8 * Z.of_nat (i mod 8))) mod 256.
Proof.
  revert i; induction s as [|a s IH]; intros i Hi; cbn [length] in Hi; [lia|].
  change (S_state_bytes (a :: s)) with (lane_bytes a ++ S_state_bytes s).
  destruct (Nat.lt_ge_cases i 8) as [Hs|Hg].
  - rewrite app_nth1 by (change (length (lane_bytes a)) with 8%nat; lia).
    replace (i / 8)%nat with 0%nat by lia. cbn [nth].
    do 8 (destruct i as [|i]; [reflexivity|]). lia.
  - rewrite app_nth2 by (change (length (lane_bytes a)) with 8%nat; lia).
    change (length (lane_bytes a)) with 8%nat.
    rewrite IH by lia.
    replace (i / 8)%nat with (S ((i - 8) / 8)) by lia. cbn [nth].
    replace ((i - 8) mod 8)%nat with (i mod 8)%nat by lia. reflexivity.
Qed.

Lemma state_byte_ok s i : (i < 8 * length s)%nat -> state_byte s (Z.of_nat i) = Ok (nth i (S_state_bytes s) 0).
Proof.
  intros Hi. unfold state_byte.
  replace (Z.of_nat i / 8) with (Z.of_nat (i / 8)) by lia.
  replace (Z.of_nat i mod 8) with (Z.of_nat (i mod 8)) by lia.
  rewrite (get_ok _ _ 0) by lia. cbn [bind]. f_equal.
  rewrite nth_state_bytes by exact Hi.
  rewrite Z.shiftr_div_pow2 by lia. change 255 with (Z.ones 8). rewrite Z.land_ones by lia. reflexivity.
Qed.

Lemma state_bytes_ok s n : forall pos, (pos + n <= 8 * length s)%nat ->
  state_bytes s (Z.of_nat pos) n = Ok (map (fun i => nth i (S_state_bytes s) 0) (seq pos n)).
Proof.
  induction n as [|n IH]; intros pos H; cbn [state_bytes seq map]; [reflexivity|].
  rewrite state_byte_ok by lia. cbn [bind].
  replace (Z.of_nat pos + 1) with (Z.of_nat (S pos)) by lia.
  rewrite IH by lia. reflexivity.
Qed.

(** ** the output stream of the specification, byte by byte *)
Definition sbyte (rate : nat) (T : list Z) (i : nat) : Z :=
  nth (i mod rate) (S_state_bytes (Nat.iter (i / rate) S_keccak_f T)) 0.

Lemma iter_succ_r {A} (f : A -> A) n x : Nat.iter (S n) f x = Nat.iter n f (f x).
Proof. induction n as [|n IH]; [reflexivity|]. cbn [Nat.iter nat_rect] in *. rewrite IH. reflexivity. Qed.

Lemma map_seq_shift {B} (f : nat -> B) c n : forall a,
  map f (seq (a + c) n) = map (fun i => f (i + c)%nat) (seq a n).
Proof.
  induction n as [|n IH]; intros a; cbn [seq map]; [reflexivity|].
  f_equal. apply (IH (S a)).
Qed.

Lemma map_seq_from0 {B} (f : nat -> B) a n : map f (seq a n) = map (fun i => f (i + a)%nat) (seq 0 n).
Proof. exact (map_seq_shift f a n 0%nat). Qed.

Lemma firstn_nth_map {A} (l : list A) d : forall n, (n <= length l)%nat ->
  firstn n l = map (fun i => nth i l d) (seq 0 n).
Proof.
  induction l as [|x l IH]; intros n Hn; cbn [length] in Hn.
  - replace n with 0%nat by lia. reflexivity.
  - destruct n as [|n]; [reflexivity|]. cbn [firstn seq map nth]. f_equal.
    rewrite (IH n) by lia. change 1%nat with (0 + 1)%nat. rewrite map_seq_shift.
    apply map_ext. intros i. replace (i + 1)%nat with (S i) by lia. reflexivity.
Qed.

Lemma firstn_seq0 d N : (d <= N)%nat -> firstn d (seq 0 N) = seq 0 d.
Proof.
  intros H. replace N with (d + (N - d))%nat by lia. rewrite seq_app, firstn_app, seq_length.
  rewrite Nat.sub_diag. change (firstn 0 (seq (0 + d) (N - d))) with (@nil nat). rewrite app_nil_r.
  rewrite <- (seq_length d 0) at 1. apply firstn_all.
Qed.

Lemma S_squeeze_blocks_map rate k : (0 < rate <= 200)%nat -> forall T, length T = 25%nat ->
  S_squeeze_blocks k rate T = map (sbyte rate T) (seq 0 (k * rate)).
Proof.
  intros Hr. induction k as [|k IH]; intros T HT; [reflexivity|].
  cbn [S_squeeze_blocks]. replace (S k * rate)%nat with (rate + k * rate)%nat by lia.
  rewrite seq_app, map_app. f_equal.
  - rewrite (firstn_nth_map _ 0) by (rewrite S_state_bytes_length; lia).
    apply map_ext_in. intros i Hi. apply in_seq in Hi. unfold sbyte.
    rewrite Nat.mod_small, Nat.div_small by lia. reflexivity.
  - rewrite IH by apply S_keccak_f_length. rewrite map_seq_shift.
    apply map_ext. intros i. unfold sbyte.
    replace (i + rate)%nat with (i + 1 * rate)%nat by lia.
    rewrite Nat.div_add, Nat.mod_add by lia. rewrite Nat.add_1_r, iter_succ_r. reflexivity.
Qed.

Lemma S_squeeze_map rate T d : (0 < rate <= 200)%nat -> length T = 25%nat ->
  S_squeeze rate T d = map (sbyte rate T) (seq 0 d).
Proof.
  intros Hr HT. unfold S_squeeze. rewrite S_squeeze_blocks_map by assumption.
  rewrite firstn_map, firstn_seq0; [reflexivity|].
  pose proof (Nat.div_mod d rate ltac:(lia)). pose proof (Nat.mod_upper_bound d rate ltac:(lia)). nia.
Qed.

(** the state after the absorbing phase and k further permutations *)
Definition sq_state (rate : nat) (m : list Z) (k : nat) : list Z := Nat.iter k S_keccak_f (fin_state rate m).
(** the i-th byte of SHAKE(m) *)
Definition shake_byte (rate : nat) (m : list Z) (i : nat) : Z := sbyte rate (S_keccak_f (fin_state rate m)) i.

Lemma sq_state_length rate m k : length (sq_state rate m k) = 25%nat.
Proof.
  destruct k; [|apply S_keccak_f_length].
  unfold sq_state, fin_state. cbn [Nat.iter nat_rect]. rewrite S_xor_block_length. apply S_absorb_length.
Qed.

Lemma S_shake_map rate m d : (0 < rate <= 200)%nat -> S_shake rate m d = map (shake_byte rate m) (seq 0 d).
Proof.
  intros Hr. unfold S_shake. rewrite absorb_pad by lia.
  apply S_squeeze_map; [exact Hr | apply S_keccak_f_length].
Qed.

Lemma S_shake_segment rate m j n : (0 < rate <= 200)%nat ->
  firstn n (skipn j (S_shake rate m (j + n))) = map (shake_byte rate m) (seq j n).
Proof.
  intros Hr. rewrite S_shake_map by exact Hr. rewrite seq_app, map_app, skipn_app.
  rewrite map_length, seq_length, Nat.sub_diag.
  rewrite (skipn_all2 (map (shake_byte rate m) (seq 0 j))) by (rewrite map_length, seq_length; lia).
  change (skipn 0 (map (shake_byte rate m) (seq (0 + j) n))) with (map (shake_byte rate m) (seq j n)).
  cbn [app]. apply firstn_all2. rewrite map_length, seq_length. lia.
Qed.

Lemma shake_byte_at rate m k p : (0 < rate)%nat -> (p < rate)%nat ->
  shake_byte rate m (k * rate + p) = nth p (S_state_bytes (sq_state rate m (S k))) 0.
Proof.
  intros Hr Hp. unfold shake_byte, sbyte, sq_state.
  rewrite Nat.add_comm, Nat.div_add, Nat.mod_add by lia.
  rewrite Nat.div_small, Nat.mod_small by lia. cbn [Nat.add]. rewrite iter_succ_r. reflexivity.
Qed.

(** ** the squeezing phase *)
Definition sq_inv (rate : nat) (st : kstate) (m : list Z) (j : nat) : Prop :=
  exists k p, ks st = sq_state rate m k /\ kpos st = Z.of_nat p
              /\ (0 < p <= rate)%nat /\ (j + rate = k * rate + p)%nat.

Lemma squeeze_step rate m k1 p1 j c : rate_ok rate -> (p1 + c <= rate)%nat ->
  (j + rate = k1 * rate + p1)%nat -> (p1 < rate)%nat ->
  state_bytes (sq_state rate m k1) (Z.of_nat p1) c = Ok (map (shake_byte rate m) (seq j c)).
Proof.
  intros [Hr1 Hr8] Hc Hj Hp.
  rewrite state_bytes_ok by (rewrite sq_state_length; lia). f_equal.
  rewrite (map_seq_from0 _ p1), (map_seq_from0 _ j).
  apply map_ext_in. intros i Hi. apply in_seq in Hi.
  destruct k1 as [|k1]; [lia|].
  replace (i + j)%nat with (k1 * rate + (i + p1))%nat by lia.
  rewrite shake_byte_at by lia. reflexivity.
Qed.

Lemma squeeze_loop_ok rate m (Hr : rate_ok rate) : forall fuel n k p j acc,
  (n < fuel)%nat -> Z.of_nat n < 2 ^ 64 -> (0 < p <= rate)%nat -> (j + rate = k * rate + p)%nat ->
  exists k' p',
    squeeze_loop fuel (Z.of_nat rate) (sq_state rate m k) (Z.of_nat p) (Z.of_nat n) acc
      = Ok (acc ++ map (shake_byte rate m) (seq j n), sq_state rate m k', Z.of_nat p')
    /\ (0 < p' <= rate)%nat /\ (j + n + rate = k' * rate + p')%nat.
Proof.
  pose proof Hr as [Hr1 Hr8].
  induction fuel as [|fuel IH]; intros n k p j acc Hf Hn Hp Hj; [lia|].
  cbn [squeeze_loop].
  destruct (Z.eqb_spec (Z.of_nat n) 0) as [E0|E0].
  { exists k, p. replace n with 0%nat by lia. cbn [seq map]. rewrite app_nil_r, Nat.add_0_r. auto. }
  assert (Hstep : forall k1 p1, (p1 < rate)%nat -> (j + rate = k1 * rate + p1)%nat ->
    exists k' p',
      (let n0 := Z.min (Z.of_nat rate - Z.of_nat p1) (Z.of_nat n) in
       do bs <- state_bytes (sq_state rate m k1) (Z.of_nat p1) (Z.to_nat n0);
       do rest <- usize_sub (Z.of_nat n) n0;
       squeeze_loop fuel (Z.of_nat rate) (sq_state rate m k1) (Z.of_nat p1 + n0) rest (acc ++ bs))
      = Ok (acc ++ map (shake_byte rate m) (seq j n), sq_state rate m k', Z.of_nat p')
      /\ (0 < p' <= rate)%nat /\ (j + n + rate = k' * rate + p')%nat).
  { intros k1 p1 Hp1 Hj1. cbv zeta.
    set (c := Nat.min (rate - p1) n).
    replace (Z.min (Z.of_nat rate - Z.of_nat p1) (Z.of_nat n)) with (Z.of_nat c) by (subst c; lia).
    rewrite Nat2Z.id.
    rewrite (squeeze_step rate m k1 p1 j c Hr) by (subst c; lia). cbn [bind].
    rewrite usize_sub_ok by lia. cbn [bind].
    replace (Z.of_nat p1 + Z.of_nat c) with (Z.of_nat (p1 + c)) by lia.
    replace (Z.of_nat n - Z.of_nat c) with (Z.of_nat (n - c)) by lia.
    destruct (IH (n - c)%nat k1 (p1 + c)%nat (j + c)%nat (acc ++ map (shake_byte rate m) (seq j c)))
      as (k' & p' & E & Hp' & Hj'); try (subst c; lia).
    exists k', p'. split; [|split; [exact Hp' | subst c; lia]].
    rewrite E. do 2 f_equal.
    replace n with (c + (n - c))%nat at 2 by (subst c; lia).
    rewrite seq_app, map_app, app_assoc. reflexivity. }
  destruct (Z.eqb_spec (Z.of_nat p) (Z.of_nat rate)) as [Ep|Ep].
  - rewrite keccakf_ok by apply sq_state_length. cbn [bind].
    change (S_keccak_f (sq_state rate m k)) with (sq_state rate m (S k)).
    change 0 with (Z.of_nat 0).
    apply Hstep; lia.
  - cbn [bind]. apply Hstep; lia.
Qed.

Theorem squeeze_inv_gen rate st m j out n :
  rate_ok rate -> sq_inv rate st m j -> 0 <= n < 2 ^ 64 -> n <= zlen out ->
  exists st', keccak_squeeze out n st (Z.of_nat rate)
              = Ok (firstn (Z.to_nat n) (skipn j (S_shake rate m (j + Z.to_nat n))) ++ skipn (Z.to_nat n) out, st')
              /\ sq_inv rate st' m (j + Z.to_nat n).
Proof.
  intros Hr (k & p & Hks & Hpos & Hp & Hj) Hn Hout.
  pose proof Hr as [Hr1 Hr8].
  remember (Z.to_nat n) as nn eqn:Enn. assert (En : n = Z.of_nat nn) by lia. clear Enn. subst n.
  unfold keccak_squeeze. destruct (Z.ltb_spec (Z.of_nat nn) 0) as [?|_]; [lia|].
  rewrite Hks, Hpos.
  destruct (squeeze_loop_ok rate m Hr (S (Z.to_nat (Z.of_nat nn))) nn k p j [])
    as (k' & p' & E & Hp' & Hj'); try lia.
  rewrite E. cbn [bind app].
  rewrite S_shake_segment by lia.
  unfold splice. set (bs := map (shake_byte rate m) (seq j nn)).
  assert (Hbs : zlen bs = Z.of_nat nn) by (unfold zlen, bs; rewrite map_length, seq_length; lia).
  rewrite Hbs.
  replace ((0 <=? 0) && (0 + Z.of_nat nn <=? zlen out)) with true by (symmetry; apply andb_true_intro; split; lia).
  cbn [bind]. change (firstn (Z.to_nat 0) out) with (@nil Z). cbn [app]. rewrite Z.add_0_l, Nat2Z.id.
  eexists; split; [reflexivity|].
  exists k', p'. cbn [ks kpos]. auto.
Qed.

Theorem squeeze_inv rate st m j n :
  rate_ok rate -> sq_inv rate st m j -> 0 <= n < 2 ^ 64 ->
  exists st', keccak_squeeze (repeatZ 0 n) n st (Z.of_nat rate)
              = Ok (firstn (Z.to_nat n) (skipn j (S_shake rate m (j + Z.to_nat n))), st')
              /\ sq_inv rate st' m (j + Z.to_nat n).
Proof.
  intros Hr Hi Hn.
  destruct (squeeze_inv_gen rate st m j (repeatZ 0 n) n Hr Hi Hn) as (st' & E & Hi').
  - unfold zlen, repeatZ. rewrite repeat_length. lia.
  - exists st'. split; [|exact Hi'].
    rewrite E. rewrite (skipn_all2 (repeatZ 0 n)) by (unfold repeatZ; rewrite repeat_length; lia).
    rewrite app_nil_r. reflexivity.
Qed.

Theorem finalize_inv rate st m : rate_ok rate -> abs_inv rate st m ->
  exists st', keccak_finalize st (Z.of_nat rate) = Ok st' /\ sq_inv rate st' m 0.
Proof.
  intros Hr Hi. rewrite (finalize_state rate st m Hr Hi). eexists; split; [reflexivity|].
  exists 0%nat, rate. cbn [ks kpos]. destruct Hr. repeat split; try lia.
Qed.

(** ** squeezeblocks *)
Lemma squeezeblocks_loop_ok rate m (Hr : rate_ok rate) : forall nb k acc,
  squeezeblocks_loop nb (Z.of_nat rate) (sq_state rate m k) acc
  = Ok (acc ++ map (shake_byte rate m) (seq (k * rate) (nb * rate)), sq_state rate m (k + nb)).
Proof.
  pose proof Hr as [Hr1 Hr8].
  induction nb as [|nb IH]; intros k acc; cbn [squeezeblocks_loop].
  - cbn [Nat.mul seq map]. rewrite app_nil_r, Nat.add_0_r. reflexivity.
  - rewrite keccakf_ok by apply sq_state_length. cbn [bind].
    change (S_keccak_f (sq_state rate m k)) with (sq_state rate m (S k)).
    replace (8 * (Z.of_nat rate / 8)) with (Z.of_nat rate) by lia. rewrite Nat2Z.id.
    change 0 with (Z.of_nat 0).
    rewrite (squeeze_step rate m (S k) 0 (k * rate) rate Hr) by lia. cbn [bind].
    rewrite IH. do 2 f_equal; [|f_equal; lia].
    replace (S nb * rate)%nat with (rate + nb * rate)%nat by lia.
    rewrite seq_app, map_app, app_assoc.
    replace (S k * rate)%nat with (k * rate + rate)%nat by lia. reflexivity.
Qed.

(** What keccak_squeezeblocks does in general: it ignores [pos].  It first permutes, so it outputs the
    [nb] blocks that start at [j] ROUNDED UP to a multiple of the rate, and it leaves [pos] as it was. *)
Theorem squeezeblocks_any rate st m j out nb :
  rate_ok rate -> sq_inv rate st m j -> 0 <= nb -> nb * Z.of_nat rate <= zlen out ->
  let j' := ((j + rate - 1) / rate * rate)%nat in
  let len := (Z.to_nat nb * rate)%nat in
  exists st', keccak_squeezeblocks out nb st (Z.of_nat rate)
              = Ok (firstn len (skipn j' (S_shake rate m (j' + len))) ++ skipn len out, st')
              /\ sq_inv rate st' m (j + len) /\ kpos st' = kpos st.
Proof.
  intros Hr (k & p & Hks & Hpos & Hp & Hj) Hnb Hout j' len.
  pose proof Hr as [Hr1 Hr8].
  assert (Ej : j' = (k * rate)%nat).
  { subst j'. f_equal. symmetry. apply Nat.div_unique with (p - 1)%nat; lia. }
  unfold keccak_squeezeblocks. destruct (Z.ltb_spec nb 0) as [?|_]; [lia|].
  rewrite Hks, squeezeblocks_loop_ok by exact Hr. cbn [bind app].
  rewrite S_shake_segment by lia. rewrite Ej. fold len.
  unfold splice. set (bs := map (shake_byte rate m) (seq (k * rate) len)).
  assert (Hbs : zlen bs = Z.of_nat len) by (unfold zlen, bs; rewrite map_length, seq_length; lia).
  rewrite Hbs.
  assert (Hlen : Z.of_nat len = nb * Z.of_nat rate) by (unfold len; rewrite Nat2Z.inj_mul, Z2Nat.id; lia).
  assert (Hc : (0 <=? 0) && (0 + Z.of_nat len <=? zlen out) = true).
  { apply andb_true_intro; split; [reflexivity|]. apply Z.leb_le. lia. }
  rewrite Hc.
  cbn [bind]. change (firstn (Z.to_nat 0) out) with (@nil Z). cbn [app]. rewrite Z.add_0_l, Nat2Z.id.
  eexists; split; [reflexivity|]. cbn [ks kpos]. split; [|reflexivity].
  exists (k + Z.to_nat nb)%nat, p. cbn [ks kpos]. repeat split; try assumption; try lia.
Qed.

(** Under the documented precondition (the number of bytes already output is a multiple of the rate,
    i.e. pos = rate) this is the next [nb] blocks of the stream. *)
Theorem squeezeblocks_inv rate st m j out nb :
  rate_ok rate -> sq_inv rate st m j -> (j mod rate = 0)%nat -> 0 <= nb -> nb * Z.of_nat rate <= zlen out ->
  let len := (Z.to_nat nb * rate)%nat in
  exists st', keccak_squeezeblocks out nb st (Z.of_nat rate)
              = Ok (firstn len (skipn j (S_shake rate m (j + len))) ++ skipn len out, st')
              /\ sq_inv rate st' m (j + len).
Proof.
  intros Hr Hi Hmod Hnb Hout len.
  destruct (squeezeblocks_any rate st m j out nb Hr Hi Hnb Hout) as (st' & E & Hi' & _).
  exists st'. split; [|exact Hi']. rewrite E. fold len.
  destruct Hr as [Hr1 Hr8].
  replace ((j + rate - 1) / rate * rate)%nat with j; [reflexivity|].
  pose proof (Nat.div_mod j rate ltac:(lia)) as Hd. rewrite Hmod, Nat.add_0_r in Hd.
  rewrite Hd at 2. replace (rate * (j / rate) + rate - 1)%nat with ((j / rate) * rate + (rate - 1))%nat by lia.
  rewrite Nat.div_add_l by lia. rewrite (Nat.div_small (rate - 1)) by lia. lia.
Qed.

(** ** absorb_once *)
Lemma absorb_once_loop_ok rate (Hr : rate_ok rate) : forall fuel inp mb k,
  (length inp < fuel)%nat -> Forall is_byte inp -> length mb = (k * rate)%nat ->
  exists mb' t' k',
    absorb_once_loop fuel (Z.of_nat rate) (S_absorb rate mb) inp = Ok (S_absorb rate mb', t')
    /\ mb ++ inp = mb' ++ t' /\ length mb' = (k' * rate)%nat /\ (length t' < rate)%nat /\ Forall is_byte t'.
Proof.
  destruct Hr as [Hr1 Hr8].
  induction fuel as [|fuel IH]; intros inp mb k Hf Hinp Hm; [lia|].
  cbn [absorb_once_loop]. unfold zlen.
  destruct (Z.leb_spec (Z.of_nat rate) (Z.of_nat (length inp))) as [Hge|Hsm].
  - replace (8 * (Z.of_nat rate / 8)) with (Z.of_nat rate) by lia. rewrite Nat2Z.id.
    assert (Hfl : length (firstn rate inp) = rate) by (apply firstn_length_le; lia).
    rewrite xor_bytes_ok0 by (try (apply Forall_firstn', Hinp); rewrite S_absorb_length, Hfl; lia).
    cbn [bind]. rewrite keccakf_ok by (rewrite S_xor_block_length; apply S_absorb_length). cbn [bind].
    rewrite <- (S_absorb_snoc rate mb (firstn rate inp) k) by (try exact Hm; try exact Hfl; lia).
    destruct (IH (skipn rate inp) (mb ++ firstn rate inp) (S k)) as (mb' & t' & k' & E & Hd & Hm' & Ht' & Hb').
    + rewrite skipn_length. lia.
    + apply Forall_skipn', Hinp.
    + rewrite app_length, Hm, Hfl. lia.
    + exists mb', t', k'. split; [exact E|]. split; [|auto].
      rewrite <- Hd, <- app_assoc, (firstn_skipn rate inp). reflexivity.
  - exists mb, inp, k. repeat split; auto. lia.
Qed.

Theorem absorb_once_state rate inp : rate_ok rate -> Forall is_byte inp ->
  keccak_absorb_once (Z.of_nat rate) inp (zlen inp)
  = Ok {| ks := fin_state rate inp; kpos := Z.of_nat rate |}.
Proof.
  intros Hr Hinp. pose proof Hr as [Hr1 Hr8].
  unfold keccak_absorb_once, slice_to.
  rewrite andb_leb by (unfold zlen; lia).
  cbn [bind]. replace (Z.to_nat (zlen inp)) with (length inp) by (unfold zlen; lia). rewrite firstn_all.
  destruct (absorb_once_loop_ok rate Hr (S (length inp)) inp [] 0) as (mb & t & k & E & Hd & Hm & Ht & Hb);
    try assumption; try (cbn [length]; lia).
  assert (E0 : S_absorb rate [] = repeat 0 25).
  { unfold S_absorb. cbn [length]. rewrite Nat.div_0_l by lia. reflexivity. }
  rewrite <- E0, E. cbn [bind]. cbn [app] in Hd. subst inp.
  rewrite xor_bytes_ok0 by (try exact Hb; rewrite S_absorb_length; lia).
  cbn [bind].
  rewrite xor_bytes_ok
    by (try exact Hb; try (constructor; [unfold is_byte; lia|constructor]); rewrite S_absorb_length; cbn [length]; lia).
  cbn [bind].
  replace ((Z.of_nat rate - 1) / 8) with (Z.of_nat (rate / 8 - 1)) by lia.
  rewrite (get_ok _ _ 0) by (rewrite S_xor_block_length, S_absorb_length; lia). cbn [bind].
  rewrite set_ok by (rewrite S_xor_block_length, S_absorb_length; lia). cbn [bind].
  rewrite finalize_core by (first [assumption | apply S_absorb_length]).
  rewrite (fin_state_dec rate mb t k) by (assumption || lia). reflexivity.
Qed.

(** keccak_absorb_once = init; absorb; finalize *)
Theorem absorb_once_eq rate inp : rate_ok rate -> Forall is_byte inp ->
  keccak_absorb_once (Z.of_nat rate) inp (zlen inp)
  = (do st <- keccak_absorb kinit (Z.of_nat rate) inp (zlen inp); keccak_finalize st (Z.of_nat rate)).
Proof.
  intros Hr Hinp. rewrite absorb_once_state by assumption.
  destruct (absorb_inv rate kinit [] inp Hr) as (st & E & Hi); [apply init_inv; destruct Hr; lia | exact Hinp |].
  rewrite E. cbn [bind app] in *. symmetry. apply finalize_state; assumption.
Qed.

(** ** the public functions *)
Lemma rate_ok_136 : rate_ok 136. Proof. split; [lia | reflexivity]. Qed.
Lemma rate_ok_168 : rate_ok 168. Proof. split; [lia | reflexivity]. Qed.

Lemma splice_ok {A} (l : list A) off src : 0 <= off -> off + zlen src <= zlen l ->
  splice l off src = Ok (firstn (Z.to_nat off) l ++ src ++ skipn (Z.to_nat (off + zlen src)) l).
Proof. intros. unfold splice. rewrite andb_leb by lia. reflexivity. Qed.
Lemma slice_from_ok {A} (l : list A) a : 0 <= a <= zlen l -> slice_from l a = Ok (skipn (Z.to_nat a) l).
Proof. intros. unfold slice_from. rewrite andb_leb by lia. reflexivity. Qed.

Lemma sq_inv_fin rate m : rate_ok rate -> sq_inv rate {| ks := fin_state rate m; kpos := Z.of_nat rate |} m 0.
Proof. intros [Hr _]. exists 0%nat, rate. cbn [ks kpos]. repeat split; lia. Qed.

Theorem shake256_ok inp n : Forall is_byte inp -> 0 <= n < 2 ^ 64 ->
  shake256 (repeatZ 0 n) n inp (zlen inp) = Ok (S_shake 136 inp (Z.to_nat n)).
Proof.
  intros Hb Hn. unfold shake256, shake256_absorb_once, shake256_squeezeblocks, shake256_squeeze.
  change SHAKE256_RATE with (Z.of_nat 136).
  rewrite absorb_once_state by (exact rate_ok_136 || exact Hb). cbn [bind].
  pose proof (sq_inv_fin 136 inp rate_ok_136) as Hi.
  set (st := {| ks := fin_state 136 inp; kpos := Z.of_nat 136 |}) in *.
  set (nb := n / Z.of_nat 136).
  assert (Hnb : 0 <= nb /\ nb * 136 <= n /\ n - nb * 136 < 136) by (subst nb; lia).
  assert (Hlo : zlen (repeatZ 0 n) = n) by (unfold zlen, repeatZ; rewrite repeat_length; lia).
  destruct (squeezeblocks_inv 136 st inp 0 (repeatZ 0 n) nb rate_ok_136 Hi) as (st1 & E1 & Hi1);
    try reflexivity; try lia.
  cbv zeta in E1, Hi1. rewrite S_shake_segment in E1 by lia.
  set (len := (Z.to_nat nb * 136)%nat) in *.
  assert (Hlen : Z.of_nat len = nb * Z.of_nat 136) by (subst len; lia).
  rewrite E1. cbn [bind].
  set (B := map (shake_byte 136 inp) (seq 0 len)) in *.
  set (R := skipn len (repeatZ 0 n)) in *.
  assert (HB : length B = len) by (subst B; rewrite map_length, seq_length; reflexivity).
  assert (HR : length R = (Z.to_nat n - len)%nat) by (subst R; rewrite skipn_length; unfold repeatZ; rewrite repeat_length; reflexivity).
  rewrite usize_sub_ok by lia. cbn [bind].
  rewrite slice_from_ok by (unfold zlen; rewrite app_length; lia). cbn [bind].
  rewrite <- Hlen, Nat2Z.id.
  rewrite skipn_app, (skipn_all2 B) by lia. rewrite HB, Nat.sub_diag. cbn [app skipn].
  destruct (squeeze_inv_gen 136 st1 inp (0 + len) R (n - Z.of_nat len) rate_ok_136 Hi1) as (st2 & E2 & _);
    try (unfold zlen; lia).
  rewrite S_shake_segment in E2 by lia. rewrite E2. cbn [bind].
  rewrite (skipn_all2 R) by lia. rewrite app_nil_r.
  set (T := map (shake_byte 136 inp) (seq (0 + len) (Z.to_nat (n - Z.of_nat len)))).
  assert (HT : length T = Z.to_nat (n - Z.of_nat len)) by (subst T; rewrite map_length, seq_length; reflexivity).
  rewrite splice_ok by (unfold zlen; rewrite ?app_length; lia).
  rewrite Nat2Z.id, firstn_app, (firstn_all2 B) by lia. rewrite HB, Nat.sub_diag. cbn [firstn].
  rewrite (skipn_all2 (B ++ R)) by (unfold zlen; rewrite app_length; lia).
  rewrite !app_nil_r. f_equal.
  rewrite S_shake_map by lia. subst B T.
  rewrite <- map_app, <- seq_app. do 2 f_equal. lia.
Qed.

(** any sequence of absorb calls absorbs the concatenation *)
Lemma absorb_chunks rate (Hr : rate_ok rate) : forall chunks st m,
  abs_inv rate st m -> Forall (Forall is_byte) chunks ->
  exists st', foldM (fun st c => keccak_absorb st (Z.of_nat rate) c (zlen c)) chunks st = Ok st'
              /\ abs_inv rate st' (m ++ concat chunks).
Proof.
  induction chunks as [|c chunks IH]; intros st m Hi Hc; cbn [foldM concat].
  - exists st. rewrite app_nil_r. auto.
  - inversion Hc as [|? ? Hc1 Hc2]; subst.
    destruct (absorb_inv rate st m c Hr Hi Hc1) as (st1 & E1 & Hi1).
    rewrite E1. cbn [bind]. destruct (IH st1 (m ++ c) Hi1 Hc2) as (st' & E' & Hi').
    exists st'. split; [exact E'|]. rewrite app_assoc. exact Hi'.
Qed.

Theorem shake256_hash_ok chunks n : Forall (Forall is_byte) chunks -> 0 <= n < 2 ^ 64 ->
  shake256_hash chunks n = Ok (S_shake 136 (concat chunks) (Z.to_nat n)).
Proof.
  intros Hc Hn. unfold shake256_hash, shake256_absorb, shake256_finalize, shake256_squeeze.
  change SHAKE256_RATE with (Z.of_nat 136).
  destruct (absorb_chunks 136 rate_ok_136 chunks kinit [] (init_inv 136 ltac:(lia)) Hc) as (st & E & Hi).
  rewrite E. cbn [bind app] in *.
  destruct (finalize_inv 136 st _ rate_ok_136 Hi) as (st1 & E1 & Hi1). rewrite E1. cbn [bind].
  destruct (squeeze_inv 136 st1 _ 0 n rate_ok_136 Hi1 Hn) as (st2 & E2 & _). rewrite E2. cbn [bind].
  f_equal. cbn [Nat.add skipn]. apply firstn_all2.
  rewrite S_shake_map, map_length, seq_length by lia. lia.
Qed.

(** ** the history theorem: any absorb calls, finalize, any squeeze calls *)
Fixpoint squeeze_many (r : Z) (st : kstate) (ns : list Z) : res (list Z * kstate) :=
  match ns with
  | [] => Ok ([], st)
  | n :: ns' =>
    do '(o, st1) <- keccak_squeeze (repeatZ 0 n) n st r;
    do '(os, st2) <- squeeze_many r st1 ns';
    Ok (o ++ os, st2)
  end.

Definition sumZ (ns : list Z) : Z := fold_right Z.add 0 ns.

Lemma squeeze_many_ok rate (Hr : rate_ok rate) m : forall ns st j,
  sq_inv rate st m j -> Forall (fun n => 0 <= n < 2 ^ 64) ns ->
  exists st', squeeze_many (Z.of_nat rate) st ns
              = Ok (map (shake_byte rate m) (seq j (Z.to_nat (sumZ ns))), st')
              /\ sq_inv rate st' m (j + Z.to_nat (sumZ ns)).
Proof.
  pose proof Hr as [Hr1 _].
  induction ns as [|n ns IH]; intros st j Hi Hns; cbn [squeeze_many sumZ fold_right].
  - exists st. cbn [Z.to_nat seq map]. rewrite Nat.add_0_r. auto.
  - inversion Hns as [|? ? Hn Hns']; subst. fold (sumZ ns).
    destruct (squeeze_inv rate st m j n Hr Hi Hn) as (st1 & E1 & Hi1).
    rewrite E1. cbn [bind]. rewrite S_shake_segment by lia.
    destruct (IH st1 _ Hi1 Hns') as (st2 & E2 & Hi2). rewrite E2. cbn [bind].
    assert (Hs : 0 <= sumZ ns).
    { clear -Hns'. induction Hns' as [|x l Hx Hl IHl]; cbn [sumZ fold_right]; [lia|]. fold (sumZ l). lia. }
    exists st2. rewrite Z2Nat.inj_add by lia. split.
    + rewrite seq_app, map_app. reflexivity.
    + rewrite Nat.add_assoc. exact Hi2.
Qed.

Theorem shake_history rate chunks ns :
  rate_ok rate -> Forall (Forall is_byte) chunks -> Forall (fun n => 0 <= n < 2 ^ 64) ns ->
  exists stA stF stE,
    foldM (fun st c => keccak_absorb st (Z.of_nat rate) c (zlen c)) chunks kinit = Ok stA
    /\ keccak_finalize stA (Z.of_nat rate) = Ok stF
    /\ squeeze_many (Z.of_nat rate) stF ns = Ok (S_shake rate (concat chunks) (Z.to_nat (sumZ ns)), stE).
Proof.
  intros Hr Hc Hns. pose proof Hr as [Hr1 _].
  destruct (absorb_chunks rate Hr chunks kinit [] (init_inv rate ltac:(lia)) Hc) as (stA & EA & HiA).
  cbn [app] in HiA.
  destruct (finalize_inv rate stA _ Hr HiA) as (stF & EF & HiF).
  destruct (squeeze_many_ok rate Hr _ ns stF 0 HiF Hns) as (stE & EE & _).
  exists stA, stF, stE. repeat split; try assumption.
  rewrite EE, S_shake_map by lia. reflexivity.
Qed.

(** ** stream_init *)
Lemma stream_init_gen rate seed slen nonce : rate_ok rate ->
  0 <= slen <= zlen seed -> Forall is_byte (firstn (Z.to_nat slen) seed) ->
  exists st,
    (do st <- keccak_absorb kinit (Z.of_nat rate) seed slen;
     do st <- keccak_absorb st (Z.of_nat rate) [nonce mod 256; (nonce / 256) mod 256] 2;
     keccak_finalize st (Z.of_nat rate)) = Ok st
    /\ sq_inv rate st (firstn (Z.to_nat slen) seed ++ [nonce mod 256; (nonce / 256) mod 256]) 0.
Proof.
  intros Hr Hl Hb. pose proof Hr as [Hr1 _].
  destruct (absorb_inv_gen rate kinit [] seed slen Hr (init_inv rate ltac:(lia)) Hl Hb) as (st1 & E1 & Hi1).
  rewrite E1. cbn [bind app] in *.
  destruct (absorb_inv rate st1 _ [nonce mod 256; (nonce / 256) mod 256] Hr Hi1) as (st2 & E2 & Hi2).
  { repeat constructor; unfold is_byte; lia. }
  change (zlen [nonce mod 256; (nonce / 256) mod 256]) with 2 in E2. rewrite E2. cbn [bind].
  apply finalize_inv; assumption.
Qed.

Theorem shake128_stream_init_ok seed nonce :
  32 <= zlen seed -> Forall is_byte (firstn 32 seed) ->
  exists st, shake128_stream_init seed nonce = Ok st
             /\ sq_inv 168 st (firstn 32 seed ++ [nonce mod 256; (nonce / 256) mod 256]) 0.
Proof.
  intros Hl Hb. apply (stream_init_gen 168 seed 32 nonce rate_ok_168); [lia | exact Hb].
Qed.

Theorem shake256_stream_init_ok seed nonce :
  64 <= zlen seed -> Forall is_byte (firstn 64 seed) ->
  exists st, shake256_stream_init seed nonce = Ok st
             /\ sq_inv 136 st (firstn 64 seed ++ [nonce mod 256; (nonce / 256) mod 256]) 0.
Proof.
  intros Hl Hb. apply (stream_init_gen 136 seed 64 nonce rate_ok_136); [lia | exact Hb].
Qed.

(** ** all lanes stay in [0, 2^64): the integers of the model are u64 values throughout *)
Section RoundInv.
  Context {W : Type} (xor and : W -> W -> W) (not : W -> W) (rol : W -> Z -> W) (dflt : W).
  Variable P : W -> Prop.
  Hypothesis Pxor : forall a b, P a -> P b -> P (xor a b).
  Hypothesis Pand : forall a b, P a -> P b -> P (and a b).
  Hypothesis Pnot : forall a, P a -> P (not a).
  Hypothesis Prol : forall a n, 0 < n < 64 -> P a -> P (rol a n).
  Hypothesis Pd : P dflt.

  Lemma lane_P A x y : Forall P A -> P (lane dflt A x y).
  Proof.
    intros H. unfold lane. destruct (nth_in_or_default (x mod 5 + 5 * (y mod 5)) A dflt) as [Hin | ->]; [|exact Pd].
    rewrite Forall_forall in H. apply H, Hin.
  Qed.
  Lemma mk_state_P f : (forall x y, P (f x y)) -> Forall P (mk_state f).
  Proof.
    intros H. unfold mk_state. apply Forall_forall. intros v Hv. apply in_map_iff in Hv as (i & <- & _). apply H.
  Qed.
  Lemma rho_offset_range x y : ((x =? 0) && (y =? 0))%nat = false -> (x < 5)%nat -> (y < 5)%nat -> 0 < rho_offset x y < 64.
  Proof.
    intros H Hx Hy.
    do 5 (destruct x as [|x]; [do 5 (destruct y as [|y]; [first [discriminate H | vm_compute; split; reflexivity]|]); lia|]).
    lia.
  Qed.
  Lemma round_P rc A : P rc -> Forall P A -> Forall P (round xor and not rol dflt rc A).
  Proof.
    intros Hrc HA. unfold round.
    assert (H1 : Forall P (theta xor rol dflt A)).
    { apply mk_state_P. intros x y. apply Pxor; [apply lane_P, HA|].
      unfold theta_D, theta_C. apply Pxor; [|apply Prol; [lia|]]; repeat apply Pxor; apply lane_P, HA. }
    revert H1. generalize (theta xor rol dflt A). clear HA A. intros A HA.
    assert (H2 : Forall P (rho rol dflt A)).
    { unfold rho, mk_state. apply Forall_forall. intros v Hv. apply in_map_iff in Hv as (i & <- & Hi).
      apply in_seq in Hi.
      destruct ((i mod 5 =? 0) && (i / 5 =? 0))%nat eqn:E; [apply lane_P, HA|].
      apply Prol; [|apply lane_P, HA]. apply rho_offset_range; [exact E | |]; lia. }
    revert H2. generalize (rho rol dflt A). clear HA A. intros A HA.
    assert (H3 : Forall P (pi dflt A)) by (apply mk_state_P; intros; apply lane_P, HA).
    revert H3. generalize (pi dflt A). clear HA A. intros A HA.
    assert (H4 : Forall P (chi xor and not dflt A)).
    { apply mk_state_P. intros x y. apply Pxor; [apply lane_P, HA|]. apply Pand; [apply Pnot|]; apply lane_P, HA. }
    revert H4. generalize (chi xor and not dflt A). clear HA A. intros A HA.
    apply mk_state_P. intros x y. destruct ((x =? 0) && (y =? 0))%nat; [apply Pxor; [|exact Hrc]|]; apply lane_P, HA.
  Qed.
End RoundInv.

Lemma log2_range a : 0 <= a -> (a < 2 ^ 64 <-> Z.log2 a < 64).
Proof.
  intros Ha. destruct (Z.eq_dec a 0) as [->|Hnz]; [split; intros; reflexivity|].
  apply Z.log2_lt_pow2. lia.
Qed.

Lemma lxor_range a b : lane_ok a -> lane_ok b -> lane_ok (Z.lxor a b).
Proof.
  unfold lane_ok. intros Ha Hb.
  assert (H0 : 0 <= Z.lxor a b) by (apply Z.lxor_nonneg; lia).
  split; [exact H0|]. apply log2_range; [exact H0|].
  eapply Z.le_lt_trans; [apply Z.log2_lxor; lia|].
  apply Z.max_lub_lt; apply log2_range; lia.
Qed.
Lemma land_range a b : lane_ok a -> lane_ok b -> lane_ok (Z.land a b).
Proof.
  unfold lane_ok. intros Ha Hb.
  assert (H0 : 0 <= Z.land a b) by (apply Z.land_nonneg; lia).
  split; [exact H0|]. apply log2_range; [exact H0|].
  eapply Z.le_lt_trans; [apply Z.log2_land; lia|].
  apply Z.min_lt_iff. left. apply log2_range; lia.
Qed.
Lemma S_not_range a : lane_ok a -> lane_ok (S_not a).
Proof. intros. apply lxor_range; [assumption|]. unfold lane_ok. vm_compute. split; [discriminate|reflexivity]. Qed.
Lemma S_rol_range' a n : 0 < n < 64 -> lane_ok a -> lane_ok (S_rol a n).
Proof. intros Hn Ha. apply S_rol_range; [exact Ha | lia]. Qed.

Lemma S_RC_range ir : lane_ok (S_RC ir).
Proof.
  unfold S_RC, lane_ok. cbn [seq map fold_right].
  repeat match goal with |- context [if rc ?t then _ else _] => destruct (rc t) end;
    vm_compute; split; first [discriminate | reflexivity].
Qed.

Lemma S_round_range ir A : Forall lane_ok A -> Forall lane_ok (S_round ir A).
Proof.
  intros HA. unfold S_round. apply (round_P S_xor S_and S_not S_rol 0 lane_ok); auto.
  - exact lxor_range.
  - exact land_range.
  - exact S_not_range.
  - exact S_rol_range'.
  - unfold lane_ok. vm_compute. split; [discriminate | reflexivity].
  - apply S_RC_range.
Qed.

Theorem S_keccak_f_range A : Forall lane_ok A -> Forall lane_ok (S_keccak_f A).
Proof.
  intros HA. unfold S_keccak_f. apply (fold_left_inv (Forall lane_ok)); [exact HA|].
  intros s i Hs. apply S_round_range, Hs.
Qed.

Corollary keccakf_range st : length st = 25%nat -> Forall lane_ok st ->
  exists st', keccakf st = Ok st' /\ Forall lane_ok st' /\ length st' = 25%nat.
Proof.
  intros Hl Hr. exists (S_keccak_f st). split; [apply keccakf_ok, Hl|]. split; [apply S_keccak_f_range, Hr | reflexivity].
Qed.

Lemma S_xor_block_range A P : Forall lane_ok A -> Forall is_byte P -> Forall lane_ok (S_xor_block A P).
Proof.
  intros HA; revert P; induction HA as [|a A Ha HA IH]; intros P HP; cbn [S_xor_block]; constructor.
  - apply lxor_range; [exact Ha|].
    pose proof (le_num_bound (firstn 8 P) (Forall_firstn' _ _ _ HP)) as Hb.
    pose proof (firstn_le_length 8 P) as Hl. unfold lane_ok. split; [lia|].
    eapply Z.lt_le_trans; [apply Hb|]. apply Z.pow_le_mono_r; lia.
  - apply IH, Forall_skipn', HP.
Qed.

Lemma S_absorb_range rate P : Forall is_byte P -> Forall lane_ok (S_absorb rate P).
Proof.
  intros HP. unfold S_absorb. apply (fold_left_inv (Forall lane_ok)).
  - unfold S_zero_state. apply Forall_forall. intros x Hx. apply repeat_spec in Hx. subst x.
    unfold lane_ok. vm_compute. split; [discriminate | reflexivity].
  - intros s i Hs. apply S_keccak_f_range, S_xor_block_range; [exact Hs|].
    unfold S_block. apply Forall_firstn', Forall_skipn', HP.
Qed.

Theorem abs_inv_range rate st m : abs_inv rate st m -> Forall lane_ok (ks st) /\ length (ks st) = 25%nat.
Proof.
  intros (Hm & -> & _). unfold abs_state. split.
  - apply S_xor_block_range; [apply S_absorb_range, Forall_firstn', Hm | apply Forall_skipn', Hm].
  - rewrite S_xor_block_length. apply S_absorb_length.
Qed.

Lemma pad_of_bytes rate lt : Forall is_byte (pad_of rate lt).
Proof.
  unfold pad_of. destruct (rate - lt =? 1)%nat.
  - repeat constructor; unfold is_byte; lia.
  - apply Forall_app; split; [repeat constructor; unfold is_byte; lia|].
    apply Forall_app; split; [|repeat constructor; unfold is_byte; lia].
    apply Forall_forall. intros x Hx. apply repeat_spec in Hx. subst x. unfold is_byte; lia.
Qed.

Theorem sq_inv_range rate st m j : Forall is_byte m -> sq_inv rate st m j ->
  Forall lane_ok (ks st) /\ length (ks st) = 25%nat.
Proof.
  intros Hm (k & p & -> & _). split; [|apply sq_state_length].
  unfold sq_state. induction k as [|k IH]; cbn [Nat.iter nat_rect].
  - unfold fin_state. apply S_xor_block_range; [apply S_absorb_range, Forall_firstn', Hm|].
    apply Forall_app; split; [apply Forall_skipn', Hm | apply pad_of_bytes].
  - apply S_keccak_f_range, IH.
Qed.

(** the specification's output is a string of bytes of the requested length *)
Lemma shake_byte_is_byte rate m i : (0 < rate <= 200)%nat -> is_byte (shake_byte rate m i).
Proof.
  intros Hr. unfold shake_byte, sbyte.
  rewrite nth_state_bytes.
  - unfold is_byte. apply Z.mod_pos_bound. lia.
  - assert (L : forall n T, length T = 25%nat -> length (Nat.iter n S_keccak_f T) = 25%nat).
    { intros n T HT. destruct n; [exact HT | apply S_keccak_f_length]. }
    rewrite L by apply S_keccak_f_length.
    pose proof (Nat.mod_upper_bound i rate ltac:(lia)). lia.
Qed.

Theorem S_shake_length_bytes rate m d : (0 < rate <= 200)%nat ->
  length (S_shake rate m d) = d /\ Forall is_byte (S_shake rate m d).
Proof.
  intros Hr. rewrite S_shake_map by exact Hr. split.
  - rewrite map_length, seq_length. reflexivity.
  - apply Forall_forall. intros x Hx. apply in_map_iff in Hx as (i & <- & _). apply shake_byte_is_byte, Hr.
Qed.

(** ** a concrete run of the misuse described by [squeezeblocks_any] (SHAKE256 of the empty string):
    squeeze 1 byte, squeezeblocks 1 block, squeeze 1 byte gives byte 0, then bytes 136..271 (1..135 are
    skipped), then byte 137 again. *)
Example squeezeblocks_after_partial_squeeze :
  let S := S_shake 136 [] 272 in
  (do st <- keccak_finalize kinit 136;
   do '(o1, st) <- keccak_squeeze [0] 1 st 136;
   do '(o2, st) <- keccak_squeezeblocks (repeatZ 0 136) 1 st 136;
   do '(o3, st) <- keccak_squeeze [0] 1 st 136;
   Ok (o1, o2, o3))
  = Ok (firstn 1 S, firstn 136 (skipn 136 S), firstn 1 (skipn 137 S)).
Proof. vm_compute. reflexivity. Qed.

(** a typical use of the SHAKE128 stream (rejection sampling of the matrix): init, then whole blocks *)
Corollary shake128_stream_blocks seed nonce out nb :
  32 <= zlen seed -> Forall is_byte (firstn 32 seed) -> 0 <= nb -> nb * 168 <= zlen out ->
  let m := firstn 32 seed ++ [nonce mod 256; (nonce / 256) mod 256] in
  let len := (Z.to_nat nb * 168)%nat in
  exists st st', shake128_stream_init seed nonce = Ok st
    /\ shake128_squeezeblocks out nb st = Ok (S_shake 168 m len ++ skipn len out, st')
    /\ sq_inv 168 st' m len.
Proof.
  intros Hl Hb Hnb Hout m len.
  destruct (shake128_stream_init_ok seed nonce Hl Hb) as (st & E & Hi).
  destruct (squeezeblocks_inv 168 st m 0 out nb rate_ok_168 Hi) as (st' & E' & Hi'); try reflexivity; try lia.
  exists st, st'. split; [exact E|]. split; [|exact Hi'].
  unfold shake128_squeezeblocks. change SHAKE128_RATE with (Z.of_nat 168). rewrite E'.
  cbn [Nat.add skipn]. fold len. rewrite firstn_all2; [reflexivity|].
  destruct (S_shake_length_bytes 168 m len ltac:(lia)) as [-> _]. lia.
Qed.

(** * Summary *)
Print Assumptions round2_spec.
Print Assumptions keccakf_ok.
Print Assumptions keccakf_range.
Print Assumptions init_inv.
Print Assumptions absorb_inv_gen.
Print Assumptions absorb_inv.
Print Assumptions finalize_state.
Print Assumptions finalize_inv.
Print Assumptions squeeze_inv_gen.
Print Assumptions squeeze_inv.
Print Assumptions squeezeblocks_any.
Print Assumptions squeezeblocks_inv.
Print Assumptions absorb_once_state.
Print Assumptions absorb_once_eq.
Print Assumptions shake256_ok.
Print Assumptions shake256_hash_ok.
Print Assumptions shake_history.
Print Assumptions shake128_stream_init_ok.
Print Assumptions shake256_stream_init_ok.
Print Assumptions shake128_stream_blocks.
Print Assumptions abs_inv_range.
Print Assumptions sq_inv_range.
Print Assumptions S_shake_length_bytes.
Print Assumptions squeezeblocks_after_partial_squeeze.
