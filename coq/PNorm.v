(** The infinity-norm check is exact.

    [chknorm a b] computes, per coefficient, t = c - ((c >> 31) & 2*c) and reports 1 as soon as b <= t.
    For |c| <= 2^30 (so that 2*c is an i32) t = |c|, hence the function decides
    "some coefficient has absolute value >= b" exactly, for every list length, provided b <= (Q-1)/8;
    for larger b it answers 1 unconditionally.  The vector versions stop at the first polynomial that
    reports 1 and therefore compute the same predicate over all polynomials.

    Depends on PLift.v only for the generic facts about [zrange] and checked access ([get_app_mid]). *)
From DV Require Import Base Gen MReduce MRounding MParams MKeccak MNtt MPoly MPolyvec PReduce PLift.

Local Ltac Zify.zify_post_hook ::= Z.div_mod_to_equations.

Lemma chknorm_loop_exact a b :
  Forall (fun x => -1073741824 <= x <= 1073741823) a ->
  chknorm_loop a b = Ok (if existsb (fun x => b <=? Z.abs x) a then 1 else 0).
Proof.
  induction 1 as [|x a Hx HF IH]; [reflexivity|].
  cbn [chknorm_loop existsb].
  rewrite shr_ok by lia. cbn [bind]. change (2 ^ 31) with 2147483648.
  unfold i32_mul. rewrite chk_s_ok by (rewrite two31; lia). cbn [bind].
  assert (E : i32_sub x (Z.land (x / 2147483648) (2 * x)) = Ok (Z.abs x)).
  { unfold i32_sub. destruct (Z.ltb_spec x 0) as [Hn|Hp].
    - replace (x / 2147483648) with (-1) by lia. rewrite Z.land_m1_l.
      rewrite chk_s_ok by (rewrite two31; lia). f_equal. lia.
    - replace (x / 2147483648) with 0 by lia. rewrite Z.land_0_l.
      rewrite chk_s_ok by (rewrite two31; lia). f_equal. lia. }
  rewrite E. cbn [bind].
  destruct (b <=? Z.abs x); cbn [orb]; [reflexivity | exact IH].
Qed.

Theorem chknorm_exact a b :
  Forall (fun x => -1073741824 <= x <= 1073741823) a -> b <= 1047552 ->
  chknorm a b = Ok (if existsb (fun x => b <=? Z.abs x) a then 1 else 0).
Proof.
  intros HF Hb. unfold chknorm.
  destruct (Z.ltb_spec 1047552 b) as [H|_]; [lia|]. apply chknorm_loop_exact. exact HF.
Qed.

Theorem chknorm_big a b : 1047552 < b -> chknorm a b = Ok 1.
Proof. intros H. unfold chknorm. destruct (Z.ltb_spec 1047552 b) as [_|H']; [reflexivity | lia]. Qed.

(** Prop-level reading of the answer *)
Corollary chknorm_0_iff a b :
  Forall (fun x => -1073741824 <= x <= 1073741823) a -> b <= 1047552 ->
  (chknorm a b = Ok 0 <-> forall x, In x a -> Z.abs x < b).
Proof.
  intros HF Hb. rewrite chknorm_exact by assumption.
  destruct (existsb (fun x => b <=? Z.abs x) a) eqn:E.
  - split; [discriminate|]. intros H. apply existsb_exists in E as (x & Hx & Hle).
    apply Z.leb_le in Hle. specialize (H x Hx). lia.
  - split; [|reflexivity]. intros _ x Hx.
    destruct (Z.ltb_spec (Z.abs x) b) as [Hlt|Hge]; [exact Hlt|].
    assert (existsb (fun x => b <=? Z.abs x) a = true)
      by (apply existsb_exists; exists x; split; [exact Hx | apply Z.leb_le; exact Hge]).
    congruence.
Qed.

(** the result is always 0 or 1 on the domain *)
Corollary chknorm_bit a b :
  Forall (fun x => -1073741824 <= x <= 1073741823) a ->
  chknorm a b = Ok 0 \/ chknorm a b = Ok 1.
Proof.
  intros HF. destruct (Z.ltb_spec 1047552 b) as [H|H].
  - right. apply chknorm_big. exact H.
  - rewrite chknorm_exact by assumption. destruct (existsb _ a); auto.
Qed.

(** the domain edge is real: at x = 2^30 the doubling overflows i32 and the checked build panics *)
Example chknorm_overflow_edge : chknorm [1073741824] 5 = Panic.
Proof. vm_compute. reflexivity. Qed.
Example chknorm_overflow_edge_neg : chknorm [-1073741825] 5 = Panic.
Proof. vm_compute. reflexivity. Qed.
(** ... while both end points of the stated domain are handled *)
Example chknorm_domain_ends : chknorm [-1073741824] 5 = Ok 1 /\ chknorm [1073741823] 5 = Ok 1.
Proof. vm_compute. split; reflexivity. Qed.

(** * Vectors *)

Lemma vec_chknorm_core b suf : b <= 1047552 -> forall pre,
  (forall a, In a suf -> Forall (fun x => -1073741824 <= x <= 1073741823) a) ->
  vec_chknorm_loop (map Z.of_nat (seq (length pre) (length suf))) (pre ++ suf) b
  = Ok (if existsb (fun a => existsb (fun x => b <=? Z.abs x) a) suf then 1 else 0).
Proof.
  intros Hb. induction suf as [|a suf IH]; intros pre H; [reflexivity|].
  cbn [length seq map vec_chknorm_loop existsb]. rewrite get_app_mid. cbn [bind].
  rewrite chknorm_exact by (try exact Hb; apply H; left; reflexivity). cbn [bind].
  destruct (existsb (fun x => b <=? Z.abs x) a); cbn [orb].
  - reflexivity.
  - change (0 <? 0) with false. cbv iota.
    rewrite snoc_app. rewrite <- (snoc_length pre a). apply IH.
    intros a' Ha'. apply H. right. exact Ha'.
Qed.

(** [vec_chknorm_loop] does not mention the parameter set (it is closed in the section), so the
    statement has no [P]; the two instances below do. *)
Theorem vec_chknorm_exact v b n :
  (forall a, In a v -> Forall (fun x => -1073741824 <= x <= 1073741823) a) ->
  b <= 1047552 -> length v = Z.to_nat n -> 0 <= n ->
  vec_chknorm_loop (zrange 0 n) v b
  = Ok (if existsb (fun a => existsb (fun x => b <=? Z.abs x) a) v then 1 else 0).
Proof.
  intros H Hb Hl _. rewrite zrange0_seq, <- Hl.
  exact (vec_chknorm_core b v Hb [] H).
Qed.

Theorem l_chknorm_exact P v b :
  (forall a, In a v -> Forall (fun x => -1073741824 <= x <= 1073741823) a) ->
  b <= 1047552 -> length v = Z.to_nat (pL P) -> 0 <= pL P ->
  l_chknorm P v b = Ok (if existsb (fun a => existsb (fun x => b <=? Z.abs x) a) v then 1 else 0).
Proof. intros. unfold l_chknorm. apply vec_chknorm_exact; assumption. Qed.

Theorem k_chknorm_exact P v b :
  (forall a, In a v -> Forall (fun x => -1073741824 <= x <= 1073741823) a) ->
  b <= 1047552 -> length v = Z.to_nat (pK P) -> 0 <= pK P ->
  k_chknorm P v b = Ok (if existsb (fun a => existsb (fun x => b <=? Z.abs x) a) v then 1 else 0).
Proof. intros. unfold k_chknorm. apply vec_chknorm_exact; assumption. Qed.

(** Prop-level reading: the vector passes iff every coefficient of every polynomial is below the bound *)
Corollary vec_chknorm_0_iff v b n :
  (forall a, In a v -> Forall (fun x => -1073741824 <= x <= 1073741823) a) ->
  b <= 1047552 -> length v = Z.to_nat n -> 0 <= n ->
  (vec_chknorm_loop (zrange 0 n) v b = Ok 0 <-> forall a, In a v -> forall x, In x a -> Z.abs x < b).
Proof.
  intros H Hb Hl Hn. rewrite vec_chknorm_exact by assumption.
  destruct (existsb (fun a => existsb (fun x => b <=? Z.abs x) a) v) eqn:E.
  - split; [discriminate|]. intros Hall. apply existsb_exists in E as (a & Ha & E).
    apply existsb_exists in E as (x & Hx & Hle). apply Z.leb_le in Hle.
    specialize (Hall a Ha x Hx). lia.
  - split; [|reflexivity]. intros _ a Ha x Hx.
    destruct (Z.ltb_spec (Z.abs x) b) as [Hlt|Hge]; [exact Hlt|].
    assert (existsb (fun a => existsb (fun x => b <=? Z.abs x) a) v = true).
    { apply existsb_exists. exists a. split; [exact Ha|]. apply existsb_exists. exists x.
      split; [exact Hx | apply Z.leb_le; exact Hge]. }
    congruence.
Qed.

(** bound above (Q-1)/8: a NON-EMPTY vector is rejected whatever it contains (no domain hypothesis);
    for an empty vector (n = 0) the loop body never runs and the answer is 0, see [vec_chknorm_empty] *)
Theorem vec_chknorm_big v b n :
  1047552 < b -> length v = Z.to_nat n -> 1 <= n ->
  vec_chknorm_loop (zrange 0 n) v b = Ok 1.
Proof.
  intros Hb Hl Hn. rewrite zrange0_seq.
  destruct v as [|a v]; [cbn [length] in Hl; lia|].
  replace (Z.to_nat n) with (S (Z.to_nat n - 1)) by lia.
  cbn [seq map vec_chknorm_loop]. change (get (a :: v) (Z.of_nat 0)) with (Ok a). cbn [bind].
  rewrite chknorm_big by exact Hb. reflexivity.
Qed.

Theorem vec_chknorm_empty v b n : n <= 0 -> vec_chknorm_loop (zrange 0 n) v b = Ok 0.
Proof. intros Hn. rewrite zrange0_seq. replace (Z.to_nat n) with 0%nat by lia. reflexivity. Qed.

Theorem l_chknorm_big P v b :
  1047552 < b -> length v = Z.to_nat (pL P) -> 1 <= pL P -> l_chknorm P v b = Ok 1.
Proof. intros. unfold l_chknorm. apply vec_chknorm_big; assumption. Qed.

Theorem k_chknorm_big P v b :
  1047552 < b -> length v = Z.to_nat (pK P) -> 1 <= pK P -> k_chknorm P v b = Ok 1.
Proof. intros. unfold k_chknorm. apply vec_chknorm_big; assumption. Qed.

(** * The bounds actually used are inside the exact regime *)
(** signer: z against GAMMA1 - BETA, w0 against GAMMA2 - BETA, ct0 against GAMMA2;
    verifier: z against GAMMA1 - BETA. *)
Definition norm_bounds_ok (P : params) : Prop :=
  0 < pGAMMA1 P - pBETA P <= 1047552 /\
  0 < pGAMMA2 P - pBETA P <= 1047552 /\
  0 < pGAMMA2 P <= 1047552.

Theorem norm_bounds_instances :
  norm_bounds_ok P_lvl2 /\ norm_bounds_ok P_lvl3 /\ norm_bounds_ok P_lvl5 /\
  norm_bounds_ok P_ml44 /\ norm_bounds_ok P_ml65 /\ norm_bounds_ok P_ml87.
Proof. unfold norm_bounds_ok. vm_compute. intuition discriminate. Qed.

(** vector lengths of the six sets are positive (so the [_big] theorems apply) *)
Theorem vec_lengths_instances :
  Forall (fun P => 1 <= pK P <= 8 /\ 1 <= pL P <= 7) [P_lvl2; P_lvl3; P_lvl5; P_ml44; P_ml65; P_ml87].
Proof. repeat constructor; vm_compute; discriminate. Qed.

Print Assumptions chknorm_exact.
Print Assumptions chknorm_big.
Print Assumptions chknorm_0_iff.
Print Assumptions vec_chknorm_exact.
Print Assumptions vec_chknorm_0_iff.
Print Assumptions l_chknorm_exact.
Print Assumptions k_chknorm_exact.
Print Assumptions l_chknorm_big.
Print Assumptions k_chknorm_big.
Print Assumptions norm_bounds_instances.
