(** C08, signing side: signing never panics.

    For the six parameter sets, ANY secret-key bytes of the right length (not only generated keys), any
    message bytes, any mode (deterministic / randomized, with a byte tape of at least 64 bytes), [signature]
    never returns [Panic]: no arithmetic overflow in any intermediate, no out-of-bounds access, no failed
    slice / length check.  ([OutOfFuel] is the model's stand-in for the unbounded rejection loop and for the
    rejection samplers; it is excluded, not claimed.)

    Layout:
      1. vocabulary: vector versions of the range lemmas of PTotal.v
      2. the missing per-operation lemmas: decompose, make_hint, the w1 hash, pack_sig
      3. one attempt never panics, with every intermediate range            (sign_attempt_no_panic)
      4. the rejection loop (nonce arithmetic in u16): no panic for up to 2^16 / L attempts, sharp
                                                                             (sign_loop_no_panic, fuel_ok, nonce_edge)
      5. setup: key decoding, mu, rho', ExpandA, the three forward NTTs      (sign_prepare_total, sign_finish_no_panic)
      6. main theorems               (signature_no_panic, signature_no_panic_gen, signature_trace_no_panic, signature_ok_or_fuel)
      7. API wrappers                                  (dil_sign_no_panic, ml_sign_no_panic, ml_prehash_sign_no_panic)

    No premises are left: the two samplers are discharged with PBridge.v ([poly_challenge_no_panic],
    [matrix_expand_no_panic], [l_uniform_gamma1_ok']). *)
From DV Require Import Base Gen MReduce MRounding MParams MKeccak MNtt MPoly MPolyvec MPacking MSign MSha2 MApi
                       PReduce PNtt PRounding PNorm PLift PPack PPack2 PSample SKeccak PKeccak PSignStruct PTape
                       PKeyCodec PHint PBridge PTotal PTotalClosed.

Local Ltac Zify.zify_post_hook ::= Z.div_mod_to_equations.

(** * 1. Vocabulary *)

Lemma Ok_inj {A} (a b : A) : Ok a = Ok b -> a = b.
Proof. intros H. inversion H. reflexivity. Qed.

Lemma vec_len {A} n (Pp : A -> Prop) v : vec n Pp v -> length v = Z.to_nat n.
Proof. intros (L & _). exact L. Qed.

Lemma zrng_bnd g1 a : 0 <= g1 -> zrng g1 a -> bnd (g1 + 1) a.
Proof.
  intros Hg (La & Fa). split; [exact La|]. eapply Forall_impl; [|exact Fa]. cbv beta. intros x Hx. lia.
Qed.

Lemma bnd_small B a : B <= 1073741824 -> bnd B a -> Forall (fun x => -1073741824 <= x <= 1073741823) a.
Proof. intros HB (_ & Fa). eapply Forall_impl; [|exact Fa]. cbv beta. intros x Hx. lia. Qed.

Lemma vec_small n B v : B <= 1073741824 -> vec n (bnd B) v -> small_coeffs v.
Proof.
  intros HB (_ & Fv) a Ha. rewrite Forall_forall in Fv. exact (bnd_small B a HB (Fv a Ha)).
Qed.

Section VecOps.
  Variable P : params.
  Hypothesis HD : dims_ok P.

  Lemma l_ntt_total B v : B + 8 * Q <= 2 ^ 31 -> vec (pL P) (bnd B) v ->
    exists r, l_ntt P v = Ok r /\ vec (pL P) (bnd (B + 8 * Q)) r.
  Proof.
    intros HB Hv. rewrite l_ntt_lift by (apply Hv).
    apply (vec_mapM_total (pL P) poly_ntt (bnd B)); [|exact Hv]. intros a Ha. apply ntt_total; assumption.
  Qed.

  Lemma k_ntt_total B v : B + 8 * Q <= 2 ^ 31 -> vec (pK P) (bnd B) v ->
    exists r, k_ntt P v = Ok r /\ vec (pK P) (bnd (B + 8 * Q)) r.
  Proof.
    intros HB Hv. rewrite k_ntt_lift by (apply Hv).
    apply (vec_mapM_total (pK P) poly_ntt (bnd B)); [|exact Hv]. intros a Ha. apply ntt_total; assumption.
  Qed.

  Lemma k_reduce_total B v : B <= 2 ^ 31 - 2 ^ 22 -> vec (pK P) (bnd B) v ->
    exists r, k_reduce P v = Ok r /\ vec (pK P) (bnd Q) r.
  Proof.
    intros HB Hv. rewrite k_reduce_lift by (apply Hv).
    apply (vec_mapM_total (pK P) poly_reduce (bnd B)); [|exact Hv]. intros a Ha. apply (poly_reduce_total B); assumption.
  Qed.

  Lemma l_reduce_total B v : B <= 2 ^ 31 - 2 ^ 22 -> vec (pL P) (bnd B) v ->
    exists r, l_reduce P v = Ok r /\ vec (pL P) (bnd Q) r.
  Proof.
    intros HB Hv. rewrite l_reduce_lift by (apply Hv).
    apply (vec_mapM_total (pL P) poly_reduce (bnd B)); [|exact Hv]. intros a Ha. apply (poly_reduce_total B); assumption.
  Qed.

  Lemma k_invntt_total v : vec (pK P) (bnd Q) v -> exists r, k_invntt_tomont P v = Ok r /\ vec (pK P) (bnd Q) r.
  Proof.
    intros Hv. rewrite k_invntt_tomont_lift by (apply Hv).
    exact (vec_mapM_total (pK P) poly_invntt_tomont (bnd Q) (bnd Q) v invntt_total Hv).
  Qed.

  Lemma l_invntt_total v : vec (pL P) (bnd Q) v -> exists r, l_invntt_tomont P v = Ok r /\ vec (pL P) (bnd Q) r.
  Proof.
    intros Hv. rewrite l_invntt_tomont_lift by (apply Hv).
    exact (vec_mapM_total (pL P) poly_invntt_tomont (bnd Q) (bnd Q) v invntt_total Hv).
  Qed.

  Lemma k_caddq_total v : vec (pK P) (bnd Q) v -> exists r, k_caddq P v = Ok r /\ vec (pK P) (rng 0 Q) r.
  Proof.
    intros Hv. rewrite k_caddq_lift by (apply Hv).
    exact (vec_mapM_total (pK P) poly_caddq (bnd Q) (rng 0 Q) v poly_caddq_total Hv).
  Qed.

  (** A o v for matrix entries in [0,Q) and |v| < 9Q: each product 9Q^2 < 2^31 Q; L <= 7 accumulated terms *)
  Lemma matvec_total mat v : mat_ok P mat -> vec (pL P) (bnd (9 * Q)) v ->
    exists w, matrix_pointwise_montgomery P (zvec (pK P)) mat v = Ok w /\ vec (pK P) (bnd (7 * Q)) w.
  Proof.
    destruct HD as (HK & HL1 & HL7). intros (Lmat & Fmat) Hv.
    rewrite matrix_pointwise_montgomery_lift; try lia.
    - apply (vec_mapM_total (pK P) (fun row => row_ref row v) (vec (pL P) (rng 0 Q))); [|split; assumption].
      intros row (Lrow & Frow). destruct Hv as (Lv & Fv).
      destruct (row_ref_total Q (9 * Q) row v) as (r & Er & Hr); try (unfold Q; lia).
      + eapply Forall_impl; [|exact Frow]. intros a. apply rng_bnd; unfold Q; lia.
      + exact Fv.
      + exists r. split; [exact Er|]. eapply bnd_weaken; [|exact Hr]. unfold Q. lia.
    - rewrite zvec_length. reflexivity.
    - intros row Hrow. rewrite Forall_forall in Fmat. apply (Fmat row Hrow).
    - apply Hv.
  Qed.

  (** c o v for |c| < A and |v| < B with A B < 2^31 Q *)
  Lemma l_pw_total A B r c v : 0 <= A -> 0 <= B -> A * B < 2 ^ 31 * Q ->
    length r = Z.to_nat (pL P) -> bnd A c -> vec (pL P) (bnd B) v ->
    exists w, l_pointwise_poly_montgomery P r c v = Ok w /\ vec (pL P) (bnd Q) w.
  Proof.
    intros HA HB HAB Lr Hc Hv. rewrite l_pointwise_poly_montgomery_lift by (exact Lr || apply Hv).
    apply (vec_mapM_total (pL P) (poly_pointwise_montgomery c) (bnd B)); [|exact Hv].
    intros b Hb. apply (poly_pw_total A B); assumption.
  Qed.

  Lemma k_pw_total A B r c v : 0 <= A -> 0 <= B -> A * B < 2 ^ 31 * Q ->
    length r = Z.to_nat (pK P) -> bnd A c -> vec (pK P) (bnd B) v ->
    exists w, k_pointwise_poly_montgomery P r c v = Ok w /\ vec (pK P) (bnd Q) w.
  Proof.
    intros HA HB HAB Lr Hc Hv. rewrite k_pointwise_poly_montgomery_lift by (exact Lr || apply Hv).
    apply (vec_mapM_total (pK P) (poly_pointwise_montgomery c) (bnd B)); [|exact Hv].
    intros b Hb. apply (poly_pw_total A B); assumption.
  Qed.

  Lemma l_add_total W T w t : W + T <= 2 ^ 31 -> vec (pL P) (bnd W) w -> vec (pL P) (bnd T) t ->
    exists r, l_add P w t = Ok r /\ vec (pL P) (bnd (W + T)) r.
  Proof.
    intros HB Hw Ht. rewrite l_add_lift by (apply Hw || apply Ht).
    apply (vec_map2M_total (pL P) poly_add (bnd W) (bnd T)); try assumption.
    intros a b Ha Hb. apply poly_add_total; assumption.
  Qed.

  Lemma k_add_total W T w t : W + T <= 2 ^ 31 -> vec (pK P) (bnd W) w -> vec (pK P) (bnd T) t ->
    exists r, k_add P w t = Ok r /\ vec (pK P) (bnd (W + T)) r.
  Proof.
    intros HB Hw Ht. rewrite k_add_lift by (apply Hw || apply Ht).
    apply (vec_map2M_total (pK P) poly_add (bnd W) (bnd T)); try assumption.
    intros a b Ha Hb. apply poly_add_total; assumption.
  Qed.

  Lemma k_sub_total W T w t : W + T <= 2 ^ 31 -> vec (pK P) (bnd W) w -> vec (pK P) (bnd T) t ->
    exists r, k_sub P w t = Ok r /\ vec (pK P) (bnd (W + T)) r.
  Proof.
    intros HB Hw Ht. rewrite k_sub_lift by (apply Hw || apply Ht).
    apply (vec_map2M_total (pK P) poly_sub (bnd W) (bnd T)); try assumption.
    intros a b Ha Hb. apply poly_sub_total; assumption.
  Qed.
End VecOps.

(** * 2. The missing per-operation lemmas *)

(** ** decompose: on [0,Q) the low part is in [-gamma2, gamma2], the high part in [0, m) *)
Lemma poly_decompose_total g88 a : rng 0 Q a ->
  exists lo hi, poly_decompose g88 a = Ok (lo, hi) /\ bnd (GAMMA2 g88 + 1) lo /\ rng 0 (MM g88) hi.
Proof.
  intros (La & Fa). unfold poly_decompose.
  destruct (mapM_total (decompose g88) (fun x => 0 <= x < Q)
              (fun p => - (GAMMA2 g88 + 1) < fst p < GAMMA2 g88 + 1 /\ 0 <= snd p < MM g88) a) as (l & El & Ll & Fl).
  - intros x Hx. destruct (decompose_ok g88 x Hx) as (a0 & a1 & E & _ & R1 & _ & R0 & _).
    exists (a0, a1). split; [exact E|]. cbn [fst snd]. lia.
  - exact Fa.
  - rewrite El; cbn [bind]. exists (map fst l), (map snd l). split; [reflexivity|].
    split; (split; [rewrite map_length; lia|]); apply Forall_map; eapply Forall_impl; try exact Fl; cbv beta; tauto.
Qed.

Lemma k_decompose_total P w : vec (pK P) (rng 0 Q) w ->
  exists w1 w0, k_decompose P w (zvec (pK P)) = Ok (w1, w0) /\
    vec (pK P) (rng 0 (MM (pG88 P))) w1 /\ vec (pK P) (bnd (pGAMMA2 P + 1)) w0.
Proof.
  intros Hw. rewrite k_decompose_lift by (apply Hw || apply zvec_length).
  destruct (vec_mapM_total (pK P) (poly_decompose (pG88 P)) (rng 0 Q)
              (fun p => bnd (pGAMMA2 P + 1) (fst p) /\ rng 0 (MM (pG88 P)) (snd p)) w) as (l & El & Ll & Fl).
  - intros a Ha. destruct (poly_decompose_total (pG88 P) a Ha) as (lo & hi & E & Hlo & Hhi).
    exists (lo, hi). split; [exact E|]. cbn [fst snd]. split; [exact Hlo | exact Hhi].
  - exact Hw.
  - rewrite El; cbn [bind]. exists (map snd l), (map fst l). split; [reflexivity|].
    split; (split; [rewrite map_length; exact Ll|]); apply Forall_map; eapply Forall_impl; try exact Fl; cbv beta; tauto.
Qed.

(** ** make_hint: total on any pair of polynomials of 256 coefficients; the count is the sum of 256 bits *)
Lemma make_hint_total g88 a0 a1 : exists y, make_hint g88 a0 a1 = Ok y /\ (y = 0 \/ y = 1).
Proof.
  unfold make_hint, i32_neg. cbv zeta.
  rewrite chk_s_ok by (rewrite two31; unfold GAMMA2; destruct g88; lia). cbn [bind].
  destruct ((GAMMA2 g88 <? a0) || (a0 <? - GAMMA2 g88) || ((a0 =? - GAMMA2 g88) && negb (a1 =? 0))); eauto.
Qed.

Definition len256 (a : list Z) : Prop := length a = 256%nat.

Lemma bnd_len256 B a : bnd B a -> len256 a. Proof. intros (L & _). exact L. Qed.
Lemma rng_len256 lo hi a : rng lo hi a -> len256 a. Proof. intros (L & _). exact L. Qed.

Lemma poly_make_hint_total g88 a0 a1 : len256 a0 -> len256 a1 ->
  exists h s, poly_make_hint g88 a0 a1 = Ok (h, s) /\ rng 0 2 h /\ 0 <= s <= 256.
Proof.
  unfold len256. intros L0 L1. unfold poly_make_hint.
  destruct (map2M_total (make_hint g88) (fun _ => True) (fun _ => True) (fun y => y = 0 \/ y = 1)
              (fun x y _ _ => make_hint_total g88 x y) a0 a1 ltac:(lia)) as (h & Eh & Lh & Fh).
  { apply Forall_forall. auto. } { apply Forall_forall. auto. }
  rewrite Eh; cbn [bind].
  destruct (sum_bits_ok h 0 Fh ltac:(lia)) as (t & Et & _ & Bt); [rewrite Lh, L0; change (2 ^ 31) with 2147483648; lia|].
  rewrite Et; cbn [bind]. exists h, t. split; [reflexivity|]. split; [|lia].
  split; [lia|]. eapply Forall_impl; [|exact Fh]. cbv beta. intros y Hy. lia.
Qed.

Lemma k_make_hint_total P h0 v0 v1 : 0 <= pK P <= 8388607 -> length h0 = Z.to_nat (pK P) ->
  vec (pK P) len256 v0 -> vec (pK P) len256 v1 ->
  exists h n, k_make_hint P h0 v0 v1 = Ok (h, n) /\ vec (pK P) (rng 0 2) h /\ 0 <= n <= 256 * pK P.
Proof.
  intros HK Lh H0 H1.
  destruct (map2M_total (poly_make_hint (pG88 P)) len256 len256
              (fun p => rng 0 2 (fst p) /\ 0 <= snd p <= 256)) with (l1 := v0) (l2 := v1) as (l & El & Ll & Fl);
    try (apply H0 || apply H1).
  - intros a b Ha Hb. destruct (poly_make_hint_total (pG88 P) a b Ha Hb) as (h & s & E & Hh & Hs).
    exists (h, s). split; [exact E|]. cbn [fst snd]. split; assumption.
  - destruct H0 as (L0 & _); destruct H1 as (L1 & _); lia.
  - rewrite (proj1 H0) in Ll. destruct (k_make_hint_256 P h0 v0 v1 l Lh HK) as (E & Bn).
    + intros a Ha. destruct H0 as (_ & F0). rewrite Forall_forall in F0. exact (F0 a Ha).
    + exact El.
    + exact Ll.
    + exists (map fst l), (zsum (map snd l)). split; [exact E|]. split; [|exact Bn].
      split; [rewrite map_length; exact Ll|]. apply Forall_map. eapply Forall_impl; [|exact Fl]. cbv beta. tauto.
Qed.

(** the two ways of counting the ones of a 0/1 matrix agree *)
Lemma hweight_bits h : Forall (Forall (fun x => 0 <= x < 2)) h -> hweight h = hint_weight h.
Proof.
  unfold hweight, hint_weight. induction 1 as [|a h Ha _ IH]; [reflexivity|].
  cbn [concat map zsum fold_right]. fold (zsum (map zsum h)). rewrite filter_app, PHint.zlen_app, IH. f_equal.
  clear - Ha. induction Ha as [|x a Hx _ IH]; [reflexivity|].
  cbn [filter zsum fold_right]. fold (zsum a). unfold nonzero at 1.
  destruct (Z.eqb_spec x 0) as [->|Hn]; cbn [negb].
  - rewrite IH. lia.
  - rewrite PHint.zlen_cons, IH. lia.
Qed.

(** ** w1 packed at the front of the signature buffer *)
Lemma k_pack_w1_sig P sig w1 : 0 <= pK P -> vec (pK P) (rng 0 (MM (pG88 P))) w1 -> pK P * pPOLYW1 P <= zlen sig ->
  exists sigw, k_pack_w1 P sig w1 = Ok sigw /\ zlen sigw = zlen sig /\
    Forall is_byte (firstn (Z.to_nat (pK P * pPOLYW1 P)) sigw).
Proof.
  intros HK (Lw & Fw) Hs.
  destruct (mapM_total (w1_pack_bytes (pG88 P)) (rng 0 (MM (pG88 P)))
              (fun e => zlen e = pPOLYW1 P /\ Forall is_byte e) w1) as (encs & Ee & Le & Fe).
  - intros a Ha. destruct (w1_pack_bytes_total _ a Ha) as (e & E & L & B). exists e.
    split; [exact E|]. split; [|exact B]. unfold pPOLYW1. exact L.
  - exact Fw.
  - assert (HW : 0 <= pPOLYW1 P) by (unfold pPOLYW1; destruct (pG88 P); lia).
    assert (F1 : Forall (fun e => zlen e = pPOLYW1 P) encs) by (eapply Forall_impl; [|exact Fe]; cbv beta; tauto).
    assert (Lc : zlen (concat encs) = pK P * pPOLYW1 P).
    { rewrite (zlen_concat (pPOLYW1 P) encs F1), Le, Lw. rewrite Z2Nat.id by lia. reflexivity. }
    rewrite (proj1 (k_pack_w1_ok P sig w1 encs HK Lw Ee F1 Hs)).
    eexists. split; [reflexivity|]. split.
    + rewrite PHint.zlen_app, Lc, zlen_skipn by nia. lia.
    + rewrite PHint.firstn_app_exact by (unfold zlen in Lc; lia).
      apply Forall_concat. eapply Forall_impl; [|exact Fe]. cbv beta. tauto.
Qed.

(** ** the challenge hash: absorb mu (64 bytes), absorb the packed w1 from the buffer, squeeze c~ into the buffer *)
Lemma w1_hash_total mu sigw n ct :
  64 <= zlen mu -> Forall is_byte (firstn 64 mu) ->
  0 <= n <= zlen sigw -> Forall is_byte (firstn (Z.to_nat n) sigw) -> 0 <= ct <= zlen sigw -> ct < 2 ^ 64 ->
  exists st0 st1 st2 sigc st3,
    shake256_absorb kinit mu CRHBYTES = Ok st0 /\ shake256_absorb st0 sigw n = Ok st1 /\
    shake256_finalize st1 = Ok st2 /\ shake256_squeeze sigw ct st2 = Ok (sigc, st3) /\
    zlen sigc = zlen sigw /\ Forall is_byte (firstn (Z.to_nat ct) sigc).
Proof.
  intros Lmu Bmu Hn Bn Hct Hct64.
  unfold shake256_absorb, shake256_finalize, shake256_squeeze, CRHBYTES. change SHAKE256_RATE with (Z.of_nat 136).
  destruct (absorb_inv_gen 136 kinit [] mu 64 rate_ok_136 (init_inv 136 ltac:(lia)) ltac:(lia) Bmu) as (st0 & E0 & I0).
  destruct (absorb_inv_gen 136 st0 _ sigw n rate_ok_136 I0 Hn Bn) as (st1 & E1 & I1).
  destruct (finalize_inv 136 st1 _ rate_ok_136 I1) as (st2 & E2 & I2).
  destruct (squeeze_inv_gen 136 st2 _ 0 sigw ct rate_ok_136 I2 ltac:(lia) ltac:(lia)) as (st3 & E3 & _).
  eexists st0, st1, st2, _, st3. repeat (split; [eassumption|]).
  cbn [Nat.add skipn].
  set (T := S_shake 136 _ (Z.to_nat ct)).
  assert (LT : length T = Z.to_nat ct) by (apply S_shake_length_bytes; lia).
  rewrite firstn_all2 by lia. split.
  - rewrite PHint.zlen_app, zlen_skipn by lia. unfold zlen at 1. rewrite LT. lia.
  - rewrite PHint.firstn_app_exact by lia. apply S_shake_bytes.
Qed.

(** ** pack_sig: z coefficients that passed the norm check are in the codec's range; at most OMEGA hint
       positions, so the running index stays inside the OMEGA-byte area and fits a byte *)
Lemma foldM_total {A S} (I : S -> Prop) (f : S -> A -> res S) l :
  (forall s x, In x l -> I s -> exists s', f s x = Ok s' /\ I s') ->
  forall s, I s -> exists s', foldM f l s = Ok s' /\ I s'.
Proof.
  induction l as [|x l IH]; intros Hf s Hs; cbn [foldM]; [eauto|].
  destruct (Hf s x (or_introl eq_refl) Hs) as (s1 & E1 & I1). rewrite E1; cbn [bind].
  apply IH; [|exact I1]. intros s' y Hy. apply Hf. right. exact Hy.
Qed.

Lemma splice_total {A} (l : list A) off src : 0 <= off -> off + zlen src <= zlen l ->
  exists r, splice l off src = Ok r /\ zlen r = zlen l.
Proof.
  intros H0 H1. rewrite splice_ok by assumption. eexists. split; [reflexivity|].
  pose proof (PHint.zlen_nonneg src) as Hs.
  rewrite !PHint.zlen_app, zlen_skipn by lia. rewrite zlen_firstn by lia. lia.
Qed.

Lemma z_pack_bytes_total g1 a : g1 = 131072 \/ g1 = 524288 -> zrng g1 a ->
  exists b, z_pack_bytes g1 a = Ok b /\ zlen b = (if g1 =? 131072 then 576 else 640).
Proof.
  intros [-> | ->] (La & Fa); cbn [Z.eqb Pos.eqb].
  - destruct (z17_pack_spec a Fa La) as (E & L). eexists. split; [exact E|]. unfold zlen. rewrite L. reflexivity.
  - destruct (z19_pack_spec a Fa La) as (E & L). eexists. split; [exact E|]. unfold zlen. rewrite L. reflexivity.
Qed.

Lemma z_pack_loop_total P sig z : gamma1_ok P -> 0 <= pCT P -> 0 <= pL P ->
  vec (pL P) (zrng (pGAMMA1 P)) z -> pCT P + pL P * pPOLYZ P <= zlen sig ->
  exists sig1, foldM (fun sig i => do a <- get z i; do b <- z_pack_bytes (pGAMMA1 P) a;
                                   splice sig (pCT P + i * pPOLYZ P) b) (zrange 0 (pL P)) sig = Ok sig1 /\
               zlen sig1 = zlen sig.
Proof.
  intros Hg HC HL (Lz & Fz) Hs.
  assert (HZ : 0 <= pPOLYZ P) by (unfold pPOLYZ; destruct (pGAMMA1 P =? 131072); lia).
  apply (foldM_total (fun s => zlen s = zlen sig)); [|reflexivity].
  intros s i Hi Ls. apply zrange_In in Hi.
  destruct (get_total (zrng (pGAMMA1 P)) z i Fz) as (a & Ea & Ha); [unfold zlen; lia|]. rewrite Ea; cbn [bind].
  destruct (z_pack_bytes_total (pGAMMA1 P) a Hg Ha) as (b & Eb & Lb). fold (pPOLYZ P) in Lb. rewrite Eb; cbn [bind].
  destruct (splice_total s (pCT P + i * pPOLYZ P) b) as (r & Er & Lr); [nia | rewrite Lb, Ls; nia |].
  exists r. split; [exact Er | lia].
Qed.

Lemma pack_sig_total P sig z h :
  gamma1_ok P -> 0 <= pCT P -> 0 <= pL P -> 0 <= pK P -> 0 <= pOMEGA P <= 255 ->
  vec (pL P) (zrng (pGAMMA1 P)) z -> vec (pK P) (rng 0 2) h -> hint_weight h <= pOMEGA P ->
  pSIG P <= zlen sig ->
  exists s, pack_sig P sig None z h = Ok s.
Proof.
  intros Hg HC HL HK HO Hz (Lh & Fh) Hw Hs. unfold pSIG in Hs.
  assert (HZ : 0 <= pPOLYZ P) by (unfold pPOLYZ; destruct (pGAMMA1 P =? 131072); lia).
  destruct (z_pack_loop_total P sig z Hg HC HL Hz ltac:(nia)) as (sig1 & E1 & L1).
  rewrite (pack_sig_hint_spec_full P sig None z h sig sig1 eq_refl E1 HO); [eauto | | | | |].
  - unfold hint_off. nia.
  - unfold zlen. lia.
  - eapply Forall_impl; [|exact Fh]. intros r (Lr & _). exact Lr.
  - rewrite hweight_bits; [exact Hw|]. eapply Forall_impl; [|exact Fh]. intros r (_ & Fr). exact Fr.
  - unfold hint_off. lia.
Qed.

(** * 3. One attempt *)

(** numeric side conditions on a parameter set used by the signer *)
Definition sign_pset_ok (P : params) : Prop :=
  dims_ok P /\ pK P <= 8 /\ gamma1_ok P /\ 0 <= pCT P < 2 ^ 64 /\ 0 <= pOMEGA P <= 255 /\ 0 <= pTAU P <= 256 /\
  0 <= pBETA P /\ norm_bounds_ok P /\ pK P * pPOLYW1 P <= pSIG P /\ (pTR P = 32 \/ pTR P = 64) /\ eta_okP P.

Lemma std_sign_pset_ok P : std P -> sign_pset_ok P.
Proof.
  intros [H|[H|[H|[H|[H|H]]]]]; subst P; unfold sign_pset_ok, dims_ok, gamma1_ok, norm_bounds_ok, eta_okP; cbn;
    change (2 ^ 64) with 18446744073709551616; lia.
Qed.

(** what an attempt may return: [Done], or [Retry] with a buffer of unchanged length, or the challenge sampler
    ran out of fuel; never [Panic] *)
Definition att_good (n : Z) (r : res attempt) : Prop :=
  match r with
  | Ok (Done _) => True
  | Ok (Retry _ s) => zlen s = n
  | Panic => False
  | OutOfFuel => True
  end.

Lemma y_total P rhoprime nonce :
  gamma1_ok P -> 0 <= pL P -> 0 <= nonce -> pL P * nonce + pL P <= 65536 ->
  64 <= zlen rhoprime -> Forall is_byte (firstn 64 rhoprime) ->
  exists y, l_uniform_gamma1 P (zvec (pL P)) rhoprime nonce = Ok y /\ vec (pL P) (zrng (pGAMMA1 P)) y.
Proof.
  intros Hg HL Hn0 Hn1 Hr Br.
  pose proof (l_uniform_gamma1_ok' P (zvec (pL P)) rhoprime nonce Hg (zvec_length _) HL Hn0 Hn1 Hr Br) as E.
  eexists. split; [exact E|].
  exact (l_uniform_gamma1_range P (zvec (pL P)) rhoprime nonce _ Hg (zvec_length _) HL Hn0 Hn1 Hr Br E).
Qed.

Lemma chknorm_pass_bnd n v b c : vec n len256 v -> small_coeffs v ->
  vec_chknorm_loop (zrange 0 n) v b = Ok c -> c <= 0 -> vec n (fun a => len256 a /\ Forall (fun x => Z.abs x < b) a) v.
Proof.
  intros (Lv & Fv) Hs E Hc. split; [exact Lv|]. apply Forall_forall. intros a Ha.
  rewrite Forall_forall in Fv. split; [exact (Fv a Ha)|]. apply Forall_forall. intros x Hx.
  exact (vec_chknorm_pass v b n c Hs Lv E Hc a Ha x Hx).
Qed.

Section Attempt.
  Variable P : params.
  Hypothesis HP : sign_pset_ok P.
  Variables (sig mu rhoprime : list Z) (mat : list (list (list Z))) (s1 s2 t0 : list (list Z)) (nonce : Z).
  Hypothesis Hsig : pSIG P <= zlen sig.
  Hypothesis Lmu : 64 <= zlen mu.
  Hypothesis Bmu : Forall is_byte (firstn 64 mu).
  Hypothesis Lrp : 64 <= zlen rhoprime.
  Hypothesis Brp : Forall is_byte (firstn 64 rhoprime).
  Hypothesis Hmat : mat_ok P mat.
  Hypothesis Hs1 : vec (pL P) (bnd (9 * Q)) s1.
  Hypothesis Hs2 : vec (pK P) (bnd (9 * Q)) s2.
  Hypothesis Ht0 : vec (pK P) (bnd (9 * Q)) t0.
  Hypothesis Hn0 : 0 <= nonce.
  Hypothesis Hn1 : pL P * nonce + pL P <= 65536.

  (** Every step with its range:
        y in (-g1, g1];  NTT(y) < 9Q;  A o NTT(y) < 7Q;  reduce < Q;  invntt < Q;  caddq in [0,Q);
        w1 in [0,m), |w0| <= gamma2;  c in {-1,0,1};  NTT(c) < 9Q;  c o s1 : 81 Q^2 < 2^31 Q, result < Q;  invntt < Q;
        + y < Q + g1 + 1;  reduce < Q;  chknorm exact;  c o s2 < Q;  invntt < Q;  w0 - cs2 < gamma2 + 1 + Q;  reduce < Q;
        c o t0 < Q; invntt < Q; reduce < Q;  w0 + ct0 < 2Q;  hint count <= 256 K;  pack_sig with <= OMEGA ones. *)
  Theorem sign_attempt_ranges : att_good (zlen sig) (sign_attempt P sig mu rhoprime mat s1 s2 t0 nonce).
  Proof.
    destruct HP as (HD & HK8 & Hg & HC & HO & HT & HB & (NB1 & NB2 & NB3) & HW1 & _).
    pose proof HD as (HK & HL1 & HL7).
    assert (HG1 : 0 < pGAMMA1 P <= 524288) by (destruct Hg as [E|E]; rewrite E; lia).
    assert (HG2 : 0 < pGAMMA2 P <= 261888) by (unfold pGAMMA2; destruct (pG88 P); lia).
    assert (HQ : Q = 8380417) by reflexivity.
    assert (P31 : 2 ^ 31 = 2147483648) by reflexivity. assert (P22 : 2 ^ 22 = 4194304) by reflexivity.
    assert (Q9 : 9 * Q = Q + 8 * Q) by lia.
    unfold sign_attempt.
    (* y = ExpandMask(rho', nonce) in (-gamma1, gamma1] *)
    destruct (y_total P rhoprime nonce Hg ltac:(lia) Hn0 Hn1 Lrp Brp) as (y & Ey & Hy). rewrite Ey; cbn [bind].
    assert (Hyb : vec (pL P) (bnd (pGAMMA1 P + 1)) y) by (eapply vec_weaken; [|exact Hy]; intros a; apply zrng_bnd; lia).
    (* NTT(y) < 9Q *)
    destruct (l_ntt_total P Q y ltac:(lia)) as (yhat & Eyh & Hyh).
    { eapply vec_weaken; [|exact Hyb]. intros a. apply bnd_weaken. lia. }
    rewrite Eyh; cbn [bind]. rewrite <- Q9 in Hyh.
    (* w = A o yhat < 7Q, reduce, invntt, caddq *)
    destruct (matvec_total P HD mat yhat Hmat Hyh) as (wa & Ewa & Hwa). rewrite Ewa; cbn [bind].
    destruct (k_reduce_total P (7 * Q) wa ltac:(lia) Hwa) as (wb & Ewb & Hwb). rewrite Ewb; cbn [bind].
    destruct (k_invntt_total P wb Hwb) as (wc & Ewc & Hwc). rewrite Ewc; cbn [bind].
    destruct (k_caddq_total P wc Hwc) as (w & Ew & Hw). rewrite Ew; cbn [bind].
    (* decompose *)
    destruct (k_decompose_total P w Hw) as (w1 & w0 & Edec & Hw1 & Hw0). rewrite Edec; cbn [bind].
    (* pack w1 into the signature buffer, hash, squeeze c~ *)
    destruct (k_pack_w1_sig P sig w1 ltac:(lia) Hw1 ltac:(lia)) as (sigw & Esw & Lsw & Bsw). rewrite Esw; cbn [bind].
    assert (HW0 : 0 <= pK P * pPOLYW1 P) by (unfold pPOLYW1; destruct (pG88 P); lia).
    rewrite slice_to_ok by lia. cbn [bind].
    assert (HCS : pCT P <= pSIG P).
    { unfold pSIG. assert (0 <= pPOLYZ P) by (unfold pPOLYZ; destruct (pGAMMA1 P =? 131072); lia). nia. }
    destruct (w1_hash_total mu sigw (pK P * pPOLYW1 P) (pCT P) Lmu Bmu ltac:(lia) Bsw ltac:(lia) ltac:(lia))
      as (st0 & st1 & st2 & sigc & st3 & E0 & E1 & E2 & E3 & Lsc & Bsc).
    rewrite E0; cbn [bind]. rewrite E1; cbn [bind]. rewrite E2; cbn [bind]. rewrite E3; cbn [bind].
    assert (Lsc' : zlen sigc = zlen sig) by lia.
    (* the challenge *)
    destruct (poly_challenge (pTAU P) (pCT P) sigc) as [cp| |] eqn:Ecp; cbn [bind];
      [| exact (poly_challenge_no_panic (pTAU P) (pCT P) sigc HT ltac:(lia) Bsc Ecp) | exact I].
    pose proof (challenge_shape_holds P sigc cp Ecp) as Hcp.
    destruct (ntt_total Q cp ltac:(lia)) as (chat & Ech & Hch); [eapply bnd_weaken; [|exact Hcp]; lia|].
    rewrite Ech; cbn [bind]. rewrite <- Q9 in Hch.
    (* z = invntt(c o s1) + y, reduced *)
    destruct (l_pw_total P (9 * Q) (9 * Q) yhat chat s1 ltac:(lia) ltac:(lia) ltac:(rewrite two31Q; lia)
                (vec_len _ _ _ Hyh) Hch Hs1) as (cs1 & Ecs1 & Hcs1). rewrite Ecs1; cbn [bind].
    destruct (l_invntt_total P cs1 Hcs1) as (cs1i & Ecs1i & Hcs1i). rewrite Ecs1i; cbn [bind].
    destruct (l_add_total P Q (pGAMMA1 P + 1) cs1i y ltac:(lia) Hcs1i Hyb) as (zs & Ezs & Hzs). rewrite Ezs; cbn [bind].
    destruct (l_reduce_total P (Q + (pGAMMA1 P + 1)) zs ltac:(lia) Hzs) as (z & Ez & Hz). rewrite Ez; cbn [bind].
    pose proof (vec_small (pL P) Q z ltac:(lia) Hz) as Sz.
    pose proof (l_chknorm_exact P z (pGAMMA1 P - pBETA P) Sz ltac:(lia) (vec_len _ _ _ Hz) ltac:(lia)) as Ec1.
    rewrite Ec1; cbn [bind].
    set (c1 := if existsb (fun a => existsb (fun x => pGAMMA1 P - pBETA P <=? Z.abs x) a) z then 1 else 0) in *.
    destruct (Z.ltb_spec 0 c1) as [_|Hc1]; [exact Lsc'|].
    assert (Hzr : vec (pL P) (zrng (pGAMMA1 P)) z).
    { unfold l_chknorm in Ec1.
      eapply vec_weaken; [|apply (chknorm_pass_bnd (pL P) z _ c1 (vec_weaken _ _ _ _ (bnd_len256 Q) Hz) Sz Ec1 Hc1)].
      intros a (La & Fa). split; [exact La|]. eapply Forall_impl; [|exact Fa]. cbv beta. intros x Hx. lia. }
    (* w0 - c s2 *)
    destruct (k_pw_total P (9 * Q) (9 * Q) (zvec (pK P)) chat s2 ltac:(lia) ltac:(lia) ltac:(rewrite two31Q; lia)
                (zvec_length _) Hch Hs2) as (cs2 & Ecs2 & Hcs2). rewrite Ecs2; cbn [bind].
    destruct (k_invntt_total P cs2 Hcs2) as (cs2i & Ecs2i & Hcs2i). rewrite Ecs2i; cbn [bind].
    destruct (k_sub_total P (pGAMMA2 P + 1) Q w0 cs2i ltac:(lia) Hw0 Hcs2i) as (w0s & Ew0s & Hw0s). rewrite Ew0s; cbn [bind].
    destruct (k_reduce_total P (pGAMMA2 P + 1 + Q) w0s ltac:(lia) Hw0s) as (w0r & Ew0r & Hw0r). rewrite Ew0r; cbn [bind].
    pose proof (vec_small (pK P) Q w0r ltac:(lia) Hw0r) as Sw0r.
    rewrite (k_chknorm_exact P w0r (pGAMMA2 P - pBETA P) Sw0r ltac:(lia) (vec_len _ _ _ Hw0r) ltac:(lia)); cbn [bind].
    match goal with |- context [0 <? ?c] => destruct (Z.ltb_spec 0 c) as [_|_] end; [exact Lsc'|].
    (* c t0 *)
    destruct (k_pw_total P (9 * Q) (9 * Q) cs2i chat t0 ltac:(lia) ltac:(lia) ltac:(rewrite two31Q; lia)
                (vec_len _ _ _ Hcs2i) Hch Ht0) as (ct0p & Ect0p & Hct0p). rewrite Ect0p; cbn [bind].
    destruct (k_invntt_total P ct0p Hct0p) as (ct0i & Ect0i & Hct0i). rewrite Ect0i; cbn [bind].
    destruct (k_reduce_total P Q ct0i ltac:(lia) Hct0i) as (ct0 & Ect0 & Hct0). rewrite Ect0; cbn [bind].
    pose proof (vec_small (pK P) Q ct0 ltac:(lia) Hct0) as Sct0.
    rewrite (k_chknorm_exact P ct0 (pGAMMA2 P) Sct0 ltac:(lia) (vec_len _ _ _ Hct0) ltac:(lia)); cbn [bind].
    match goal with |- context [0 <? ?c] => destruct (Z.ltb_spec 0 c) as [_|_] end; [exact Lsc'|].
    (* the hint *)
    destruct (k_add_total P Q Q w0r ct0 ltac:(lia) Hw0r Hct0) as (w0h & Ew0h & Hw0h). rewrite Ew0h; cbn [bind].
    destruct (k_make_hint_total P ct0 w0h w1 ltac:(lia) (vec_len _ _ _ Hct0)
                (vec_weaken _ _ _ _ (bnd_len256 _) Hw0h) (vec_weaken _ _ _ _ (rng_len256 _ _) Hw1))
      as (h & n & Eh & Hh & Bn).
    rewrite Eh; cbn [bind].
    destruct (Z.ltb_spec (pOMEGA P) n) as [_|Hn]; [exact Lsc'|].
    destruct (k_make_hint_inv P ct0 w0h w1 h n (vec_len _ _ _ Hct0) Eh) as (_ & _ & Enw & _).
    destruct (pack_sig_total P sigc z h Hg ltac:(lia) ltac:(lia) ltac:(lia) HO Hzr Hh ltac:(lia) ltac:(lia)) as (s & Es).
    rewrite Es; cbn [bind]. exact I.
  Qed.

  Corollary sign_attempt_no_panic : sign_attempt P sig mu rhoprime mat s1 s2 t0 nonce <> Panic.
  Proof. pose proof sign_attempt_ranges as H. intros E. rewrite E in H. exact H. Qed.
End Attempt.

(** * 4. The rejection loop: the nonce is a u16 incremented once per retry, and multiplied by L inside ExpandMask
      (nonce_i = L * nonce + i, checked u16 arithmetic).  Neither overflows as long as L * (number of attempts) <= 2^16:
      16384 attempts for L = 4, 13107 for L = 5, 9362 for L = 7.  The bound is sharp for the multiplication:
      see [nonce_edge] (attempt number 9363 of the L = 7 sets panics in a checked build, wraps in a release build). *)
Definition fuel_ok (P : params) (fuel : nat) : Prop := pL P * Z.of_nat fuel <= 65536 /\ Z.of_nat fuel <= 65535.

Lemma fuel_ok_9000 P fuel : dims_ok P -> Z.of_nat fuel <= 9000 -> fuel_ok P fuel.
Proof. intros (_ & HL1 & HL7) Hf. unfold fuel_ok. nia. Qed.

Example nonce_edge : (do m <- u16_mul 7 9361; u16_add m 6) = Ok 65533 /\ (do m <- u16_mul 7 9362; u16_add m 2) = Panic.
Proof. vm_compute. split; reflexivity. Qed.

Section Loop.
  Variable P : params.
  Hypothesis HP : sign_pset_ok P.
  Variables (mu rhoprime : list Z) (mat : list (list (list Z))) (s1 s2 t0 : list (list Z)).
  Hypothesis Lmu : 64 <= zlen mu.
  Hypothesis Bmu : Forall is_byte (firstn 64 mu).
  Hypothesis Lrp : 64 <= zlen rhoprime.
  Hypothesis Brp : Forall is_byte (firstn 64 rhoprime).
  Hypothesis Hmat : mat_ok P mat.
  Hypothesis Hs1 : vec (pL P) (bnd (9 * Q)) s1.
  Hypothesis Hs2 : vec (pK P) (bnd (9 * Q)) s2.
  Hypothesis Ht0 : vec (pK P) (bnd (9 * Q)) t0.

  Theorem sign_loop_no_panic : forall fuel sig nonce trace,
    pSIG P <= zlen sig -> 0 <= nonce ->
    pL P * (nonce + Z.of_nat fuel) <= 65536 -> nonce + Z.of_nat fuel <= 65535 ->
    sign_loop P fuel sig mu rhoprime mat s1 s2 t0 nonce trace <> Panic.
  Proof.
    induction fuel as [|f IH]; intros sig nonce trace Hsig Hn0 Hn Hn'; cbn [sign_loop]; [discriminate|].
    assert (HL : 1 <= pL P <= 7) by (apply HP).
    assert (Hn1 : pL P * nonce + pL P <= 65536) by nia.
    pose proof (sign_attempt_ranges P HP sig mu rhoprime mat s1 s2 t0 nonce Hsig Lmu Bmu Lrp Brp Hmat Hs1 Hs2 Ht0 Hn0 Hn1) as G.
    destruct (sign_attempt P sig mu rhoprime mat s1 s2 t0 nonce) as [[s|cause sig']| |]; cbn [bind att_good] in *;
      [discriminate | | contradiction | discriminate].
    unfold u16_add. rewrite chk_u_ok by (change (2 ^ 16) with 65536; lia). cbn [bind].
    apply IH; lia.
  Qed.

  (** the same, as a positive statement *)
  Corollary sign_loop_total fuel sig : pSIG P <= zlen sig -> fuel_ok P fuel ->
    (exists s trace, sign_loop P fuel sig mu rhoprime mat s1 s2 t0 0 [] = Ok (s, trace)) \/
    sign_loop P fuel sig mu rhoprime mat s1 s2 t0 0 [] = OutOfFuel.
  Proof.
    intros Hsig (Hf & Hf'). pose proof (sign_loop_no_panic fuel sig 0 [] Hsig ltac:(lia) Hf ltac:(lia)) as H.
    destruct (sign_loop P fuel sig mu rhoprime mat s1 s2 t0 0 []) as [[s tr]| |]; [left; eauto | contradiction | right; reflexivity].
  Qed.
End Loop.

(** * 5. Setup *)

(** decoding ANY byte string of the right length as a secret key gives small polynomials:
    s1, s2 in [eta - 7, eta] (eta = 2) resp. [eta - 15, eta] (eta = 4), t0 in (-2^12, 2^12] *)
Lemma sign_prepare_total P msg sk :
  sign_pset_ok P -> Forall is_byte sk -> zlen sk = pSK P -> Forall is_byte msg ->
  exists rho tr key t0 s1 s2 mu,
    sign_prepare P msg sk = Ok (rho, tr, key, t0, s1, s2, mu) /\
    (Forall is_byte rho /\ zlen rho = 32) /\ (Forall is_byte key /\ zlen key = 32) /\
    (Forall is_byte mu /\ zlen mu = 64) /\
    vec (pL P) (bnd 16) s1 /\ vec (pK P) (bnd 16) s2 /\ vec (pK P) (bnd 4097) t0.
Proof.
  intros (HD & HK8 & Hg & HC & HO & HT & HB & _ & _ & HTR & HE) Bsk Lsk Bmsg.
  pose proof HD as (HK & HL1 & HL7).
  assert (HTR0 : 0 <= pTR P) by lia.
  unfold sign_prepare.
  rewrite (unpack_sk_spec P _ _ _ _ _ _ sk ltac:(lia) ltac:(lia) HE HTR0 Bsk ltac:(lia));
    try (rewrite zlen_repeatZ by lia; reflexivity); try (unfold zlen; rewrite zvec_length; lia).
  destruct (S_skDecode (pETA P) (pK P) (pL P) (pTR P) sk) as [[[[[rho key] tr] s1] s2] t0] eqn:ED.
  cbn [bind].
  destruct (S_skDecode_range (pETA P) (pK P) (pL P) (pTR P) sk rho key tr s1 s2 t0 HE ltac:(lia) ltac:(lia) HTR0 Bsk)
    as ((Lrho & Lkey & Ltr) & (Brho & Bkey & Btr) & (Ls1 & Ls2 & Lt0) & F1 & F2 & F0).
  { rewrite Lsk. unfold pSK, pPOLYETA, eta_bytes, SEEDBYTES, POLYT0. nia. }
  { exact ED. }
  destruct (hash_total [firstn (Z.to_nat (pTR P)) tr; msg] CRHBYTES) as (mu & Emu & Bmu & Lmu).
  { repeat constructor; [apply Forall_firstn'; exact Btr | exact Bmsg]. }
  { unfold CRHBYTES. change (2 ^ 64) with 18446744073709551616. lia. }
  rewrite Emu; cbn [bind]. exists rho, tr, key, t0, s1, s2, mu. split; [reflexivity|].
  split; [split; assumption|]. split; [split; assumption|]. split; [split; assumption|].
  assert (Heta : forall a, polyOK (eta_drng (pETA P)) a -> bnd 16 a).
  { intros a (La & Fa). split; [exact La|]. eapply Forall_impl; [|exact Fa]. cbv beta. unfold eta_drng.
    intros x Hx. destruct HE as [E|E]; rewrite E in Hx; cbn in Hx; lia. }
  split; [|split].
  - split; [unfold zlen in Ls1; lia|]. eapply Forall_impl; [exact Heta | exact F1].
  - split; [unfold zlen in Ls2; lia|]. eapply Forall_impl; [exact Heta | exact F2].
  - split; [unfold zlen in Lt0; lia|]. eapply Forall_impl; [|exact F0].
    intros a (La & Fa). split; [exact La|]. eapply Forall_impl; [|exact Fa]. cbv beta. unfold t0_rng. intros x Hx. lia.
Qed.

Lemma sign_rhoprime_total P key mu r :
  Forall is_byte key -> zlen key = 32 -> Forall is_byte mu -> zlen mu = 64 ->
  match r with Some x => Forall is_byte x /\ zlen x = rand_bytes P | None => True end ->
  exists rp, sign_rhoprime P key mu r = Ok rp /\ Forall is_byte rp /\ zlen rp = 64.
Proof.
  intros Bk Lk Bm Lm Hr. unfold sign_rhoprime, rand_bytes in *. destruct (pMLDSA P).
  - apply hash_total; [|unfold CRHBYTES; change (2 ^ 64) with 18446744073709551616; lia].
    repeat constructor; try assumption. destruct r as [x|]; [apply Hr|].
    unfold repeatZ. apply Forall_repeat. unfold is_byte. lia.
  - destruct r as [x|]; [exists x; unfold CRHBYTES in Hr; tauto|].
    replace (SEEDBYTES + CRHBYTES) with (zlen (key ++ mu)) by (rewrite PHint.zlen_app, Lk, Lm; reflexivity).
    unfold CRHBYTES. rewrite shake256_ok; [| apply Forall_app; split; assumption | change (2 ^ 64) with 18446744073709551616; lia].
    eexists. split; [reflexivity|]. split; [apply S_shake_bytes|].
    unfold zlen. rewrite (proj1 (S_shake_length_bytes 136 _ _ ltac:(lia))). reflexivity.
Qed.

Theorem sign_finish_no_panic P fuel sig rho key t0 s1 s2 mu r :
  sign_pset_ok P -> pSIG P <= zlen sig -> fuel_ok P fuel ->
  Forall is_byte rho -> zlen rho = 32 -> Forall is_byte key -> zlen key = 32 -> Forall is_byte mu -> zlen mu = 64 ->
  vec (pL P) (bnd 16) s1 -> vec (pK P) (bnd 16) s2 -> vec (pK P) (bnd 4097) t0 ->
  match r with Some x => Forall is_byte x /\ zlen x = rand_bytes P | None => True end ->
  sign_finish P fuel sig rho key t0 s1 s2 mu r <> Panic.
Proof.
  intros HP Hsig (Hf & Hf') Brho Lrho Bkey Lkey Bmu Lmu Hs1 Hs2 Ht0 Hr.
  pose proof HP as (HD & HK8 & _). pose proof HD as (HK & HL1 & HL7).
  assert (HQ : Q = 8380417) by reflexivity. assert (P31 : 2 ^ 31 = 2147483648) by reflexivity.
  unfold sign_finish.
  destruct (sign_rhoprime_total P key mu r Bkey Lkey Bmu Lmu Hr) as (rp & Erp & Brp & Lrp). rewrite Erp; cbn [bind].
  destruct (matrix_expand P (zmat (pK P) (pL P)) rho) as [mat| |] eqn:Emat; cbn [bind];
    [| intros _; exact (matrix_expand_no_panic P rho ltac:(lia) ltac:(lia) ltac:(lia) (Forall_firstn' _ _ _ Brho) Emat) | discriminate].
  pose proof (expand_shape_holds P rho mat Emat) as Hmat.
  destruct (l_ntt_total P 16 s1 ltac:(lia) Hs1) as (s1h & E1 & H1). rewrite E1; cbn [bind].
  destruct (k_ntt_total P 16 s2 ltac:(lia) Hs2) as (s2h & E2 & H2). rewrite E2; cbn [bind].
  destruct (k_ntt_total P 4097 t0 ltac:(lia) Ht0) as (t0h & E0 & H0). rewrite E0; cbn [bind].
  apply (sign_loop_no_panic P HP mu rp mat s1h s2h t0h); try lia; try exact Hf.
  - apply Forall_firstn'. exact Bmu.
  - apply Forall_firstn'. exact Brp.
  - exact Hmat.
  - eapply vec_weaken; [|exact H1]. intros a. apply bnd_weaken. lia.
  - eapply vec_weaken; [|exact H2]. intros a. apply bnd_weaken. lia.
  - eapply vec_weaken; [|exact H0]. intros a. apply bnd_weaken. lia.
Qed.

(** * 6. Main theorems *)

(** what is asked of the random tape: only when the randomized variant is requested, the bytes that will be drawn
    (32 for ML-DSA: rnd; 64 for Dilithium: rho' itself) exist and are bytes *)
Definition tape_ok (P : params) (rand : bool) (tape : list Z) : Prop :=
  rand = true -> rand_bytes P <= zlen tape /\ Forall is_byte (firstn (Z.to_nat (rand_bytes P)) tape).

Lemma sign_draw_total P rand tape : tape_ok P rand tape ->
  exists r tape', sign_draw P rand tape = Ok (r, tape') /\
    match r with Some x => Forall is_byte x /\ zlen x = rand_bytes P | None => True end.
Proof.
  intros Ht. unfold sign_draw. destruct rand; [|exists None, tape; auto].
  destruct (Ht eq_refl) as (Hl & Hb). unfold draw.
  assert (H0 : 0 <= rand_bytes P) by (destruct (rand_bytes_cases P) as [E|E]; rewrite E; lia).
  destruct (Z.ltb_spec (zlen tape) (rand_bytes P)) as [?|_]; [lia|]. cbn [bind].
  eexists (Some _), _. split; [reflexivity|]. split; [exact Hb | apply zlen_firstn; lia].
Qed.

(** prepare, draw, finish: the three phases of [signature_trace_unfold] *)
Lemma sign_phases P fuel sig msg sk rand tape :
  std P -> Forall is_byte sk -> zlen sk = pSK P -> Forall is_byte msg -> pSIG P <= zlen sig ->
  tape_ok P rand tape -> fuel_ok P fuel ->
  exists rho tr key t0 s1 s2 mu r tape',
    sign_prepare P msg sk = Ok (rho, tr, key, t0, s1, s2, mu) /\
    sign_draw P rand tape = Ok (r, tape') /\
    sign_finish P fuel sig rho key t0 s1 s2 mu r <> Panic.
Proof.
  intros HS Bsk Lsk Bmsg Hsig Ht Hf. pose proof (std_sign_pset_ok P HS) as HP.
  destruct (sign_prepare_total P msg sk HP Bsk Lsk Bmsg)
    as (rho & tr & key & t0 & s1 & s2 & mu & Ep & (Brho & Lrho) & (Bkey & Lkey) & (Bmu & Lmu) & H1 & H2 & H0).
  destruct (sign_draw_total P rand tape Ht) as (r & tape' & Ed & Hr).
  exists rho, tr, key, t0, s1, s2, mu, r, tape'. split; [exact Ep|]. split; [exact Ed|].
  apply sign_finish_no_panic; assumption.
Qed.

(** signing with fuel for at most 2^16 / L attempts (the model's [signature] uses 1000) never panics *)
Theorem signature_trace_no_panic P fuel sig msg sk rand tape :
  std P -> Forall is_byte sk -> zlen sk = pSK P -> Forall is_byte msg -> pSIG P <= zlen sig ->
  tape_ok P rand tape -> fuel_ok P fuel ->
  signature_trace P fuel sig msg sk rand tape <> Panic.
Proof.
  intros HS Bsk Lsk Bmsg Hsig Ht Hf.
  destruct (sign_phases P fuel sig msg sk rand tape HS Bsk Lsk Bmsg Hsig Ht Hf)
    as (rho & tr & key & t0 & s1 & s2 & mu & r & tape' & Ep & Ed & Hfin).
  rewrite signature_trace_unfold, Ep. cbn [bind]. rewrite Ed. cbn [bind].
  destruct (sign_finish P fuel sig rho key t0 s1 s2 mu r) as [[s trace]| |]; cbn [bind]; [discriminate | exfalso; exact (Hfin eq_refl) | discriminate].
Qed.

Theorem signature_no_panic_gen P sig msg sk rand tape :
  std P -> Forall is_byte sk -> zlen sk = pSK P -> Forall is_byte msg -> pSIG P <= zlen sig ->
  tape_ok P rand tape ->
  signature P sig msg sk rand tape <> Panic.
Proof.
  intros HS Bsk Lsk Bmsg Hsig Ht.
  destruct (sign_phases P SIGN_FUEL sig msg sk rand tape HS Bsk Lsk Bmsg Hsig Ht
              (fuel_ok_9000 P SIGN_FUEL (proj1 (std_sign_pset_ok P HS)) ltac:(change (Z.of_nat SIGN_FUEL) with 1000; lia)))
    as (rho & tr & key & t0 & s1 & s2 & mu & r & tape' & Ep & Ed & Hfin).
  rewrite signature_unfold, Ep. cbn [bind]. rewrite Ed. cbn [bind].
  destruct (sign_finish P SIGN_FUEL sig rho key t0 s1 s2 mu r) as [[s trace]| |]; cbn [bind]; [discriminate | exfalso; exact (Hfin eq_refl) | discriminate].
Qed.

(** the statement as requested: any secret-key bytes of the right length, any message bytes, any mode, a byte
    tape of at least 64 bytes, a signature buffer of at least SIG bytes *)
Theorem signature_no_panic P sig msg sk rand tape :
  std P -> Forall is_byte sk -> zlen sk = pSK P -> Forall is_byte msg -> pSIG P <= zlen sig ->
  Forall is_byte tape -> 64 <= zlen tape ->
  signature P sig msg sk rand tape <> Panic.
Proof.
  intros HS Bsk Lsk Bmsg Hsig Bt Lt. apply signature_no_panic_gen; try assumption.
  intros _. split; [destruct (rand_bytes_cases P) as [E|E]; rewrite E; lia | apply Forall_firstn'; exact Bt].
Qed.

(** the deterministic variant needs no tape at all *)
Corollary signature_deterministic_no_panic P sig msg sk tape :
  std P -> Forall is_byte sk -> zlen sk = pSK P -> Forall is_byte msg -> pSIG P <= zlen sig ->
  signature P sig msg sk false tape <> Panic.
Proof. intros. apply signature_no_panic_gen; try assumption. intros E. discriminate E. Qed.

Corollary signature_ok_or_fuel P sig msg sk rand tape :
  std P -> Forall is_byte sk -> zlen sk = pSK P -> Forall is_byte msg -> pSIG P <= zlen sig ->
  Forall is_byte tape -> 64 <= zlen tape ->
  (exists s tape', signature P sig msg sk rand tape = Ok (s, tape')) \/ signature P sig msg sk rand tape = OutOfFuel.
Proof.
  intros HS Bsk Lsk Bmsg Hsig Bt Lt.
  pose proof (signature_no_panic P sig msg sk rand tape HS Bsk Lsk Bmsg Hsig Bt Lt) as H.
  destruct (signature P sig msg sk rand tape) as [[s t']| |]; [left; eauto | contradiction | right; reflexivity].
Qed.

(** * 7. The API wrappers: the zeroed SIG-byte buffer, the framing bytes, the context-length gate *)
Section ApiSign.
  Variable P : params.
  Hypothesis HS : std P.
  Variables sk msg : list Z.
  Hypothesis Bsk : Forall is_byte sk.
  Hypothesis Lsk : zlen sk = pSK P.

  Lemma sig_buffer_ok : pSIG P <= zlen (repeatZ 0 (pSIG P)).
  Proof.
    rewrite zlen_repeatZ; [lia|].
    destruct HS as [H|[H|[H|[H|[H|H]]]]]; subst P; vm_compute; discriminate.
  Qed.

  Theorem sk_from_bytes_ok : sk_from_bytes P sk = Ok sk.
  Proof. unfold sk_from_bytes. rewrite Lsk, Z.eqb_refl. reflexivity. Qed.

  Theorem dil_sign_no_panic : Forall is_byte msg -> dil_sign P sk msg <> Panic.
  Proof.
    intros Bm. unfold dil_sign.
    pose proof (signature_deterministic_no_panic P (repeatZ 0 (pSIG P)) msg sk [] HS Bsk Lsk Bm sig_buffer_ok) as H.
    destruct (signature P (repeatZ 0 (pSIG P)) msg sk false []) as [[s t]| |]; cbn [bind]; [discriminate | exfalso; exact (H eq_refl) | discriminate].
  Qed.

  Theorem ml_sign_no_panic ctx hedged tape :
    Forall is_byte msg -> ctx_is_bytes ctx -> tape_ok P hedged tape -> ml_sign P sk msg ctx hedged tape <> Panic.
  Proof.
    intros Bm Bc Ht. unfold ml_sign. destruct (ctx_too_long ctx); [discriminate|].
    pose proof (signature_no_panic_gen P (repeatZ 0 (pSIG P)) (frame_pure ctx msg) sk hedged tape HS Bsk Lsk
                  (frame_pure_bytes ctx msg Bc Bm) sig_buffer_ok Ht) as H.
    destruct (signature P (repeatZ 0 (pSIG P)) (frame_pure ctx msg) sk hedged tape) as [[s t]| |]; cbn [bind];
      [discriminate | exfalso; exact (H eq_refl) | discriminate].
  Qed.

  (** pre-hash variants: the message need not even be bytes, only its digest enters the framing *)
  Theorem ml_prehash_sign_no_panic ctx hedged ph tape :
    ctx_is_bytes ctx -> tape_ok P hedged tape -> ml_prehash_sign P sk msg ctx hedged ph tape <> Panic.
  Proof.
    intros Bc Ht. unfold ml_prehash_sign. destruct (ctx_too_long ctx); [discriminate|].
    pose proof (signature_no_panic_gen P (repeatZ 0 (pSIG P)) (frame_hash ph ctx msg) sk hedged tape HS Bsk Lsk
                  (frame_hash_bytes ph ctx msg Bc) sig_buffer_ok Ht) as H.
    destruct (signature P (repeatZ 0 (pSIG P)) (frame_hash ph ctx msg) sk hedged tape) as [[s t]| |]; cbn [bind];
      [discriminate | exfalso; exact (H eq_refl) | discriminate].
  Qed.
End ApiSign.

Print Assumptions sign_attempt_ranges.
Print Assumptions sign_attempt_no_panic.
Print Assumptions sign_loop_no_panic.
Print Assumptions sign_prepare_total.
Print Assumptions sign_finish_no_panic.
Print Assumptions signature_trace_no_panic.
Print Assumptions signature_no_panic_gen.
Print Assumptions signature_no_panic.
Print Assumptions signature_ok_or_fuel.
Print Assumptions dil_sign_no_panic.
Print Assumptions ml_sign_no_panic.
Print Assumptions ml_prehash_sign_no_panic.
