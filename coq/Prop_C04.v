(** C04 — Key generation is the specification's function of the seed.
    Only property theorems here, closed by [exact] of lemmas proved in PTape.v / PBridge.v / PContainer.v.
    PROVED so far (names say _partial where the full property needs more): unseeded generation is exactly the seeded
    function of the 32 bytes drawn; the outcome does not depend on the output buffers; the secret vectors are the
    specification's ExpandS of rho' (RejBoundedPoly of SHAKE256(rho' || nonce), nonces 0..l-1 and l..l+k-1, within
    +-eta) and the matrix is ExpandA of rho (RejNTTPoly of SHAKE128(rho || j || i)); the key sizes are the standard's.
    NOT yet a Coq theorem: the identification of t = A s1 + s2 computed in the NTT domain with the ring expression and
    the byte-level equality with pkEncode/skEncode of the specification's (rho, K, tr, s1, s2, t0, t1); that part is
    decided by executing model, crate and an independent KeyGen on thousands of seeds (see evidence). *)
From DV Require Import Base MReduce MParams MPoly MPolyvec MSign MApi PSample PBridge PTape PContainer.

Theorem C04_unseeded_is_seeded_of_drawn_bytes : forall (P : params) (pk sk tape : list Z),
  keypair P pk sk None tape =
  (if zlen tape <? 32 then Panic else keypair P pk sk (Some (firstn 32 tape)) (skipn 32 tape)).
Proof. exact keypair_unseeded_eq. Qed.
Print Assumptions C04_unseeded_is_seeded_of_drawn_bytes.

Theorem C04_function_of_seed_only :
  forall (P : params) (pk1 pk2 sk1 sk2 : list Z) (seed : option (list Z)) (tape : list Z),
  std P -> zlen pk1 = pPK P -> zlen pk2 = pPK P -> zlen sk1 = pSK P -> zlen sk2 = pSK P ->
  keypair P pk1 sk1 seed tape = keypair P pk2 sk2 seed tape.
Proof. exact keypair_buffers_irrelevant_std. Qed.
Print Assumptions C04_function_of_seed_only.

Theorem C04_secret_vectors_are_ExpandS_partial :
  forall (P : params) (seed : list Z) (nonce : Z) (v : list (list Z)),
  pETA P = 2 \/ pETA P = 4 -> 0 <= pL P -> 0 <= nonce -> nonce + pL P <= 65535 ->
  64 <= zlen seed -> Forall is_byte (firstn 64 seed) ->
  l_uniform_eta P (zvec (pL P)) seed nonce = Ok v ->
  length v = Z.to_nat (pL P) /\
  forall (i : nat) (p : list Z), nth_error v i = Some p ->
    rej_stream_poly (S_rej_bounded_stream (pETA P)) (SKeccak.S_shake 136 (xof_in 64 seed (nonce + Z.of_nat i))) 136 1 (1 + SAMPLER_FUEL) p /\
    length p = 256%nat /\ Forall (fun x => - pETA P <= x <= pETA P) p.
Proof. exact l_uniform_eta_ok. Qed.
Print Assumptions C04_secret_vectors_are_ExpandS_partial.

Theorem C04_matrix_is_ExpandA_partial : forall (P : params) (rho : list Z) (mat : list (list (list Z))),
  0 <= pK P <= 256 -> 0 <= pL P <= 256 -> 32 <= zlen rho -> Forall is_byte (firstn 32 rho) ->
  matrix_expand P (zmat (pK P) (pL P)) rho = Ok mat ->
  length mat = Z.to_nat (pK P) /\
  forall (i : nat) (row : list (list Z)), nth_error mat i = Some row ->
    length row = Z.to_nat (pL P) /\
    forall (j : nat) (p : list Z), nth_error row j = Some p ->
      rej_stream_poly S_rej_ntt_stream (SKeccak.S_shake 168 (firstn 32 rho ++ [Z.of_nat j; Z.of_nat i])) 168 5 (5 + SAMPLER_FUEL) p /\
      length p = 256%nat /\ Forall (fun x => 0 <= x < Q) p.
Proof. exact expandA_ok. Qed.
Print Assumptions C04_matrix_is_ExpandA_partial.

Theorem C04_standard_sizes :
  (pSK P_lvl2, pPK P_lvl2, pSIG P_lvl2) = (2528, 1312, 2420) /\
  (pSK P_lvl3, pPK P_lvl3, pSIG P_lvl3) = (4000, 1952, 3293) /\
  (pSK P_lvl5, pPK P_lvl5, pSIG P_lvl5) = (4864, 2592, 4595) /\
  (pSK P_ml44, pPK P_ml44, pSIG P_ml44) = (2560, 1312, 2420) /\
  (pSK P_ml65, pPK P_ml65, pSIG P_ml65) = (4032, 1952, 3309) /\
  (pSK P_ml87, pPK P_ml87, pSIG P_ml87) = (4896, 2592, 4627).
Proof. exact container_sizes. Qed.
Print Assumptions C04_standard_sizes.
