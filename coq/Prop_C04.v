(** C04 — Key generation is the specification's function of the seed.
    Only property theorems here, closed by [exact] of lemmas proved in PKeygen.v / PRing.v / PTape.v / PBridge.v.
    [S_keygen P xi pk sk] (PKeygen.v) transcribes Dilithium 3.1 KeyGen / FIPS 204 ML-DSA.KeyGen_internal:
      (rho, rho', K) = H(xi [|| k || l for ML-DSA], 128);  A^ = ExpandA(rho) (RejNTTPoly of SHAKE128(rho || j || i));
      (s1, s2) = ExpandS(rho') (RejBoundedPoly of SHAKE256(rho' || nonce));  t in [0,q)^256 with NTT(t - s2) = A^ o NTT(s1);
      (t1, t0) = Power2Round(t);  pk = pkEncode(rho, t1);  tr = H(pk);  sk = skEncode(rho, K, tr, s1, s2, t0),
    NTT being evaluation at the roots 1753^(2 brv8(i)+1) (injective mod q: PRing.ntt_inj), the samplers relational because
    their termination is not provable (bounded by the model's block budget). PROVED for the six parameter sets and EVERY
    32-byte seed: whenever key generation returns, it returns exactly the specification's key pair with the standard sizes and
    draws nothing; the specification defines a function of the seed; unseeded generation is that function of the 32 bytes
    drawn; key generation never panics (no overflow / out-of-bounds). *)
From DV Require Import Base MReduce MParams MPoly MPolyvec MSign MApi PSample PBridge PTape PContainer PRing PKeygen PBuffers.

Theorem C04_keygen_is_the_specification : forall (P : params) (xi pk0 sk0 tape pk sk tape' : list Z),
  std P -> Forall is_byte xi -> zlen xi = 32 -> zlen pk0 = pPK P -> zlen sk0 = pSK P ->
  keypair P pk0 sk0 (Some xi) tape = Ok (pk, sk, tape') ->
  S_keygen P xi pk sk /\ zlen pk = pPK P /\ zlen sk = pSK P /\ tape' = tape.
Proof. exact keygen_spec. Qed.
Print Assumptions C04_keygen_is_the_specification.

Theorem C04_specification_is_a_function_of_the_seed : forall (P : params) (xi pk sk pk' sk' : list Z),
  S_keygen P xi pk sk -> S_keygen P xi pk' sk' -> pk = pk' /\ sk = sk'.
Proof. exact S_keygen_functional. Qed.
Print Assumptions C04_specification_is_a_function_of_the_seed.

Theorem C04_unseeded_is_the_specification_of_the_drawn_seed : forall (P : params) (pk0 sk0 tape pk sk tape' : list Z),
  std P -> Forall is_byte (firstn 32 tape) -> zlen pk0 = pPK P -> zlen sk0 = pSK P ->
  keypair P pk0 sk0 None tape = Ok (pk, sk, tape') ->
  S_keygen P (firstn 32 tape) pk sk /\ zlen pk = pPK P /\ zlen sk = pSK P /\ tape' = skipn 32 tape.
Proof. exact keygen_spec_unseeded. Qed.
Print Assumptions C04_unseeded_is_the_specification_of_the_drawn_seed.

(** consequences: same rho in both keys, tr = H(pk), and t = A s1 + s2 in Z_q[X]/(X^256+1) with s within +-eta *)
Theorem C04_same_rho_and_tr : forall (P : params) (xi pk sk : list Z), S_keygen P xi pk sk ->
  (firstn 32 pk = firstn 32 (S_seedbuf P xi) /\ firstn 32 sk = firstn 32 (S_seedbuf P xi)) /\
  firstn (Z.to_nat (pTR P)) (skipn 64 sk) = SKeccak.S_shake 136 pk (Z.to_nat (pTR P)).
Proof. intros P xi pk sk H; split; [exact (keygen_same_rho P xi pk sk H) | exact (keygen_tr_is_hash_of_pk P xi pk sk H)]. Qed.
Print Assumptions C04_same_rho_and_tr.

Theorem C04_ring_relation : forall (P : params) (xi pk sk : list Z), std P -> S_keygen P xi pk sk ->
  exists (rho key : list Z) (A Ac : list (list (list Z))) (s1 s2 t : list (list Z)),
    rho = firstn 32 (S_seedbuf P xi) /\ S_expandA P rho A /\ Forall2 (Forall2 ntt_of) Ac A /\
    Forall (eta_poly (pETA P)) s1 /\ Forall (eta_poly (pETA P)) s2 /\ Forall (prng 0 Q) t /\
    pk = PKeyCodec.S_pkEncode rho (S_t1 t) /\
    sk = PKeyCodec.S_skEncode (pETA P) rho key (SKeccak.S_shake 136 pk (Z.to_nat (pTR P))) s1 s2 (S_t0 t) /\
    forall (r : nat) (Arow : list (list Z)) (e tr : list Z),
      nth_error Ac r = Some Arow -> nth_error s2 r = Some e -> nth_error t r = Some tr ->
      forall j : nat, (j < 256)%nat -> PNtt.eqm (nth j tr 0) (nth j (ring_dot Arow s1) 0 + nth j e 0).
Proof. exact keygen_ring_relation. Qed.
Print Assumptions C04_ring_relation.

Theorem C04_keygen_never_panics : forall (P : params) (xi pk0 sk0 tape : list Z),
  std P -> Forall is_byte xi -> zlen xi = 32 -> zlen pk0 = pPK P -> zlen sk0 = pSK P ->
  keypair P pk0 sk0 (Some xi) tape <> Panic.
Proof. exact keypair_no_panic. Qed.
Print Assumptions C04_keygen_never_panics.

Theorem C04_unseeded_is_seeded_of_drawn_bytes : forall (P : params) (pk sk tape : list Z),
  keypair P pk sk None tape =
  (if zlen tape <? 32 then Panic else keypair P pk sk (Some (firstn 32 tape)) (skipn 32 tape)).
Proof. exact keypair_unseeded_eq. Qed.
Print Assumptions C04_unseeded_is_seeded_of_drawn_bytes.

Theorem C04_function_of_seed_only :
  forall (P : params) (pk1 pk2 sk1 sk2 : list Z) (seed : option (list Z)) (tape : list Z),
  std P -> zlen pk1 = pPK P -> zlen pk2 = pPK P -> zlen sk1 = pSK P -> zlen sk2 = pSK P ->
  keypair P pk1 sk1 seed tape = keypair P pk2 sk2 seed tape.
Proof. exact keypair_buffers_irrelevant_std. Qed.
Print Assumptions C04_function_of_seed_only.

Theorem C04_secret_vectors_are_ExpandS :
  forall (P : params) (seed : list Z) (nonce : Z) (v : list (list Z)),
  pETA P = 2 \/ pETA P = 4 -> 0 <= pL P -> 0 <= nonce -> nonce + pL P <= 65535 ->
  64 <= zlen seed -> Forall is_byte (firstn 64 seed) ->
  l_uniform_eta P (zvec (pL P)) seed nonce = Ok v ->
  length v = Z.to_nat (pL P) /\
  forall (i : nat) (p : list Z), nth_error v i = Some p ->
    rej_stream_poly (S_rej_bounded_stream (pETA P)) (SKeccak.S_shake 136 (xof_in 64 seed (nonce + Z.of_nat i))) 136 1 (1 + SAMPLER_FUEL) p /\
    length p = 256%nat /\ Forall (fun x => - pETA P <= x <= pETA P) p.
Proof. exact l_uniform_eta_ok. Qed.
Print Assumptions C04_secret_vectors_are_ExpandS.

Theorem C04_matrix_is_ExpandA : forall (P : params) (rho : list Z) (mat : list (list (list Z))),
  0 <= pK P <= 256 -> 0 <= pL P <= 256 -> 32 <= zlen rho -> Forall is_byte (firstn 32 rho) ->
  matrix_expand P (zmat (pK P) (pL P)) rho = Ok mat ->
  length mat = Z.to_nat (pK P) /\
  forall (i : nat) (row : list (list Z)), nth_error mat i = Some row ->
    length row = Z.to_nat (pL P) /\
    forall (j : nat) (p : list Z), nth_error row j = Some p ->
      rej_stream_poly S_rej_ntt_stream (SKeccak.S_shake 168 (firstn 32 rho ++ [Z.of_nat j; Z.of_nat i])) 168 5 (5 + SAMPLER_FUEL) p /\
      length p = 256%nat /\ Forall (fun x => 0 <= x < Q) p.
Proof. exact expandA_ok. Qed.
Print Assumptions C04_matrix_is_ExpandA.

Theorem C04_standard_sizes :
  (pSK P_lvl2, pPK P_lvl2, pSIG P_lvl2) = (2528, 1312, 2420) /\
  (pSK P_lvl3, pPK P_lvl3, pSIG P_lvl3) = (4000, 1952, 3293) /\
  (pSK P_lvl5, pPK P_lvl5, pSIG P_lvl5) = (4864, 2592, 4595) /\
  (pSK P_ml44, pPK P_ml44, pSIG P_ml44) = (2560, 1312, 2420) /\
  (pSK P_ml65, pPK P_ml65, pSIG P_ml65) = (4032, 1952, 3309) /\
  (pSK P_ml87, pPK P_ml87, pSIG P_ml87) = (4896, 2592, 4627).
Proof. exact container_sizes. Qed.
Print Assumptions C04_standard_sizes.

(** ... and for caller buffers LONGER than the standard sizes (the slice API asks for "at least"): the same key pair in the
    standard-size prefix, the excess bytes untouched (so everything above transfers to any admissible buffers) *)
Theorem C04_overlong_buffers :
  forall (P : params) (pk sk : list Z) (seed : option (list Z)) (tape : list Z),
  std P -> pPK P <= zlen pk -> pSK P <= zlen sk ->
  keypair P pk sk seed tape =
  (do '(pk', sk', t) <- keypair P (firstn (Z.to_nat (pPK P)) pk) (firstn (Z.to_nat (pSK P)) sk) seed tape;
   Ok (pk' ++ skipn (Z.to_nat (pPK P)) pk, sk' ++ skipn (Z.to_nat (pSK P)) sk, t)).
Proof. exact keypair_long_buffers. Qed.
Print Assumptions C04_overlong_buffers.
