(** PKeygen: property C04 — seeded key generation returns, byte for byte, the public and the secret key that the
    specification's KeyGen defines (CRYSTALS-Dilithium 3.1, Fig. 4, for P_lvl2/3/5; FIPS 204 Algorithm 6
    ML-DSA.KeyGen_internal for P_ml44/65/87, whose seed expansion hashes xi || K || L).

    1. the specification [S_keygen] (a relation, because the rejection samplers are not provably terminating),
       and [S_keygen_functional]: it determines (pk, sk) as a function of the seed;
    2. the arithmetic chain of the model ([keygen_arith_ok]), using PRing.v: no overflow, and
       NTT(t_r) = sum_j A^[r,j] o NTT(s1_j) + NTT(s2_r) with t in [0,Q), (t1, t0) = Power2Round(t);
    3. the rest of [keypair_core] after the samplers ([keygen_tail_ok]): pkEncode, tr = H(pk), skEncode;
    4. the main theorems [keypair_core_cases] (OutOfFuel or the specification's keys), [keygen_spec],
       [keygen_spec_unseeded], [keypair_no_panic], [keypair_ok_or_fuel];
    5. corollaries on the specification: [keygen_same_rho], [keygen_tr_is_hash_of_pk], [keygen_relation];
    6. the relation in the ring R_q, t = A s1 + s2 with A^ = NTT(A) ([keygen_ring_relation]).

    Where the bound is tight: the output of [invntt_tomont] is only known to lie in (-Q, Q) from the transform
    itself; adding s2 (|s2| <= eta <= 4) and then [caddq] (domain (-Q, Q)) is justified by the sharper
    |w| <= Q/2 + 20969 = SHARP (PRing.invntt_sharp), which comes from the final Montgomery multiplication by F. *)
From Coq Require Import Setoid Morphisms.
From DV Require Import Base Gen MReduce MRounding MParams MKeccak MNtt MPoly MPolyvec MPacking MSign
                       SKeccak PKeccak PSample PPack PPack2 PReduce PNtt PNtt2 PRounding PLift PTape PBridge
                       PKeyCodec PRing.
Local Ltac Zify.zify_post_hook ::= Z.div_mod_to_equations.

(** * 1. Specification *)

(** H(xi || K || L, 128) for ML-DSA (FIPS 204 Alg. 6 line 1), H(xi, 128) for Dilithium 3.1 (Fig. 4 line 02) *)
Definition S_seedbuf (P : params) (xi : list Z) : list Z :=
  S_shake 136 (xi ++ (if pMLDSA P then [pK P; pL P] else [])) 128.

(** RejNTTPoly (Alg. 30) / RejBoundedPoly (Alg. 31) of a seed: the first 256 accepted values of the SHAKE stream.
    They are relations: the stream is read in whole blocks, at least [k0] and at most [k0 + SAMPLER_FUEL] of them
    (the model's loop bound; the standard's loop is unbounded and terminates only with probability 1). *)
Definition S_RejNTTPoly (seed p : list Z) : Prop :=
  rej_stream_poly S_rej_ntt_stream (S_shake 168 seed) 168 5 (5 + SAMPLER_FUEL) p.
Definition S_RejBoundedPoly (eta : Z) (seed p : list Z) : Prop :=
  rej_stream_poly (S_rej_bounded_stream eta) (S_shake 136 seed) 136 1 (1 + SAMPLER_FUEL) p.

(** IntegerToBytes(n, 2) *)
Definition I2B2 (n : Z) : list Z := [n mod 256; (n / 256) mod 256].

(** ExpandA (Alg. 32): A^[r, s] = RejNTTPoly(rho || s || r) *)
Definition S_expandA (P : params) (rho : list Z) (A : list (list (list Z))) : Prop :=
  length A = Z.to_nat (pK P) /\
  forall r row, nth_error A r = Some row ->
    length row = Z.to_nat (pL P) /\
    forall s p, nth_error row s = Some p -> S_RejNTTPoly (rho ++ [Z.of_nat s; Z.of_nat r]) p.

(** ExpandS (Alg. 33): s1[r] = RejBoundedPoly(rho' || r), s2[r] = RejBoundedPoly(rho' || r + l) *)
Definition S_expandS (P : params) (rho' : list Z) (s1 s2 : list (list Z)) : Prop :=
  length s1 = Z.to_nat (pL P) /\ length s2 = Z.to_nat (pK P) /\
  (forall r p, nth_error s1 r = Some p -> S_RejBoundedPoly (pETA P) (rho' ++ I2B2 (Z.of_nat r)) p) /\
  (forall r p, nth_error s2 r = Some p -> S_RejBoundedPoly (pETA P) (rho' ++ I2B2 (pL P + Z.of_nat r)) p).

(** t = NTT^-1(A^ o NTT(s1)) + s2 with coefficients in [0, Q):  NTT(t_r) = sum_j A^[r,j] o NTT(s1_j) + NTT(s2_r) *)
Definition S_t (A : list (list (list Z))) (s1 s2 t : list (list Z)) : Prop :=
  length t = length A /\
  forall r row e tr, nth_error A r = Some row -> nth_error s2 r = Some e -> nth_error t r = Some tr ->
    prng 0 Q tr /\
    forall i, (i < 256)%nat -> eqm (eval tr (root i)) (matrow_ntt row s1 i + eval e (root i)).

(** Power2Round (Alg. 35) coefficient-wise; [S_power2round] returns (r0, r1) *)
Definition S_t1 (t : list (list Z)) : list (list Z) := map (map (fun c => snd (S_power2round c))) t.
Definition S_t0 (t : list (list Z)) : list (list Z) := map (map (fun c => fst (S_power2round c))) t.

Definition S_keygen (P : params) (xi pk sk : list Z) : Prop :=
  exists rho rho' key A s1 s2 t,
    rho = firstn 32 (S_seedbuf P xi) /\
    rho' = firstn 64 (skipn 32 (S_seedbuf P xi)) /\
    key = skipn 96 (S_seedbuf P xi) /\
    S_expandA P rho A /\ S_expandS P rho' s1 s2 /\ S_t A s1 s2 t /\
    pk = S_pkEncode rho (S_t1 t) /\
    sk = S_skEncode (pETA P) rho key (S_shake 136 pk (Z.to_nat (pTR P))) s1 s2 (S_t0 t).

(** ** The specification is functional *)
Lemma rej_stream_poly_unique smp H rate k0 kmax p p' :
  rej_stream_poly smp H rate k0 kmax p -> rej_stream_poly smp H rate k0 kmax p' -> p = p'.
Proof.
  intros (k & Hk & -> & Hl & Hm) (k' & Hk' & -> & Hl' & Hm').
  assert (k = k') as <-; [|reflexivity].
  destruct (Nat.lt_trichotomy k k') as [Hlt|[Heq|Hgt]]; [|exact Heq|].
  - specialize (Hm' k ltac:(lia)). lia.
  - specialize (Hm k' ltac:(lia)). lia.
Qed.

Lemma rej_stream_poly_length smp H rate k0 kmax p : rej_stream_poly smp H rate k0 kmax p -> length p = 256%nat.
Proof. intros (k & _ & -> & Hl & _). rewrite firstn_length. lia. Qed.

Lemma list_eq_nth_error {A} : forall (l1 l2 : list A), length l1 = length l2 ->
  (forall i x y, nth_error l1 i = Some x -> nth_error l2 i = Some y -> x = y) -> l1 = l2.
Proof.
  induction l1 as [|a l1 IH]; intros [|b l2] L H; cbn [length] in L; try lia; [reflexivity|].
  f_equal; [exact (H 0%nat a b eq_refl eq_refl)|].
  apply IH; [lia|]. intros i x y Hx Hy. exact (H (S i) x y Hx Hy).
Qed.

Lemma nth_error_some_lt {A} (l : list A) i : (i < length l)%nat -> exists x, nth_error l i = Some x.
Proof.
  intros H. destruct (nth_error l i) eqn:E; [eauto|]. apply nth_error_None in E. lia.
Qed.

Lemma S_expandA_unique P rho A A' : S_expandA P rho A -> S_expandA P rho A' -> A = A'.
Proof.
  intros [L H] [L' H']. apply list_eq_nth_error; [congruence|].
  intros r row row' Hr Hr'. destruct (H r row Hr) as [Lr Hp]. destruct (H' r row' Hr') as [Lr' Hp'].
  apply list_eq_nth_error; [congruence|].
  intros s p p' Hs Hs'. exact (rej_stream_poly_unique _ _ _ _ _ _ _ (Hp s p Hs) (Hp' s p' Hs')).
Qed.

Lemma S_expandS_unique P rho' s1 s2 s1' s2' :
  S_expandS P rho' s1 s2 -> S_expandS P rho' s1' s2' -> s1 = s1' /\ s2 = s2'.
Proof.
  intros (L1 & L2 & H1 & H2) (L1' & L2' & H1' & H2'). split.
  - apply list_eq_nth_error; [congruence|]. intros r p p' Hp Hp'.
    exact (rej_stream_poly_unique _ _ _ _ _ _ _ (H1 r p Hp) (H1' r p' Hp')).
  - apply list_eq_nth_error; [congruence|]. intros r p p' Hp Hp'.
    exact (rej_stream_poly_unique _ _ _ _ _ _ _ (H2 r p Hp) (H2' r p' Hp')).
Qed.

Lemma S_t_unique A s1 s2 t t' : length s2 = length A -> S_t A s1 s2 t -> S_t A s1 s2 t' -> t = t'.
Proof.
  intros Ls [L H] [L' H']. apply list_eq_nth_error; [congruence|].
  intros r tr tr' Hr Hr'.
  assert (Hlt : (r < length A)%nat) by (rewrite <- L; apply nth_error_Some; congruence).
  destruct (nth_error_some_lt A r Hlt) as (row & Hrow).
  destruct (nth_error_some_lt s2 r ltac:(lia)) as (e & He).
  destruct (H r row e tr Hrow He Hr) as [[Lt Rt] Ct].
  destruct (H' r row e tr' Hrow He Hr') as [[Lt' Rt'] Ct'].
  apply canon_eq; try assumption.
  apply ntt_inj; try assumption.
  intros i Hi. rewrite (Ct i Hi), (Ct' i Hi). reflexivity.
Qed.

Theorem S_keygen_functional P xi pk sk pk' sk' :
  S_keygen P xi pk sk -> S_keygen P xi pk' sk' -> pk = pk' /\ sk = sk'.
Proof.
  intros (rho & rho' & key & A & s1 & s2 & t & -> & -> & -> & HA & HS & HT & -> & ->)
         (rho_ & rho'_ & key_ & A_ & s1_ & s2_ & t_ & -> & -> & -> & HA_ & HS_ & HT_ & -> & ->).
  pose proof (S_expandA_unique _ _ _ _ HA HA_) as <-.
  destruct (S_expandS_unique _ _ _ _ _ _ HS HS_) as [<- <-].
  assert (Ls : length s2 = length A) by (destruct HS as (_ & L2 & _); destruct HA as (LA & _); congruence).
  pose proof (S_t_unique _ _ _ _ _ Ls HT HT_) as <-.
  split; reflexivity.
Qed.

(** * 2. The arithmetic chain *)
Lemma F2_nth_error_l {A B} (R : A -> B -> Prop) l1 l2 i x :
  Forall2 R l1 l2 -> nth_error l1 i = Some x -> exists y, nth_error l2 i = Some y /\ R x y.
Proof.
  intros H. revert i. induction H as [|a b l1 l2 Hab _ IH]; intros [|i] Hx; cbn [nth_error] in *; try discriminate.
  - injection Hx as <-. eauto.
  - apply IH. exact Hx.
Qed.
Lemma F2_nth_error_r {A B} (R : A -> B -> Prop) l1 l2 i y :
  Forall2 R l1 l2 -> nth_error l2 i = Some y -> exists x, nth_error l1 i = Some x /\ R x y.
Proof.
  intros H. revert i. induction H as [|a b l1 l2 Hab _ IH]; intros [|i] Hy; cbn [nth_error] in *; try discriminate.
  - injection Hy as <-. eauto.
  - apply IH. exact Hy.
Qed.

Lemma map2M_rel {A B C} (f : A -> B -> res C) (R : A -> B -> C -> Prop) : forall l1 l2,
  length l1 = length l2 ->
  (forall x y, In x l1 -> In y l2 -> exists z, f x y = Ok z /\ R x y z) ->
  exists r, map2M f l1 l2 = Ok r /\ length r = length l1 /\
    forall i x y z, nth_error l1 i = Some x -> nth_error l2 i = Some y -> nth_error r i = Some z -> R x y z.
Proof.
  induction l1 as [|a l1 IH]; intros [|b l2] L H; cbn [length] in L; try lia.
  - exists []. cbn [map2M]. repeat split; auto. intros [|i] x y z Hx; discriminate.
  - destruct (H a b (or_introl eq_refl) (or_introl eq_refl)) as (c & Ec & Rc).
    destruct (IH l2 ltac:(lia) (fun x y Hx Hy => H x y (or_intror Hx) (or_intror Hy))) as (r & Er & Lr & Hr).
    exists (c :: r). cbn [map2M]. rewrite Ec, Er. cbn [bind length]. repeat split; auto.
    intros [|i] x y z Hx Hy Hz; cbn [nth_error] in *.
    + injection Hx as <-. injection Hy as <-. injection Hz as <-. exact Rc.
    + eapply Hr; eassumption.
Qed.

Lemma eval_sum_congr w : forall c a b, length c = length a -> length a = length b ->
  (forall i, eqm (nth i c 0) (nth i a 0 + nth i b 0)) -> eqm (eval c w) (eval a w + eval b w).
Proof.
  induction c as [|z c IH]; intros [|x a] [|y b] L1 L2 H; cbn [length] in *; try lia.
  - rewrite !eval_nil. reflexivity.
  - rewrite !eval_cons. rewrite (H 0%nat : eqm z (x + y)).
    rewrite (IH a b ltac:(lia) ltac:(lia) (fun i => H (S i))). apply eqm_eq; ring.
Qed.

Lemma power2round_S a : 0 <= a < Q -> power2round a = Ok (S_power2round a).
Proof. intros H. destruct (power2round_ok a H) as (a0 & a1 & E & _ & _ & _ & ES). rewrite E, ES. reflexivity. Qed.

Lemma S_power2round_ranges a : 0 <= a < Q ->
  t1_rng (snd (S_power2round a)) /\ t0_rng (fst (S_power2round a)) /\
  a = snd (S_power2round a) * 2 ^ 13 + fst (S_power2round a).
Proof.
  intros H. destruct (power2round_ok a H) as (a0 & a1 & _ & Ea & B0 & B1 & ES). rewrite <- ES. cbn [fst snd].
  unfold t1_rng, t0_rng. change (2 ^ 12) with 4096 in B0. repeat split; lia.
Qed.

Lemma k_power2round_S P t : length t = Z.to_nat (pK P) -> Forall (prng 0 Q) t ->
  k_power2round P t (zvec (pK P)) = Ok (S_t1 t, S_t0 t).
Proof.
  intros Lt Ht.
  rewrite (k_power2round_coeffs P t (zvec (pK P)) (map (map S_power2round) t)).
  - unfold S_t1, S_t0. rewrite !map_map. f_equal. f_equal.
    + apply map_ext. intros a. rewrite map_map. reflexivity.
    + apply map_ext. intros a. rewrite map_map. reflexivity.
  - exact Lt.
  - apply zvec_shape.
  - apply mapM_ok. intros a Ha. apply mapM_ok. intros c Hc.
    rewrite Forall_forall in Ht. destruct (Ht a Ha) as [_ Fa]. rewrite Forall_forall in Fa.
    apply power2round_S. apply Fa. exact Hc.
Qed.

Lemma S_t1_ok t : Forall (prng 0 Q) t -> Forall (polyOK t1_rng) (S_t1 t).
Proof.
  intros H. unfold S_t1. apply Forall_map_in. intros a Ha. rewrite Forall_forall in H. destruct (H a Ha) as [La Fa].
  split; [rewrite map_length; exact La|]. apply Forall_map_in. intros c Hc. rewrite Forall_forall in Fa.
  apply S_power2round_ranges. apply Fa. exact Hc.
Qed.
Lemma S_t0_ok t : Forall (prng 0 Q) t -> Forall (polyOK t0_rng) (S_t0 t).
Proof.
  intros H. unfold S_t0. apply Forall_map_in. intros a Ha. rewrite Forall_forall in H. destruct (H a Ha) as [La Fa].
  split; [rewrite map_length; exact La|]. apply Forall_map_in. intros c Hc. rewrite Forall_forall in Fa.
  apply S_power2round_ranges. apply Fa. exact Hc.
Qed.

Definition eta_poly (eta : Z) (a : list Z) : Prop := polyOK (eta_rng eta) a.

Lemma eta_poly_pbnd eta a : 0 <= eta <= 4 -> eta_poly eta a -> pbnd 5 a.
Proof.
  intros He [L F]. split; [exact L|]. eapply Forall_impl; [|exact F]. unfold eta_rng. cbn beta. intros; lia.
Qed.

(** one output polynomial: c = w + e stays inside (-Q, Q) thanks to the sharp bound on w *)
Lemma add_caddq_row w e : length w = 256%nat -> Forall (fun x => Z.abs x <= SHARP) w -> pbnd 5 e ->
  exists c, poly_add w e = Ok c /\ pbnd Q c /\ (forall i, nth i c 0 = nth i w 0 + nth i e 0).
Proof.
  intros Lw Bw [Le Be].
  destruct (poly_add_nth (SHARP + 1) 5 ltac:(unfold SHARP; change (2 ^ 31) with 2147483648; lia) w e
              ltac:(congruence)) as (c & E & Lc & Bc & Cc).
  { eapply Forall_impl; [|exact Bw]. cbn beta. intros; lia. }
  { exact Be. }
  exists c. split; [exact E|]. split; [|exact Cc]. split; [congruence|].
  eapply Forall_impl; [|exact Bc]. cbn beta. unfold SHARP, Q. intros; lia.
Qed.

Lemma caddq_row c : pbnd Q c ->
  poly_caddq c = Ok (map (fun x => x mod Q) c) /\ prng 0 Q (map (fun x => x mod Q) c) /\
  forall i, eqm (nth i (map (fun x => x mod Q) c) 0) (nth i c 0).
Proof.
  intros [L B]. split; [|split].
  - apply poly_caddq_exact. rewrite Forall_forall in B. exact B.
  - split; [rewrite map_length; exact L|]. apply Forall_map_in. intros x _. apply Z.mod_pos_bound. unfold Q; lia.
  - intros i. change 0 with (0 mod Q) at 1. rewrite (map_nth (fun x => x mod Q)). apply eqm_mod.
Qed.

Theorem keygen_arith_ok P mat s1 s2 :
  1 <= pL P <= 7 -> 0 <= pETA P <= 4 ->
  length mat = Z.to_nat (pK P) ->
  (forall row, In row mat -> length row = Z.to_nat (pL P) /\ Forall (prng 0 Q) row) ->
  length s1 = Z.to_nat (pL P) -> Forall (eta_poly (pETA P)) s1 ->
  length s2 = Z.to_nat (pK P) -> Forall (eta_poly (pETA P)) s2 ->
  exists s1hat a b w c t,
    l_ntt P s1 = Ok s1hat /\ matrix_pointwise_montgomery P (zvec (pK P)) mat s1hat = Ok a /\
    k_reduce P a = Ok b /\ k_invntt_tomont P b = Ok w /\ k_add P w s2 = Ok c /\ k_caddq P c = Ok t /\
    k_power2round P t (zvec (pK P)) = Ok (S_t1 t, S_t0 t) /\
    S_t mat s1 s2 t /\ length t = Z.to_nat (pK P) /\ Forall (prng 0 Q) t.
Proof.
  intros HL He Lm Hm L1 H1 L2 H2.
  assert (H1Q : Forall (pbnd Q) s1).
  { eapply Forall_impl; [|exact H1]. intros a Ha. apply (pbnd_weaken 5); [unfold Q; lia|].
    exact (eta_poly_pbnd _ _ He Ha). }
  (* forward transform of s1 *)
  destruct (mapM_exists poly_ntt (fun _ _ => True) s1) as (s1hat & E1 & _).
  { intros a Ha. rewrite Forall_forall in H1Q. destruct (poly_ntt_sem a (H1Q a Ha)) as (vh & E & _). eauto. }
  rewrite <- (l_ntt_lift P s1 L1) in E1.
  (* matrix-vector product *)
  destruct (matvec_ntt_ok P (zvec (pK P)) mat s1 s1hat HL (proj1 (zvec_shape (pK P))) Lm Hm L1 H1Q E1)
    as (a & b & w & E2 & E3 & E4 & Hw).
  assert (Lw : length w = Z.to_nat (pK P)) by (rewrite <- (F2_length _ _ _ Hw); exact Lm).
  (* + s2 *)
  destruct (map2M_rel poly_add (fun w e c => pbnd Q c /\ forall i, nth i c 0 = nth i w 0 + nth i e 0) w s2
              ltac:(congruence)) as (c & E5 & Lc & Hc).
  { intros wr e Hwr He'. apply In_nth_error in Hwr as (r & Hr).
    destruct (F2_nth_error_r _ _ _ _ _ Hw Hr) as (row & _ & (Lwr & Bwr & _)).
    rewrite Forall_forall in H2.
    destruct (add_caddq_row wr e Lwr Bwr (eta_poly_pbnd _ _ He (H2 e He'))) as (cr & Ec & Bc & Cc).
    exists cr. auto. }
  rewrite <- (k_add_lift P w s2 Lw L2) in E5.
  (* canonical representative *)
  destruct (mapM_exists poly_caddq (fun c t => pbnd Q c /\ t = map (fun x => x mod Q) c) c) as (t & E6 & Ht).
  { intros cr Hcr. apply In_nth_error in Hcr as (r & Hr).
    assert (Hlt : (r < length w)%nat) by (rewrite <- Lc; apply nth_error_Some; congruence).
    destruct (nth_error_some_lt w r Hlt) as (wr & Hwr).
    destruct (nth_error_some_lt s2 r ltac:(lia)) as (e & He').
    destruct (Hc r wr e cr Hwr He' Hr) as [Bc _].
    exists (map (fun x => x mod Q) cr). split; [apply caddq_row; exact Bc | split; [exact Bc | reflexivity]]. }
  rewrite <- (k_caddq_lift P c ltac:(congruence)) in E6.
  assert (Lt : length t = Z.to_nat (pK P)) by (rewrite <- (F2_length _ _ _ Ht); congruence).
  assert (Ft : Forall (prng 0 Q) t).
  { apply Forall_forall. intros tr Htr. apply In_nth_error in Htr as (r & Hr).
    destruct (F2_nth_error_r _ _ _ _ _ Ht Hr) as (cr & _ & Bc & ->). apply caddq_row. exact Bc. }
  exists s1hat, a, b, w, c, t.
  split; [exact E1|]. split; [exact E2|]. split; [exact E3|]. split; [exact E4|]. split; [exact E5|].
  split; [exact E6|]. split; [apply k_power2round_S; assumption|].
  split; [|split; assumption].
  split; [congruence|].
  intros r row e tr Hrow He' Htr. split.
  - rewrite Forall_forall in Ft. apply Ft. eapply nth_error_In. exact Htr.
  - intros i Hi.
    destruct (F2_nth_error_l _ _ _ _ _ Hw Hrow) as (wr & Hwr & (Lwr & _ & Cw)).
    destruct (F2_nth_error_r _ _ _ _ _ Ht Htr) as (cr & Hcr & Bc & ->).
    destruct (Hc r wr e cr Hwr He' Hcr) as [_ Cc].
    rewrite Forall_forall in H2. destruct (H2 e (nth_error_In _ _ He')) as [Le _].
    rewrite <- (Cw i Hi).
    apply eval_sum_congr.
    + rewrite map_length. destruct Bc as [Lcr _]. congruence.
    + congruence.
    + intros k. rewrite (proj2 (proj2 (caddq_row cr Bc)) k). rewrite Cc. reflexivity.
Qed.

(** * 3. Everything after the samplers *)
Definition keygen_tail (P : params) (pk sk rho key : list Z) (mat : list (list (list Z))) (s1 s2 : list (list Z))
  : res (list Z * list Z) :=
  do s1hat <- l_ntt P s1;
  do t1 <- matrix_pointwise_montgomery P (zvec (pK P)) mat s1hat;
  do t1 <- k_reduce P t1;
  do t1 <- k_invntt_tomont P t1;
  do t1 <- k_add P t1 s2;
  do t1 <- k_caddq P t1;
  do '(t1, t0) <- k_power2round P t1 (zvec (pK P));
  do pk' <- pack_pk P pk rho t1;
  do pkb <- slice_to pk' (pPK P);
  do tr <- shake256 (repeatZ 0 (pTR P)) (pTR P) pk' (pPK P);
  do sk' <- pack_sk P sk rho tr key t0 s1 s2;
  Ok (pk', sk').

Lemma keypair_core_tail P pk sk xi :
  keypair_core P pk sk xi =
  (do seedbuf <- shake256 (repeatZ 0 128) 128
                  (if pMLDSA P then xi ++ [u8 (pK P); u8 (pL P)] else xi)
                  (zlen (if pMLDSA P then xi ++ [u8 (pK P); u8 (pL P)] else xi));
   do rho <- slice seedbuf 0 32;
   do rhoprime <- slice seedbuf 32 96;
   do key <- slice_from seedbuf 96;
   do mat <- matrix_expand P (zmat (pK P) (pL P)) rho;
   do s1 <- l_uniform_eta P (zvec (pL P)) rhoprime 0;
   do s2 <- k_uniform_eta P (zvec (pK P)) rhoprime (pL P);
   keygen_tail P pk sk rho key mat s1 s2).
Proof. reflexivity. Qed.

Lemma zlen_of_length {A} (l : list A) n : 0 <= n -> length l = Z.to_nat n -> zlen l = n.
Proof. intros Hn H. unfold zlen. rewrite H. apply Z2Nat.id. exact Hn. Qed.

Lemma S_t1_length t : length (S_t1 t) = length t.
Proof. apply map_length. Qed.
Lemma S_t0_length t : length (S_t0 t) = length t.
Proof. apply map_length. Qed.

Definition S_pk_of (rho : list Z) (t : list (list Z)) : list Z := S_pkEncode rho (S_t1 t).
Definition S_sk_of (P : params) (rho key : list Z) (s1 s2 t : list (list Z)) : list Z :=
  S_skEncode (pETA P) rho key (S_shake 136 (S_pk_of rho t) (Z.to_nat (pTR P))) s1 s2 (S_t0 t).

Theorem keygen_tail_ok P pk0 sk0 rho key mat s1 s2 :
  0 <= pK P -> 1 <= pL P <= 7 -> eta_okP P -> 0 <= pTR P < 2 ^ 64 ->
  zlen pk0 = pPK P -> zlen sk0 = pSK P ->
  zlen rho = 32 -> Forall is_byte rho -> zlen key = 32 ->
  length mat = Z.to_nat (pK P) ->
  (forall row, In row mat -> length row = Z.to_nat (pL P) /\ Forall (prng 0 Q) row) ->
  length s1 = Z.to_nat (pL P) -> Forall (eta_poly (pETA P)) s1 ->
  length s2 = Z.to_nat (pK P) -> Forall (eta_poly (pETA P)) s2 ->
  exists t,
    keygen_tail P pk0 sk0 rho key mat s1 s2 = Ok (S_pk_of rho t, S_sk_of P rho key s1 s2 t) /\
    S_t mat s1 s2 t /\ length t = Z.to_nat (pK P) /\ Forall (prng 0 Q) t /\
    zlen (S_pk_of rho t) = pPK P /\ zlen (S_sk_of P rho key s1 s2 t) = pSK P.
Proof.
  intros HK HL He HTR Lpk Lsk Lrho Brho Lkey Lm Hm L1 H1 L2 H2.
  assert (He4 : 0 <= pETA P <= 4) by (destruct He as [E|E]; rewrite E; lia).
  destruct (keygen_arith_ok P mat s1 s2 HL He4 Lm Hm L1 H1 L2 H2)
    as (s1hat & a & b & w & c & t & E1 & E2 & E3 & E4 & E5 & E6 & E7 & HT & Lt & Ft).
  exists t.
  assert (Ht1 : Forall (polyOK t1_rng) (S_t1 t)) by (apply S_t1_ok; exact Ft).
  assert (Ht0 : Forall (polyOK t0_rng) (S_t0 t)) by (apply S_t0_ok; exact Ft).
  assert (Zt1 : zlen (S_t1 t) = pK P) by (apply zlen_of_length; [exact HK | rewrite S_t1_length; exact Lt]).
  assert (Zt0 : zlen (S_t0 t) = pK P) by (apply zlen_of_length; [exact HK | rewrite S_t0_length; exact Lt]).
  assert (Zpk : zlen (S_pk_of rho t) = pPK P).
  { unfold S_pk_of. rewrite S_pkEncode_zlen by exact Ht1. rewrite Lrho, Zt1.
    unfold pPK, SEEDBYTES, POLYT1. lia. }
  assert (Bpk : Forall is_byte (S_pk_of rho t)) by (apply S_pkEncode_bytes; assumption).
  assert (Hd1 : Forall (polyOK (eta_drng (pETA P))) s1) by (apply vec_eta_sub; assumption).
  assert (Hd2 : Forall (polyOK (eta_drng (pETA P))) s2) by (apply vec_eta_sub; assumption).
  assert (Ztr : zlen (S_shake 136 (S_pk_of rho t) (Z.to_nat (pTR P))) = pTR P).
  { unfold zlen. rewrite S_shake_length by lia. apply Z2Nat.id. lia. }
  assert (Z1 : zlen s1 = pL P) by (apply zlen_of_length; [lia | exact L1]).
  assert (Z2 : zlen s2 = pK P) by (apply zlen_of_length; [lia | exact L2]).
  assert (Zsk : zlen (S_sk_of P rho key s1 s2 t) = pSK P).
  { unfold S_sk_of. rewrite (S_skEncode_zlen _ _ _ _ _ _ _ He Hd1 Hd2 Ht0). rewrite Lrho, Lkey, Ztr, Z1, Z2, Zt0.
    unfold pSK, SEEDBYTES, POLYT0. rewrite polyeta_eq. lia. }
  split; [|split; [exact HT|]; split; [exact Lt|]; split; [exact Ft|]; split; [exact Zpk|exact Zsk]].
  unfold keygen_tail.
  rewrite E1. cbn [bind]. rewrite E2. cbn [bind]. rewrite E3. cbn [bind]. rewrite E4. cbn [bind].
  rewrite E5. cbn [bind]. rewrite E6. cbn [bind]. rewrite E7. cbn [bind].
  rewrite (pack_pk_exact P pk0 rho (S_t1 t) HK Lpk Lrho Zt1 Ht1). cbn [bind].
  fold (S_pk_of rho t).
  rewrite slice_to_ok by (rewrite Zpk; unfold pPK, SEEDBYTES, POLYT1; lia). cbn [bind].
  rewrite <- Zpk. rewrite (shake256_ok (S_pk_of rho t) (pTR P) Bpk HTR). cbn [bind].
  rewrite (pack_sk_exact P sk0 rho _ key (S_t0 t) s1 s2 HK ltac:(lia) He ltac:(lia) Lsk Lrho Lkey Ztr Z1 Z2 Zt0 Hd1 Hd2 Ht0).
  cbn [bind]. reflexivity.
Qed.

(** * 4. Main theorems *)
Lemma std_kg P : std P ->
  1 <= pK P <= 8 /\ 1 <= pL P <= 7 /\ eta_okP P /\ (pTR P = 32 \/ pTR P = 64) /\
  u8 (pK P) = pK P /\ u8 (pL P) = pL P.
Proof.
  unfold eta_okP.
  intros [H|[H|[H|[H|[H|H]]]]]; subst P; cbn [pK pL pETA pTR P_lvl2 P_lvl3 P_lvl5 P_ml44 P_ml65 P_ml87];
    repeat split; try lia; auto; reflexivity.
Qed.

Lemma seed_slices {A} (buf : list A) : length buf = 128%nat ->
  slice buf 0 32 = Ok (firstn 32 buf) /\ slice buf 32 96 = Ok (firstn 64 (skipn 32 buf)) /\
  slice_from buf 96 = Ok (skipn 96 buf).
Proof.
  intros L. assert (Z : zlen buf = 128) by (unfold zlen; rewrite L; reflexivity).
  rewrite !slice_ok by lia. rewrite slice_from_ok by lia. repeat split; reflexivity.
Qed.

Lemma seed_input P xi : std P ->
  (if pMLDSA P then xi ++ [u8 (pK P); u8 (pL P)] else xi) = xi ++ (if pMLDSA P then [pK P; pL P] else []).
Proof.
  intros HP. destruct (std_kg P HP) as (_ & _ & _ & _ & EK & EL).
  destruct (pMLDSA P); [rewrite EK, EL; reflexivity | rewrite app_nil_r; reflexivity].
Qed.

Lemma seed_input_bytes P xi : std P -> Forall is_byte xi ->
  Forall is_byte (xi ++ (if pMLDSA P then [pK P; pL P] else [])).
Proof.
  intros HP Hx. destruct (std_kg P HP) as (HK & HL & _). apply Forall_app. split; [exact Hx|].
  destruct (pMLDSA P); [|constructor]. repeat constructor; unfold is_byte; lia.
Qed.

Lemma S_seedbuf_shape P xi : length (S_seedbuf P xi) = 128%nat /\ Forall is_byte (S_seedbuf P xi).
Proof. unfold S_seedbuf. split; [apply S_shake_length; lia | apply S_shake_bytes; lia]. Qed.

(** Seeded key generation either runs out of sampler fuel, or returns the specification's key pair. *)
Theorem keypair_core_cases P pk0 sk0 xi :
  std P -> Forall is_byte xi -> zlen pk0 = pPK P -> zlen sk0 = pSK P ->
  keypair_core P pk0 sk0 xi = OutOfFuel \/
  exists pk sk, keypair_core P pk0 sk0 xi = Ok (pk, sk) /\
    S_keygen P xi pk sk /\ zlen pk = pPK P /\ zlen sk = pSK P.
Proof.
  intros HP Hxi Lpk Lsk.
  destruct (std_kg P HP) as (HK & HL & He & HTR & _ & _).
  rewrite keypair_core_tail. rewrite (seed_input P xi HP).
  rewrite (shake256_ok _ 128 (seed_input_bytes P xi HP Hxi) ltac:(change (2 ^ 64) with 18446744073709551616; lia)).
  change (Z.to_nat 128) with 128%nat.
  change (S_shake 136 (xi ++ (if pMLDSA P then [pK P; pL P] else [])) 128) with (S_seedbuf P xi).
  destruct (S_seedbuf_shape P xi) as [Lbuf Bbuf].
  remember (S_seedbuf P xi) as buf eqn:Hbuf.
  cbn [bind]. destruct (seed_slices buf Lbuf) as (Sl1 & Sl2 & Sl3).
  rewrite Sl1. cbn [bind]. rewrite Sl2. cbn [bind]. rewrite Sl3. cbn [bind].
  set (rho := firstn 32 buf). set (rho' := firstn 64 (skipn 32 buf)). set (key := skipn 96 buf).
  assert (Lrho : length rho = 32%nat) by (unfold rho; rewrite firstn_length; lia).
  assert (Lrho' : length rho' = 64%nat) by (unfold rho'; rewrite firstn_length, skipn_length; lia).
  assert (Lkey : length key = 32%nat) by (unfold key; rewrite skipn_length; lia).
  assert (Brho : Forall is_byte rho) by (apply Forall_firstn; exact Bbuf).
  assert (Brho' : Forall is_byte rho') by (apply Forall_firstn, Forall_skipn; exact Bbuf).
  assert (Zrho : zlen rho = 32) by (unfold zlen; rewrite Lrho; reflexivity).
  assert (Zrho' : zlen rho' = 64) by (unfold zlen; rewrite Lrho'; reflexivity).
  assert (Zkey : zlen key = 32) by (unfold zlen; rewrite Lkey; reflexivity).
  assert (Frho : firstn 32 rho = rho) by (apply firstn_all2; lia).
  assert (Frho' : firstn 64 rho' = rho') by (apply firstn_all2; lia).
  (* ExpandA *)
  destruct (matrix_expand P (zmat (pK P) (pL P)) rho) as [mat| |] eqn:EA; cbn [bind]; [| | left; reflexivity].
  2:{ exfalso. revert EA. apply matrix_expand_no_panic; try lia. rewrite Frho. exact Brho. }
  destruct (expandA_ok P rho mat ltac:(lia) ltac:(lia) ltac:(lia) ltac:(rewrite Frho; exact Brho) EA) as [Lm Hmat].
  rewrite Frho in Hmat.
  (* ExpandS *)
  destruct (l_uniform_eta P (zvec (pL P)) rho' 0) as [s1| |] eqn:E1; cbn [bind]; [| | left; reflexivity].
  2:{ exfalso. unfold l_uniform_eta in E1.
      refine (vec_uniform_eta_no_panic P (pL P) rho' 0 He _ _ _ _ _ E1); try lia. rewrite Frho'; exact Brho'. }
  destruct (l_uniform_eta_ok P rho' 0 s1 He ltac:(lia) ltac:(lia) ltac:(lia) ltac:(lia)
              ltac:(rewrite Frho'; exact Brho') E1) as [L1 Hs1].
  destruct (k_uniform_eta P (zvec (pK P)) rho' (pL P)) as [s2| |] eqn:E2; cbn [bind]; [| | left; reflexivity].
  2:{ exfalso. unfold k_uniform_eta in E2.
      refine (vec_uniform_eta_no_panic P (pK P) rho' (pL P) He _ _ _ _ _ E2); try lia. rewrite Frho'; exact Brho'. }
  destruct (k_uniform_eta_ok P rho' (pL P) s2 He ltac:(lia) ltac:(lia) ltac:(lia) ltac:(lia)
              ltac:(rewrite Frho'; exact Brho') E2) as [L2 Hs2].
  unfold xof_in in Hs1, Hs2. rewrite Frho' in Hs1, Hs2.
  (* the rest *)
  assert (Hm : forall row, In row mat -> length row = Z.to_nat (pL P) /\ Forall (prng 0 Q) row).
  { intros row Hr. apply In_nth_error in Hr as (r & Hr). destruct (Hmat r row Hr) as [Lr Hp].
    split; [exact Lr|]. apply Forall_forall. intros p Hp'. apply In_nth_error in Hp' as (s & Hs).
    destruct (Hp s p Hs) as (_ & Lp & Fp). split; assumption. }
  assert (H1 : Forall (eta_poly (pETA P)) s1).
  { apply Forall_forall. intros p Hp. apply In_nth_error in Hp as (r & Hr).
    destruct (Hs1 r p Hr) as (_ & Lp & Fp). split; assumption. }
  assert (H2 : Forall (eta_poly (pETA P)) s2).
  { apply Forall_forall. intros p Hp. apply In_nth_error in Hp as (r & Hr).
    destruct (Hs2 r p Hr) as (_ & Lp & Fp). split; assumption. }
  destruct (keygen_tail_ok P pk0 sk0 rho key mat s1 s2 ltac:(lia) HL He
              ltac:(change (2 ^ 64) with 18446744073709551616; lia)
              Lpk Lsk Zrho Brho Zkey Lm Hm L1 H1 L2 H2) as (t & ET & HT & Lt & Ft & Zpk & Zsk).
  right. exists (S_pk_of rho t), (S_sk_of P rho key s1 s2 t).
  split; [exact ET|]. split; [|split; assumption].
  exists rho, rho', key, mat, s1, s2, t.
  split; [unfold rho; rewrite Hbuf; reflexivity|].
  split; [unfold rho'; rewrite Hbuf; reflexivity|].
  split; [unfold key; rewrite Hbuf; reflexivity|].
  split; [|split; [|split; [exact HT|split; reflexivity]]].
  - split; [exact Lm|]. intros r row Hr. destruct (Hmat r row Hr) as [Lr Hp]. split; [exact Lr|].
    intros s p Hs. apply (Hp s p Hs).
  - split; [exact L1|]. split; [exact L2|]. split.
    + intros r p Hr. destruct (Hs1 r p Hr) as (Hrej & _). rewrite Z.add_0_l in Hrej. exact Hrej.
    + intros r p Hr. destruct (Hs2 r p Hr) as (Hrej & _). exact Hrej.
Qed.

(** ** C04: seeded key generation is the specification's KeyGen, byte for byte *)
Theorem keygen_spec P xi pk0 sk0 tape pk sk tape' :
  std P -> Forall is_byte xi -> zlen xi = 32 -> zlen pk0 = pPK P -> zlen sk0 = pSK P ->
  keypair P pk0 sk0 (Some xi) tape = Ok (pk, sk, tape') ->
  S_keygen P xi pk sk /\ zlen pk = pPK P /\ zlen sk = pSK P /\ tape' = tape.
Proof.
  intros HP Hxi Zxi Lpk Lsk H. rewrite keypair_seeded_eq, Zxi in H. change (32 =? 32) with true in H. cbv iota in H.
  destruct (keypair_core_cases P pk0 sk0 xi HP Hxi Lpk Lsk) as [E | (p & s & E & HS & Zp & Zs)];
    rewrite E in H; cbn [bind] in H; [discriminate|].
  apply Ok_inj in H. injection H as <- <- <-. auto.
Qed.

(** the unseeded entry point: the seed is the first 32 bytes of the randomness tape *)
Corollary keygen_spec_unseeded P pk0 sk0 tape pk sk tape' :
  std P -> Forall is_byte (firstn 32 tape) -> zlen pk0 = pPK P -> zlen sk0 = pSK P ->
  keypair P pk0 sk0 None tape = Ok (pk, sk, tape') ->
  S_keygen P (firstn 32 tape) pk sk /\ zlen pk = pPK P /\ zlen sk = pSK P /\ tape' = skipn 32 tape.
Proof.
  intros HP Hb Lpk Lsk H. rewrite keypair_unseeded_eq in H.
  destruct (Z.ltb_spec (zlen tape) 32) as [Hlt|Hge]; [discriminate|].
  apply (keygen_spec P (firstn 32 tape) pk0 sk0 (skipn 32 tape)); try assumption.
  unfold zlen in *. rewrite firstn_length. lia.
Qed.

(** no panic, no overflow anywhere in seeded key generation (C08 for keygen) *)
Theorem keypair_no_panic P xi pk0 sk0 tape :
  std P -> Forall is_byte xi -> zlen xi = 32 -> zlen pk0 = pPK P -> zlen sk0 = pSK P ->
  keypair P pk0 sk0 (Some xi) tape <> Panic.
Proof.
  intros HP Hxi Zxi Lpk Lsk. rewrite keypair_seeded_eq, Zxi. change (32 =? 32) with true. cbv iota.
  destruct (keypair_core_cases P pk0 sk0 xi HP Hxi Lpk Lsk) as [E | (p & s & E & _)];
    rewrite E; cbn [bind]; discriminate.
Qed.

(** it succeeds unless a rejection sampler exhausts its SAMPLER_FUEL blocks *)
Corollary keypair_ok_or_fuel P xi pk0 sk0 tape :
  std P -> Forall is_byte xi -> zlen xi = 32 -> zlen pk0 = pPK P -> zlen sk0 = pSK P ->
  keypair P pk0 sk0 (Some xi) tape = OutOfFuel \/
  exists pk sk, keypair P pk0 sk0 (Some xi) tape = Ok (pk, sk, tape) /\ S_keygen P xi pk sk.
Proof.
  intros HP Hxi Zxi Lpk Lsk. rewrite keypair_seeded_eq, Zxi. change (32 =? 32) with true. cbv iota.
  destruct (keypair_core_cases P pk0 sk0 xi HP Hxi Lpk Lsk) as [E | (p & s & E & HS & _)];
    rewrite E; cbn [bind]; [left; reflexivity | right; eauto].
Qed.

(** * 5. Corollaries, stated on the specification *)
Lemma S_RejNTTPoly_shape seed p : S_RejNTTPoly seed p -> prng 0 Q p.
Proof.
  intros H. split; [exact (rej_stream_poly_length _ _ _ _ _ _ H)|].
  destruct H as (k & _ & -> & _). apply Forall_firstn. apply S_rej_ntt_range. apply S_shake_bytes. lia.
Qed.

Lemma S_RejBoundedPoly_shape eta seed p : eta = 2 \/ eta = 4 -> S_RejBoundedPoly eta seed p -> eta_poly eta p.
Proof.
  intros He H. split; [exact (rej_stream_poly_length _ _ _ _ _ _ H)|].
  destruct H as (k & _ & -> & _). apply Forall_firstn. apply S_rej_bounded_range; [exact He|].
  apply S_shake_bytes. lia.
Qed.

Lemma S_expandS_shape P rho' s1 s2 : eta_okP P -> S_expandS P rho' s1 s2 ->
  Forall (eta_poly (pETA P)) s1 /\ Forall (eta_poly (pETA P)) s2.
Proof.
  intros He (_ & _ & H1 & H2). split; apply Forall_forall; intros p Hp; apply In_nth_error in Hp as (r & Hr).
  - exact (S_RejBoundedPoly_shape _ _ _ He (H1 r p Hr)).
  - exact (S_RejBoundedPoly_shape _ _ _ He (H2 r p Hr)).
Qed.

Lemma S_t_shape A s1 s2 t : length s2 = length A -> S_t A s1 s2 t -> Forall (prng 0 Q) t.
Proof.
  intros Ls [L H]. apply Forall_forall. intros tr Htr. apply In_nth_error in Htr as (r & Hr).
  assert (Hlt : (r < length A)%nat) by (rewrite <- L; apply nth_error_Some; congruence).
  destruct (nth_error_some_lt A r Hlt) as (row & Hrow).
  destruct (nth_error_some_lt s2 r ltac:(lia)) as (e & He).
  exact (proj1 (H r row e tr Hrow He Hr)).
Qed.

Lemma seedbuf_parts P xi :
  length (firstn 32 (S_seedbuf P xi)) = 32%nat /\ length (skipn 96 (S_seedbuf P xi)) = 32%nat.
Proof.
  destruct (S_seedbuf_shape P xi) as [L _]. rewrite firstn_length, skipn_length, L. split; reflexivity.
Qed.

(** pk and sk carry the same rho, the first 32 bytes of H(seed) *)
Theorem keygen_same_rho P xi pk sk : S_keygen P xi pk sk ->
  firstn 32 pk = firstn 32 (S_seedbuf P xi) /\ firstn 32 sk = firstn 32 (S_seedbuf P xi).
Proof.
  intros (rho & rho' & key & A & s1 & s2 & t & -> & _ & _ & _ & _ & _ & -> & ->).
  destruct (seedbuf_parts P xi) as [L _].
  unfold S_pkEncode, S_skEncode. split; apply firstn_app_exact; symmetry; exact L.
Qed.

(** the tr field of sk is H(pk, |tr|) *)
Theorem keygen_tr_is_hash_of_pk P xi pk sk : S_keygen P xi pk sk ->
  firstn (Z.to_nat (pTR P)) (skipn 64 sk) = S_shake 136 pk (Z.to_nat (pTR P)).
Proof.
  intros (rho & rho' & key & A & s1 & s2 & t & -> & _ & -> & _ & _ & _ & -> & ->).
  destruct (seedbuf_parts P xi) as [L1 L2].
  unfold S_skEncode. rewrite app_assoc.
  rewrite skipn_app_exact0 by (rewrite app_length, L1, L2; reflexivity).
  apply firstn_app_exact. rewrite S_shake_length by lia. reflexivity.
Qed.

Lemma eval_p2r w : forall tr, Forall (fun c => 0 <= c < Q) tr ->
  eval tr w = eval (map (fun c => snd (S_power2round c)) tr) w * 2 ^ 13
              + eval (map (fun c => fst (S_power2round c)) tr) w.
Proof.
  induction 1 as [|c tr Hc _ IH]; cbn [map]; [rewrite !eval_nil; ring|].
  rewrite !eval_cons, IH. destruct (S_power2round_ranges c Hc) as (_ & _ & E). rewrite E at 1. ring.
Qed.

(** The key relation: decoding pk and sk gives (rho, t1), (rho, K, tr, s1, s2, t0) with s1, s2 within +-eta and
    t1 * 2^13 + t0 = A s1 + s2 in the NTT-domain sense (NTT(t1 2^13 + t0)_r = sum_j A^[r,j] o NTT(s1_j) + NTT(s2_r)). *)
Theorem keygen_relation P xi pk sk : std P -> S_keygen P xi pk sk ->
  exists rho key tr A s1 s2 t1 t0,
    S_pkDecode (pK P) pk = (rho, t1) /\
    S_skDecode (pETA P) (pK P) (pL P) (pTR P) sk = (rho, key, tr, s1, s2, t0) /\
    tr = S_shake 136 pk (Z.to_nat (pTR P)) /\
    S_expandA P rho A /\
    Forall (eta_poly (pETA P)) s1 /\ Forall (eta_poly (pETA P)) s2 /\
    Forall (polyOK t1_rng) t1 /\ Forall (polyOK t0_rng) t0 /\
    forall r row e a1 a0,
      nth_error A r = Some row -> nth_error s2 r = Some e ->
      nth_error t1 r = Some a1 -> nth_error t0 r = Some a0 ->
      forall i, (i < 256)%nat ->
        eqm (eval a1 (root i) * 2 ^ 13 + eval a0 (root i)) (matrow_ntt row s1 i + eval e (root i)).
Proof.
  intros HP (rho & rho' & key & A & s1 & s2 & t & Erho & _ & Ekey & HA & HS & HT & -> & ->).
  destruct (std_kg P HP) as (HK & HL & He & HTR & _ & _).
  destruct (seedbuf_parts P xi) as [L1 L2]. rewrite <- Erho in L1. rewrite <- Ekey in L2.
  destruct (S_expandS_shape P rho' s1 s2 He HS) as [H1 H2].
  assert (LA : length A = Z.to_nat (pK P)) by apply HA.
  assert (Ls1 : length s1 = Z.to_nat (pL P)) by apply HS.
  assert (Ls2 : length s2 = Z.to_nat (pK P)) by apply HS.
  assert (Ft : Forall (prng 0 Q) t) by (apply (S_t_shape A s1 s2 t); [congruence | exact HT]).
  assert (Lt : length t = Z.to_nat (pK P)) by (destruct HT as [L _]; congruence).
  assert (Ht1 : Forall (polyOK t1_rng) (S_t1 t)) by (apply S_t1_ok; exact Ft).
  assert (Ht0 : Forall (polyOK t0_rng) (S_t0 t)) by (apply S_t0_ok; exact Ft).
  exists rho, key, (S_shake 136 (S_pkEncode rho (S_t1 t)) (Z.to_nat (pTR P))), A, s1, s2, (S_t1 t), (S_t0 t).
  split.
  { rewrite <- (app_nil_r (S_pkEncode rho (S_t1 t))). apply S_pkDecode_Encode.
    - unfold zlen. rewrite L1. reflexivity.
    - apply zlen_of_length; [lia | rewrite S_t1_length; exact Lt].
    - exact Ht1. }
  split.
  { rewrite <- (app_nil_r (S_skEncode _ _ _ _ _ _ _)). apply S_skDecode_Encode.
    - exact He.
    - unfold zlen. rewrite L1. reflexivity.
    - unfold zlen. rewrite L2. reflexivity.
    - unfold zlen. rewrite S_shake_length by lia. apply Z2Nat.id. lia.
    - apply zlen_of_length; [lia | exact Ls1].
    - apply zlen_of_length; [lia | exact Ls2].
    - apply zlen_of_length; [lia | rewrite S_t0_length; exact Lt].
    - apply vec_eta_sub; assumption.
    - apply vec_eta_sub; assumption.
    - exact Ht0. }
  split; [reflexivity|]. split; [exact HA|]. split; [exact H1|]. split; [exact H2|].
  split; [exact Ht1|]. split; [exact Ht0|].
  intros r row e a1 a0 Hrow He' Ha1 Ha0 i Hi.
  unfold S_t1 in Ha1. unfold S_t0 in Ha0. rewrite nth_error_map in Ha1, Ha0.
  destruct (nth_error t r) as [tr|] eqn:Htr; [|discriminate].
  cbn [option_map] in Ha1, Ha0. injection Ha1 as <-. injection Ha0 as <-.
  destruct HT as [_ HT]. destruct (HT r row e tr Hrow He' Htr) as [[_ Rt] Ct].
  rewrite <- eval_p2r by exact Rt. apply Ct. exact Hi.
Qed.

Print Assumptions S_keygen_functional.
Print Assumptions keygen_arith_ok.
Print Assumptions keypair_core_cases.
Print Assumptions keygen_spec.
Print Assumptions keygen_spec_unseeded.
Print Assumptions keypair_no_panic.
Print Assumptions keypair_ok_or_fuel.
Print Assumptions keygen_same_rho.
Print Assumptions keygen_tr_is_hash_of_pk.
Print Assumptions keygen_relation.

(** * 6. The same relation in the ring R_q (the form of Dilithium 3.1, Fig. 4: t = A s1 + s2) *)
Lemma ntt_surj_row : forall row, Forall (fun ah => length ah = 256%nat) row ->
  exists Arow, Forall2 ntt_of Arow row.
Proof.
  induction 1 as [|ah row L _ (Arow & IH)]; [exists []; constructor|].
  destruct (ntt_surj ah L) as (a & [La _] & Ca).
  exists (a :: Arow). constructor; [|exact IH]. split; [exact La|]. intros i Hi. symmetry. exact (Ca i Hi).
Qed.

Lemma ntt_surj_mat : forall A, Forall (Forall (fun ah => length ah = 256%nat)) A ->
  exists Ac, Forall2 (Forall2 ntt_of) Ac A.
Proof.
  induction 1 as [|row A Hrow _ (Ac & IH)]; [exists []; constructor|].
  destruct (ntt_surj_row row Hrow) as (Arow & HA). exists (Arow :: Ac). constructor; assumption.
Qed.

Lemma S_t_ring A Ac s1 s2 t :
  Forall2 (Forall2 ntt_of) Ac A ->
  Forall (fun a => length a = 256%nat) s1 -> Forall (fun a => length a = 256%nat) s2 ->
  S_t A s1 s2 t ->
  forall r Arow e tr, nth_error Ac r = Some Arow -> nth_error s2 r = Some e -> nth_error t r = Some tr ->
    forall j, (j < 256)%nat -> eqm (nth j tr 0) (nth j (ring_dot Arow s1) 0 + nth j e 0).
Proof.
  intros HAc H1 H2 [_ HT] r Arow e tr HArow He Htr j Hj.
  destruct (F2_nth_error_l _ _ _ _ _ HAc HArow) as (row & Hrow & HAr).
  destruct (HT r row e tr Hrow He Htr) as [[Ltr _] Ct].
  rewrite Forall_forall in H2. pose proof (H2 e (nth_error_In _ _ He)) as Le.
  assert (Lrd : length (ring_dot Arow s1) = 256%nat).
  { apply ring_dot_length; [|exact H1]. eapply F2_Forall_l; [|exact HAr]. cbn beta. intros a ah [L _]. exact L. }
  rewrite <- nth_padd. apply ntt_inj; [exact Ltr | rewrite padd_length, Lrd, Le; reflexivity | | exact Hj].
  intros i Hi. rewrite (Ct i Hi), eval_padd. rewrite (matrow_ring i Hi Arow row s1 HAr). reflexivity.
Qed.

Theorem keygen_ring_relation P xi pk sk : std P -> S_keygen P xi pk sk ->
  exists rho key A Ac s1 s2 t,
    rho = firstn 32 (S_seedbuf P xi) /\ S_expandA P rho A /\ Forall2 (Forall2 ntt_of) Ac A /\
    Forall (eta_poly (pETA P)) s1 /\ Forall (eta_poly (pETA P)) s2 /\ Forall (prng 0 Q) t /\
    pk = S_pkEncode rho (S_t1 t) /\
    sk = S_skEncode (pETA P) rho key (S_shake 136 pk (Z.to_nat (pTR P))) s1 s2 (S_t0 t) /\
    forall r Arow e tr, nth_error Ac r = Some Arow -> nth_error s2 r = Some e -> nth_error t r = Some tr ->
      forall j, (j < 256)%nat -> eqm (nth j tr 0) (nth j (ring_dot Arow s1) 0 + nth j e 0).
Proof.
  intros HP (rho & rho' & key & A & s1 & s2 & t & Erho & _ & Ekey & HA & HS & HT & Epk & Esk).
  destruct (std_kg P HP) as (HK & HL & He & HTR & _ & _).
  destruct (S_expandS_shape P rho' s1 s2 He HS) as [H1 H2].
  assert (LA : length A = Z.to_nat (pK P)) by apply HA.
  assert (Ls2 : length s2 = Z.to_nat (pK P)) by apply HS.
  assert (Ft : Forall (prng 0 Q) t) by (apply (S_t_shape A s1 s2 t); [congruence | exact HT]).
  destruct (ntt_surj_mat A) as (Ac & HAc).
  { apply Forall_forall. intros row Hr. apply In_nth_error in Hr as (r & Hr).
    destruct HA as [_ HA]. destruct (HA r row Hr) as [_ Hp].
    apply Forall_forall. intros p Hp'. apply In_nth_error in Hp' as (s & Hs).
    exact (proj1 (S_RejNTTPoly_shape _ _ (Hp s p Hs))). }
  exists rho, key, A, Ac, s1, s2, t.
  split; [exact Erho|]. split; [exact HA|]. split; [exact HAc|]. split; [exact H1|]. split; [exact H2|].
  split; [exact Ft|]. split; [exact Epk|]. split; [exact Esk|].
  apply (S_t_ring A Ac s1 s2 t HAc); [| |exact HT].
  - eapply Forall_impl; [|exact H1]. intros a [L _]. exact L.
  - eapply Forall_impl; [|exact H2]. intros a [L _]. exact L.
Qed.

Print Assumptions keygen_ring_relation.
