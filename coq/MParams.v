(** Parameter sets (src/params.rs, src/params/*.rs). The six records below are checked against the
    translator's reading of the source in GenCheck.v. *)
From DV Require Import Base Gen MReduce.

Record params := {
  pK : Z; pL : Z; pETA : Z; pTAU : Z; pBETA : Z; pGAMMA1 : Z; pG88 : bool; pOMEGA : Z;
  pCT : Z;        (* bytes of c-tilde: SEEDBYTES for Dilithium, C_DASH_BYTES = lambda/4 for ML-DSA *)
  pTR : Z;        (* bytes of tr: SEEDBYTES (32) for Dilithium, TR_BYTES (64) for ML-DSA *)
  pMLDSA : bool   (* FIPS 204 variant: seed || K || L, rnd mixing *)
}.

Definition SEEDBYTES : Z := 32.
Definition CRHBYTES : Z := 64.
Definition POLYT1 : Z := 320.
Definition POLYT0 : Z := 416.

Definition pGAMMA2 (P : params) : Z := if pG88 P then 95232 else 261888.
Definition pPOLYZ (P : params) : Z := if pGAMMA1 P =? 131072 then 576 else 640.
Definition pPOLYW1 (P : params) : Z := if pG88 P then 192 else 128.
Definition pPOLYETA (P : params) : Z := if pETA P =? 2 then 96 else 128.
Definition pPK (P : params) : Z := SEEDBYTES + pK P * POLYT1.
Definition pSK (P : params) : Z := 2 * SEEDBYTES + pTR P + (pK P + pL P) * pPOLYETA P + pK P * POLYT0.
Definition pSIG (P : params) : Z := pCT P + pL P * pPOLYZ P + pOMEGA P + pK P.

Definition P_lvl2 := {| pK := 4; pL := 4; pETA := 2; pTAU := 39; pBETA := 78; pGAMMA1 := 131072; pG88 := true;
                        pOMEGA := 80; pCT := 32; pTR := 32; pMLDSA := false |}.
Definition P_lvl3 := {| pK := 6; pL := 5; pETA := 4; pTAU := 49; pBETA := 196; pGAMMA1 := 524288; pG88 := false;
                        pOMEGA := 55; pCT := 32; pTR := 32; pMLDSA := false |}.
Definition P_lvl5 := {| pK := 8; pL := 7; pETA := 2; pTAU := 60; pBETA := 120; pGAMMA1 := 524288; pG88 := false;
                        pOMEGA := 75; pCT := 32; pTR := 32; pMLDSA := false |}.
Definition P_ml44 := {| pK := 4; pL := 4; pETA := 2; pTAU := 39; pBETA := 78; pGAMMA1 := 131072; pG88 := true;
                        pOMEGA := 80; pCT := 32; pTR := 64; pMLDSA := true |}.
Definition P_ml65 := {| pK := 6; pL := 5; pETA := 4; pTAU := 49; pBETA := 196; pGAMMA1 := 524288; pG88 := false;
                        pOMEGA := 55; pCT := 48; pTR := 64; pMLDSA := true |}.
Definition P_ml87 := {| pK := 8; pL := 7; pETA := 2; pTAU := 60; pBETA := 120; pGAMMA1 := 524288; pG88 := false;
                        pOMEGA := 75; pCT := 64; pTR := 64; pMLDSA := true |}.

(** what the source's constant tables say for a parameter set, in the translator's column order *)
Definition params_row (P : params) : list Z :=
  [pTAU P; pGAMMA1 P; pGAMMA2 P; pK P; pL P; pETA P; pBETA P; pOMEGA P; pPOLYZ P; pPOLYW1 P; pPOLYETA P;
   pOMEGA P + pK P; pPK P; pSK P; pSIG P; pCT P].
