(** C15 stated about the translator's reading of /repo/src/rounding.rs and rounding/lvl{2,3,5}.rs (GenK.v, regenerated on
    every run). Kept apart from PRounding.v so that only C15 depends on the textual tie. *)
From DV Require Import Base MReduce MRounding GenK GenKRounding PRounding.

(** ---- the same statements about the translator's reading of /repo/src/rounding*.rs (GenK.v) ---- *)
Lemma src_power2round_spec : forall a, 0 <= a < Q -> src_power2round a = Ok (S_power2round a).
Proof. intros a H. rewrite src_power2round_ok. destruct (power2round_ok a H) as (a0 & a1 & E & _ & _ & _ & S).
  rewrite E, S. reflexivity. Qed.
Lemma src_decompose_spec : forall a, 0 <= a < Q ->
  src_lvl2_decompose a = Ok (S_decompose true a) /\ src_lvl3_decompose a = Ok (S_decompose false a) /\
  src_lvl5_decompose a = Ok (S_decompose false a).
Proof. intros a H. rewrite src_lvl2_decompose_ok, src_lvl3_decompose_ok, src_lvl5_decompose_ok.
  destruct (decompose_ok true a H) as (x0 & x1 & E1 & S1 & _). destruct (decompose_ok false a H) as (y0 & y1 & E2 & S2 & _).
  rewrite E1, E2, S1, S2. repeat split. Qed.
Lemma src_use_hint_spec : forall a h, 0 <= a < Q -> (h = 0 \/ h = 1) ->
  src_lvl2_use_hint a h = Ok (S_use_hint true h a) /\ src_lvl3_use_hint a h = Ok (S_use_hint false h a) /\
  src_lvl5_use_hint a h = Ok (S_use_hint false h a).
Proof. intros a h H Hh. rewrite src_lvl2_use_hint_ok, src_lvl3_use_hint_ok, src_lvl5_use_hint_ok.
  repeat split; apply use_hint_ok; assumption. Qed.
Lemma src_make_hint_spec : forall g88 z r r0 w1,
  S_decompose g88 (r + z) = (r0, w1) -> - ALPHA g88 < r0 - z < ALPHA g88 ->
  (if g88 then src_lvl2_make_hint (r0 - z) w1 else src_lvl3_make_hint (r0 - z) w1) = Ok (S_make_hint g88 z r) /\
  (g88 = false -> src_lvl5_make_hint (r0 - z) w1 = Ok (S_make_hint g88 z r)).
Proof. intros g88 z r r0 w1 H1 H2. pose proof (make_hint_is_S_make_hint g88 z r r0 w1 H1 H2) as M.
  destruct g88; [rewrite src_lvl2_make_hint_ok | rewrite src_lvl3_make_hint_ok]; split; try exact M; intros E; try discriminate.
  rewrite src_lvl5_make_hint_ok. exact M. Qed.
