(** C09 (randomness discipline) and C10 (purity / scratch independence) for the signing layer.

    Part A (C09).  Which model functions read the random tape, how many bytes, and that nothing else of the
    tape influences the result.  Every theorem is an equation between [res] values of the FROZEN model
    functions ([MSign.keypair], [MSign.signature], [MApi.*]) and tape-free functions defined here.

    Part B (C10).  The output buffers that are passed in ([pk], [sk], [sig]) are used as scratch; their
    incoming CONTENTS do not influence the result (only their lengths do). *)
From DV Require Import Base Gen MReduce MRounding MParams MKeccak MNtt MPoly MPolyvec MPacking MSign MSha2 MApi PLift.

Local Ltac Zify.zify_post_hook ::= Z.div_mod_to_equations.

(** * 0. Small monad facts *)

(** two chains of binds that run the same steps and differ only in the final [Ok] *)
Ltac chain_step :=
  match goal with
  | |- bind ?m _ = bind (bind ?m _) _ =>
      let x := fresh "x" in destruct m as [x| |]; cbn [bind]; [|reflexivity|reflexivity]
  | |- (let (_, _) := ?x in _) = _ => is_var x; destruct x
  | |- (if ?c then _ else _) = bind (if ?c then _ else _) _ => destruct c; cbn [bind]
  | |- Ok _ = bind (Ok _) _ => cbn [bind]; reflexivity
  | |- Ok _ = Ok _ => reflexivity
  end.
Ltac chain := repeat chain_step.

(** * A. C09: the random tape *)

(** ** A.1 keypair *)

(** the body of [keypair] after the seed [xi] has been obtained: no tape anywhere *)
Definition keypair_core (P : params) (pk sk xi : list Z) : res (list Z * list Z) :=
  do seedbuf <- shake256 (repeatZ 0 128) 128
                  (if pMLDSA P then xi ++ [u8 (pK P); u8 (pL P)] else xi)
                  (zlen (if pMLDSA P then xi ++ [u8 (pK P); u8 (pL P)] else xi));
  do rho <- slice seedbuf 0 32;
  do rhoprime <- slice seedbuf 32 96;
  do key <- slice_from seedbuf 96;
  do mat <- matrix_expand P (zmat (pK P) (pL P)) rho;
  do s1 <- l_uniform_eta P (zvec (pL P)) rhoprime 0;
  do s2 <- k_uniform_eta P (zvec (pK P)) rhoprime (pL P);
  do s1hat <- l_ntt P s1;
  do t1 <- matrix_pointwise_montgomery P (zvec (pK P)) mat s1hat;
  do t1 <- k_reduce P t1;
  do t1 <- k_invntt_tomont P t1;
  do t1 <- k_add P t1 s2;
  do t1 <- k_caddq P t1;
  do '(t1, t0) <- k_power2round P t1 (zvec (pK P));
  do pk' <- pack_pk P pk rho t1;
  do pkb <- slice_to pk' (pPK P);
  do tr <- shake256 (repeatZ 0 (pTR P)) (pTR P) pk' (pPK P);
  do sk' <- pack_sk P sk rho tr key t0 s1 s2;
  Ok (pk', sk').

(** [keypair] = obtain the seed (the only place the tape is mentioned), then the tape-free core *)
Theorem keypair_unfold P pk sk seed tape :
  keypair P pk sk seed tape =
  do '(xi, tape') <- match seed with
                     | Some x => if zlen x =? SEEDBYTES then Ok (x, tape) else Panic
                     | None => draw tape SEEDBYTES
                     end;
  do '(p, s) <- keypair_core P pk sk xi; Ok (p, s, tape').
Proof.
  unfold keypair, keypair_core.
  destruct (match seed with Some x => if zlen x =? SEEDBYTES then Ok (x, tape) else Panic
                          | None => draw tape SEEDBYTES end) as [[xi t']| |]; cbn [bind]; try reflexivity.
  chain.
Qed.

Theorem keypair_seeded_eq P pk sk xi tape :
  keypair P pk sk (Some xi) tape =
  if zlen xi =? 32 then (do '(p, s) <- keypair_core P pk sk xi; Ok (p, s, tape)) else Panic.
Proof.
  rewrite keypair_unfold. change SEEDBYTES with 32. destruct (zlen xi =? 32); reflexivity.
Qed.

(** 1a. seeded key generation returns the tape untouched *)
Theorem keypair_seeded_no_draw P pk sk xi tape pk' sk' tape' :
  keypair P pk sk (Some xi) tape = Ok (pk', sk', tape') -> tape' = tape.
Proof.
  rewrite keypair_seeded_eq. destruct (zlen xi =? 32); [|discriminate].
  destruct (keypair_core P pk sk xi) as [[p s]| |]; cbn [bind]; intros H; inversion H; reflexivity.
Qed.

(** 1b. ... and its result does not depend on the tape: success case *)
Theorem keypair_seeded_tape_irrelevant P pk sk xi t1 t2 a b t1' :
  keypair P pk sk (Some xi) t1 = Ok (a, b, t1') -> keypair P pk sk (Some xi) t2 = Ok (a, b, t2).
Proof.
  rewrite !keypair_seeded_eq. destruct (zlen xi =? 32); [|discriminate].
  destruct (keypair_core P pk sk xi) as [[p s]| |]; cbn [bind]; intros H; inversion H; reflexivity.
Qed.

(** 1c. failure cases: both sides fail identically *)
Theorem keypair_seeded_tape_irrelevant_fail P pk sk xi t1 t2 :
  (keypair P pk sk (Some xi) t1 = Panic -> keypair P pk sk (Some xi) t2 = Panic) /\
  (keypair P pk sk (Some xi) t1 = OutOfFuel -> keypair P pk sk (Some xi) t2 = OutOfFuel).
Proof.
  rewrite !keypair_seeded_eq. destruct (zlen xi =? 32); [|split; auto].
  destruct (keypair_core P pk sk xi) as [[p s]| |]; cbn [bind]; split; intros H; try discriminate; reflexivity.
Qed.

(** the three cases in one equation: forget the returned tape *)
Definition forget_tape {A} (r : res (A * list Z)) : res A := do '(a, _) <- r; Ok a.

Theorem keypair_seeded_tape_irrelevant_eq P pk sk xi t1 t2 :
  forget_tape (keypair P pk sk (Some xi) t1) = forget_tape (keypair P pk sk (Some xi) t2).
Proof.
  rewrite !keypair_seeded_eq. destruct (zlen xi =? 32); [|reflexivity].
  destruct (keypair_core P pk sk xi) as [[p s]| |]; reflexivity.
Qed.

(** 2. unseeded key generation draws EXACTLY [SEEDBYTES = 32] bytes and is the seeded function of them *)
Lemma draw_eq tape n : 0 <= n ->
  draw tape n = if zlen tape <? n then Panic else Ok (firstn (Z.to_nat n) tape, skipn (Z.to_nat n) tape).
Proof. reflexivity. Qed.

Lemma zlen_firstn {A} (l : list A) n : 0 <= n <= zlen l -> zlen (firstn (Z.to_nat n) l) = n.
Proof. unfold zlen. intros H. rewrite firstn_length. lia. Qed.

Theorem keypair_unseeded_eq P pk sk tape :
  keypair P pk sk None tape =
  if zlen tape <? 32 then Panic
  else keypair P pk sk (Some (firstn 32 tape)) (skipn 32 tape).
Proof.
  rewrite !keypair_unfold. unfold draw. change SEEDBYTES with 32. change (Z.to_nat 32) with 32%nat.
  destruct (Z.ltb_spec (zlen tape) 32) as [H|H]; [reflexivity|].
  pose proof (zlen_firstn tape 32 ltac:(lia)) as E. change (Z.to_nat 32) with 32%nat in E.
  rewrite E. reflexivity.
Qed.

(** the same, spelled out with the tape-free core *)
Corollary keypair_unseeded_core P pk sk tape :
  keypair P pk sk None tape =
  if zlen tape <? 32 then Panic
  else do '(p, s) <- keypair_core P pk sk (firstn 32 tape); Ok (p, s, skipn 32 tape).
Proof.
  rewrite keypair_unseeded_eq. destruct (Z.ltb_spec (zlen tape) 32) as [H|H]; [reflexivity|].
  rewrite keypair_seeded_eq.
  pose proof (zlen_firstn tape 32 ltac:(lia)) as E. change (Z.to_nat 32) with 32%nat in E.
  rewrite E. reflexivity.
Qed.

(** ** A.2 signature *)

(** generic normaliser for equations between bind chains built from the same steps: repeatedly case-split on
    the first step (the innermost scrutinee) of either side *)
Ltac mhead t :=
  lazymatch t with
  | bind ?m _ => mhead m
  | (let (_, _) := ?x in _) => mhead x
  | (if ?c then _ else _) => mhead c
  | match ?o with Some _ => _ | None => _ end => mhead o
  | _ => t
  end.
Ltac mdone t := lazymatch t with Ok _ => idtac | Panic => idtac | OutOfFuel => idtac end.
Ltac mnorm_step :=
  cbn [bind];
  lazymatch goal with
  | |- ?l = ?r =>
    first [ mdone l; mdone r; reflexivity
          | let h := mhead l in (tryif mdone h then fail else destruct h)
          | let h := mhead r in (tryif mdone h then fail else destruct h) ]
  end.
Ltac mnorm := repeat mnorm_step.

(** number of tape bytes a randomized signature takes: SEEDBYTES (rnd) for ML-DSA, CRHBYTES (rho') for Dilithium *)
Definition rand_bytes (P : params) : Z := if pMLDSA P then SEEDBYTES else CRHBYTES.

(** rho' from the secret key material, mu, and the drawn bytes [r] ([None] = deterministic variant).
    ML-DSA: rho' = H(key || rnd || mu) with rnd = r (32 bytes) or 32 zero bytes.
    Dilithium: rho' = r itself (64 bytes, used directly), or H(key || mu). *)
Definition sign_rhoprime (P : params) (key mu : list Z) (r : option (list Z)) : res (list Z) :=
  if pMLDSA P then
    shake256_hash [key; match r with Some x => x | None => repeatZ 0 32 end; mu] CRHBYTES
  else match r with
       | Some x => Ok x
       | None => shake256 (repeatZ 0 64) CRHBYTES (key ++ mu) (SEEDBYTES + CRHBYTES)
       end.

(** everything after the draw *)
Definition sign_finish (P : params) (fuel : nat) (sig rho key : list Z) (t0 s1 s2 : list (list Z)) (mu : list Z)
           (r : option (list Z)) : res (list Z * list Z) :=
  do rhoprime <- sign_rhoprime P key mu r;
  do mat <- matrix_expand P (zmat (pK P) (pL P)) rho;
  do s1 <- l_ntt P s1;
  do s2 <- k_ntt P s2;
  do t0 <- k_ntt P t0;
  sign_loop P fuel sig mu rhoprime mat s1 s2 t0 0 [].

(** everything before the draw: unpack the key, hash the message *)
Definition sign_prepare (P : params) (msg sk : list Z)
  : res (list Z * list Z * list Z * list (list Z) * list (list Z) * list (list Z) * list Z) :=
  do '(rho, tr, key, t0, s1, s2) <-
     unpack_sk P (repeatZ 0 32) (repeatZ 0 (pTR P)) (repeatZ 0 32) (zvec (pK P)) (zvec (pL P)) (zvec (pK P)) sk;
  do mu <- shake256_hash [firstn (Z.to_nat (pTR P)) tr; msg] CRHBYTES;
  Ok (rho, tr, key, t0, s1, s2, mu).

(** the body of [signature_trace]/[signature] with the drawn bytes plugged in: no tape anywhere *)
Definition signature_with_trace (P : params) (fuel : nat) (sig msg sk : list Z) (r : option (list Z))
  : res (list Z * list Z) :=
  do '(rho, tr, key, t0, s1, s2, mu) <- sign_prepare P msg sk;
  sign_finish P fuel sig rho key t0 s1 s2 mu r.

Definition signature_with (P : params) (sig msg sk : list Z) (r : option (list Z)) : res (list Z) :=
  do '(s, _) <- signature_with_trace P (SIGN_FUEL) sig msg sk r; Ok s.

(** the draw of [signature]: nothing, or [rand_bytes P] bytes *)
Definition sign_draw (P : params) (rand : bool) (tape : list Z) : res (option (list Z) * list Z) :=
  if rand then (do '(x, t') <- draw tape (rand_bytes P); Ok (Some x, t')) else Ok (None, tape).

(** order-faithful decomposition (exact in every case, including which failure occurs first):
    prepare, then draw, then finish *)
Theorem signature_trace_unfold P fuel sig msg sk rand tape :
  signature_trace P fuel sig msg sk rand tape =
  do '(rho, tr, key, t0, s1, s2, mu) <- sign_prepare P msg sk;
  do '(r, tape') <- sign_draw P rand tape;
  do '(s, trace) <- sign_finish P fuel sig rho key t0 s1 s2 mu r;
  Ok (s, trace, tape').
Proof.
  unfold signature_trace, sign_prepare, sign_draw, sign_finish, sign_rhoprime, rand_bytes, draw.
  mnorm.
Qed.

Theorem signature_unfold P sig msg sk rand tape :
  signature P sig msg sk rand tape =
  do '(rho, tr, key, t0, s1, s2, mu) <- sign_prepare P msg sk;
  do '(r, tape') <- sign_draw P rand tape;
  do '(s, _) <- sign_finish P SIGN_FUEL sig rho key t0 s1 s2 mu r;
  Ok (s, tape').
Proof. unfold signature. rewrite signature_trace_unfold. mnorm. Qed.

(** 3. deterministic signing: an equation with a tape-free function; the tape is returned as it came *)
Theorem signature_deterministic_eq P sig msg sk tape :
  signature P sig msg sk false tape = do s <- signature_with P sig msg sk None; Ok (s, tape).
Proof.
  rewrite signature_unfold. unfold signature_with, signature_with_trace, sign_draw. mnorm.
Qed.

Theorem signature_deterministic_no_draw P sig msg sk tape s tape' :
  signature P sig msg sk false tape = Ok (s, tape') -> tape' = tape.
Proof.
  rewrite signature_deterministic_eq.
  destruct (signature_with P sig msg sk None); cbn [bind]; intros H; inversion H; reflexivity.
Qed.

Theorem signature_deterministic_tape_irrelevant P sig msg sk t1 t2 s t1' :
  signature P sig msg sk false t1 = Ok (s, t1') -> signature P sig msg sk false t2 = Ok (s, t2).
Proof.
  rewrite !signature_deterministic_eq.
  destruct (signature_with P sig msg sk None); cbn [bind]; intros H; inversion H; reflexivity.
Qed.

Theorem signature_deterministic_tape_irrelevant_eq P sig msg sk t1 t2 :
  forget_tape (signature P sig msg sk false t1) = forget_tape (signature P sig msg sk false t2).
Proof.
  rewrite !signature_deterministic_eq. destruct (signature_with P sig msg sk None); reflexivity.
Qed.

(** 4. randomized signing.  Long enough tape: exactly [rand_bytes P] bytes are taken, the result is a function
    of those bytes only, and the rest of the tape is returned. *)
Theorem signature_random_enough P sig msg sk tape :
  rand_bytes P <= zlen tape ->
  signature P sig msg sk true tape =
  do s <- signature_with P sig msg sk (Some (firstn (Z.to_nat (rand_bytes P)) tape));
  Ok (s, skipn (Z.to_nat (rand_bytes P)) tape).
Proof.
  intros H. rewrite signature_unfold. unfold signature_with, signature_with_trace, sign_draw, draw.
  destruct (Z.ltb_spec (zlen tape) (rand_bytes P)) as [H'|_]; [lia|]. mnorm.
Qed.

(** Tape too short: the call fails (after the key has been unpacked and the message hashed, as in the code) *)
Theorem signature_random_short P sig msg sk tape :
  zlen tape < rand_bytes P ->
  signature P sig msg sk true tape = do _ <- sign_prepare P msg sk; Panic.
Proof.
  intros H. rewrite signature_unfold. unfold sign_draw, draw.
  destruct (Z.ltb_spec (zlen tape) (rand_bytes P)) as [_|H']; [|lia]. mnorm.
Qed.

Corollary signature_random_consumes P sig msg sk tape s tape' :
  signature P sig msg sk true tape = Ok (s, tape') ->
  rand_bytes P <= zlen tape /\ tape' = skipn (Z.to_nat (rand_bytes P)) tape /\
  signature_with P sig msg sk (Some (firstn (Z.to_nat (rand_bytes P)) tape)) = Ok s.
Proof.
  intros H. destruct (Z.lt_ge_cases (zlen tape) (rand_bytes P)) as [Hs|Hl].
  - rewrite signature_random_short in H by exact Hs. destruct (sign_prepare P msg sk); discriminate.
  - rewrite signature_random_enough in H by exact Hl.
    destruct (signature_with P sig msg sk _); cbn [bind] in H; inversion H. auto.
Qed.

(** for Dilithium (pMLDSA = false) the 64 drawn bytes ARE rho' *)
Theorem sign_rhoprime_dilithium P key mu r : pMLDSA P = false -> sign_rhoprime P key mu (Some r) = Ok r.
Proof. intros H. unfold sign_rhoprime. rewrite H. reflexivity. Qed.
Theorem sign_rhoprime_mldsa P key mu r : pMLDSA P = true ->
  sign_rhoprime P key mu (Some r) = shake256_hash [key; r; mu] CRHBYTES.
Proof. intros H. unfold sign_rhoprime. rewrite H. reflexivity. Qed.
Theorem rand_bytes_mldsa P : pMLDSA P = true -> rand_bytes P = 32.
Proof. intros H. unfold rand_bytes. rewrite H. reflexivity. Qed.
Theorem rand_bytes_dilithium P : pMLDSA P = false -> rand_bytes P = 64.
Proof. intros H. unfold rand_bytes. rewrite H. reflexivity. Qed.

(** ** A.3 The steps before the draw cannot run out of fuel, so a short tape gives [Panic] exactly *)

Definition noOOF {A} (m : res A) : Prop := m <> OutOfFuel.

Lemma noOOF_bind {A B} (m : res A) (f : A -> res B) :
  noOOF m -> (forall a, m = Ok a -> noOOF (f a)) -> noOOF (bind m f).
Proof. unfold noOOF. destruct m; cbn [bind]; intros H1 H2; [apply H2; reflexivity | discriminate | congruence]. Qed.
Lemma noOOF_Ok {A} (a : A) : noOOF (Ok a).
Proof. discriminate. Qed.
Lemma noOOF_Panic {A} : noOOF (@Panic A).
Proof. discriminate. Qed.
Lemma noOOF_get {A} (l : list A) i : noOOF (get l i).
Proof. unfold noOOF, get. destruct (i <? 0); [discriminate|]. destruct (nth_error l (Z.to_nat i)); discriminate. Qed.
Lemma noOOF_set_nat {A} (l : list A) v : forall i, noOOF (set_nat l i v).
Proof.
  induction l as [|x l IH]; intros i; cbn [set_nat]; [discriminate|].
  destruct i; [discriminate|]. apply noOOF_bind; [apply IH | intros; discriminate].
Qed.
Lemma noOOF_set {A} (l : list A) i v : noOOF (set l i v).
Proof. unfold set. destruct (i <? 0); [discriminate | apply noOOF_set_nat]. Qed.
Lemma noOOF_slice_to {A} (l : list A) b : noOOF (slice_to l b).
Proof. unfold noOOF, slice_to. destruct (_ && _); discriminate. Qed.
Lemma noOOF_slice_from {A} (l : list A) b : noOOF (slice_from l b).
Proof. unfold noOOF, slice_from. destruct (_ && _); discriminate. Qed.
Lemma noOOF_slice {A} (l : list A) a b : noOOF (slice l a b).
Proof. unfold noOOF, slice. destruct (_ && _); discriminate. Qed.
Lemma noOOF_splice {A} (l : list A) o s : noOOF (splice l o s).
Proof. unfold noOOF, splice. destruct (_ && _); discriminate. Qed.
Lemma noOOF_chk_s n x : noOOF (chk_s n x).
Proof. unfold noOOF, chk_s. destruct (in_signed n x); discriminate. Qed.
Lemma noOOF_chk_u n x : noOOF (chk_u n x).
Proof. unfold noOOF, chk_u. destruct (in_unsigned n x); discriminate. Qed.
Lemma noOOF_shl_u n a k : noOOF (shl_u n a k).
Proof. unfold noOOF, shl_u. destruct (_ && _); discriminate. Qed.
Lemma noOOF_foldM {A S} (f : S -> A -> res S) l : (forall s x, noOOF (f s x)) -> forall s, noOOF (foldM f l s).
Proof.
  intros H. induction l as [|x l IH]; intros s; cbn [foldM]; [discriminate|].
  apply noOOF_bind; [apply H | intros; apply IH].
Qed.

Ltac noo :=
  repeat first
    [ apply noOOF_Ok | apply noOOF_Panic | apply noOOF_get | apply noOOF_set | apply noOOF_slice_to
    | apply noOOF_slice_from | apply noOOF_slice | apply noOOF_splice
    | apply noOOF_chk_s | apply noOOF_chk_u | apply noOOF_shl_u
    | (apply noOOF_bind; [|intros ? ?])
    | match goal with
      | |- noOOF (let (_, _) := ?x in _) => destruct x
      | |- noOOF (if ?c then _ else _) => destruct c
      end ].

Lemma noOOF_for_idx {A} n (f : Z -> A -> res A) v : (forall i x, noOOF (f i x)) -> noOOF (for_idx n f v).
Proof. intros H. unfold for_idx. apply noOOF_foldM. intros s x. noo. apply H. Qed.

Lemma noOOF_eta_unpack_list eta : forall n a, noOOF (eta_unpack_list eta n a).
Proof.
  induction n as [|n IH]; intros a; cbn [eta_unpack_list]; [discriminate|].
  destruct (eta =? 2).
  - destruct a as [|b0 [|b1 [|b2 rest]]]; try discriminate. unfold i32_sub. noo. apply IH.
  - destruct a as [|b0 rest]; try discriminate. unfold i32_sub. noo. apply IH.
Qed.

Lemma noOOF_t0_unpack_list : forall n a, noOOF (t0_unpack_list n a).
Proof.
  induction n as [|n IH]; intros a; cbn [t0_unpack_list]; [discriminate|].
  destruct a as [|b0 [|b1 [|b2 [|b3 [|b4 [|b5 [|b6 [|b7 [|b8 [|b9 [|b10 [|b11 [|b12 rest]]]]]]]]]]]]];
    try discriminate.
  unfold i32_sub. noo. apply IH.
Qed.

Lemma noOOF_unpack_sk P rho tr key t0 s1 s2 sk : noOOF (unpack_sk P rho tr key t0 s1 s2 sk).
Proof.
  unfold unpack_sk. noo.
  - apply noOOF_for_idx. intros. noo. apply noOOF_eta_unpack_list.
  - apply noOOF_for_idx. intros. noo. apply noOOF_eta_unpack_list.
  - apply noOOF_for_idx. intros. noo. apply noOOF_t0_unpack_list.
Qed.

(** the sponge *)
Lemma noOOF_keccakf st : noOOF (keccakf st).
Proof.
  unfold keccakf. apply noOOF_foldM. intros s x.
  destruct (src_keccak_round2 _ _ _ _ _ _ _); discriminate.
Qed.

Lemma noOOF_xor_bytes bs : forall s i, noOOF (xor_bytes s i bs).
Proof. induction bs as [|b r IH]; intros s i; cbn [xor_bytes]; [discriminate|]. noo. apply IH. Qed.

(** one block is consumed per round when [pos < r] *)
Lemma noOOF_absorb_loop_lt r : 0 < r -> forall fuel inp s pos,
  pos < r -> (length inp < fuel)%nat -> noOOF (absorb_loop fuel r s pos inp).
Proof.
  intros Hr. induction fuel as [|f IH]; intros inp s pos Hp Hf; [lia|].
  cbn [absorb_loop]. destruct (Z.leb_spec r (pos + zlen inp)) as [Hle|Hgt].
  - unfold usize_sub. apply noOOF_bind; [noo|]. intros n Hn.
    assert (En : n = r - pos).
    { unfold chk_u in Hn. destruct (in_unsigned 64 (r - pos)); inversion Hn; reflexivity. }
    apply noOOF_bind; [apply noOOF_xor_bytes|]. intros s1 _.
    apply noOOF_bind; [apply noOOF_keccakf|]. intros s2 _.
    apply IH; [lia|]. rewrite skipn_length. unfold zlen in Hle. lia.
  - noo. apply noOOF_xor_bytes.
Qed.

Lemma noOOF_absorb_loop r : 0 < r -> forall fuel inp s pos,
  (S (length inp) < fuel)%nat -> noOOF (absorb_loop fuel r s pos inp).
Proof.
  intros Hr fuel inp s pos Hf.
  destruct (Z.lt_ge_cases pos r) as [Hp|Hp]; [apply noOOF_absorb_loop_lt; [exact Hr | exact Hp | lia]|].
  destruct fuel as [|f]; [lia|].
  cbn [absorb_loop]. destruct (Z.leb_spec r (pos + zlen inp)) as [Hle|Hgt].
  - unfold usize_sub. apply noOOF_bind; [noo|]. intros n Hn.
    apply noOOF_bind; [apply noOOF_xor_bytes|]. intros s1 _.
    apply noOOF_bind; [apply noOOF_keccakf|]. intros s2 _.
    apply noOOF_absorb_loop_lt; [exact Hr | lia |]. rewrite skipn_length. lia.
  - noo. apply noOOF_xor_bytes.
Qed.

Lemma noOOF_keccak_absorb st r input inlen : 0 < r -> noOOF (keccak_absorb st r input inlen).
Proof.
  intros Hr. unfold keccak_absorb. apply noOOF_bind; [noo|]. intros inp _.
  apply noOOF_bind; [apply noOOF_absorb_loop; [exact Hr | lia]|]. intros [s p] _. noo.
Qed.

Lemma noOOF_keccak_finalize st r : noOOF (keccak_finalize st r).
Proof. unfold keccak_finalize, usize_sub. noo. Qed.

Lemma keccak_finalize_pos st r st' : keccak_finalize st r = Ok st' -> kpos st' = r.
Proof.
  unfold keccak_finalize. intros H.
  apply bind_ok in H as (s1 & _ & H). apply bind_ok in H as (i & _ & H).
  apply bind_ok in H as (lane & _ & H). apply bind_ok in H as (s2 & _ & H).
  inversion H. reflexivity.
Qed.

Lemma noOOF_state_bytes s : forall n i, noOOF (state_bytes s i n).
Proof. induction n as [|n IH]; intros i; cbn [state_bytes]; [discriminate|]. unfold state_byte. noo. apply IH. Qed.

Lemma noOOF_squeeze_loop r : 0 < r -> forall fuel s pos outlen acc,
  pos <= r -> 0 <= outlen -> (Z.to_nat outlen < fuel)%nat -> noOOF (squeeze_loop fuel r s pos outlen acc).
Proof.
  intros Hr. induction fuel as [|f IH]; intros s pos outlen acc Hp Ho Hf; [lia|].
  cbn [squeeze_loop]. destruct (Z.eqb_spec outlen 0) as [E|E]; [discriminate|].
  apply noOOF_bind.
  { destruct (pos =? r); [|discriminate]. apply noOOF_bind; [apply noOOF_keccakf | intros; discriminate]. }
  intros [s1 pos1] H1.
  assert (Hp1 : pos1 < r).
  { destruct (Z.eqb_spec pos r) as [E'|E'].
    - destruct (keccakf s); cbn [bind] in H1; inversion H1. lia.
    - inversion H1. lia. }
  apply noOOF_bind; [apply noOOF_state_bytes|]. intros bs _.
  unfold usize_sub. apply noOOF_bind; [noo|]. intros rest Hrest.
  assert (Er : rest = outlen - Z.min (r - pos1) outlen).
  { unfold chk_u in Hrest. destruct (in_unsigned 64 _); inversion Hrest; reflexivity. }
  apply IH; lia.
Qed.

Lemma noOOF_keccak_squeeze out outlen st r : 0 < r -> kpos st <= r -> noOOF (keccak_squeeze out outlen st r).
Proof.
  intros Hr Hp. unfold keccak_squeeze. destruct (Z.ltb_spec outlen 0) as [H|H]; [discriminate|].
  apply noOOF_bind; [apply noOOF_squeeze_loop; [exact Hr | exact Hp | exact H | lia]|].
  intros [[bs s] p] _. noo.
Qed.

Lemma noOOF_shake256_hash chunks n : noOOF (shake256_hash chunks n).
Proof.
  unfold shake256_hash. apply noOOF_bind.
  { apply noOOF_foldM. intros st c. apply noOOF_keccak_absorb. reflexivity. }
  intros st _. apply noOOF_bind; [apply noOOF_keccak_finalize|]. intros st' Hf.
  apply noOOF_bind.
  { apply noOOF_keccak_squeeze; [reflexivity|]. apply keccak_finalize_pos in Hf. rewrite Hf. reflexivity. }
  intros [o k] _. discriminate.
Qed.

Theorem sign_prepare_noOOF P msg sk : sign_prepare P msg sk <> OutOfFuel.
Proof.
  unfold sign_prepare. apply noOOF_bind; [apply noOOF_unpack_sk|].
  intros [[[[[rho tr] key] t0] s1] s2] _.
  apply noOOF_bind; [apply noOOF_shake256_hash|]. intros; discriminate.
Qed.

(** 4 in the requested form: draw first, then the tape-free function of the drawn bytes.  The model draws
    after unpacking the key and hashing the message; since those steps cannot end in [OutOfFuel], moving
    the draw to the front changes nothing, not even the kind of failure. *)
Theorem signature_random_draw P sig msg sk tape :
  signature P sig msg sk true tape =
  do '(r, tape') <- draw tape (rand_bytes P);
  do s <- signature_with P sig msg sk (Some r);
  Ok (s, tape').
Proof.
  unfold draw. destruct (Z.ltb_spec (zlen tape) (rand_bytes P)) as [H|H]; cbn [bind].
  - rewrite signature_random_short by exact H.
    pose proof (sign_prepare_noOOF P msg sk) as N.
    destruct (sign_prepare P msg sk); [reflexivity | reflexivity | congruence].
  - apply signature_random_enough. exact H.
Qed.

Corollary signature_random_draw_mldsa P sig msg sk tape : pMLDSA P = true ->
  signature P sig msg sk true tape =
  if zlen tape <? 32 then Panic
  else do s <- signature_with P sig msg sk (Some (firstn 32 tape)); Ok (s, skipn 32 tape).
Proof.
  intros H. rewrite signature_random_draw. rewrite (rand_bytes_mldsa P H). unfold draw.
  change (Z.to_nat 32) with 32%nat. destruct (zlen tape <? 32); reflexivity.
Qed.

Corollary signature_random_draw_dilithium P sig msg sk tape : pMLDSA P = false ->
  signature P sig msg sk true tape =
  if zlen tape <? 64 then Panic
  else do s <- signature_with P sig msg sk (Some (firstn 64 tape)); Ok (s, skipn 64 tape).
Proof.
  intros H. rewrite signature_random_draw. rewrite (rand_bytes_dilithium P H). unfold draw.
  change (Z.to_nat 64) with 64%nat. destruct (zlen tape <? 64); reflexivity.
Qed.

(** ** A.4 API level (MApi.v) *)

(** generic shape of the two ML-DSA signing wrappers *)
Definition ml_sign_gen (P : params) (sk m : list Z) (ctx : option (list Z)) (hedged : bool) (tape : list Z)
  : res (option (list Z) * list Z) :=
  if ctx_too_long ctx then Ok (None, tape)
  else if hedged then
    (do '(r, tape') <- draw tape (rand_bytes P);
     do s <- signature_with P (repeatZ 0 (pSIG P)) m sk (Some r); Ok (Some s, tape'))
  else (do s <- signature_with P (repeatZ 0 (pSIG P)) m sk None; Ok (Some s, tape)).

Theorem ml_sign_eq P sk msg ctx hedged tape :
  ml_sign P sk msg ctx hedged tape = ml_sign_gen P sk (frame_pure ctx msg) ctx hedged tape.
Proof.
  unfold ml_sign, ml_sign_gen. destruct (ctx_too_long ctx); [reflexivity|].
  destruct hedged; [rewrite signature_random_draw | rewrite signature_deterministic_eq]; mnorm.
Qed.

Theorem ml_prehash_sign_eq P sk msg ctx hedged ph tape :
  ml_prehash_sign P sk msg ctx hedged ph tape = ml_sign_gen P sk (frame_hash ph ctx msg) ctx hedged tape.
Proof.
  unfold ml_prehash_sign, ml_sign_gen. destruct (ctx_too_long ctx); [reflexivity|].
  destruct hedged; [rewrite signature_random_draw | rewrite signature_deterministic_eq]; mnorm.
Qed.

(** consequences for the generic shape *)
Lemma ml_sign_gen_ctx_too_long P sk m ctx hedged tape :
  ctx_too_long ctx = true -> ml_sign_gen P sk m ctx hedged tape = Ok (None, tape).
Proof. intros H. unfold ml_sign_gen. rewrite H. reflexivity. Qed.

Lemma ml_sign_gen_unhedged P sk m ctx tape o tape' :
  ml_sign_gen P sk m ctx false tape = Ok (o, tape') -> tape' = tape.
Proof.
  unfold ml_sign_gen. destruct (ctx_too_long ctx); [intros H; inversion H; reflexivity|].
  destruct (signature_with _ _ _ _ _); cbn [bind]; intros H; inversion H; reflexivity.
Qed.

Lemma ml_sign_gen_unhedged_irrelevant P sk m ctx t1 t2 :
  forget_tape (ml_sign_gen P sk m ctx false t1) = forget_tape (ml_sign_gen P sk m ctx false t2).
Proof.
  unfold ml_sign_gen. destruct (ctx_too_long ctx); [reflexivity|].
  destruct (signature_with _ _ _ _ _); reflexivity.
Qed.

Lemma ml_sign_gen_hedged P sk m ctx tape : pMLDSA P = true -> ctx_too_long ctx = false ->
  ml_sign_gen P sk m ctx true tape =
  if zlen tape <? 32 then Panic
  else do s <- signature_with P (repeatZ 0 (pSIG P)) m sk (Some (firstn 32 tape)); Ok (Some s, skipn 32 tape).
Proof.
  intros HP Hc. unfold ml_sign_gen. rewrite Hc, (rand_bytes_mldsa P HP). unfold draw.
  change (Z.to_nat 32) with 32%nat. destruct (zlen tape <? 32); reflexivity.
Qed.

(** 5a. hedged = false: nothing is drawn and the tape is irrelevant *)
Theorem ml_sign_unhedged_no_draw P sk msg ctx tape o tape' :
  ml_sign P sk msg ctx false tape = Ok (o, tape') -> tape' = tape.
Proof. rewrite ml_sign_eq. apply ml_sign_gen_unhedged. Qed.
Theorem ml_prehash_sign_unhedged_no_draw P sk msg ctx ph tape o tape' :
  ml_prehash_sign P sk msg ctx false ph tape = Ok (o, tape') -> tape' = tape.
Proof. rewrite ml_prehash_sign_eq. apply ml_sign_gen_unhedged. Qed.
Theorem ml_sign_unhedged_tape_irrelevant P sk msg ctx t1 t2 :
  forget_tape (ml_sign P sk msg ctx false t1) = forget_tape (ml_sign P sk msg ctx false t2).
Proof. rewrite !ml_sign_eq. apply ml_sign_gen_unhedged_irrelevant. Qed.
Theorem ml_prehash_sign_unhedged_tape_irrelevant P sk msg ctx ph t1 t2 :
  forget_tape (ml_prehash_sign P sk msg ctx false ph t1) = forget_tape (ml_prehash_sign P sk msg ctx false ph t2).
Proof. rewrite !ml_prehash_sign_eq. apply ml_sign_gen_unhedged_irrelevant. Qed.

(** 5b. hedged = true (ML-DSA parameter sets): exactly 32 bytes *)
Theorem ml_sign_hedged_draws_32 P sk msg ctx tape : pMLDSA P = true -> ctx_too_long ctx = false ->
  ml_sign P sk msg ctx true tape =
  if zlen tape <? 32 then Panic
  else do s <- signature_with P (repeatZ 0 (pSIG P)) (frame_pure ctx msg) sk (Some (firstn 32 tape));
       Ok (Some s, skipn 32 tape).
Proof. intros. rewrite ml_sign_eq. apply ml_sign_gen_hedged; assumption. Qed.
Theorem ml_prehash_sign_hedged_draws_32 P sk msg ctx ph tape : pMLDSA P = true -> ctx_too_long ctx = false ->
  ml_prehash_sign P sk msg ctx true ph tape =
  if zlen tape <? 32 then Panic
  else do s <- signature_with P (repeatZ 0 (pSIG P)) (frame_hash ph ctx msg) sk (Some (firstn 32 tape));
       Ok (Some s, skipn 32 tape).
Proof. intros. rewrite ml_prehash_sign_eq. apply ml_sign_gen_hedged; assumption. Qed.

(** 5c. context longer than 255 bytes: (None, tape), nothing drawn, whatever [hedged] is *)
Theorem ml_sign_ctx_too_long P sk msg ctx hedged tape :
  ctx_too_long ctx = true -> ml_sign P sk msg ctx hedged tape = Ok (None, tape).
Proof. intros. rewrite ml_sign_eq. apply ml_sign_gen_ctx_too_long. assumption. Qed.
Theorem ml_prehash_sign_ctx_too_long P sk msg ctx hedged ph tape :
  ctx_too_long ctx = true -> ml_prehash_sign P sk msg ctx hedged ph tape = Ok (None, tape).
Proof. intros. rewrite ml_prehash_sign_eq. apply ml_sign_gen_ctx_too_long. assumption. Qed.

(** 5d. dil_sign has no tape parameter; it runs the deterministic signer (on the empty tape) *)
Theorem dil_sign_eq P sk msg : dil_sign P sk msg = signature_with P (repeatZ 0 (pSIG P)) msg sk None.
Proof.
  unfold dil_sign. rewrite signature_deterministic_eq.
  destruct (signature_with _ _ _ _ _); reflexivity.
Qed.

(** 5e. kp_generate: seeded draws nothing; unseeded draws exactly 32 and is the seeded function of them *)
Definition kp_generate_core (P : params) (xi : list Z) : res (list Z * list Z) :=
  do '(pk, sk) <- keypair_core P (repeatZ 0 (pPK P)) (repeatZ 0 (pSK P)) xi;
  do s <- sk_from_bytes P sk; do p <- pk_from_bytes P pk; Ok (s, p).

Theorem kp_generate_seeded_eq P xi tape :
  kp_generate P (Some xi) tape =
  if zlen xi =? 32 then (do '(s, p) <- kp_generate_core P xi; Ok (s, p, tape)) else Panic.
Proof.
  unfold kp_generate, kp_generate_core. rewrite keypair_seeded_eq.
  destruct (zlen xi =? 32); [|reflexivity]. mnorm.
Qed.

Theorem kp_generate_seeded_no_draw P xi tape s p tape' :
  kp_generate P (Some xi) tape = Ok (s, p, tape') -> tape' = tape.
Proof.
  rewrite kp_generate_seeded_eq. destruct (zlen xi =? 32); [|discriminate].
  destruct (kp_generate_core P xi) as [[a b]| |]; cbn [bind]; intros H; inversion H; reflexivity.
Qed.

Theorem kp_generate_unseeded_eq P tape :
  kp_generate P None tape =
  if zlen tape <? 32 then Panic else kp_generate P (Some (firstn 32 tape)) (skipn 32 tape).
Proof.
  unfold kp_generate. rewrite keypair_unseeded_eq. destruct (zlen tape <? 32); reflexivity.
Qed.

Corollary kp_generate_unseeded_core P tape :
  kp_generate P None tape =
  if zlen tape <? 32 then Panic
  else do '(s, p) <- kp_generate_core P (firstn 32 tape); Ok (s, p, skipn 32 tape).
Proof.
  rewrite kp_generate_unseeded_eq. destruct (Z.ltb_spec (zlen tape) 32) as [H|H]; [reflexivity|].
  rewrite kp_generate_seeded_eq.
  pose proof (zlen_firstn tape 32 ltac:(lia)) as E. change (Z.to_nat 32) with 32%nat in E.
  rewrite E. reflexivity.
Qed.

(** Remark (5f): [verify], [dil_verify], [ml_verify], [ml_prehash_verify] have no tape parameter and return
    [res bool]: by their types they neither read nor return randomness. *)

(** ** A.5 Histories of operations on one tape *)

Inductive pset := S2 | S3 | S5 | M44 | M65 | M87.
Definition params_of (s : pset) : params :=
  match s with S2 => P_lvl2 | S3 => P_lvl3 | S5 => P_lvl5 | M44 => P_ml44 | M65 => P_ml65 | M87 => P_ml87 end.

Inductive op :=
| OKeygen (s : pset) (seed : option (list Z))                       (* sign::keypair on fresh zero buffers *)
| OSign (s : pset) (sk msg : list Z) (rand : bool)                  (* sign::signature on a fresh zero buffer *)
| OVerify (s : pset) (sig msg pk : list Z)                          (* sign::verify *)
| OKpGenerate (s : pset) (seed : option (list Z))                   (* Keypair::generate *)
| ODilSign (s : pset) (sk msg : list Z)
| ODilVerify (s : pset) (pk msg sig : list Z)
| OMlSign (s : pset) (sk msg : list Z) (ctx : option (list Z)) (hedged : bool)
| OMlPrehashSign (s : pset) (sk msg : list Z) (ctx : option (list Z)) (hedged ph : bool)
| OMlVerify (s : pset) (pk msg sig : list Z) (ctx : option (list Z))
| OMlPrehashVerify (s : pset) (pk msg sig : list Z) (ctx : option (list Z)) (ph : bool).

Inductive output :=
| OutKeys (a b : list Z) | OutSig (s : list Z) | OutOptSig (o : option (list Z)) | OutBool (b : bool).

Definition step (tape : list Z) (o : op) : res (output * list Z) :=
  match o with
  | OKeygen s seed =>
      let P := params_of s in
      do '(pk, sk, t') <- keypair P (repeatZ 0 (pPK P)) (repeatZ 0 (pSK P)) seed tape; Ok (OutKeys pk sk, t')
  | OSign s sk msg rand =>
      let P := params_of s in
      do '(sg, t') <- signature P (repeatZ 0 (pSIG P)) msg sk rand tape; Ok (OutSig sg, t')
  | OVerify s sig msg pk => do b <- verify (params_of s) sig msg pk; Ok (OutBool b, tape)
  | OKpGenerate s seed => do '(a, b, t') <- kp_generate (params_of s) seed tape; Ok (OutKeys a b, t')
  | ODilSign s sk msg => do sg <- dil_sign (params_of s) sk msg; Ok (OutSig sg, tape)
  | ODilVerify s pk msg sig => do b <- dil_verify (params_of s) pk msg sig; Ok (OutBool b, tape)
  | OMlSign s sk msg ctx hedged =>
      do '(o, t') <- ml_sign (params_of s) sk msg ctx hedged tape; Ok (OutOptSig o, t')
  | OMlPrehashSign s sk msg ctx hedged ph =>
      do '(o, t') <- ml_prehash_sign (params_of s) sk msg ctx hedged ph tape; Ok (OutOptSig o, t')
  | OMlVerify s pk msg sig ctx => do b <- ml_verify (params_of s) pk msg sig ctx; Ok (OutBool b, tape)
  | OMlPrehashVerify s pk msg sig ctx ph =>
      do b <- ml_prehash_verify (params_of s) pk msg sig ctx ph; Ok (OutBool b, tape)
  end.

Fixpoint run (tape : list Z) (ops : list op) : res (list output * list Z) :=
  match ops with
  | [] => Ok ([], tape)
  | o :: r => do '(x, t1) <- step tape o; do '(xs, t2) <- run t1 r; Ok (x :: xs, t2)
  end.

(** the number of tape bytes an operation takes, read off its kind and explicit arguments *)
Definition draws (o : op) : Z :=
  match o with
  | OKeygen _ None | OKpGenerate _ None => 32
  | OSign s _ _ true => rand_bytes (params_of s)
  | OMlSign s _ _ ctx true | OMlPrehashSign s _ _ ctx true _ =>
      if ctx_too_long ctx then 0 else rand_bytes (params_of s)
  | _ => 0
  end.

Definition deterministic (o : op) : bool := draws o =? 0.

(** the tape-free function computed by an operation from the bytes it draws *)
Definition step_with (o : op) (r : list Z) : res output :=
  match o with
  | OKeygen s seed =>
      let P := params_of s in
      match seed with
      | Some xi => if zlen xi =? 32
                   then (do '(p, k) <- keypair_core P (repeatZ 0 (pPK P)) (repeatZ 0 (pSK P)) xi; Ok (OutKeys p k))
                   else Panic
      | None => do '(p, k) <- keypair_core P (repeatZ 0 (pPK P)) (repeatZ 0 (pSK P)) r; Ok (OutKeys p k)
      end
  | OSign s sk msg rand =>
      let P := params_of s in
      do sg <- signature_with P (repeatZ 0 (pSIG P)) msg sk (if rand then Some r else None); Ok (OutSig sg)
  | OVerify s sig msg pk => do b <- verify (params_of s) sig msg pk; Ok (OutBool b)
  | OKpGenerate s seed =>
      match seed with
      | Some xi => if zlen xi =? 32
                   then (do '(a, b) <- kp_generate_core (params_of s) xi; Ok (OutKeys a b)) else Panic
      | None => do '(a, b) <- kp_generate_core (params_of s) r; Ok (OutKeys a b)
      end
  | ODilSign s sk msg => do sg <- dil_sign (params_of s) sk msg; Ok (OutSig sg)
  | ODilVerify s pk msg sig => do b <- dil_verify (params_of s) pk msg sig; Ok (OutBool b)
  | OMlSign s sk msg ctx hedged =>
      let P := params_of s in
      if ctx_too_long ctx then Ok (OutOptSig None) else
      do sg <- signature_with P (repeatZ 0 (pSIG P)) (frame_pure ctx msg) sk (if hedged then Some r else None);
      Ok (OutOptSig (Some sg))
  | OMlPrehashSign s sk msg ctx hedged ph =>
      let P := params_of s in
      if ctx_too_long ctx then Ok (OutOptSig None) else
      do sg <- signature_with P (repeatZ 0 (pSIG P)) (frame_hash ph ctx msg) sk (if hedged then Some r else None);
      Ok (OutOptSig (Some sg))
  | OMlVerify s pk msg sig ctx => do b <- ml_verify (params_of s) pk msg sig ctx; Ok (OutBool b)
  | OMlPrehashVerify s pk msg sig ctx ph => do b <- ml_prehash_verify (params_of s) pk msg sig ctx ph; Ok (OutBool b)
  end.

Lemma draw_0 tape : draw tape 0 = Ok ([], tape).
Proof. unfold draw. destruct (Z.ltb_spec (zlen tape) 0) as [H|H]; [unfold zlen in H; lia | reflexivity]. Qed.

Lemma rand_bytes_cases P : rand_bytes P = 32 \/ rand_bytes P = 64.
Proof. unfold rand_bytes. destruct (pMLDSA P); auto. Qed.

Lemma draws_nonneg o : 0 <= draws o.
Proof.
  destruct o as [s [x|]|s sk msg [|]|s sig msg pk|s [x|]|s sk msg|s pk msg sig|s sk msg ctx [|]
                |s sk msg ctx [|] ph|s pk msg sig ctx|s pk msg sig ctx ph]; cbn [draws]; try lia;
  try destruct (ctx_too_long ctx); try lia; destruct (rand_bytes_cases (params_of s)); lia.
Qed.

(** Normal form of one step: draw [draws o] bytes, apply the tape-free function, return the rest.
    An equation between [res] values (every failure case included). *)
Theorem step_normal tape o :
  step tape o = do '(r, tape') <- draw tape (draws o); do x <- step_with o r; Ok (x, tape').
Proof.
  destruct o as [s [xi|]|s sk msg [|]|s sig msg pk|s [xi|]|s sk msg|s pk msg sig|s sk msg ctx hedged
                |s sk msg ctx hedged ph|s pk msg sig ctx|s pk msg sig ctx ph];
    cbn [step draws step_with]; cbv zeta; rewrite ?draw_0; cbn [bind].
  - rewrite keypair_seeded_eq. mnorm.
  - rewrite keypair_unseeded_core. unfold draw. change (Z.to_nat 32) with 32%nat. mnorm.
  - rewrite signature_random_draw. mnorm.
  - rewrite signature_deterministic_eq. mnorm.
  - mnorm.
  - rewrite kp_generate_seeded_eq. mnorm.
  - rewrite kp_generate_unseeded_core. unfold draw. change (Z.to_nat 32) with 32%nat. mnorm.
  - mnorm.
  - mnorm.
  - rewrite ml_sign_eq. unfold ml_sign_gen.
    destruct hedged; destruct (ctx_too_long ctx); rewrite ?draw_0; mnorm.
  - rewrite ml_prehash_sign_eq. unfold ml_sign_gen.
    destruct hedged; destruct (ctx_too_long ctx); rewrite ?draw_0; mnorm.
  - mnorm.
  - mnorm.
Qed.

(** what a successful step does to the tape *)
Theorem step_tape tape o x tape' :
  step tape o = Ok (x, tape') ->
  draws o <= zlen tape /\ tape' = skipn (Z.to_nat (draws o)) tape /\
  step_with o (firstn (Z.to_nat (draws o)) tape) = Ok x.
Proof.
  rewrite step_normal. unfold draw.
  destruct (Z.ltb_spec (zlen tape) (draws o)) as [H|H]; cbn [bind]; [discriminate|].
  destruct (step_with o _) as [y| |]; cbn [bind]; intros E; inversion E; subst. auto.
Qed.

Definition total_draws (ops : list op) : Z := fold_right (fun o acc => draws o + acc) 0 ops.

Lemma total_draws_nonneg ops : 0 <= total_draws ops.
Proof. induction ops as [|o r IH]; cbn [total_draws fold_right]; [lia|]. pose proof (draws_nonneg o). fold (total_draws r). lia. Qed.

(** 6a. consumption is additive and in call order *)
Theorem run_tape : forall ops tape outs tape',
  run tape ops = Ok (outs, tape') ->
  total_draws ops <= zlen tape /\ tape' = skipn (Z.to_nat (total_draws ops)) tape /\ length outs = length ops.
Proof.
  induction ops as [|o r IH]; intros tape outs tape' H; cbn [run] in H.
  - inversion H; subst. cbn. unfold zlen. split; [lia|]. split; reflexivity.
  - apply bind_ok in H as ([x t1] & Hs & H). apply bind_ok in H as ([xs t2] & Hr & H).
    inversion H; subst. clear H.
    apply step_tape in Hs as (Hd & -> & _). apply IH in Hr as (Ht & -> & Hl).
    pose proof (draws_nonneg o) as N1. pose proof (total_draws_nonneg r) as N2.
    cbn [total_draws fold_right length]. fold (total_draws r).
    unfold zlen in *. rewrite skipn_length in Ht.
    split; [lia|]. split; [|lia].
    rewrite skipn_skipn'. f_equal. lia.
Qed.

(** the k-th operation of a successful history sees the tape from offset (sum of the earlier draw counts) *)
Theorem run_app tape h ops :
  run tape (h ++ ops) =
  do '(xs, t1) <- run tape h; do '(ys, t2) <- run t1 ops; Ok (xs ++ ys, t2).
Proof.
  revert tape. induction h as [|o h IH]; intros tape; cbn [app run bind].
  - destruct (run tape ops) as [[ys t2]| |]; reflexivity.
  - destruct (step tape o) as [[x t1]| |]; cbn [bind]; try reflexivity.
    rewrite IH. destruct (run t1 h) as [[xs t1']| |]; cbn [bind]; try reflexivity.
    destruct (run t1' ops) as [[ys t2]| |]; reflexivity.
Qed.

Theorem run_then_step tape h outs tape' o :
  run tape h = Ok (outs, tape') ->
  step tape' o = step (skipn (Z.to_nat (total_draws h)) tape) o.
Proof. intros H. apply run_tape in H as (_ & -> & _). reflexivity. Qed.

(** 6b. history independence of deterministic operations: the outcome of [o] (output, or the kind of failure)
    after ANY successful history on ANY tape equals its outcome when run first on any other tape;
    it is [step_with o []], a function of the explicit arguments alone. *)
Theorem step_deterministic o tape :
  deterministic o = true -> step tape o = do x <- step_with o []; Ok (x, tape).
Proof.
  unfold deterministic. intros H. apply Z.eqb_eq in H. rewrite step_normal, H, draw_0. reflexivity.
Qed.

Theorem deterministic_history_independent o h t1 t2 outs t1' :
  deterministic o = true ->
  run t1 h = Ok (outs, t1') ->
  forget_tape (step t1' o) = forget_tape (step t2 o) /\
  (forall x t', step t1' o = Ok (x, t') -> t' = t1').
Proof.
  intros Hd _. rewrite !(step_deterministic o _ Hd). split.
  - destruct (step_with o []); reflexivity.
  - intros x t'. destruct (step_with o []); cbn [bind]; intros E; inversion E; reflexivity.
Qed.

(** which operations are deterministic *)
Theorem deterministic_cases :
  (forall s xi, deterministic (OKeygen s (Some xi)) = true) /\
  (forall s sk msg, deterministic (OSign s sk msg false) = true) /\
  (forall s sig msg pk, deterministic (OVerify s sig msg pk) = true) /\
  (forall s xi, deterministic (OKpGenerate s (Some xi)) = true) /\
  (forall s sk msg, deterministic (ODilSign s sk msg) = true) /\
  (forall s pk msg sig, deterministic (ODilVerify s pk msg sig) = true) /\
  (forall s sk msg ctx, deterministic (OMlSign s sk msg ctx false) = true) /\
  (forall s sk msg ctx ph, deterministic (OMlPrehashSign s sk msg ctx false ph) = true) /\
  (forall s pk msg sig ctx, deterministic (OMlVerify s pk msg sig ctx) = true) /\
  (forall s pk msg sig ctx ph, deterministic (OMlPrehashVerify s pk msg sig ctx ph) = true).
Proof. repeat split; reflexivity. Qed.

(** the draw counts by kind, as numbers *)
Theorem draws_cases :
  (forall s, draws (OKeygen s None) = 32) /\ (forall s, draws (OKpGenerate s None) = 32) /\
  (forall s sk msg, draws (OSign s sk msg true) = match s with S2 | S3 | S5 => 64 | _ => 32 end) /\
  (forall s sk msg ctx, draws (OMlSign s sk msg ctx true) =
     if ctx_too_long ctx then 0 else match s with S2 | S3 | S5 => 64 | _ => 32 end) /\
  (forall s sk msg ctx ph, draws (OMlPrehashSign s sk msg ctx true ph) =
     if ctx_too_long ctx then 0 else match s with S2 | S3 | S5 => 64 | _ => 32 end).
Proof.
  repeat split; intros; try reflexivity; destruct s; cbn [draws]; try reflexivity;
    destruct (ctx_too_long ctx); reflexivity.
Qed.

(** * B. C10: the incoming contents of output buffers are irrelevant *)

(** ** B.0 Relational framework: two runs of the same code on two buffers *)

Definition rel_res {A B} (R : A -> B -> Prop) (r1 : res A) (r2 : res B) : Prop :=
  match r1, r2 with
  | Ok a, Ok b => R a b
  | Panic, Panic => True
  | OutOfFuel, OutOfFuel => True
  | _, _ => False
  end.

Lemma rel_bind {A B A' B'} (R' : A -> A' -> Prop) (R : B -> B' -> Prop) m1 m2 f g :
  rel_res R' m1 m2 -> (forall a b, R' a b -> rel_res R (f a) (g b)) -> rel_res R (bind m1 f) (bind m2 g).
Proof. destruct m1, m2; cbn [rel_res bind]; intros H1 H2; try contradiction; auto. Qed.

Lemma rel_mono {A B} (R R' : A -> B -> Prop) m1 m2 :
  (forall a b, R a b -> R' a b) -> rel_res R m1 m2 -> rel_res R' m1 m2.
Proof. destruct m1, m2; cbn [rel_res]; auto. Qed.

Lemma rel_eq_refl {A} (m : res A) : rel_res eq m m.
Proof. destruct m; cbn; auto. Qed.

Lemma rel_eq_inv {A} (m1 m2 : res A) : rel_res eq m1 m2 -> m1 = m2.
Proof. destruct m1, m2; cbn [rel_res]; intros H; try contradiction; congruence. Qed.

(** same first step on both sides *)
Lemma rel_bind_same {A B B'} (R : B -> B' -> Prop) (m : res A) f g :
  (forall a, m = Ok a -> rel_res R (f a) (g a)) -> rel_res R (bind m f) (bind m g).
Proof. destruct m; cbn [rel_res bind]; auto. Qed.

(** [b1] and [b2] have the same length and the same entries at the positions in [W] *)
Definition eqon (n : nat) (W : nat -> Prop) (b1 b2 : list Z) : Prop :=
  length b1 = n /\ length b2 = n /\ forall i, W i -> nth_error b1 i = nth_error b2 i.

Definition nowhere : nat -> Prop := fun _ => False.
Definition below (n : nat) : nat -> Prop := fun i => (i < n)%nat.

Lemma eqon_len n W b1 b2 : eqon n W b1 b2 -> length b1 = length b2.
Proof. intros (H1 & H2 & _); congruence. Qed.

Lemma eqon_nowhere b1 b2 : length b1 = length b2 -> eqon (length b1) nowhere b1 b2.
Proof. intros H. split; [reflexivity|]. split; [symmetry; exact H|]. intros i []. Qed.

Lemma eqon_mono n (W W' : nat -> Prop) b1 b2 : (forall i, W' i -> W i) -> eqon n W b1 b2 -> eqon n W' b1 b2.
Proof. intros H (L1 & L2 & E). split; [exact L1|]. split; [exact L2|]. intros i Hi. apply E, H, Hi. Qed.

Lemma nth_error_ext_eq {A} : forall (l1 l2 : list A), (forall i, nth_error l1 i = nth_error l2 i) -> l1 = l2.
Proof.
  induction l1 as [|x l1 IH]; intros [|y l2] H.
  - reflexivity.
  - specialize (H 0%nat). discriminate.
  - specialize (H 0%nat). discriminate.
  - pose proof (H 0%nat) as H0. cbn in H0. inversion H0; subst. f_equal.
    apply IH. intros i. apply (H (S i)).
Qed.

Lemma nth_error_firstn_lt {A} : forall n (l : list A) i, (i < n)%nat -> nth_error (firstn n l) i = nth_error l i.
Proof.
  induction n as [|n IH]; intros l i Hi; [lia|].
  destruct l as [|x l]; [reflexivity|]. destruct i as [|i]; [reflexivity|].
  cbn [firstn nth_error]. apply IH. lia.
Qed.

Lemma nth_error_firstn_ge {A} n (l : list A) i : (n <= i)%nat -> nth_error (firstn n l) i = None.
Proof. intros H. apply nth_error_None. pose proof (firstn_le_length n l). lia. Qed.

Lemma nth_error_skipn_add {A} : forall n (l : list A) i, nth_error (skipn n l) i = nth_error l (n + i).
Proof.
  induction n as [|n IH]; intros l i; [reflexivity|].
  destruct l as [|x l]; [destruct i; reflexivity|]. cbn [skipn Nat.add nth_error]. apply IH.
Qed.

Lemma eqon_all N W b1 b2 : eqon N W b1 b2 -> (forall i, (i < N)%nat -> W i) -> b1 = b2.
Proof.
  intros (L1 & L2 & E) H. apply nth_error_ext_eq. intros i.
  destruct (Nat.lt_ge_cases i N) as [Hi|Hi]; [apply E, H, Hi|].
  rewrite (proj2 (nth_error_None b1 i)) by lia. symmetry. apply nth_error_None. lia.
Qed.

Lemma eqon_firstn N W b1 b2 n : eqon N W b1 b2 -> (forall i, (i < n)%nat -> W i) -> firstn n b1 = firstn n b2.
Proof.
  intros (L1 & L2 & E) H. apply nth_error_ext_eq. intros i.
  destruct (Nat.lt_ge_cases i n) as [Hi|Hi].
  - rewrite !nth_error_firstn_lt by exact Hi. apply E, H, Hi.
  - rewrite !nth_error_firstn_ge by exact Hi. reflexivity.
Qed.

(** reads *)
Lemma slice_to_eqon N W b1 b2 n :
  eqon N W b1 b2 -> (forall i, (i < Z.to_nat n)%nat -> W i) -> slice_to b1 n = slice_to b2 n.
Proof.
  intros HE H. unfold slice_to, zlen. rewrite (eqon_len _ _ _ _ HE).
  destruct (_ && _); [|reflexivity]. f_equal. apply (eqon_firstn N W); assumption.
Qed.

Lemma slice_from_len_rel {A} (b1 b2 : list A) a :
  length b1 = length b2 -> rel_res (fun _ _ => True) (slice_from b1 a) (slice_from b2 a).
Proof. intros H. unfold slice_from, zlen. rewrite H. destruct (_ && _); cbn; auto. Qed.

(** writes *)
Lemma nth_error_splice (b src : list Z) (o : nat) i :
  (o + length src <= length b)%nat ->
  nth_error (firstn o b ++ src ++ skipn (o + length src) b) i =
  if (i <? o)%nat then nth_error b i
  else if (i <? o + length src)%nat then nth_error src (i - o) else nth_error b i.
Proof.
  intros H. assert (Lf : length (firstn o b) = o) by (rewrite firstn_length; lia).
  destruct (Nat.ltb_spec i o) as [H1|H1].
  - rewrite nth_error_app1 by lia. apply nth_error_firstn_lt. exact H1.
  - rewrite nth_error_app2 by lia. rewrite Lf.
    destruct (Nat.ltb_spec i (o + length src)) as [H2|H2].
    + rewrite nth_error_app1 by lia. reflexivity.
    + rewrite nth_error_app2 by lia. rewrite nth_error_skipn_add. f_equal. lia.
Qed.

Lemma splice_length {A} (l src r : list A) off : splice l off src = Ok r -> length r = length l.
Proof.
  unfold splice, zlen. destruct (Z.leb_spec 0 off) as [H0|]; [|discriminate].
  destruct (Z.leb_spec (off + Z.of_nat (length src)) (Z.of_nat (length l))) as [H1|]; [|discriminate].
  cbn [andb]. intros E. inversion E. rewrite !app_length, firstn_length, skipn_length. lia.
Qed.

Lemma splice_eqon N W b1 b2 off src :
  eqon N W b1 b2 ->
  rel_res (eqon N (fun i => W i \/ (Z.to_nat off <= i < Z.to_nat off + length src)%nat))
          (splice b1 off src) (splice b2 off src).
Proof.
  intros (L1 & L2 & E). unfold splice, zlen. rewrite L2, <- L1.
  destruct (Z.leb_spec 0 off) as [H0|]; [|exact I].
  destruct (Z.leb_spec (off + Z.of_nat (length src)) (Z.of_nat (length b1))) as [H1|]; [|exact I].
  cbn [andb rel_res].
  replace (Z.to_nat (off + Z.of_nat (length src))) with (Z.to_nat off + length src)%nat by lia.
  split; [|split].
  - rewrite !app_length, !firstn_length, !skipn_length. lia.
  - rewrite !app_length, !firstn_length, !skipn_length. lia.
  - intros i Hi. rewrite !nth_error_splice by lia.
    destruct (Nat.ltb_spec i (Z.to_nat off)); [destruct Hi as [Hi|Hi]; [apply E, Hi | lia]|].
    destruct (Nat.ltb_spec i (Z.to_nat off + length src)); [reflexivity|].
    destruct Hi as [Hi|Hi]; [apply E, Hi | lia].
Qed.

Lemma set_nat_eqon v : forall b1 b2 N W i,
  eqon N W b1 b2 -> rel_res (eqon N W) (set_nat b1 i v) (set_nat b2 i v).
Proof.
  induction b1 as [|x b1 IH]; intros [|y b2] N W i (L1 & L2 & E); cbn [set_nat].
  - exact I.
  - cbn [length] in *. congruence.
  - cbn [length] in *. congruence.
  - destruct i as [|i].
    + cbn [rel_res]. split; [exact L1|]. split; [exact L2|].
      intros [|j] Hj; [reflexivity|]. apply (E (S j) Hj).
    + assert (HE : eqon (pred N) (fun j => W (S j)) b1 b2).
      { cbn [length] in *. split; [lia|]. split; [lia|]. intros j Hj. apply (E (S j) Hj). }
      specialize (IH b2 _ _ i HE).
      destruct (set_nat b1 i v) as [r1| |], (set_nat b2 i v) as [r2| |]; cbn [rel_res bind] in *; try contradiction; auto.
      destruct IH as (L1' & L2' & E'). unfold eqon. cbn [length] in *. split; [lia|]. split; [lia|].
      intros [|j] Hj; [apply (E 0%nat Hj) | apply (E' j Hj)].
Qed.

Lemma set_eqon N W b1 b2 i v : eqon N W b1 b2 -> rel_res (eqon N W) (set b1 i v) (set b2 i v).
Proof. intros H. unfold set. destruct (i <? 0); [exact I|]. apply set_nat_eqon. exact H. Qed.

(** loops over an index range, with an invariant indexed by the iteration number *)
Lemma foldM_rel_idx {S1 S2} (f1 : S1 -> Z -> res S1) (f2 : S2 -> Z -> res S2) (I : nat -> S1 -> S2 -> Prop) m :
  forall k s1 s2,
  I k s1 s2 ->
  (forall j a b, (k <= j < k + m)%nat -> I j a b -> rel_res (I (S j)) (f1 a (Z.of_nat j)) (f2 b (Z.of_nat j))) ->
  rel_res (I (k + m)%nat) (foldM f1 (map Z.of_nat (seq k m)) s1) (foldM f2 (map Z.of_nat (seq k m)) s2).
Proof.
  induction m as [|m IH]; intros k s1 s2 H0 Hs.
  - cbn [seq map foldM rel_res]. rewrite Nat.add_0_r. exact H0.
  - cbn [seq map foldM]. apply (rel_bind (I (S k))).
    + apply Hs; [lia | exact H0].
    + intros a b Hab. replace (k + S m)%nat with (S k + m)%nat by lia.
      apply IH; [exact Hab|]. intros j a' b' Hj. apply Hs. lia.
Qed.

Lemma foldM_rel_range {S1 S2} (f1 : S1 -> Z -> res S1) (f2 : S2 -> Z -> res S2) (I : nat -> S1 -> S2 -> Prop) n s1 s2 :
  I 0%nat s1 s2 ->
  (forall j a b, (j < Z.to_nat n)%nat -> I j a b -> rel_res (I (S j)) (f1 a (Z.of_nat j)) (f2 b (Z.of_nat j))) ->
  rel_res (I (Z.to_nat n)) (foldM f1 (zrange 0 n) s1) (foldM f2 (zrange 0 n) s2).
Proof.
  intros H0 Hs. rewrite zrange0_seq. apply (foldM_rel_idx f1 f2 I (Z.to_nat n) 0%nat); [exact H0|].
  intros j a b Hj. apply Hs. lia.
Qed.

(** invariants of a single run *)
Lemma foldM_inv {A S} (f : S -> A -> res S) (I : S -> Prop) l :
  (forall s x s', I s -> f s x = Ok s' -> I s') -> forall s r, I s -> foldM f l s = Ok r -> I r.
Proof.
  intros Hf. induction l as [|x l IH]; intros s r Hs H; cbn [foldM] in H.
  - inversion H; subst; exact Hs.
  - apply bind_ok in H as (s' & H1 & H2). eapply IH; [|exact H2]. eapply Hf; eauto.
Qed.

Lemma get_In {A} (l : list A) i x : get l i = Ok x -> In x l.
Proof.
  unfold get. destruct (i <? 0); [discriminate|].
  destruct (nth_error l (Z.to_nat i)) eqn:E; [|discriminate]. intros H; inversion H; subst.
  eapply nth_error_In; eauto.
Qed.

Lemma slice_to_length {A} (l r : list A) n : slice_to l n = Ok r -> length r = Z.to_nat n.
Proof.
  unfold slice_to, zlen. destruct (Z.leb_spec 0 n) as [H0|]; [|discriminate].
  destruct (Z.leb_spec n (Z.of_nat (length l))) as [H1|]; [|discriminate]. cbn [andb].
  intros E; inversion E. rewrite firstn_length. lia.
Qed.

(** the shape of every packing step: fetch component [i], encode, write at a computed offset *)
Lemma pack_step_eqon (v : list (list Z)) (enc : list Z -> res (list Z)) (Wn : nat) (off idx : Z) N W b1 b2 :
  (forall a e, In a v -> enc a = Ok e -> length e = Wn) ->
  eqon N W b1 b2 ->
  rel_res (eqon N (fun i => W i \/ (Z.to_nat off <= i < Z.to_nat off + Wn)%nat))
    (do a <- get v idx; do b <- enc a; splice b1 off b)
    (do a <- get v idx; do b <- enc a; splice b2 off b).
Proof.
  intros Henc HE. apply rel_bind_same. intros a Ha. apply rel_bind_same. intros e He.
  rewrite <- (Henc a e (get_In _ _ _ Ha) He). apply splice_eqon. exact HE.
Qed.

(** ** B.1 Lengths of the encodings *)

Lemma Ok_inj_len (x e : list Z) : Ok x = Ok e -> length e = length x.
Proof. intros H; inversion H; reflexivity. Qed.

Ltac strip_sub H :=
  repeat match type of H with
         | bind (i32_sub ?a ?b) _ = Ok _ => destruct (i32_sub a b); cbn [bind] in H; [|discriminate H|discriminate H]
         end.

Lemma t1_pack_len n : forall a e, length a = (4 * n)%nat -> t1_pack_bytes a = Ok e -> length e = (5 * n)%nat.
Proof.
  induction n as [|n IH]; intros a e Ha H.
  - destruct a; [|discriminate]. inversion H. reflexivity.
  - destruct a as [|c0 [|c1 [|c2 [|c3 rest]]]]; cbn [length] in Ha; try lia.
    cbn [t1_pack_bytes] in H. destruct (t1_pack_bytes rest) as [r| |] eqn:E; cbn [bind] in H; try discriminate.
    apply Ok_inj_len in H. cbn [length] in H. rewrite H, (IH rest r); [lia | lia | exact E].
Qed.

Lemma t0_pack_len n : forall a e, length a = (8 * n)%nat -> t0_pack_bytes a = Ok e -> length e = (13 * n)%nat.
Proof.
  induction n as [|n IH]; intros a e Ha H.
  - destruct a; [|discriminate]. inversion H. reflexivity.
  - destruct a as [|c0 [|c1 [|c2 [|c3 [|c4 [|c5 [|c6 [|c7 rest]]]]]]]]; cbn [length] in Ha; try lia.
    cbn [t0_pack_bytes] in H. strip_sub H.
    destruct (t0_pack_bytes rest) as [r| |] eqn:E; cbn [bind] in H; try discriminate.
    apply Ok_inj_len in H. cbn [length] in H. rewrite H, (IH rest r); [lia | lia | exact E].
Qed.

Lemma eta_pack_len2 n : forall a e, length a = (8 * n)%nat -> eta_pack_bytes 2 a = Ok e -> length e = (3 * n)%nat.
Proof.
  induction n as [|n IH]; intros a e Ha H.
  - destruct a; [|discriminate]. inversion H. reflexivity.
  - destruct a as [|c0 [|c1 [|c2 [|c3 [|c4 [|c5 [|c6 [|c7 rest]]]]]]]]; cbn [length] in Ha; try lia.
    cbn [eta_pack_bytes] in H. change (2 =? 2) with true in H. cbv iota in H. strip_sub H.
    destruct (eta_pack_bytes 2 rest) as [r| |] eqn:E; cbn [bind] in H; try discriminate.
    apply Ok_inj_len in H. cbn [length] in H. rewrite H, (IH rest r); [lia | lia | exact E].
Qed.

Lemma eta_pack_len4 eta n : (eta =? 2) = false ->
  forall a e, length a = (2 * n)%nat -> eta_pack_bytes eta a = Ok e -> length e = n.
Proof.
  intros He. induction n as [|n IH]; intros a e Ha H.
  - destruct a; [|discriminate]. cbn [eta_pack_bytes] in H. rewrite He in H. inversion H. reflexivity.
  - destruct a as [|c0 [|c1 rest]]; cbn [length] in Ha; try lia.
    cbn [eta_pack_bytes] in H. rewrite He in H. strip_sub H.
    destruct (eta_pack_bytes eta rest) as [r| |] eqn:E; cbn [bind] in H; try discriminate.
    apply Ok_inj_len in H. cbn [length] in H. rewrite H, (IH rest r); [lia | lia | exact E].
Qed.

Lemma eta_pack_256 P a e : length a = 256%nat -> eta_pack_bytes (pETA P) a = Ok e ->
  length e = Z.to_nat (pPOLYETA P).
Proof.
  intros Ha H. unfold pPOLYETA. destruct (Z.eqb_spec (pETA P) 2) as [E|E].
  - rewrite E in H. rewrite (eta_pack_len2 32 a e Ha H). reflexivity.
  - rewrite (eta_pack_len4 (pETA P) 128 ltac:(apply Z.eqb_neq; exact E) a e Ha H). reflexivity.
Qed.

Lemma z_pack_len18 n : forall a e, length a = (4 * n)%nat -> z_pack_bytes 131072 a = Ok e -> length e = (9 * n)%nat.
Proof.
  induction n as [|n IH]; intros a e Ha H.
  - destruct a; [|discriminate]. inversion H. reflexivity.
  - destruct a as [|c0 [|c1 [|c2 [|c3 rest]]]]; cbn [length] in Ha; try lia.
    cbn [z_pack_bytes] in H. change (131072 =? 131072) with true in H. cbv iota in H. strip_sub H.
    destruct (z_pack_bytes 131072 rest) as [r| |] eqn:E; cbn [bind] in H; try discriminate.
    apply Ok_inj_len in H. cbn [length] in H. rewrite H, (IH rest r); [lia | lia | exact E].
Qed.

Lemma z_pack_len20 g1 n : (g1 =? 131072) = false ->
  forall a e, length a = (2 * n)%nat -> z_pack_bytes g1 a = Ok e -> length e = (5 * n)%nat.
Proof.
  intros He. induction n as [|n IH]; intros a e Ha H.
  - destruct a; [|discriminate]. cbn [z_pack_bytes] in H. rewrite He in H. inversion H. reflexivity.
  - destruct a as [|c0 [|c1 rest]]; cbn [length] in Ha; try lia.
    cbn [z_pack_bytes] in H. rewrite He in H. strip_sub H.
    destruct (z_pack_bytes g1 rest) as [r| |] eqn:E; cbn [bind] in H; try discriminate.
    apply Ok_inj_len in H. cbn [length] in H. rewrite H, (IH rest r); [lia | lia | exact E].
Qed.

Lemma z_pack_256 P a e : length a = 256%nat -> z_pack_bytes (pGAMMA1 P) a = Ok e ->
  length e = Z.to_nat (pPOLYZ P).
Proof.
  intros Ha H. unfold pPOLYZ. destruct (Z.eqb_spec (pGAMMA1 P) 131072) as [E|E].
  - rewrite E in H. rewrite (z_pack_len18 64 a e Ha H). reflexivity.
  - rewrite (z_pack_len20 (pGAMMA1 P) 128 ltac:(apply Z.eqb_neq; exact E) a e Ha H). reflexivity.
Qed.

Lemma w1_pack_256 P a e : length a = 256%nat -> w1_pack_bytes (pG88 P) a = Ok e ->
  length e = Z.to_nat (pPOLYW1 P).
Proof.
  intros Ha H. destruct (w1_pack_bytes_256 P a Ha) as (e' & He' & Le). rewrite H in He'. inversion He'; subst.
  unfold zlen in Le. lia.
Qed.

(** ** B.2 The packing functions overwrite their whole output region *)

Lemma rel_eqon_mono N (W W' : nat -> Prop) m1 m2 :
  (forall i, W' i -> W i) -> rel_res (eqon N W) m1 m2 -> rel_res (eqon N W') m1 m2.
Proof. intros H. apply rel_mono. intros a b. apply eqon_mono. exact H. Qed.

Lemma or_shuffle (X A B : Prop) : A \/ B -> (X \/ A) \/ B.
Proof. tauto. Qed.
Ltac split_or H :=
  lazymatch type of H with
  | _ \/ _ => destruct H as [H|H]; [split_or H | split_or H]
  | _ => idtac
  end.
(** region inclusion goals [forall i, W' i -> W i] (lia does not accept the opaque atom [W0 i]) *)
Ltac region_tac Hi :=
  cbn beta in Hi |- *; split_or Hi;
  first [ solve [auto] | solve [right; lia] | solve [apply or_shuffle; lia] | solve [left; right; lia] | lia ].

(** a loop writing [n] pieces of [Wz] bytes at [base], [base + Wz], ... extends an agreement region that
    already reaches up to [base] *)
Lemma grow_loop_eqon (f : list Z -> Z -> res (list Z)) (Wz base n : Z) N (W0 : nat -> Prop) (lo : nat) b1 b2 :
  0 <= Wz -> 0 <= base -> 0 <= n ->
  (forall j W c1 c2, 0 <= j < n -> eqon N W c1 c2 ->
     rel_res (eqon N (fun i => W i \/ (Z.to_nat (base + j * Wz) <= i < Z.to_nat (base + j * Wz) + Z.to_nat Wz)%nat))
             (f c1 j) (f c2 j)) ->
  eqon N (fun i => W0 i \/ (lo <= i < Z.to_nat base)%nat) b1 b2 ->
  rel_res (eqon N (fun i => W0 i \/ (lo <= i < Z.to_nat (base + n * Wz))%nat))
          (foldM f (zrange 0 n) b1) (foldM f (zrange 0 n) b2).
Proof.
  intros HW Hb Hn Hf H0.
  pose (I := fun (j : nat) => eqon N (fun i => W0 i \/ (lo <= i < Z.to_nat (base + Z.of_nat j * Wz))%nat)).
  assert (G : rel_res (I (Z.to_nat n)) (foldM f (zrange 0 n) b1) (foldM f (zrange 0 n) b2)).
  { apply foldM_rel_range.
    - unfold I. rewrite Z.mul_0_l, Z.add_0_r. exact H0.
    - intros j a b Hj HI. unfold I in *.
      eapply rel_eqon_mono;
        [|apply (Hf (Z.of_nat j) (fun i => W0 i \/ (lo <= i < Z.to_nat (base + Z.of_nat j * Wz))%nat) a b);
          [lia | exact HI]].
      intros i Hi. cbn beta.
      assert (Hp : 0 <= Z.of_nat j * Wz) by (apply Z.mul_nonneg_nonneg; lia).
      assert (Hs : Z.of_nat (S j) * Wz = Z.of_nat j * Wz + Wz) by (rewrite Nat2Z.inj_succ, Z.mul_succ_l; reflexivity).
      rewrite Hs in Hi. region_tac Hi. }
  unfold I in G. rewrite Z2Nat.id in G by exact Hn. exact G.
Qed.

Lemma pack_step_eqonZ (v : list (list Z)) (enc : list Z -> res (list Z)) (Wz off idx : Z) N W b1 b2 :
  (forall a e, In a v -> enc a = Ok e -> length e = Z.to_nat Wz) ->
  eqon N W b1 b2 ->
  rel_res (eqon N (fun i => W i \/ (Z.to_nat off <= i < Z.to_nat off + Z.to_nat Wz)%nat))
    (do a <- get v idx; do b <- enc a; splice b1 off b)
    (do a <- get v idx; do b <- enc a; splice b2 off b).
Proof. apply pack_step_eqon. Qed.

Definition all256 (v : list (list Z)) : Prop := forall p, In p v -> length p = 256%nat.

(** pack_pk *)
Theorem pack_pk_eqon P N W0 pk1 pk2 rho t1 :
  0 <= pK P -> all256 t1 -> eqon N W0 pk1 pk2 ->
  rel_res (eqon N (fun i => W0 i \/ (i < Z.to_nat (pPK P))%nat)) (pack_pk P pk1 rho t1) (pack_pk P pk2 rho t1).
Proof.
  intros HK H256 HE. unfold pack_pk.
  apply rel_bind_same. intros r Hr. apply slice_to_length in Hr.
  eapply rel_bind; [apply splice_eqon; exact HE|]. intros a b Hab. cbn beta.
  eapply rel_eqon_mono;
    [|apply (grow_loop_eqon _ POLYT1 SEEDBYTES (pK P) N W0 0%nat a b); try (unfold POLYT1, SEEDBYTES; lia)].
  - intros i Hi. unfold pPK, POLYT1, SEEDBYTES in *. region_tac Hi.
  - intros j W c1 c2 Hj Hc.
    apply rel_bind_same. intros p Hp. apply rel_bind_same. intros e He.
    eapply rel_bind; [apply slice_from_len_rel; apply (eqon_len _ _ _ _ Hc)|]. intros _ _ _.
    replace (Z.to_nat POLYT1) with (length e)
      by (rewrite (t1_pack_len 64 p e (H256 p (get_In _ _ _ Hp)) He); reflexivity).
    apply splice_eqon. exact Hc.
  - eapply eqon_mono; [|exact Hab]. intros i Hi. rewrite Hr.
    change (Z.to_nat 0) with 0%nat. region_tac Hi.
Qed.

(** pack_sk *)
Theorem pack_sk_eqon P N W0 sk1 sk2 rho tr key t0 s1 s2 :
  0 <= pK P -> 0 <= pL P -> all256 t0 -> all256 s1 -> all256 s2 -> eqon N W0 sk1 sk2 ->
  rel_res (eqon N (fun i => W0 i \/ (i < Z.to_nat (pSK P))%nat))
          (pack_sk P sk1 rho tr key t0 s1 s2) (pack_sk P sk2 rho tr key t0 s1 s2).
Proof.
  intros HK HL H0 H1 H2 HE. unfold pack_sk.
  assert (HWe : 0 <= pPOLYETA P) by (unfold pPOLYETA; destruct (pETA P =? 2); lia).
  apply rel_bind_same. intros r Hr. apply slice_to_length in Hr.
  eapply rel_bind; [apply splice_eqon; exact HE|]. intros a1 b1 Hab1. cbn beta.
  apply rel_bind_same. intros k Hk. apply slice_to_length in Hk.
  eapply rel_bind; [apply splice_eqon; exact Hab1|]. intros a2 b2 Hab2. cbn beta.
  apply rel_bind_same. intros t Ht.
  assert (HTR : 0 <= pTR P).
  { unfold slice_to in Ht. destruct (Z.leb_spec 0 (pTR P)); [assumption | discriminate]. }
  apply slice_to_length in Ht.
  eapply rel_bind; [apply splice_eqon; exact Hab2|]. intros a3 b3 Hab3. cbn beta.
  assert (HM : 0 <= pL P * pPOLYETA P) by (apply Z.mul_nonneg_nonneg; lia).
  assert (HM' : 0 <= pK P * pPOLYETA P) by (apply Z.mul_nonneg_nonneg; lia).
  eapply rel_bind.
  { apply (grow_loop_eqon _ (pPOLYETA P) (SEEDBYTES + SEEDBYTES + pTR P) (pL P) N W0 0%nat a3 b3);
      try (unfold SEEDBYTES; lia).
    - intros j W c1 c2 Hj Hc. apply pack_step_eqonZ; [|exact Hc].
      intros p e Hp He. apply (eta_pack_256 P p e (H1 p Hp) He).
    - eapply eqon_mono; [|exact Hab3]. intros i Hi. rewrite Hr, Hk, Ht.
      unfold SEEDBYTES in *. region_tac Hi. }
  intros a4 b4 Hab4. cbn beta.
  eapply rel_bind.
  { apply (grow_loop_eqon _ (pPOLYETA P) (SEEDBYTES + SEEDBYTES + pTR P + pL P * pPOLYETA P) (pK P) N W0 0%nat a4 b4);
      try (unfold SEEDBYTES; lia).
    - intros j W c1 c2 Hj Hc. apply pack_step_eqonZ; [|exact Hc].
      intros p e Hp He. apply (eta_pack_256 P p e (H2 p Hp) He).
    - exact Hab4. }
  intros a5 b5 Hab5. cbn beta.
  eapply rel_eqon_mono;
    [|apply (grow_loop_eqon _ POLYT0 (SEEDBYTES + SEEDBYTES + pTR P + pL P * pPOLYETA P + pK P * pPOLYETA P)
               (pK P) N W0 0%nat a5 b5); try (unfold SEEDBYTES, POLYT0; lia)].
  - intros i Hi. cbn beta. unfold pSK in Hi. unfold SEEDBYTES, POLYT0 in *.
    replace ((pK P + pL P) * pPOLYETA P) with (pL P * pPOLYETA P + pK P * pPOLYETA P) in Hi by ring.
    region_tac Hi.
  - intros j W c1 c2 Hj Hc. apply pack_step_eqonZ; [|exact Hc].
    intros p e Hp He. apply (t0_pack_len 32 p e (H0 p Hp) He).
  - exact Hab5.
Qed.

Lemma rel_eqon_full N W m1 m2 : rel_res (eqon N W) m1 m2 -> (forall i, (i < N)%nat -> W i) -> m1 = m2.
Proof.
  intros H HW. apply rel_eq_inv. eapply rel_mono; [|exact H].
  intros a b Hab. apply (eqon_all N W); assumption.
Qed.

(** 7 (isolated form): on a buffer of exactly the standard length the result does not depend on what the
    buffer contained *)
Theorem pack_pk_buffer_irrelevant P pk1 pk2 rho t1 :
  0 <= pK P -> all256 t1 -> zlen pk1 = pPK P -> zlen pk2 = pPK P ->
  pack_pk P pk1 rho t1 = pack_pk P pk2 rho t1.
Proof.
  intros HK H256 L1 L2. unfold zlen in *.
  apply (rel_eqon_full (length pk1) (fun i => nowhere i \/ (i < Z.to_nat (pPK P))%nat)).
  - apply pack_pk_eqon; [assumption | assumption |]. apply eqon_nowhere. lia.
  - intros i Hi. right. lia.
Qed.

Theorem pack_sk_buffer_irrelevant P sk1 sk2 rho tr key t0 s1 s2 :
  0 <= pK P -> 0 <= pL P -> all256 t0 -> all256 s1 -> all256 s2 -> zlen sk1 = pSK P -> zlen sk2 = pSK P ->
  pack_sk P sk1 rho tr key t0 s1 s2 = pack_sk P sk2 rho tr key t0 s1 s2.
Proof.
  intros HK HL H0 H1 H2 L1 L2. unfold zlen in *.
  apply (rel_eqon_full (length sk1) (fun i => nowhere i \/ (i < Z.to_nat (pSK P))%nat)).
  - apply pack_sk_eqon; try assumption. apply eqon_nowhere. lia.
  - intros i Hi. right. lia.
Qed.

(** k_pack_w1 *)
Theorem k_pack_w1_eqon P N W0 r1 r2 a :
  0 <= pK P -> all256 a -> eqon N W0 r1 r2 ->
  rel_res (eqon N (fun i => W0 i \/ (i < Z.to_nat (pK P * pPOLYW1 P))%nat)) (k_pack_w1 P r1 a) (k_pack_w1 P r2 a).
Proof.
  intros HK H256 HE. unfold k_pack_w1.
  assert (HW : 0 <= pPOLYW1 P) by (unfold pPOLYW1; destruct (pG88 P); lia).
  eapply rel_eqon_mono; [|apply (grow_loop_eqon _ (pPOLYW1 P) 0 (pK P) N W0 0%nat r1 r2); try lia].
  - intros i Hi. rewrite Z.add_0_l. region_tac Hi.
  - intros j W c1 c2 Hj Hc. rewrite Z.add_0_l. apply pack_step_eqonZ; [|exact Hc].
    intros p e Hp He. apply (w1_pack_256 P p e (H256 p Hp) He).
  - eapply eqon_mono; [|exact HE]. intros i Hi. change (Z.to_nat 0) with 0%nat in Hi. region_tac Hi.
Qed.

Lemma foldM_rel_same {A S1 S2} (f1 : S1 -> A -> res S1) (f2 : S2 -> A -> res S2) (R : S1 -> S2 -> Prop) l :
  (forall x a b, R a b -> rel_res R (f1 a x) (f2 b x)) ->
  forall a b, R a b -> rel_res R (foldM f1 l a) (foldM f2 l b).
Proof.
  intros Hf. induction l as [|x l IH]; intros a b Hab; cbn [foldM]; [exact Hab|].
  eapply rel_bind; [apply Hf; exact Hab|]. exact IH.
Qed.

(** pack_sig: everything from offset pCT on is rewritten (and with [Some c] also the first pCT bytes) *)
Theorem pack_sig_eqon P N W0 sig1 sig2 c z h :
  0 <= pL P -> 0 <= pCT P -> 0 <= pOMEGA P + pK P -> all256 z -> eqon N W0 sig1 sig2 ->
  rel_res (eqon N (fun i => W0 i \/ (Z.to_nat (pCT P) <= i < Z.to_nat (pSIG P))%nat))
          (pack_sig P sig1 c z h) (pack_sig P sig2 c z h).
Proof.
  intros HL HC HO H256 HE. unfold pack_sig.
  assert (HZ : 0 <= pPOLYZ P) by (unfold pPOLYZ; destruct (pGAMMA1 P =? 131072); lia).
  assert (HM : 0 <= pL P * pPOLYZ P) by (apply Z.mul_nonneg_nonneg; lia).
  apply (rel_bind (eqon N W0)).
  { destruct c as [ch|]; [|exact HE].
    apply rel_bind_same. intros cc Hcc.
    eapply rel_eqon_mono; [|apply splice_eqon; exact HE]. intros i Hi. left. exact Hi. }
  intros a1 b1 Hab1.
  eapply rel_bind.
  { apply (grow_loop_eqon _ (pPOLYZ P) (pCT P) (pL P) N W0 (Z.to_nat (pCT P)) a1 b1); try lia.
    - intros j W c1 c2 Hj Hc. apply pack_step_eqonZ; [|exact Hc].
      intros p e Hp He. apply (z_pack_256 P p e (H256 p Hp) He).
    - eapply eqon_mono; [|exact Hab1]. intros i Hi. region_tac Hi. }
  intros a2 b2 Hab2. cbn beta.
  eapply rel_bind; [apply splice_eqon; exact Hab2|]. intros a3 b3 Hab3. cbn beta.
  set (Wf := fun i : nat => W0 i \/ (Z.to_nat (pCT P) <= i < Z.to_nat (pSIG P))%nat).
  assert (Hab3' : eqon N Wf a3 b3).
  { eapply eqon_mono; [|exact Hab3]. unfold Wf. intros i Hi.
    unfold repeatZ. rewrite repeat_length. unfold pSIG in Hi.
    replace (pCT P + pL P * pPOLYZ P + pOMEGA P + pK P)
      with (pCT P + pL P * pPOLYZ P + (pOMEGA P + pK P)) in Hi by ring.
    region_tac Hi. }
  clear Hab3.
  apply (rel_bind (fun p q => eqon N Wf (fst p) (fst q) /\ snd p = snd q)).
  - apply foldM_rel_same; [|split; [exact Hab3' | reflexivity]].
    intros i [s1 k1] [s2 k2] [Hs Hk]. cbn [fst snd] in Hs, Hk. subst k2.
    apply rel_bind_same. intros hi _.
    apply (rel_bind (fun p q => eqon N Wf (fst p) (fst q) /\ snd p = snd q)).
    + apply foldM_rel_same; [|split; [exact Hs | reflexivity]].
      intros j [u1 l1] [u2 l2] [Hu Hl]. cbn [fst snd] in Hu, Hl. subst l2.
      eapply rel_bind; [apply set_eqon; exact Hu|]. intros v1 v2 Hv. cbn [rel_res fst snd]. auto.
    + intros [u1 l1] [u2 l2] [Hu Hl]. cbn [fst snd] in Hu, Hl. subst l2.
      eapply rel_bind; [apply set_eqon; exact Hu|]. intros v1 v2 Hv. cbn [rel_res fst snd]. auto.
  - intros [u1 l1] [u2 l2] [Hu Hl]. cbn [fst snd] in Hu. cbn [rel_res]. exact Hu.
Qed.

(** ** B.3 Shapes: every polynomial that reaches a packing function has 256 coefficients *)

Definition allP {A} (Q : A -> Prop) (v : list A) : Prop := forall p, In p v -> Q p.
Definition len256 (p : list Z) : Prop := length p = 256%nat.

Lemma all256_allP v : all256 v <-> allP len256 v.
Proof. reflexivity. Qed.

Lemma set_nat_In {A} (y : A) : forall v i v', set_nat v i y = Ok v' ->
  length v' = length v /\ forall p, In p v' -> p = y \/ In p v.
Proof.
  induction v as [|x v IH]; intros i v' H; cbn [set_nat] in H; [discriminate|].
  destruct i as [|i].
  - inversion H; subst. split; [reflexivity|]. intros p [Hp|Hp]; [left; auto | right; right; exact Hp].
  - apply bind_ok in H as (r & Hr & H). inversion H; subst. destruct (IH _ _ Hr) as [L E].
    split; [cbn [length]; lia|]. intros p [Hp|Hp]; [right; left; exact Hp|].
    destruct (E p Hp) as [G|G]; [left; exact G | right; right; exact G].
Qed.

Lemma set_In {A} (v : list A) i y v' : set v i y = Ok v' ->
  length v' = length v /\ forall p, In p v' -> p = y \/ In p v.
Proof. unfold set. destruct (i <? 0); [discriminate|]. apply set_nat_In. Qed.

Lemma set_allP {A} (Q : A -> Prop) (v : list A) i y v' :
  set v i y = Ok v' -> allP Q v -> Q y -> allP Q v' /\ length v' = length v.
Proof.
  intros H Hv Hy. destruct (set_In _ _ _ _ H) as [L E]. split; [|exact L].
  intros p Hp. destruct (E p Hp) as [->|G]; [exact Hy | apply Hv, G].
Qed.

Lemma zvec_length n : length (zvec n) = Z.to_nat n.
Proof. unfold zvec, repeatZ. apply repeat_length. Qed.

Lemma zvec_all256 n : all256 (zvec n).
Proof. intros p Hp. unfold zvec, repeatZ in Hp. apply repeat_spec in Hp. subst p. reflexivity. Qed.

Lemma for_idx_pres {A} (Q : A -> Prop) n (f : Z -> A -> res A) v r :
  (forall i x y, Q x -> f i x = Ok y -> Q y) -> allP Q v -> for_idx n f v = Ok r ->
  allP Q r /\ length r = length v.
Proof.
  intros Hf Hv H. unfold for_idx in H.
  apply (foldM_inv _ (fun w => allP Q w /\ length w = length v) _) with (s := v) (r := r) in H; [exact H | | auto].
  intros s i s' [Hs Ls] E. apply bind_ok in E as (x & Hx & E). apply bind_ok in E as (y & Hy & E).
  destruct (set_allP Q _ _ _ _ E Hs) as [G1 G2]; [eapply Hf; [apply Hs; eapply get_In; eauto | exact Hy]|].
  split; [exact G1 | congruence].
Qed.

Lemma imapM_allP {A B} (Q : B -> Prop) (f : Z -> A -> res B) l : forall k r,
  (forall i x y, f i x = Ok y -> Q y) -> imapM f k l = Ok r -> allP Q r.
Proof.
  induction l as [|x l IH]; intros k r Hf H; cbn [imapM] in H.
  - inversion H. intros p [].
  - apply bind_ok in H as (y & Hy & H). apply bind_ok in H as (ys & Hys & H). inversion H; subst.
    intros p [<-|Hp]; [eapply Hf; eauto | eapply IH; eauto].
Qed.

Lemma for_idx_all {A} (Q : A -> Prop) n (f : Z -> A -> res A) v r :
  length v = Z.to_nat n -> (forall i x y, f i x = Ok y -> Q y) -> for_idx n f v = Ok r ->
  allP Q r /\ length r = length v.
Proof.
  intros Hl Hf H. rewrite for_idx_imapM in H by exact Hl. split.
  - eapply imapM_allP; eauto.
  - eapply imapM_length; eauto.
Qed.

Lemma for_idx_length {A} n (f : Z -> A -> res A) v r : for_idx n f v = Ok r -> length r = length v.
Proof.
  intros H. apply (for_idx_pres (fun _ => True)) in H; [apply H | auto | intros p _; exact I].
Qed.

Lemma for_idx2_pres {A B} (Q : A -> Prop) n (f : A -> B -> res A) w v r :
  (forall x y z, Q x -> f x y = Ok z -> Q z) -> allP Q w -> for_idx2 n f w v = Ok r ->
  allP Q r /\ length r = length w.
Proof.
  intros Hf Hw H. unfold for_idx2 in H.
  apply (foldM_inv _ (fun u => allP Q u /\ length u = length w) _) with (s := w) (r := r) in H; [exact H | | auto].
  intros s i s' [Hs Ls] E. apply bind_ok in E as (x & Hx & E). apply bind_ok in E as (y & Hy & E).
  apply bind_ok in E as (z & Hz & E).
  destruct (set_allP Q _ _ _ _ E Hs) as [G1 G2]; [eapply Hf; [apply Hs; eapply get_In; eauto | exact Hz]|].
  split; [exact G1 | congruence].
Qed.

(** the two loops that update a pair of vectors *)
Lemma pair_loop_pres (F : list Z -> res (list Z * list Z)) l v1 v0 r1 r0 :
  (forall a a1 a0, len256 a -> F a = Ok (a1, a0) -> len256 a1 /\ len256 a0) ->
  all256 v1 -> all256 v0 ->
  foldM (pair_step F) l (v1, v0) = Ok (r1, r0) ->
  (all256 r1 /\ length r1 = length v1) /\ (all256 r0 /\ length r0 = length v0).
Proof.
  intros HF H1 H0 H.
  apply (foldM_inv _ (fun p => (all256 (fst p) /\ length (fst p) = length v1) /\
                               (all256 (snd p) /\ length (snd p) = length v0)) _)
    with (s := (v1, v0)) (r := (r1, r0)) in H; [exact H | | cbn [fst snd]; auto].
  intros [u1 u0] i [u1' u0'] [[A1 L1] [A0 L0]] E. cbn [fst snd] in *. unfold pair_step in E.
  apply bind_ok in E as (a & Ha & E). apply bind_ok in E as (b & Hb & E).
  apply bind_ok in E as ([a1 a0] & Hp & E). apply bind_ok in E as (w1 & Hw1 & E).
  apply bind_ok in E as (w0 & Hw0 & E). inversion E; subst.
  destruct (HF a a1 a0 (A1 a (get_In _ _ _ Ha)) Hp) as [Q1 Q0].
  destruct (set_allP len256 _ _ _ _ Hw1 A1 Q1) as [G1 G1'].
  destruct (set_allP len256 _ _ _ _ Hw0 A0 Q0) as [G0 G0'].
  repeat split; try assumption; congruence.
Qed.

Lemma poly_power2round_len a a1 a0 : len256 a -> poly_power2round a = Ok (a1, a0) -> len256 a1 /\ len256 a0.
Proof.
  unfold poly_power2round, len256. intros Ha H. apply bind_ok in H as (l & Hl & H). inversion H; subst.
  apply mapM_length in Hl. rewrite !map_length. split; congruence.
Qed.

Lemma poly_decompose_len g a a1 a0 : len256 a -> poly_decompose g a = Ok (a1, a0) -> len256 a1 /\ len256 a0.
Proof.
  unfold poly_decompose, len256. intros Ha H. apply bind_ok in H as (l & Hl & H). inversion H; subst.
  apply mapM_length in Hl. rewrite !map_length. split; congruence.
Qed.

Lemma k_power2round_pres P v1 v0 r1 r0 :
  all256 v1 -> all256 v0 -> k_power2round P v1 v0 = Ok (r1, r0) -> all256 r1 /\ all256 r0.
Proof.
  intros H1 H0 H. unfold k_power2round in H.
  change (foldM _ (zrange 0 (pK P)) (v1, v0))
    with (foldM (pair_step poly_power2round) (zrange 0 (pK P)) (v1, v0)) in H.
  destruct (pair_loop_pres _ _ _ _ _ _ poly_power2round_len H1 H0 H) as [[A _] [B _]]. auto.
Qed.

Lemma k_decompose_pres P v1 v0 hi lo :
  all256 v1 -> all256 v0 -> k_decompose P v1 v0 = Ok (hi, lo) -> all256 hi /\ all256 lo.
Proof.
  intros H1 H0 H. unfold k_decompose in H.
  change (foldM _ (zrange 0 (pK P)) (v1, v0))
    with (foldM (pair_step (poly_decompose (pG88 P))) (zrange 0 (pK P)) (v1, v0)) in H.
  apply bind_ok in H as ([l h] & Hf & H). inversion H; subst.
  destruct (pair_loop_pres _ _ _ _ _ _ (poly_decompose_len (pG88 P)) H1 H0 Hf) as [[A _] [B _]]. auto.
Qed.

(** coefficient-wise maps keep the length *)
Lemma mapM_len256 (f : Z -> res Z) x y : len256 x -> mapM f x = Ok y -> len256 y.
Proof. unfold len256. intros Hx H. apply mapM_length in H. congruence. Qed.

Lemma map2M_len256 (f : Z -> Z -> res Z) x y z : len256 x -> map2M f x y = Ok z -> len256 z.
Proof. unfold len256. intros Hx H. apply map2M_length in H. destruct H. congruence. Qed.

(** the inverse NTT returns 256 coefficients *)
Section NetLen.
  Context {T : Type}.
  Variables (add sub : T -> T -> T) (mulz : Z -> T -> T).

  Lemma map2_length (f : T -> T -> T) : forall l1 l2, length (map2 f l1 l2) = Nat.min (length l1) (length l2).
  Proof. induction l1 as [|x l1 IH]; intros [|y l2]; cbn [map2 length Nat.min]; auto. Qed.

  Lemma bf_inv_length k lo hi : length (bf_inv add sub mulz k lo hi) = (Nat.min (length lo) (length hi) * 2)%nat.
  Proof. unfold bf_inv. rewrite app_length, map_length, !map2_length. lia. Qed.

  Lemma blocks_inv_length len step : forall n k l,
    length l = (n * (len + len))%nat ->
    length (MNtt.blocks (bf_inv add sub mulz) n len k step l) = (n * (len + len))%nat.
  Proof.
    induction n as [|n IH]; intros k l Hl; cbn [MNtt.blocks]; [reflexivity|].
    rewrite app_length, bf_inv_length, !firstn_length, skipn_length.
    rewrite IH by (rewrite skipn_length; lia). lia.
  Qed.

  Lemma invntt_net_length l : length l = 256%nat -> length (invntt_net add sub mulz l) = 256%nat.
  Proof.
    intros H. unfold invntt_net, inv_layer.
    repeat (match goal with
            | |- length (MNtt.blocks _ ?n ?len _ _ ?l') = _ =>
                rewrite (blocks_inv_length len (-1) n); [reflexivity|]
            end).
    exact H.
  Qed.
End NetLen.

Lemma sequence_length {A} (l : list (res A)) r : sequence l = Ok r -> length r = length l.
Proof.
  revert r. induction l as [|x l IH]; intros r H; cbn [sequence] in H.
  - inversion H; reflexivity.
  - apply bind_ok in H as (v & _ & H). apply bind_ok in H as (vs & Hvs & H). inversion H; subst.
    cbn [length]. f_equal. auto.
Qed.

Lemma invntt_tomont_len a r : invntt_tomont a = Ok r -> len256 r.
Proof.
  unfold invntt_tomont, len256, zlen. destruct (Z.eqb_spec (Z.of_nat (length a)) 256) as [E|E]; [|discriminate].
  cbn [negb]. intros H. apply bind_ok in H as (s & Hs & H).
  apply mapM_length in H. apply sequence_length in Hs. rewrite H, Hs.
  apply invntt_net_length. rewrite map_length. lia.
Qed.

(** the samplers write into / produce polynomials of the right length *)
Lemma rej_eta_length eta a alen buf buflen a' c : rej_eta eta a alen buf buflen = Ok (a', c) -> length a' = length a.
Proof.
  unfold rej_eta. destruct (_ || _); [discriminate|]. intros H.
  apply bind_ok in H as (r & Hr & H). inversion H; subst. eapply splice_length; eauto.
Qed.

Lemma uniform_eta_loop_length {St} (sq : Z -> St -> res (list Z * St)) eta : forall fuel st a ctr r,
  uniform_eta_loop sq eta fuel st a ctr = Ok r -> length r = length a.
Proof.
  induction fuel as [|f IH]; intros st a ctr r H; cbn [uniform_eta_loop] in H.
  - destruct (ctr <? 256); [discriminate | inversion H; reflexivity].
  - destruct (ctr <? 256); [|inversion H; reflexivity].
    apply bind_ok in H as ([blk st'] & _ & H). apply bind_ok in H as (asub & _ & H).
    apply bind_ok in H as (n & _ & H). apply bind_ok in H as ([asub' got] & _ & H).
    apply bind_ok in H as (a' & Ha' & H). apply IH in H. apply splice_length in Ha'. congruence.
Qed.

Lemma poly_uniform_eta_length eta a seed nonce r : poly_uniform_eta eta a seed nonce = Ok r -> length r = length a.
Proof.
  unfold poly_uniform_eta, uniform_eta_from. intros H.
  apply bind_ok in H as (st & _ & H). apply bind_ok in H as ([blk st1] & _ & H).
  apply bind_ok in H as ([a1 ctr] & Ha1 & H). apply uniform_eta_loop_length in H.
  apply rej_eta_length in Ha1. congruence.
Qed.

Lemma vec_uniform_eta_pres P n v seed nonce r :
  all256 v -> vec_uniform_eta P n v seed nonce = Ok r -> all256 r /\ length r = length v.
Proof.
  intros Hv H. unfold vec_uniform_eta in H. apply bind_ok in H as ([v' c'] & H & E). inversion E; subst.
  apply (foldM_inv _ (fun p => all256 (fst p) /\ length (fst p) = length v) _)
    with (s := (v, nonce)) (r := (r, c')) in H; [exact H | | cbn [fst]; auto].
  intros [u c] i [u' c''] [A L] E'. cbn [fst] in *.
  apply bind_ok in E' as (a & Ha & E'). apply bind_ok in E' as (a' & Ha' & E').
  apply bind_ok in E' as (w & Hw & E'). apply bind_ok in E' as (c2 & _ & E'). inversion E'; subst.
  apply poly_uniform_eta_length in Ha'.
  destruct (set_allP len256 _ _ _ _ Hw A) as [G1 G2].
  { unfold len256. rewrite Ha'. apply A. eapply get_In; eauto. }
  split; [exact G1 | congruence].
Qed.

Lemma z_unpack_list_length g1 : forall n a r, z_unpack_list g1 n a = Ok r ->
  length r = ((if (g1 =? 131072)%Z then 4 else 2) * n)%nat.
Proof.
  induction n as [|n IH]; intros a r H; cbn [z_unpack_list] in H.
  - inversion H. destruct (g1 =? 131072); reflexivity.
  - destruct (g1 =? 131072).
    + destruct a as [|b0 [|b1 [|b2 [|b3 [|b4 [|b5 [|b6 [|b7 [|b8 rest]]]]]]]]]; try discriminate.
      strip_sub H. destruct (z_unpack_list g1 n rest) as [r'| |] eqn:E; cbn [bind] in H; try discriminate.
      apply Ok_inj_len in H. cbn [length] in H. rewrite H, (IH _ _ E). lia.
    + destruct a as [|b0 [|b1 [|b2 [|b3 [|b4 rest]]]]]; try discriminate.
      strip_sub H. destruct (z_unpack_list g1 n rest) as [r'| |] eqn:E; cbn [bind] in H; try discriminate.
      apply Ok_inj_len in H. cbn [length] in H. rewrite H, (IH _ _ E). lia.
Qed.

Lemma poly_uniform_gamma1_len g1 seed nonce r : poly_uniform_gamma1 g1 seed nonce = Ok r -> len256 r.
Proof.
  unfold poly_uniform_gamma1, uniform_gamma1_from, z_unpack, len256. intros H.
  apply bind_ok in H as (st & _ & H). apply bind_ok in H as ([blk st1] & _ & H).
  apply z_unpack_list_length in H. rewrite H. destruct (g1 =? 131072); reflexivity.
Qed.

(** ** B.4 keypair: the contents of the incoming [pk]/[sk] buffers are irrelevant *)

Lemma shake256_prefix out m a b n : slice_to a n = slice_to b n -> shake256 out m a n = shake256 out m b n.
Proof. intros H. unfold shake256, shake256_absorb_once, keccak_absorb_once. rewrite H. reflexivity. Qed.

Lemma keccak_absorb_prefix st r a b n : slice_to a n = slice_to b n -> keccak_absorb st r a n = keccak_absorb st r b n.
Proof. intros H. unfold keccak_absorb. rewrite H. reflexivity. Qed.

Definition keys_rel (P : params) (n1 n2 : nat) (x y : list Z * list Z) : Prop :=
  eqon n1 (below (Z.to_nat (pPK P))) (fst x) (fst y) /\ eqon n2 (below (Z.to_nat (pSK P))) (snd x) (snd y).

Lemma keypair_core_eqon P pk1 pk2 sk1 sk2 xi :
  0 <= pK P -> 0 <= pL P -> length pk1 = length pk2 -> length sk1 = length sk2 ->
  rel_res (keys_rel P (length pk1) (length sk1)) (keypair_core P pk1 sk1 xi) (keypair_core P pk2 sk2 xi).
Proof.
  intros HK HL Lpk Lsk. unfold keypair_core.
  apply rel_bind_same. intros seedbuf _.
  apply rel_bind_same. intros rho _.
  apply rel_bind_same. intros rhoprime _.
  apply rel_bind_same. intros key _.
  apply rel_bind_same. intros mat _.
  apply rel_bind_same. intros s1 Hs1.
  apply rel_bind_same. intros s2 Hs2.
  apply rel_bind_same. intros s1hat _.
  apply rel_bind_same. intros t1a Ht1a.
  apply rel_bind_same. intros t1b Ht1b.
  apply rel_bind_same. intros t1c Ht1c.
  apply rel_bind_same. intros t1d Ht1d.
  apply rel_bind_same. intros t1e Ht1e.
  apply rel_bind_same. intros [t1 t0] Hp2r.
  (* shapes *)
  destruct (vec_uniform_eta_pres P _ _ _ _ _ (zvec_all256 (pL P)) Hs1) as [As1 _].
  destruct (vec_uniform_eta_pres P _ _ _ _ _ (zvec_all256 (pK P)) Hs2) as [As2 _].
  apply for_idx_length in Ht1a. rewrite zvec_length in Ht1a.
  pose proof (for_idx_length _ _ _ _ Ht1b) as Lt1b. rewrite Ht1a in Lt1b.
  destruct (for_idx_all len256 _ _ _ _ Lt1b (fun _ x y E => invntt_tomont_len x y E) Ht1c) as [At1c _].
  destruct (for_idx2_pres len256 _ _ _ _ _ (fun x y z Hx E => map2M_len256 _ x y z Hx E) At1c Ht1d) as [At1d _].
  destruct (for_idx_pres len256 _ _ _ _ (fun _ x y Hx E => mapM_len256 _ x y Hx E) At1d Ht1e) as [At1e _].
  destruct (k_power2round_pres P _ _ _ _ At1e (zvec_all256 (pK P)) Hp2r) as [At1 At0].
  (* the buffers *)
  eapply rel_bind; [apply (pack_pk_eqon P (length pk1) nowhere pk1 pk2 rho t1 HK At1); apply eqon_nowhere; exact Lpk|].
  intros p1 p2 Hp. cbn beta.
  assert (Hpre : slice_to p1 (pPK P) = slice_to p2 (pPK P)).
  { apply (slice_to_eqon _ _ _ _ _ Hp). intros i Hi. right. exact Hi. }
  rewrite Hpre. apply rel_bind_same. intros pkb _.
  rewrite (shake256_prefix _ _ p1 p2 _ Hpre). apply rel_bind_same. intros tr _.
  eapply rel_bind;
    [apply (pack_sk_eqon P (length sk1) nowhere sk1 sk2 rho tr key t0 s1 s2 HK HL At0 As1 As2);
     apply eqon_nowhere; exact Lsk|].
  intros q1 q2 Hq. cbn [rel_res]. split; cbn [fst snd].
  - eapply eqon_mono; [|exact Hp]. intros i Hi. right. exact Hi.
  - eapply eqon_mono; [|exact Hq]. intros i Hi. right. exact Hi.
Qed.

(** 7. general form: same lengths in, same success/failure out, and the outputs agree on their length and on
    the first pPK resp. pSK bytes; the returned tape is the same *)
Theorem keypair_buffers_irrelevant P pk1 pk2 sk1 sk2 seed tape :
  0 <= pK P -> 0 <= pL P -> zlen pk1 = zlen pk2 -> zlen sk1 = zlen sk2 ->
  rel_res (fun x y => keys_rel P (length pk1) (length sk1) (fst x) (fst y) /\ snd x = snd y)
          (keypair P pk1 sk1 seed tape) (keypair P pk2 sk2 seed tape).
Proof.
  intros HK HL Lpk Lsk. unfold zlen in *. rewrite !keypair_unfold.
  apply rel_bind_same. intros [xi t'] _.
  eapply rel_bind; [apply (keypair_core_eqon P pk1 pk2 sk1 sk2 xi HK HL); lia|].
  intros [p1 s1] [p2 s2] H. cbn [rel_res fst snd]. auto.
Qed.

(** 7. buffers of exactly the standard lengths: the results are equal outright *)
Theorem keypair_buffers_irrelevant_exact P pk1 pk2 sk1 sk2 seed tape :
  0 <= pK P -> 0 <= pL P ->
  zlen pk1 = pPK P -> zlen pk2 = pPK P -> zlen sk1 = pSK P -> zlen sk2 = pSK P ->
  keypair P pk1 sk1 seed tape = keypair P pk2 sk2 seed tape.
Proof.
  intros HK HL L1 L2 L3 L4. apply rel_eq_inv.
  eapply rel_mono; [|apply (keypair_buffers_irrelevant P pk1 pk2 sk1 sk2 seed tape); congruence].
  intros [[p1 s1] t1] [[p2 s2] t2] [[Hp Hs] Ht]. cbn [fst snd] in *. unfold zlen in *.
  rewrite (eqon_all _ _ _ _ Hp) by (intros i Hi; unfold below; lia).
  rewrite (eqon_all _ _ _ _ Hs) by (intros i Hi; unfold below; lia).
  rewrite Ht. reflexivity.
Qed.

(** the six parameter sets satisfy the side conditions *)
Definition std (P : params) : Prop :=
  P = P_lvl2 \/ P = P_lvl3 \/ P = P_lvl5 \/ P = P_ml44 \/ P = P_ml65 \/ P = P_ml87.

Lemma std_params_of s : std (params_of s).
Proof. destruct s; unfold std; cbn; tauto. Qed.

Lemma std_bounds P : std P ->
  0 <= pK P /\ 0 <= pL P /\ 0 <= pCT P /\ 0 <= pOMEGA P + pK P /\ pCT P <= pK P * pPOLYW1 P.
Proof. intros [H|[H|[H|[H|[H|H]]]]]; subst P; cbn; lia. Qed.

Corollary keypair_buffers_irrelevant_std P pk1 pk2 sk1 sk2 seed tape :
  std P -> zlen pk1 = pPK P -> zlen pk2 = pPK P -> zlen sk1 = pSK P -> zlen sk2 = pSK P ->
  keypair P pk1 sk1 seed tape = keypair P pk2 sk2 seed tape.
Proof.
  intros HP. destruct (std_bounds P HP) as (HK & HL & _). apply keypair_buffers_irrelevant_exact; assumption.
Qed.

(** ** B.5 signature: the contents of the incoming [sig] buffer are irrelevant *)

Lemma keccak_squeeze_eqon N W o1 o2 n st r :
  eqon N W o1 o2 ->
  rel_res (fun x y => eqon N W (fst x) (fst y) /\ snd x = snd y)
          (keccak_squeeze o1 n st r) (keccak_squeeze o2 n st r).
Proof.
  intros HE. unfold keccak_squeeze. destruct (n <? 0); [exact I|].
  apply rel_bind_same. intros [[bs s] p] _.
  eapply rel_bind; [apply splice_eqon; exact HE|]. intros a b Hab. cbn [rel_res fst snd]. split; [|reflexivity].
  eapply eqon_mono; [|exact Hab]. intros i Hi. left. exact Hi.
Qed.

Lemma poly_challenge_prefix tau ct a b : slice_to a ct = slice_to b ct -> poly_challenge tau ct a = poly_challenge tau ct b.
Proof. intros H. unfold poly_challenge, shake256_absorb. rewrite (keccak_absorb_prefix _ _ a b ct H). reflexivity. Qed.

(** outcome of one attempt on two buffers of length [N]: the same decision; a returned signature agrees on
    its first pSIG bytes; on a retry the (scratch) buffers passed on still have length [N] *)
Definition att_rel (P : params) (N : nat) (a1 a2 : attempt) : Prop :=
  match a1, a2 with
  | Done x, Done y => eqon N (below (Z.to_nat (pSIG P))) x y
  | Retry c x, Retry c' y => c = c' /\ eqon N nowhere x y
  | _, _ => False
  end.

Definition sig_bounds (P : params) : Prop :=
  0 <= pK P /\ 0 <= pL P /\ 0 <= pCT P /\ 0 <= pOMEGA P + pK P /\ pCT P <= pK P * pPOLYW1 P.

Theorem sign_attempt_eqon P N sig1 sig2 mu rhoprime mat s1 s2 t0 nonce :
  sig_bounds P -> eqon N nowhere sig1 sig2 ->
  rel_res (att_rel P N) (sign_attempt P sig1 mu rhoprime mat s1 s2 t0 nonce)
                        (sign_attempt P sig2 mu rhoprime mat s1 s2 t0 nonce).
Proof.
  intros (HK & HL & HC & HO & HCW) HE. unfold sign_attempt, shake256_absorb, shake256_squeeze.
  apply rel_bind_same. intros y Hy.
  apply rel_bind_same. intros z0 Hz0.
  apply rel_bind_same. intros w1a Hw1a.
  apply rel_bind_same. intros w1b Hw1b.
  apply rel_bind_same. intros w1c Hw1c.
  apply rel_bind_same. intros w1d Hw1d.
  apply rel_bind_same. intros [w1 w0] Hdec.
  (* shape of w1 *)
  apply for_idx_length in Hw1a. rewrite zvec_length in Hw1a.
  pose proof (for_idx_length _ _ _ _ Hw1b) as Lw1b. rewrite Hw1a in Lw1b.
  destruct (for_idx_all len256 _ _ _ _ Lw1b (fun _ x y E => invntt_tomont_len x y E) Hw1c) as [Aw1c _].
  destruct (for_idx_pres len256 _ _ _ _ (fun _ x y Hx E => mapM_len256 _ x y Hx E) Aw1c Hw1d) as [Aw1d _].
  destruct (k_decompose_pres P _ _ _ _ Aw1d (zvec_all256 (pK P)) Hdec) as [Aw1 _].
  (* w1 encoding into the buffer, hashed from the buffer *)
  eapply rel_bind; [apply (k_pack_w1_eqon P N nowhere sig1 sig2 w1 HK Aw1 HE)|].
  intros a1 b1 Hab1. cbn beta.
  assert (Hpre1 : slice_to a1 (pK P * pPOLYW1 P) = slice_to b1 (pK P * pPOLYW1 P)).
  { apply (slice_to_eqon _ _ _ _ _ Hab1). intros i Hi. right. exact Hi. }
  rewrite Hpre1. apply rel_bind_same. intros w1bytes _.
  apply rel_bind_same. intros st0 _.
  rewrite (keccak_absorb_prefix st0 _ a1 b1 _ Hpre1).
  apply rel_bind_same. intros st1 _.
  apply rel_bind_same. intros st2 _.
  (* challenge bytes squeezed into the buffer, read back from the buffer *)
  eapply rel_bind; [apply (keccak_squeeze_eqon _ _ a1 b1 (pCT P) st2 SHAKE256_RATE Hab1)|].
  intros [a2 k1] [b2 k2] [Hab2 _]. cbn [fst snd] in Hab2.
  assert (Hpre2 : slice_to a2 (pCT P) = slice_to b2 (pCT P)).
  { apply (slice_to_eqon _ _ _ _ _ Hab2). intros i Hi. right. lia. }
  rewrite (poly_challenge_prefix _ _ a2 b2 Hpre2).
  apply rel_bind_same. intros cp0 _.
  apply rel_bind_same. intros cp _.
  apply rel_bind_same. intros z1 Hz1.
  apply rel_bind_same. intros z2 Hz2.
  apply rel_bind_same. intros z3 Hz3.
  apply rel_bind_same. intros z Hz.
  (* shape of z *)
  apply for_idx_length in Hy. rewrite zvec_length in Hy.
  apply for_idx_length in Hz0. rewrite Hy in Hz0.
  apply for_idx_length in Hz1. rewrite Hz0 in Hz1.
  destruct (for_idx_all len256 _ _ _ _ Hz1 (fun _ x y E => invntt_tomont_len x y E) Hz2) as [Az2 _].
  destruct (for_idx2_pres len256 _ _ _ _ _ (fun x y z Hx E => map2M_len256 _ x y z Hx E) Az2 Hz3) as [Az3 _].
  destruct (for_idx_pres len256 _ _ _ _ (fun _ x y Hx E => mapM_len256 _ x y Hx E) Az3 Hz) as [Az _].
  assert (Hretry : forall c, att_rel P N (Retry c a2) (Retry c b2)).
  { intros c. cbn [att_rel]. split; [reflexivity|]. eapply eqon_mono; [|exact Hab2]. intros i []. }
  apply rel_bind_same. intros c1 _.
  destruct (0 <? c1); [apply Hretry|].
  apply rel_bind_same. intros h1 _.
  apply rel_bind_same. intros h2 _.
  apply rel_bind_same. intros w0a _.
  apply rel_bind_same. intros w0b _.
  apply rel_bind_same. intros c2 _.
  destruct (0 <? c2); [apply Hretry|].
  apply rel_bind_same. intros h3 _.
  apply rel_bind_same. intros h4 _.
  apply rel_bind_same. intros h5 _.
  apply rel_bind_same. intros c3 _.
  destruct (0 <? c3); [apply Hretry|].
  apply rel_bind_same. intros w0c _.
  apply rel_bind_same. intros [h n] _.
  destruct (pOMEGA P <? n); [apply Hretry|].
  eapply rel_bind; [apply (pack_sig_eqon P N _ a2 b2 None z h HL HC HO Az Hab2)|].
  intros a3 b3 Hab3. cbn [rel_res att_rel].
  eapply eqon_mono; [|exact Hab3]. unfold below. intros i Hi. cbn beta.
  destruct (Nat.lt_ge_cases i (Z.to_nat (pCT P))) as [H1|H1]; [left; right; lia | right; lia].
Qed.

Definition sigtrace_rel (P : params) (N : nat) (x y : list Z * list Z) : Prop :=
  eqon N (below (Z.to_nat (pSIG P))) (fst x) (fst y) /\ snd x = snd y.

(** the rejection loop: same number of attempts, same causes, signatures agree *)
Theorem sign_loop_eqon P N mu rhoprime mat s1 s2 t0 : sig_bounds P ->
  forall fuel sig1 sig2 nonce trace, eqon N nowhere sig1 sig2 ->
  rel_res (sigtrace_rel P N) (sign_loop P fuel sig1 mu rhoprime mat s1 s2 t0 nonce trace)
                             (sign_loop P fuel sig2 mu rhoprime mat s1 s2 t0 nonce trace).
Proof.
  intros HB. induction fuel as [|f IH]; intros sig1 sig2 nonce trace HE; cbn [sign_loop]; [exact I|].
  eapply rel_bind; [apply (sign_attempt_eqon P N sig1 sig2 mu rhoprime mat s1 s2 t0 nonce HB HE)|].
  intros [x|c x] [y|c' y] Hatt; cbn [att_rel] in Hatt; try contradiction.
  - cbn [rel_res]. split; [exact Hatt | reflexivity].
  - destruct Hatt as [<- Hxy]. apply rel_bind_same. intros nonce' _. apply IH. exact Hxy.
Qed.

Theorem signature_trace_buffer_irrelevant P fuel sig1 sig2 msg sk rand tape :
  sig_bounds P -> zlen sig1 = zlen sig2 ->
  rel_res (fun x y => sigtrace_rel P (length sig1) (fst x) (fst y) /\ snd x = snd y)
          (signature_trace P fuel sig1 msg sk rand tape) (signature_trace P fuel sig2 msg sk rand tape).
Proof.
  intros HB HL. unfold signature_trace.
  apply rel_bind_same. intros [[[[[rho tr] key] t0] s1] s2] _.
  apply rel_bind_same. intros mu _.
  apply rel_bind_same. intros [rhoprime tape'] _.
  apply rel_bind_same. intros mat _.
  apply rel_bind_same. intros s1h _.
  apply rel_bind_same. intros s2h _.
  apply rel_bind_same. intros t0h _.
  eapply rel_bind.
  { apply (sign_loop_eqon P (length sig1) mu rhoprime mat s1h s2h t0h HB fuel sig1 sig2 0 []).
    apply eqon_nowhere. unfold zlen in HL. lia. }
  intros [x tx] [y ty] Hxy. cbn [rel_res fst snd]. split; [exact Hxy | reflexivity].
Qed.

(** 8. general form: buffers of the same length give the same outcome; the signatures agree in length and on
    their first pSIG bytes; the returned tape is the same *)
Theorem signature_buffer_irrelevant P sig1 sig2 msg sk rand tape :
  sig_bounds P -> zlen sig1 = zlen sig2 ->
  rel_res (fun x y => eqon (length sig1) (below (Z.to_nat (pSIG P))) (fst x) (fst y) /\ snd x = snd y)
          (signature P sig1 msg sk rand tape) (signature P sig2 msg sk rand tape).
Proof.
  intros HB HL. unfold signature.
  eapply rel_bind; [apply (signature_trace_buffer_irrelevant P SIGN_FUEL sig1 sig2 msg sk rand tape HB HL)|].
  intros [[x tx] t1] [[y ty] t2] [[Hxy _] Ht]. cbn [fst snd] in *. cbn [rel_res fst snd]. auto.
Qed.

(** 8. a buffer of exactly pSIG bytes: equal outright, including the rejection trace *)
Theorem signature_trace_buffer_irrelevant_exact P fuel sig1 sig2 msg sk rand tape :
  sig_bounds P -> zlen sig1 = pSIG P -> zlen sig2 = pSIG P ->
  signature_trace P fuel sig1 msg sk rand tape = signature_trace P fuel sig2 msg sk rand tape.
Proof.
  intros HB L1 L2. apply rel_eq_inv.
  eapply rel_mono; [|apply (signature_trace_buffer_irrelevant P fuel sig1 sig2 msg sk rand tape HB); congruence].
  intros [[x tx] t1] [[y ty] t2] [[Hxy Htr] Ht]. cbn [fst snd] in *. unfold zlen in *.
  rewrite (eqon_all _ _ _ _ Hxy) by (intros i Hi; unfold below; lia). congruence.
Qed.

Theorem signature_buffer_irrelevant_exact P sig1 sig2 msg sk rand tape :
  sig_bounds P -> zlen sig1 = pSIG P -> zlen sig2 = pSIG P ->
  signature P sig1 msg sk rand tape = signature P sig2 msg sk rand tape.
Proof.
  intros HB L1 L2. unfold signature.
  rewrite (signature_trace_buffer_irrelevant_exact P SIGN_FUEL sig1 sig2 msg sk rand tape HB L1 L2). reflexivity.
Qed.

Lemma std_sig_bounds P : std P -> sig_bounds P.
Proof. apply std_bounds. Qed.

Corollary signature_buffer_irrelevant_std P sig1 sig2 msg sk rand tape :
  std P -> zlen sig1 = pSIG P -> zlen sig2 = pSIG P ->
  signature P sig1 msg sk rand tape = signature P sig2 msg sk rand tape.
Proof. intros HP. apply signature_buffer_irrelevant_exact, std_sig_bounds, HP. Qed.

(** in particular the zero buffer that the API wrappers pass is not special *)
Corollary ml_sign_any_buffer P sk msg ctx hedged tape buf :
  std P -> zlen buf = pSIG P ->
  ml_sign P sk msg ctx hedged tape =
  if ctx_too_long ctx then Ok (None, tape) else
  do '(s, tape') <- signature P buf (frame_pure ctx msg) sk hedged tape; Ok (Some s, tape').
Proof.
  intros HP HL. unfold ml_sign. destruct (ctx_too_long ctx); [reflexivity|].
  rewrite (signature_buffer_irrelevant_std P (repeatZ 0 (pSIG P)) buf); [reflexivity | exact HP | | exact HL].
  unfold zlen, repeatZ. rewrite repeat_length.
  destruct (std_bounds P HP) as (HK & HL' & HC & HO & _). apply Z2Nat.id.
  unfold pSIG. assert (0 <= pPOLYZ P) by (unfold pPOLYZ; destruct (_ =? _); lia).
  assert (0 <= pL P * pPOLYZ P) by (apply Z.mul_nonneg_nonneg; lia). lia.
Qed.

(** ** B.6 A function whose output DOES depend on the incoming buffer: [unpack_sig] and the hint vector *)

(** A well-formed ML-DSA-44 / Dilithium2-sized signature (2420 bytes): c~ and z all zero, one hint in
    polynomial 0 at coefficient 5 (hint counts 1,1,1,1). *)
Definition sig_ex : list Z := repeatZ 0 (32 + 4 * 576) ++ [5] ++ repeatZ 0 79 ++ [1; 1; 1; 1].

(** decode it into the hint vector [h] and look at h'[0][5] (set by the decoder) and h'[1][0] (not touched) *)
Definition hint_probe (h : list (list Z)) : res (Z * Z * bool) :=
  do '(_, _, h', ok) <- unpack_sig P_lvl2 (repeatZ 0 32) (zvec 4) h sig_ex;
  do r0 <- get h' 0; do x <- get r0 5;
  do r1 <- get h' 1; do y <- get r1 0;
  Ok (x, y, ok).

(** [unpack_sig] only ever SETS entries of [h] to 1: whatever was in the incoming vector elsewhere survives
    into the output.  This is why [verify] must (and does) pass a fresh zero vector [zvec K]. *)
Example unpack_sig_depends_on_h :
  zlen sig_ex = pSIG P_lvl2 /\
  hint_probe (zvec 4) = Ok (1, 0, true) /\
  hint_probe (repeatZ (repeatZ 1 256) 4) = Ok (1, 1, true).
Proof. vm_compute. repeat split. Qed.

(** * C. Replay form of the history theorem: the outputs of a history are a function of the consumed prefix *)

Fixpoint run_with (ops : list op) (r : list Z) : res (list output) :=
  match ops with
  | [] => Ok []
  | o :: os => do x <- step_with o (firstn (Z.to_nat (draws o)) r);
               do xs <- run_with os (skipn (Z.to_nat (draws o)) r); Ok (x :: xs)
  end.

Theorem run_normal : forall ops tape, total_draws ops <= zlen tape ->
  run tape ops = do xs <- run_with ops tape; Ok (xs, skipn (Z.to_nat (total_draws ops)) tape).
Proof.
  induction ops as [|o os IH]; intros tape H; cbn [run run_with total_draws fold_right bind] in *; [reflexivity|].
  fold (total_draws os) in *.
  pose proof (draws_nonneg o) as N1. pose proof (total_draws_nonneg os) as N2.
  rewrite step_normal. unfold draw.
  destruct (Z.ltb_spec (zlen tape) (draws o)) as [H'|_]; [lia|]. cbn [bind].
  destruct (step_with o _) as [x| |]; cbn [bind]; try reflexivity.
  rewrite IH by (unfold zlen in *; rewrite skipn_length; lia).
  destruct (run_with os _) as [xs| |]; cbn [bind]; try reflexivity.
  rewrite skipn_skipn'. do 3 f_equal. lia.
Qed.

Theorem run_with_prefix : forall ops r,
  run_with ops r = run_with ops (firstn (Z.to_nat (total_draws ops)) r).
Proof.
  induction ops as [|o os IH]; intros r; cbn [run_with total_draws fold_right]; [reflexivity|].
  fold (total_draws os).
  pose proof (draws_nonneg o) as N1. pose proof (total_draws_nonneg os) as N2.
  rewrite firstn_firstn. replace (Nat.min (Z.to_nat (draws o)) (Z.to_nat (draws o + total_draws os)))
    with (Z.to_nat (draws o)) by lia.
  destruct (step_with o _) as [x| |]; cbn [bind]; try reflexivity.
  rewrite skipn_firstn_comm.
  replace (Z.to_nat (draws o + total_draws os) - Z.to_nat (draws o))%nat with (Z.to_nat (total_draws os)) by lia.
  rewrite <- IH. reflexivity.
Qed.

(** two tapes that agree on the first [total_draws ops] bytes produce the same outputs (or the same failure) *)
Corollary run_replay ops t1 t2 :
  total_draws ops <= zlen t1 -> total_draws ops <= zlen t2 ->
  firstn (Z.to_nat (total_draws ops)) t1 = firstn (Z.to_nat (total_draws ops)) t2 ->
  forget_tape (run t1 ops) = forget_tape (run t2 ops).
Proof.
  intros H1 H2 E. rewrite !run_normal by assumption.
  rewrite (run_with_prefix ops t1), (run_with_prefix ops t2), E.
  destruct (run_with ops _); reflexivity.
Qed.

(** * D. Assumptions *)
Print Assumptions keypair_seeded_no_draw.
Print Assumptions keypair_seeded_tape_irrelevant.
Print Assumptions keypair_seeded_tape_irrelevant_fail.
Print Assumptions keypair_unseeded_eq.
Print Assumptions signature_deterministic_no_draw.
Print Assumptions signature_deterministic_tape_irrelevant.
Print Assumptions signature_random_draw.
Print Assumptions signature_random_draw_mldsa.
Print Assumptions signature_random_draw_dilithium.
Print Assumptions sign_rhoprime_dilithium.
Print Assumptions ml_sign_eq.
Print Assumptions ml_prehash_sign_eq.
Print Assumptions ml_sign_hedged_draws_32.
Print Assumptions ml_sign_ctx_too_long.
Print Assumptions dil_sign_eq.
Print Assumptions kp_generate_unseeded_eq.
Print Assumptions step_normal.
Print Assumptions run_tape.
Print Assumptions deterministic_history_independent.
Print Assumptions run_replay.
Print Assumptions pack_pk_buffer_irrelevant.
Print Assumptions pack_sk_buffer_irrelevant.
Print Assumptions keypair_buffers_irrelevant.
Print Assumptions keypair_buffers_irrelevant_std.
Print Assumptions sign_attempt_eqon.
Print Assumptions sign_loop_eqon.
Print Assumptions signature_buffer_irrelevant.
Print Assumptions signature_buffer_irrelevant_std.
Print Assumptions ml_sign_any_buffer.
Print Assumptions unpack_sig_depends_on_h.
