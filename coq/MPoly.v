(** L0 model of src/poly.rs and src/poly/{lvl2,lvl3,lvl5,ml_dsa_44,ml_dsa_65,ml_dsa_87}.rs.
    A polynomial is a list of 256 coefficients. Functions that fill an output slice take the incoming
    slice and return the updated one. Definitions only. *)
From DV Require Import Base Gen MReduce MRounding MParams MKeccak MNtt.

(** ** poly.rs : coefficient-wise operations *)
Definition poly_reduce (a : list Z) : res (list Z) := mapM reduce32 a.
Definition poly_caddq (a : list Z) : res (list Z) := mapM caddq a.
Definition poly_add (a b : list Z) : res (list Z) := map2M i32_add a b.        (* add, add_ip *)
Definition poly_sub (a b : list Z) : res (list Z) := map2M i32_sub a b.        (* sub, sub_ip *)
Definition poly_shiftl (a : list Z) : res (list Z) := mapM (fun c => shl_s 32 c DD) a.
Definition poly_ntt (a : list Z) : res (list Z) := ntt a.
Definition poly_invntt_tomont (a : list Z) : res (list Z) := invntt_tomont a.
Definition poly_pointwise_montgomery (a b : list Z) : res (list Z) :=
  map2M (fun x y => do p <- i64_mul x y; montgomery_reduce p) a b.

Definition unzip_res {A B} (l : list (A * B)) : list A * list B := (map fst l, map snd l).

(** pub fn power2round(a1: &mut Poly, a0: &mut Poly): reads a1; returns (a1', a0') *)
Definition poly_power2round (a : list Z) : res (list Z * list Z) :=
  do l <- mapM power2round a; Ok (map snd l, map fst l).

(** pub fn chknorm(a: &Poly, b: i32) -> i32 *)
Fixpoint chknorm_loop (a : list Z) (b : Z) : res Z :=
  match a with
  | [] => Ok 0
  | c :: r =>
    do t <- shr 32 c 31;
    do d <- i32_mul 2 c;
    do t2 <- i32_sub c (Z.land t d);
    if b <=? t2 then Ok 1 else chknorm_loop r b
  end.
Definition chknorm (a : list Z) (b : Z) : res Z :=
  if 1047552 <? b then Ok 1 else chknorm_loop a b.     (* (Q - 1) / 8 *)

(** ** rejection sampling on byte buffers *)
Fixpoint rej_uniform_vals (want : nat) (buf : list Z) {struct buf} : list Z :=
  match buf with
  | b0 :: b1 :: b2 :: rest =>
    match want with
    | O => []
    | S w =>
      let t := Z.land (Z.lor (Z.lor b0 (Z.shiftl b1 8)) (Z.shiftl b2 16)) 8388607 in
      if t <? Q then t :: rej_uniform_vals w rest else rej_uniform_vals want rest
    end
  | _ => []
  end.

(** pub fn rej_uniform(a, alen, buf, buflen) -> usize. Contract: alen >= 0, 0 <= buflen <= buf.len(). *)
Definition rej_uniform (a : list Z) (alen : Z) (buf : list Z) (buflen : Z) : res (list Z * Z) :=
  if (alen <? 0) || (buflen <? 0) || (zlen buf <? buflen) then Panic else
  let vals := rej_uniform_vals (Z.to_nat alen) (firstn (Z.to_nat buflen) buf) in
  do a' <- splice a 0 vals;
  Ok (a', zlen vals).

(** eta = 2: accept nibble < 15, value 2 - (t - (205*t >> 10)*5); eta = 4: accept nibble < 9, value 4 - t *)
Definition eta_accept (eta t : Z) : bool := if eta =? 2 then t <? 15 else t <? 9.
Definition eta_value (eta t : Z) : Z :=
  if eta =? 2 then 2 - (t - (Z.shiftr (205 * t) 10) * 5) else 4 - t.

Fixpoint rej_eta_vals (eta : Z) (want : nat) (buf : list Z) {struct buf} : list Z :=
  match buf with
  | b :: rest =>
    match want with
    | O => []
    | S w =>
      let t0 := Z.land b 15 in
      let t1 := Z.shiftr b 4 in
      if eta_accept eta t0 then
        eta_value eta t0 ::
        (match w with
         | O => []
         | S w' => if eta_accept eta t1 then eta_value eta t1 :: rej_eta_vals eta w' rest
                   else rej_eta_vals eta w rest
         end)
      else if eta_accept eta t1 then eta_value eta t1 :: rej_eta_vals eta w rest
      else rej_eta_vals eta want rest
    end
  | [] => []
  end.

(** pub fn rej_eta(a, alen, buf, buflen) *)
Definition rej_eta (eta : Z) (a : list Z) (alen : Z) (buf : list Z) (buflen : Z) : res (list Z * Z) :=
  if (alen <? 0) || (buflen <? 0) || (zlen buf <? buflen) then Panic else
  let vals := rej_eta_vals eta (Z.to_nat alen) (firstn (Z.to_nat buflen) buf) in
  do a' <- splice a 0 vals;
  Ok (a', zlen vals).

(** ** bit packing: pure per-group computations, then a splice into the output slice *)
Definition u8 (x : Z) : Z := Z.land x 255.                       (* "as u8" *)
Definition shl32 (x k : Z) : Z := wrap 32 (Z.shiftl x k).         (* i32 << k, k < 32 *)
Definition shl8 (x k : Z) : Z := Z.land (Z.shiftl x k) 255.       (* u8 << k, k < 8 *)
Definition sar (x k : Z) : Z := Z.shiftr x k.                     (* >> k *)

Fixpoint t1_pack_bytes (a : list Z) : res (list Z) :=
  match a with
  | [] => Ok []
  | c0 :: c1 :: c2 :: c3 :: rest =>
    do r <- t1_pack_bytes rest;
    Ok (u8 (sar c0 0) :: u8 (Z.lor (sar c0 8) (shl32 c1 2)) :: u8 (Z.lor (sar c1 6) (shl32 c2 4))
        :: u8 (Z.lor (sar c2 4) (shl32 c3 6)) :: u8 (sar c3 2) :: r)
  | _ => Panic
  end.
Definition t1_pack (r a : list Z) : res (list Z) := do b <- t1_pack_bytes a; splice r 0 b.

Fixpoint t1_unpack_list (n : nat) (a : list Z) : res (list Z) :=
  match n with
  | O => Ok []
  | S n' =>
    match a with
    | b0 :: b1 :: b2 :: b3 :: b4 :: rest =>
      do r <- t1_unpack_list n' rest;
      Ok (Z.land (Z.lor (sar b0 0) (Z.shiftl b1 8)) 1023 :: Z.land (Z.lor (sar b1 2) (Z.shiftl b2 6)) 1023
          :: Z.land (Z.lor (sar b2 4) (Z.shiftl b3 4)) 1023 :: Z.land (Z.lor (sar b3 6) (Z.shiftl b4 2)) 1023 :: r)
    | _ => Panic
    end
  end.
Definition t1_unpack (a : list Z) : res (list Z) := t1_unpack_list 64 a.

Definition D_SHL : Z := 4096.
Fixpoint t0_pack_bytes (a : list Z) : res (list Z) :=
  match a with
  | [] => Ok []
  | c0 :: c1 :: c2 :: c3 :: c4 :: c5 :: c6 :: c7 :: rest =>
    do t0 <- i32_sub D_SHL c0; do t1 <- i32_sub D_SHL c1; do t2 <- i32_sub D_SHL c2; do t3 <- i32_sub D_SHL c3;
    do t4 <- i32_sub D_SHL c4; do t5 <- i32_sub D_SHL c5; do t6 <- i32_sub D_SHL c6; do t7 <- i32_sub D_SHL c7;
    do r <- t0_pack_bytes rest;
    Ok (u8 t0
        :: Z.lor (u8 (sar t0 8)) (u8 (shl32 t1 5))
        :: u8 (sar t1 3)
        :: Z.lor (u8 (sar t1 11)) (u8 (shl32 t2 2))
        :: Z.lor (u8 (sar t2 6)) (u8 (shl32 t3 7))
        :: u8 (sar t3 1)
        :: Z.lor (u8 (sar t3 9)) (u8 (shl32 t4 4))
        :: u8 (sar t4 4)
        :: Z.lor (u8 (sar t4 12)) (u8 (shl32 t5 1))
        :: Z.lor (u8 (sar t5 7)) (u8 (shl32 t6 6))
        :: u8 (sar t6 2)
        :: Z.lor (u8 (sar t6 10)) (u8 (shl32 t7 3))
        :: u8 (sar t7 5) :: r)
  | _ => Panic
  end.
Definition t0_pack (r a : list Z) : res (list Z) := do b <- t0_pack_bytes a; splice r 0 b.

Fixpoint t0_unpack_list (n : nat) (a : list Z) : res (list Z) :=
  match n with
  | O => Ok []
  | S n' =>
    match a with
    | b0 :: b1 :: b2 :: b3 :: b4 :: b5 :: b6 :: b7 :: b8 :: b9 :: b10 :: b11 :: b12 :: rest =>
      let m x := Z.land x 8191 in
      do r0 <- i32_sub D_SHL (m (Z.lor b0 (Z.shiftl b1 8)));
      do r1 <- i32_sub D_SHL (m (Z.lor (Z.lor (sar b1 5) (Z.shiftl b2 3)) (Z.shiftl b3 11)));
      do r2 <- i32_sub D_SHL (m (Z.lor (sar b3 2) (Z.shiftl b4 6)));
      do r3 <- i32_sub D_SHL (m (Z.lor (Z.lor (sar b4 7) (Z.shiftl b5 1)) (Z.shiftl b6 9)));
      do r4 <- i32_sub D_SHL (m (Z.lor (Z.lor (sar b6 4) (Z.shiftl b7 4)) (Z.shiftl b8 12)));
      do r5 <- i32_sub D_SHL (m (Z.lor (sar b8 1) (Z.shiftl b9 7)));
      do r6 <- i32_sub D_SHL (m (Z.lor (Z.lor (sar b9 6) (Z.shiftl b10 2)) (Z.shiftl b11 10)));
      do r7 <- i32_sub D_SHL (m (Z.lor (sar b11 3) (Z.shiftl b12 5)));
      do r <- t0_unpack_list n' rest;
      Ok (r0 :: r1 :: r2 :: r3 :: r4 :: r5 :: r6 :: r7 :: r)
    | _ => Panic
    end
  end.
Definition t0_unpack (a : list Z) : res (list Z) := t0_unpack_list 32 a.

(** eta codec *)
Fixpoint eta_pack_bytes (eta : Z) (a : list Z) : res (list Z) :=
  if eta =? 2 then
    match a with
    | [] => Ok []
    | c0 :: c1 :: c2 :: c3 :: c4 :: c5 :: c6 :: c7 :: rest =>
      do t0 <- i32_sub eta c0; do t1 <- i32_sub eta c1; do t2 <- i32_sub eta c2; do t3 <- i32_sub eta c3;
      do t4 <- i32_sub eta c4; do t5 <- i32_sub eta c5; do t6 <- i32_sub eta c6; do t7 <- i32_sub eta c7;
      let '(t0, t1, t2, t3, t4, t5, t6, t7) := (u8 t0, u8 t1, u8 t2, u8 t3, u8 t4, u8 t5, u8 t6, u8 t7) in
      do r <- eta_pack_bytes eta rest;
      Ok (Z.lor (Z.lor (sar t0 0) (shl8 t1 3)) (shl8 t2 6)
          :: Z.lor (Z.lor (Z.lor (sar t2 2) (shl8 t3 1)) (shl8 t4 4)) (shl8 t5 7)
          :: Z.lor (Z.lor (sar t5 1) (shl8 t6 2)) (shl8 t7 5) :: r)
    | _ => Panic
    end
  else
    match a with
    | [] => Ok []
    | c0 :: c1 :: rest =>
      do t0 <- i32_sub eta c0; do t1 <- i32_sub eta c1;
      do r <- eta_pack_bytes eta rest;
      Ok (Z.lor (u8 t0) (shl8 (u8 t1) 4) :: r)
    | _ => Panic
    end.
Definition eta_pack (eta : Z) (r a : list Z) : res (list Z) := do b <- eta_pack_bytes eta a; splice r 0 b.

Fixpoint eta_unpack_list (eta : Z) (n : nat) (a : list Z) : res (list Z) :=
  match n with
  | O => Ok []
  | S n' =>
    if eta =? 2 then
      match a with
      | b0 :: b1 :: b2 :: rest =>
        do r0 <- i32_sub eta (Z.land b0 7);
        do r1 <- i32_sub eta (Z.land (sar b0 3) 7);
        do r2 <- i32_sub eta (Z.land (Z.lor (sar b0 6) (shl8 b1 2)) 7);
        do r3 <- i32_sub eta (Z.land (sar b1 1) 7);
        do r4 <- i32_sub eta (Z.land (sar b1 4) 7);
        do r5 <- i32_sub eta (Z.land (Z.lor (sar b1 7) (shl8 b2 1)) 7);
        do r6 <- i32_sub eta (Z.land (sar b2 2) 7);
        do r7 <- i32_sub eta (Z.land (sar b2 5) 7);
        do r <- eta_unpack_list eta n' rest;
        Ok (r0 :: r1 :: r2 :: r3 :: r4 :: r5 :: r6 :: r7 :: r)
      | _ => Panic
      end
    else
      match a with
      | b0 :: rest =>
        do r0 <- i32_sub eta (Z.land b0 15);
        do r1 <- i32_sub eta (sar b0 4);
        do r <- eta_unpack_list eta n' rest;
        Ok (r0 :: r1 :: r)
      | _ => Panic
      end
  end.
Definition eta_unpack (eta : Z) (a : list Z) : res (list Z) :=
  eta_unpack_list eta (if eta =? 2 then 32 else 128) a.

(** z codec: 18 bits for gamma1 = 2^17, 20 bits for gamma1 = 2^19 *)
Fixpoint z_pack_bytes (g1 : Z) (a : list Z) : res (list Z) :=
  if g1 =? 131072 then
    match a with
    | [] => Ok []
    | c0 :: c1 :: c2 :: c3 :: rest =>
      do t0 <- i32_sub g1 c0; do t1 <- i32_sub g1 c1; do t2 <- i32_sub g1 c2; do t3 <- i32_sub g1 c3;
      do r <- z_pack_bytes g1 rest;
      Ok (u8 t0 :: u8 (sar t0 8)
          :: Z.lor (u8 (sar t0 16)) (u8 (shl32 t1 2))
          :: u8 (sar t1 6)
          :: Z.lor (u8 (sar t1 14)) (u8 (shl32 t2 4))
          :: u8 (sar t2 4)
          :: Z.lor (u8 (sar t2 12)) (u8 (shl32 t3 6))
          :: u8 (sar t3 2) :: u8 (sar t3 10) :: r)
    | _ => Panic
    end
  else
    match a with
    | [] => Ok []
    | c0 :: c1 :: rest =>
      do t0 <- i32_sub g1 c0; do t1 <- i32_sub g1 c1;
      do r <- z_pack_bytes g1 rest;
      Ok (u8 t0 :: u8 (sar t0 8)
          :: Z.lor (u8 (sar t0 16)) (u8 (shl32 t1 4))
          :: u8 (sar t1 4) :: u8 (sar t1 12) :: r)
    | _ => Panic
    end.
Definition z_pack (g1 : Z) (r a : list Z) : res (list Z) := do b <- z_pack_bytes g1 a; splice r 0 b.

Fixpoint z_unpack_list (g1 : Z) (n : nat) (a : list Z) : res (list Z) :=
  match n with
  | O => Ok []
  | S n' =>
    if g1 =? 131072 then
      match a with
      | b0 :: b1 :: b2 :: b3 :: b4 :: b5 :: b6 :: b7 :: b8 :: rest =>
        let m x := Z.land x 262143 in
        do r0 <- i32_sub g1 (m (Z.lor (Z.lor b0 (Z.shiftl b1 8)) (Z.shiftl b2 16)));
        do r1 <- i32_sub g1 (m (Z.lor (Z.lor (sar b2 2) (Z.shiftl b3 6)) (Z.shiftl b4 14)));
        do r2 <- i32_sub g1 (m (Z.lor (Z.lor (sar b4 4) (Z.shiftl b5 4)) (Z.shiftl b6 12)));
        do r3 <- i32_sub g1 (m (Z.lor (Z.lor (sar b6 6) (Z.shiftl b7 2)) (Z.shiftl b8 10)));
        do r <- z_unpack_list g1 n' rest;
        Ok (r0 :: r1 :: r2 :: r3 :: r)
      | _ => Panic
      end
    else
      match a with
      | b0 :: b1 :: b2 :: b3 :: b4 :: rest =>
        (* the code masks coefficient 0 twice and coefficient 1 never (it has at most 20 bits anyway) *)
        do r0 <- i32_sub g1 (Z.land (Z.land (Z.lor (Z.lor b0 (Z.shiftl b1 8)) (Z.shiftl b2 16)) 1048575) 1048575);
        do r1 <- i32_sub g1 (Z.lor (Z.lor (sar b2 4) (Z.shiftl b3 4)) (Z.shiftl b4 12));
        do r <- z_unpack_list g1 n' rest;
        Ok (r0 :: r1 :: r)
      | _ => Panic
      end
  end.
Definition z_unpack (g1 : Z) (a : list Z) : res (list Z) :=
  z_unpack_list g1 (if g1 =? 131072 then 64 else 128) a.

(** w1 codec: 6 bits (gamma2 = (q-1)/88) or 4 bits *)
Fixpoint w1_pack_bytes (g88 : bool) (a : list Z) : res (list Z) :=
  if g88 then
    match a with
    | [] => Ok []
    | c0 :: c1 :: c2 :: c3 :: rest =>
      do r <- w1_pack_bytes g88 rest;
      Ok (Z.lor (u8 c0) (u8 (shl32 c1 6)) :: Z.lor (u8 (sar c1 2)) (u8 (shl32 c2 4))
          :: Z.lor (u8 (sar c2 4)) (u8 (shl32 c3 2)) :: r)
    | _ => Panic
    end
  else
    match a with
    | [] => Ok []
    | c0 :: c1 :: rest =>
      do r <- w1_pack_bytes g88 rest;
      Ok (u8 (Z.lor c0 (shl32 c1 4)) :: r)
    | _ => Panic
    end.
Definition w1_pack (g88 : bool) (r a : list Z) : res (list Z) := do b <- w1_pack_bytes g88 a; splice r 0 b.

(** ** per-set coefficient-wise operations *)
(** pub fn decompose(a1: &mut Poly, a0: &mut Poly): (a1[i], a0[i]) = decompose(a1[i]) — the scalar function
    returns (low, high), so after the call the FIRST argument holds the LOW parts. Returns (a1', a0'). *)
Definition poly_decompose (g88 : bool) (a : list Z) : res (list Z * list Z) :=
  do l <- mapM (decompose g88) a; Ok (map fst l, map snd l).

(** pub fn make_hint(h, a0, a1) -> i32 : returns (h', s) *)
Definition poly_make_hint (g88 : bool) (a0 a1 : list Z) : res (list Z * Z) :=
  do h <- map2M (make_hint g88) a0 a1;
  do s <- foldM (fun s x => i32_add s x) h 0;
  Ok (h, s).

Definition poly_use_hint (g88 : bool) (a h : list Z) : res (list Z) := map2M (use_hint g88) a h.

(** ** samplers, generic in how XOF blocks are obtained: [sq n st] returns n blocks and the new state.
    Instantiated with the real sponge, and (for the armed XOF tap) with a scripted stream. *)
Section Samplers.
  Context {St : Type}.
  Variable sq128 : Z -> St -> res (list Z * St).   (* n blocks of 168 bytes *)
  Variable sq256 : Z -> St -> res (list Z * St).   (* n blocks of 136 bytes *)

  (** the refill loop of poly::uniform *)
  Fixpoint uniform_loop (fuel : nat) (st : St) (a : list Z) (ctr : Z) (buf : list Z) (buflen : Z)
    : res (list Z) :=
    if ctr <? 256 then
      match fuel with
      | O => OutOfFuel
      | S f =>
        let off := buflen mod 3 in
        do left <- slice buf (buflen - off) buflen;
        do buf1 <- splice buf 0 left;
        do '(blk, st') <- sq128 1 st;
        do buf2 <- splice buf1 off blk;
        let buflen' := 168 + off in
        do asub <- slice_from a ctr;
        do n <- usize_sub 256 ctr;
        do '(asub', got) <- rej_uniform asub n buf2 buflen';
        do a' <- splice a ctr asub';
        uniform_loop f st' a' (ctr + got) buf2 buflen'
      end
    else Ok a.

  (** body of poly::uniform after stream_init: 5 blocks into an 842-byte buffer *)
  Definition uniform_from (fuel : nat) (st : St) (a : list Z) : res (list Z) :=
    do '(blk, st1) <- sq128 5 st;
    do buf <- splice (repeatZ 0 842) 0 blk;
    do '(a1, ctr) <- rej_uniform a 256 buf 840;
    uniform_loop fuel st1 a1 ctr buf 840.

  Fixpoint uniform_eta_loop (eta : Z) (fuel : nat) (st : St) (a : list Z) (ctr : Z) : res (list Z) :=
    if ctr <? 256 then
      match fuel with
      | O => OutOfFuel
      | S f =>
        do '(blk, st') <- sq256 1 st;
        do asub <- slice_from a ctr;
        do n <- usize_sub 256 ctr;
        do '(asub', got) <- rej_eta eta asub n blk 136;
        do a' <- splice a ctr asub';
        uniform_eta_loop eta f st' a' (ctr + got)
      end
    else Ok a.

  (** UNIFORM_ETA_NBLOCKS = (135 + 136) / 136 = 1 in every copy *)
  Definition uniform_eta_from (eta : Z) (fuel : nat) (st : St) (a : list Z) : res (list Z) :=
    do '(blk, st1) <- sq256 1 st;
    do '(a1, ctr) <- rej_eta eta a 256 blk 136;
    uniform_eta_loop eta fuel st1 a1 ctr.

  (** UNIFORM_GAMMA1_NBLOCKS = ceil(POLYZ / 136) = 5 for both sizes *)
  Definition uniform_gamma1_from (g1 : Z) (st : St) : res (list Z) :=
    do '(blk, _) <- sq256 5 st;
    z_unpack g1 blk.

  (** the inner [loop] of challenge: next byte b with b <= i, refilling the buffer at pos >= 136 *)
  Fixpoint challenge_next (fuel : nat) (st : St) (buf : list Z) (pos i : Z) : res (Z * St * list Z * Z) :=
    match fuel with
    | O => OutOfFuel
    | S f =>
      do '(buf1, st1, pos1) <- (if 136 <=? pos then (do '(blk, st') <- sq256 1 st; Ok (blk, st', 0))
                                else Ok (buf, st, pos));
      do b <- get buf1 pos1;
      if b <=? i then Ok (b, st1, buf1, pos1 + 1) else challenge_next f st1 buf1 (pos1 + 1) i
    end.

  Fixpoint challenge_loop (fuel : nat) (is : list Z) (st : St) (buf : list Z) (pos : Z) (signs : Z) (c : list Z)
    : res (list Z) :=
    match is with
    | [] => Ok c
    | i :: is' =>
      do '(b, st1, buf1, pos1) <- challenge_next fuel st buf pos i;
      do cb <- get c b;
      do c1 <- set c i cb;
      do v <- i32_mul 2 (Z.land signs 1);
      do v <- i32_sub 1 v;
      do c2 <- set c1 b v;
      challenge_loop fuel is' st1 buf1 pos1 (Z.shiftr signs 1) c2
    end.

  (** body of challenge after absorb/finalize *)
  Definition challenge_from (tau : Z) (fuel : nat) (st : St) : res (list Z) :=
    do '(buf, st1) <- sq256 1 st;
    let signs := fold_right (fun b acc => b + 256 * acc) 0 (firstn 8 buf) in
    challenge_loop fuel (zrange (256 - tau) 256) st1 buf 8 signs (repeatZ 0 256).
End Samplers.

Definition real_sq128 (n : Z) (st : kstate) : res (list Z * kstate) :=
  shake128_squeezeblocks (repeatZ 0 (n * 168)) n st.
Definition real_sq256 (n : Z) (st : kstate) : res (list Z * kstate) :=
  shake256_squeezeblocks (repeatZ 0 (n * 136)) n st.

(** scripted stream (armed XOF tap): serve n*rate bytes from the tape; [Panic] when exhausted *)
Definition tape_sq (rate : Z) (n : Z) (tape : list Z) : res (list Z * list Z) :=
  if zlen tape <? n * rate then Panic
  else Ok (firstn (Z.to_nat (n * rate)) tape, skipn (Z.to_nat (n * rate)) tape).

Definition SAMPLER_FUEL : nat := 2000.

(** pub fn uniform(a, seed, nonce) *)
Definition poly_uniform (a : list Z) (seed : list Z) (nonce : Z) : res (list Z) :=
  do st <- shake128_stream_init seed nonce;
  uniform_from real_sq128 SAMPLER_FUEL st a.

Definition poly_uniform_eta (eta : Z) (a : list Z) (seed : list Z) (nonce : Z) : res (list Z) :=
  do st <- shake256_stream_init seed nonce;
  uniform_eta_from real_sq256 eta SAMPLER_FUEL st a.

Definition poly_uniform_gamma1 (g1 : Z) (seed : list Z) (nonce : Z) : res (list Z) :=
  do st <- shake256_stream_init seed nonce;
  uniform_gamma1_from real_sq256 g1 st.

(** pub fn challenge(c, seed): absorbs the first [ct] bytes of seed (SEEDBYTES or C_DASH_BYTES) *)
Definition poly_challenge (tau ct : Z) (seed : list Z) : res (list Z) :=
  do st <- shake256_absorb kinit seed ct;
  do st <- shake256_finalize st;
  challenge_from real_sq256 tau SAMPLER_FUEL st.
