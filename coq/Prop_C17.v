(** C17 — Samplers are the specification's functions of their streams and stay in range.
    Only property theorems here, closed by [exact] of lemmas proved in PSample.v.
    S_rej_ntt_stream / S_rej_bounded_stream / S_sample_in_ball transcribe FIPS 204 Alg. 14/15/29-30-31;
    the polynomial samplers are stated over an arbitrary XOF output stream [tape] (the model's samplers are
    generic in how blocks are obtained; [tape_sq rate] serves consecutive blocks of the stream). *)
From DV Require Import Base MReduce MParams MPoly PSample.

Theorem C17_rej_uniform : forall (a : list Z) (alen : Z) (buf : list Z) (buflen : Z),
  Forall is_byte buf -> 0 <= alen -> 0 <= buflen <= zlen buf -> alen <= zlen a ->
  exists vals, vals = firstn (Z.to_nat alen) (S_rej_ntt_stream (firstn (Z.to_nat buflen) buf)) /\
    rej_uniform a alen buf buflen = Ok (vals ++ skipn (length vals) a, zlen vals) /\
    Forall (fun x => 0 <= x < Q) vals.
Proof. exact rej_uniform_ok. Qed.
Print Assumptions C17_rej_uniform.

Theorem C17_rej_eta : forall (eta : Z) (a : list Z) (alen : Z) (buf : list Z) (buflen : Z),
  eta = 2 \/ eta = 4 -> Forall is_byte buf -> 0 <= alen -> 0 <= buflen <= zlen buf -> alen <= zlen a ->
  exists vals, vals = firstn (Z.to_nat alen) (S_rej_bounded_stream eta (firstn (Z.to_nat buflen) buf)) /\
    rej_eta eta a alen buf buflen = Ok (vals ++ skipn (length vals) a, zlen vals) /\
    Forall (fun x => - eta <= x <= eta) vals.
Proof. exact rej_eta_ok. Qed.
Print Assumptions C17_rej_eta.

(** matrix-entry sampler: RejNTTPoly of the stream, including when further blocks are needed *)
Theorem C17_uniform : forall (tape : list Z) (fuel : nat) (a0 p : list Z),
  Forall is_byte tape -> length a0 = 256%nat -> uniform_from (tape_sq 168) fuel tape a0 = Ok p ->
  exists k : nat, (5 <= k)%nat /\ (k * 168 <= length tape)%nat /\
    p = firstn 256 (S_rej_ntt_stream (firstn (k * 168) tape)) /\ length p = 256%nat /\
    Forall (fun x => 0 <= x < Q) p /\
    (256 <= length (S_rej_ntt_stream (firstn (k * 168) tape)))%nat /\
    (forall k' : nat, (5 <= k' < k)%nat -> (length (S_rej_ntt_stream (firstn (k' * 168) tape)) < 256)%nat) /\
    (k - 5 <= fuel)%nat.
Proof. exact uniform_tape_ok. Qed.
Print Assumptions C17_uniform.

Theorem C17_uniform_complete : forall (tape : list Z) (fuel : nat) (a0 : list Z) (k : nat),
  Forall is_byte tape -> length a0 = 256%nat -> (5 <= k)%nat -> (k * 168 <= length tape)%nat ->
  (256 <= length (S_rej_ntt_stream (firstn (k * 168) tape)))%nat ->
  (forall k' : nat, (5 <= k' < k)%nat -> (length (S_rej_ntt_stream (firstn (k' * 168) tape)) < 256)%nat) ->
  (k - 5 <= fuel)%nat ->
  uniform_from (tape_sq 168) fuel tape a0 = Ok (firstn 256 (S_rej_ntt_stream (firstn (k * 168) tape))).
Proof. exact uniform_tape_complete. Qed.
Print Assumptions C17_uniform_complete.

Theorem C17_uniform_eta : forall (eta : Z) (tape : list Z) (fuel : nat) (a0 p : list Z),
  eta = 2 \/ eta = 4 -> Forall is_byte tape -> length a0 = 256%nat ->
  uniform_eta_from (tape_sq 136) eta fuel tape a0 = Ok p ->
  exists k : nat, (1 <= k)%nat /\ (k * 136 <= length tape)%nat /\
    p = firstn 256 (S_rej_bounded_stream eta (firstn (k * 136) tape)) /\ length p = 256%nat /\
    Forall (fun x => - eta <= x <= eta) p /\
    (256 <= length (S_rej_bounded_stream eta (firstn (k * 136) tape)))%nat /\
    (forall k' : nat, (1 <= k' < k)%nat -> (length (S_rej_bounded_stream eta (firstn (k' * 136) tape)) < 256)%nat) /\
    (k - 1 <= fuel)%nat.
Proof. exact uniform_eta_tape_ok. Qed.
Print Assumptions C17_uniform_eta.

Theorem C17_uniform_gamma1 : forall (g1 : Z) (tape : list Z),
  g1 = 131072 \/ g1 = 524288 -> Forall is_byte tape -> zlen tape >= 680 ->
  exists p, uniform_gamma1_from (tape_sq 136) g1 tape = Ok p /\ length p = 256%nat /\
            Forall (fun x => - g1 < x <= g1) p.
Proof. exact uniform_gamma1_range. Qed.
Print Assumptions C17_uniform_gamma1.

(** challenge: exactly tau entries in {-1,+1}, all others 0, equal to SampleInBall of the stream *)
Theorem C17_challenge : forall (tape : list Z) (tau : Z) (fuel : nat) (c : list Z),
  Forall is_byte tape -> 0 <= tau <= 256 -> challenge_from (tape_sq 136) tau fuel tape = Ok c ->
  length c = 256%nat /\ ternary c /\ weight c = tau /\
  S_sample_in_ball tau (firstn 8 tape) (skipn 8 tape) = Some c.
Proof. exact challenge_tape_ok. Qed.
Print Assumptions C17_challenge.

Example C17_nonvacuous :
  rej_uniform [9; 9; 9] 3 [0; 224; 127; 1; 224; 127; 0; 224; 255] 9 = Ok ([8380416; 8380416; 9], 2) /\
  rej_eta 2 [7; 7; 7] 3 [254; 15] 2 = Ok ([-2; 2; 7], 2) /\
  rej_eta 4 [7; 7] 2 [152; 9] 2 = Ok ([-4; 4], 2).
Proof. vm_compute. repeat split. Qed.
