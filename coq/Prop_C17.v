(** C17 — Samplers are the specification's functions of their streams and stay in range.
    Only property theorems here, closed by [exact] of lemmas proved in PSample.v.
    S_rej_ntt_stream / S_rej_bounded_stream / S_sample_in_ball transcribe FIPS 204 Alg. 14/15/29-30-31;
    the polynomial samplers are stated over an arbitrary XOF output stream [tape] (the model's samplers are
    generic in how blocks are obtained; [tape_sq rate] serves consecutive blocks of the stream). *)
From DV Require Import Base MReduce MParams MPoly MPolyvec MSign PSample PBridge.

Theorem C17_rej_uniform : forall (a : list Z) (alen : Z) (buf : list Z) (buflen : Z),
  Forall is_byte buf -> 0 <= alen -> 0 <= buflen <= zlen buf -> alen <= zlen a ->
  exists vals, vals = firstn (Z.to_nat alen) (S_rej_ntt_stream (firstn (Z.to_nat buflen) buf)) /\
    rej_uniform a alen buf buflen = Ok (vals ++ skipn (length vals) a, zlen vals) /\
    Forall (fun x => 0 <= x < Q) vals.
Proof. exact rej_uniform_ok. Qed.
Print Assumptions C17_rej_uniform.

Theorem C17_rej_eta : forall (eta : Z) (a : list Z) (alen : Z) (buf : list Z) (buflen : Z),
  eta = 2 \/ eta = 4 -> Forall is_byte buf -> 0 <= alen -> 0 <= buflen <= zlen buf -> alen <= zlen a ->
  exists vals, vals = firstn (Z.to_nat alen) (S_rej_bounded_stream eta (firstn (Z.to_nat buflen) buf)) /\
    rej_eta eta a alen buf buflen = Ok (vals ++ skipn (length vals) a, zlen vals) /\
    Forall (fun x => - eta <= x <= eta) vals.
Proof. exact rej_eta_ok. Qed.
Print Assumptions C17_rej_eta.

(** matrix-entry sampler: RejNTTPoly of the stream, including when further blocks are needed *)
Theorem C17_uniform : forall (tape : list Z) (fuel : nat) (a0 p : list Z),
  Forall is_byte tape -> length a0 = 256%nat -> uniform_from (tape_sq 168) fuel tape a0 = Ok p ->
  exists k : nat, (5 <= k)%nat /\ (k * 168 <= length tape)%nat /\
    p = firstn 256 (S_rej_ntt_stream (firstn (k * 168) tape)) /\ length p = 256%nat /\
    Forall (fun x => 0 <= x < Q) p /\
    (256 <= length (S_rej_ntt_stream (firstn (k * 168) tape)))%nat /\
    (forall k' : nat, (5 <= k' < k)%nat -> (length (S_rej_ntt_stream (firstn (k' * 168) tape)) < 256)%nat) /\
    (k - 5 <= fuel)%nat.
Proof. exact uniform_tape_ok. Qed.
Print Assumptions C17_uniform.

Theorem C17_uniform_complete : forall (tape : list Z) (fuel : nat) (a0 : list Z) (k : nat),
  Forall is_byte tape -> length a0 = 256%nat -> (5 <= k)%nat -> (k * 168 <= length tape)%nat ->
  (256 <= length (S_rej_ntt_stream (firstn (k * 168) tape)))%nat ->
  (forall k' : nat, (5 <= k' < k)%nat -> (length (S_rej_ntt_stream (firstn (k' * 168) tape)) < 256)%nat) ->
  (k - 5 <= fuel)%nat ->
  uniform_from (tape_sq 168) fuel tape a0 = Ok (firstn 256 (S_rej_ntt_stream (firstn (k * 168) tape))).
Proof. exact uniform_tape_complete. Qed.
Print Assumptions C17_uniform_complete.

Theorem C17_uniform_eta : forall (eta : Z) (tape : list Z) (fuel : nat) (a0 p : list Z),
  eta = 2 \/ eta = 4 -> Forall is_byte tape -> length a0 = 256%nat ->
  uniform_eta_from (tape_sq 136) eta fuel tape a0 = Ok p ->
  exists k : nat, (1 <= k)%nat /\ (k * 136 <= length tape)%nat /\
    p = firstn 256 (S_rej_bounded_stream eta (firstn (k * 136) tape)) /\ length p = 256%nat /\
    Forall (fun x => - eta <= x <= eta) p /\
    (256 <= length (S_rej_bounded_stream eta (firstn (k * 136) tape)))%nat /\
    (forall k' : nat, (1 <= k' < k)%nat -> (length (S_rej_bounded_stream eta (firstn (k' * 136) tape)) < 256)%nat) /\
    (k - 1 <= fuel)%nat.
Proof. exact uniform_eta_tape_ok. Qed.
Print Assumptions C17_uniform_eta.

Theorem C17_uniform_gamma1 : forall (g1 : Z) (tape : list Z),
  g1 = 131072 \/ g1 = 524288 -> Forall is_byte tape -> zlen tape >= 680 ->
  exists p, uniform_gamma1_from (tape_sq 136) g1 tape = Ok p /\ length p = 256%nat /\
            Forall (fun x => - g1 < x <= g1) p.
Proof. exact uniform_gamma1_range. Qed.
Print Assumptions C17_uniform_gamma1.

(** challenge: exactly tau entries in {-1,+1}, all others 0, equal to SampleInBall of the stream *)
Theorem C17_challenge : forall (tape : list Z) (tau : Z) (fuel : nat) (c : list Z),
  Forall is_byte tape -> 0 <= tau <= 256 -> challenge_from (tape_sq 136) tau fuel tape = Ok c ->
  length c = 256%nat /\ ternary c /\ weight c = tau /\
  S_sample_in_ball tau (firstn 8 tape) (skipn 8 tape) = Some c.
Proof. exact challenge_tape_ok. Qed.
Print Assumptions C17_challenge.

(** ... and with the REAL sponge (C12): each sampler is the specification's function of (seed, nonce).
    rej_stream_poly smp H rate k0 kmax p: p is the first 256 accepted values of the stream H, taken from the least
    number k of blocks (k0 <= k <= kmax) that contains 256 acceptances; xof_in n seed nonce = seed[0..n] || nonce (LE16) *)
Theorem C17_uniform_real : forall (a0 seed : list Z) (nonce : Z) (p : list Z),
  length a0 = 256%nat -> 32 <= zlen seed -> Forall is_byte (firstn 32 seed) ->
  poly_uniform a0 seed nonce = Ok p ->
  rej_stream_poly S_rej_ntt_stream (SKeccak.S_shake 168 (xof_in 32 seed nonce)) 168 5 (5 + SAMPLER_FUEL) p /\ length p = 256%nat /\ Forall (fun x => 0 <= x < Q) p.
Proof. exact poly_uniform_ok. Qed.
Print Assumptions C17_uniform_real.

Theorem C17_uniform_eta_real : forall (eta : Z) (a0 seed : list Z) (nonce : Z) (p : list Z),
  eta = 2 \/ eta = 4 -> length a0 = 256%nat -> 64 <= zlen seed -> Forall is_byte (firstn 64 seed) ->
  poly_uniform_eta eta a0 seed nonce = Ok p ->
  rej_stream_poly (S_rej_bounded_stream eta) (SKeccak.S_shake 136 (xof_in 64 seed nonce)) 136 1 (1 + SAMPLER_FUEL) p /\ length p = 256%nat /\ Forall (fun x => - eta <= x <= eta) p.
Proof. exact poly_uniform_eta_ok. Qed.
Print Assumptions C17_uniform_eta_real.

Theorem C17_uniform_gamma1_real : forall (g1 : Z) (seed : list Z) (nonce : Z),
  g1 = 131072 \/ g1 = 524288 -> 64 <= zlen seed -> Forall is_byte (firstn 64 seed) ->
  let y := PPack.BitUnpack (SKeccak.S_shake 136 (xof_in 64 seed nonce) 680) (g1 - 1) g1 in
  poly_uniform_gamma1 g1 seed nonce = Ok y /\ length y = 256%nat /\ Forall (fun x => - g1 < x <= g1) y.
Proof. exact poly_uniform_gamma1_ok. Qed.
Print Assumptions C17_uniform_gamma1_real.

Theorem C17_challenge_real : forall (tau ct : Z) (seed c : list Z),
  0 <= tau <= 256 -> 0 <= ct <= zlen seed -> Forall is_byte (firstn (Z.to_nat ct) seed) ->
  poly_challenge tau ct seed = Ok c ->
  let s := SKeccak.S_shake 136 (firstn (Z.to_nat ct) seed) (N_CHALLENGE tau) in
  length c = 256%nat /\ ternary c /\ weight c = tau /\ S_sample_in_ball tau (firstn 8 s) (skipn 8 s) = Some c.
Proof. exact poly_challenge_ok. Qed.
Print Assumptions C17_challenge_real.

(** ExpandA: entry (i,j) is RejNTTPoly(rho || j || i) *)
Theorem C17_matrix_expand : forall (P : params) (rho : list Z) (mat : list (list (list Z))),
  0 <= pK P <= 256 -> 0 <= pL P <= 256 -> 32 <= zlen rho -> Forall is_byte (firstn 32 rho) ->
  matrix_expand P (zmat (pK P) (pL P)) rho = Ok mat ->
  length mat = Z.to_nat (pK P) /\ forall (i : nat) (row : list (list Z)), nth_error mat i = Some row ->
    length row = Z.to_nat (pL P) /\ forall (j : nat) (p : list Z), nth_error row j = Some p ->
      rej_stream_poly S_rej_ntt_stream (SKeccak.S_shake 168 (firstn 32 rho ++ [Z.of_nat j; Z.of_nat i])) 168 5 (5 + SAMPLER_FUEL) p /\ length p = 256%nat /\ Forall (fun x => 0 <= x < Q) p.
Proof. exact expandA_ok. Qed.
Print Assumptions C17_matrix_expand.

(** ExpandMask: component i is BitUnpack of SHAKE256(rho'' || L*kappa + i) *)
Theorem C17_expand_mask : forall (P : params) (v : list (list Z)) (seed : list Z) (kappa : Z),
  pGAMMA1 P = 131072 \/ pGAMMA1 P = 524288 -> length v = Z.to_nat (pL P) -> 0 <= pL P -> 0 <= kappa ->
  pL P * kappa + pL P <= 65536 -> 64 <= zlen seed -> Forall is_byte (firstn 64 seed) ->
  l_uniform_gamma1 P v seed kappa =
  Ok (map (fun i => PPack.BitUnpack (SKeccak.S_shake 136 (xof_in 64 seed (pL P * kappa + i)) 680) (pGAMMA1 P - 1) (pGAMMA1 P))
          (zrange 0 (pL P))).
Proof. exact l_uniform_gamma1_ok'. Qed.
Print Assumptions C17_expand_mask.

Example C17_nonvacuous :
  rej_uniform [9; 9; 9] 3 [0; 224; 127; 1; 224; 127; 0; 224; 255] 9 = Ok ([8380416; 8380416; 9], 2) /\
  rej_eta 2 [7; 7; 7] 3 [254; 15] 2 = Ok ([-2; 2; 7], 2) /\
  rej_eta 4 [7; 7] 2 [152; 9] 2 = Ok ([-4; 4], 2).
Proof. vm_compute. repeat split. Qed.
