(** L0 model of src/ntt.rs. The butterfly network is defined once, generically in the coefficient type
    and its three operations, and instantiated at [res Z] with Rust's checked/wrapping arithmetic
    (an overflow anywhere makes the whole transform [Panic], like the checked build). *)
From DV Require Import Base Gen MReduce.

Section Net.
  Context {T : Type}.
  Variables (add sub : T -> T -> T) (mulz : Z -> T -> T).   (* mulz k x = "zeta_k times x" *)

  Fixpoint map2 (f : T -> T -> T) (l1 l2 : list T) : list T :=
    match l1, l2 with
    | x :: xs, y :: ys => f x y :: map2 f xs ys
    | _, _ => []
    end.

  (** forward (Cooley-Tukey) butterfly on one block: t = zeta*hi; (lo + t, lo - t) *)
  Definition bf_fwd (k : Z) (lo hi : list T) : list T :=
    let t := map (mulz k) hi in map2 add lo t ++ map2 sub lo t.

  (** inverse (Gentleman-Sande) butterfly: (lo + hi, zeta*(lo - hi)) *)
  Definition bf_inv (k : Z) (lo hi : list T) : list T :=
    map2 add lo hi ++ map (mulz k) (map2 sub lo hi).

  (** [n] consecutive blocks of 2*len coefficients; block b uses zeta index k + b*step *)
  Fixpoint blocks (bf : Z -> list T -> list T -> list T) (n len : nat) (k step : Z) (l : list T) : list T :=
    match n with
    | O => []
    | S n' => bf k (firstn len l) (firstn len (skipn len l))
              ++ blocks bf n' len (k + step) step (skipn (len + len) l)
    end.

  Definition fwd_layer (n len : nat) (l : list T) := blocks bf_fwd n len (Z.of_nat n) 1 l.
  (** inverse layer with n blocks: block b uses index 2n-1-b *)
  Definition inv_layer (n len : nat) (l : list T) := blocks bf_inv n len (Z.of_nat (n + n) - 1) (-1) l.

  Definition ntt_net (l : list T) : list T :=
    fwd_layer 128 1 (fwd_layer 64 2 (fwd_layer 32 4 (fwd_layer 16 8
      (fwd_layer 8 16 (fwd_layer 4 32 (fwd_layer 2 64 (fwd_layer 1 128 l))))))).

  Definition invntt_net (l : list T) : list T :=
    inv_layer 1 128 (inv_layer 2 64 (inv_layer 4 32 (inv_layer 8 16
      (inv_layer 16 8 (inv_layer 32 4 (inv_layer 64 2 (inv_layer 128 1 l))))))).
End Net.

Definition ZETAS : list Z := src_ZETAS.
Definition zeta (k : Z) : Z := nth (Z.to_nat k) ZETAS 0.
Definition FF : Z := 41978.    (* const F: i64 = 41978 *)

Definition lift2 (f : Z -> Z -> res Z) (a b : res Z) : res Z := do x <- a; do y <- b; f x y.

(** forward: t = montgomery_reduce(zeta.wrapping_mul(a[j+len] as i64)) *)
Definition mulz_fwd (k : Z) (x : res Z) : res Z :=
  do v <- x; montgomery_reduce (i64_wrapping_mul (zeta k) v).
(** inverse: zeta = -ZETAS[k] (i32 negation, checked), then the same product *)
Definition mulz_inv (k : Z) (x : res Z) : res Z :=
  do v <- x; do z <- i32_neg (zeta k); montgomery_reduce (i64_wrapping_mul z v).

Fixpoint sequence {A} (l : list (res A)) : res (list A) :=
  match l with
  | [] => Ok []
  | x :: xs => do v <- x; do vs <- sequence xs; Ok (v :: vs)
  end.

(** pub fn ntt(a: &mut [i32]) — [a] must have (at least) 256 entries, as every caller's has *)
Definition ntt (a : list Z) : res (list Z) :=
  if negb (zlen a =? 256) then Panic else
  sequence (ntt_net (lift2 i32_add) (lift2 i32_sub) mulz_fwd (map Ok a)).

(** pub fn invntt_tomont(a: &mut [i32]) *)
Definition invntt_tomont (a : list Z) : res (list Z) :=
  if negb (zlen a =? 256) then Panic else
  do r <- sequence (invntt_net (lift2 i32_add) (lift2 i32_sub) mulz_inv (map Ok a));
  mapM (fun x => montgomery_reduce (i64_wrapping_mul FF x)) r.
