open Model
open Driver

let () =
  try
    while true do
      let line = input_line stdin in
      if String.length line > 0 && line.[0] <> '#' then begin
        match String.split_on_char ' ' line with
        | id :: fn :: copy :: rest ->
          let res =
            try
              let args = List.map parse_arg (List.filter (fun s -> s <> "") rest) in
              (match Dispatch.dispatch fn copy args with
               | Ok outs -> "ok" ^ String.concat "" (List.map (fun o -> " " ^ string_of_out o) outs)
               | Panic -> "panic"
               | OutOfFuel -> "fuel")
            with Unknown -> "unknown"
               | Failure m -> "error " ^ m
               | Stack_overflow -> "error stack"
          in
          print_string id; print_char ' '; print_endline res
        | _ -> ()
      end
    done
  with End_of_file -> ()
