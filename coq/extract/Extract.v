(** Extraction of the executable model. Only ExtrOcamlBasic is used (bool, option, list, prod,
    unit, sumbool mapped to OCaml's); Z, positive, N, nat stay the inductive types. No Extract Constant. *)
From Coq Require Extraction ExtrOcamlBasic.
From DV Require Import Base MReduce.
Extraction Language OCaml.
Extraction "model.ml"
  Base.res Z.add Z.mul Z.sub Z.opp Z.div Z.modulo Z.of_nat Z.to_nat Z.eqb Z.ltb Z.leb
  MReduce.montgomery_reduce MReduce.reduce32 MReduce.caddq.
