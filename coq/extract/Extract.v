(** Extraction of the executable model. Only ExtrOcamlBasic is used (bool, option, list, prod,
    unit, sumbool mapped to OCaml's); Z, positive, N, nat stay the inductive types. No Extract Constant. *)
From Coq Require Extraction ExtrOcamlBasic.
From DV Require Import Base Gen MReduce MRounding MParams MKeccak MNtt MPoly MPolyvec MPacking MSign MSha2 MApi.
Extraction Language OCaml.
Extraction "model.ml"
  Base.res Z.add Z.mul Z.sub Z.opp Z.div Z.modulo Z.of_nat Z.to_nat Z.eqb Z.ltb Z.leb Base.zlen
  MReduce.montgomery_reduce MReduce.reduce32 MReduce.caddq
  MRounding.power2round MRounding.decompose MRounding.make_hint MRounding.use_hint
  MParams.P_lvl2 MParams.P_lvl3 MParams.P_lvl5 MParams.P_ml44 MParams.P_ml65 MParams.P_ml87
  MParams.pPK MParams.pSK MParams.pSIG MParams.pPOLYW1 MParams.pPOLYZ MParams.pPOLYETA MParams.pGAMMA2
  MKeccak.kinit MKeccak.keccakf MKeccak.shake128_absorb MKeccak.shake128_finalize MKeccak.shake128_squeezeblocks
  MKeccak.shake256_absorb MKeccak.shake256_finalize MKeccak.shake256_squeeze MKeccak.shake256_absorb_once
  MKeccak.shake256_squeezeblocks MKeccak.shake256 MKeccak.shake128_stream_init MKeccak.shake256_stream_init
  MNtt.ntt MNtt.invntt_tomont
  MPoly.poly_reduce MPoly.poly_caddq MPoly.poly_add MPoly.poly_sub MPoly.poly_shiftl MPoly.poly_ntt
  MPoly.poly_invntt_tomont MPoly.poly_pointwise_montgomery MPoly.poly_power2round MPoly.chknorm
  MPoly.rej_uniform MPoly.rej_eta MPoly.t1_pack MPoly.t1_unpack MPoly.t0_pack MPoly.t0_unpack
  MPoly.eta_pack MPoly.eta_unpack MPoly.z_pack MPoly.z_unpack MPoly.w1_pack
  MPoly.poly_decompose MPoly.poly_make_hint MPoly.poly_use_hint
  MPoly.poly_uniform MPoly.poly_uniform_eta MPoly.poly_uniform_gamma1 MPoly.poly_challenge
  MPoly.uniform_from MPoly.uniform_eta_from MPoly.challenge_from MPoly.tape_sq MPoly.SAMPLER_FUEL
  MPolyvec.matrix_expand MPolyvec.matrix_pointwise_montgomery MPolyvec.l_pointwise_acc_montgomery
  MPolyvec.l_uniform_eta MPolyvec.k_uniform_eta
  MPolyvec.l_uniform_gamma1 MPolyvec.l_reduce MPolyvec.k_reduce MPolyvec.k_caddq MPolyvec.l_ntt MPolyvec.k_ntt
  MPolyvec.l_invntt_tomont MPolyvec.k_invntt_tomont MPolyvec.k_shiftl MPolyvec.l_add MPolyvec.k_add MPolyvec.k_sub
  MPolyvec.l_pointwise_poly_montgomery MPolyvec.k_pointwise_poly_montgomery MPolyvec.l_chknorm MPolyvec.k_chknorm
  MPolyvec.k_power2round MPolyvec.k_decompose MPolyvec.k_make_hint MPolyvec.k_use_hint MPolyvec.k_pack_w1
  MPacking.pack_pk MPacking.unpack_pk MPacking.pack_sk MPacking.unpack_sk MPacking.pack_sig MPacking.unpack_sig
  MSign.keypair MSign.signature MSign.signature_trace MSign.SIGN_FUEL MSign.verify MSign.zvec MSign.zmat MSign.zpoly
  MSha2.sha256 MSha2.sha512
  MApi.sk_from_bytes MApi.pk_from_bytes MApi.kp_generate MApi.kp_to_bytes MApi.kp_from_bytes MApi.dil_sign MApi.dil_verify
  MApi.frame_pure MApi.frame_hash MApi.ml_sign MApi.ml_prehash_sign MApi.ml_verify MApi.ml_prehash_verify.
