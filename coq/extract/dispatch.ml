(* Dispatch table: model function for each (fn, copy). Mirrors harness/src/dispatch.rs. *)
open Model
open Driver

let zi = z_of_int

let params_of = function
  | "lvl2" | "dilithium2" -> p_lvl2
  | "lvl3" | "dilithium3" -> p_lvl3
  | "lvl5" | "dilithium5" -> p_lvl5
  | "ml_dsa_44" -> p_ml44
  | "ml_dsa_65" -> p_ml65
  | "ml_dsa_87" -> p_ml87
  | _ -> raise Unknown

let g88_of = function
  | "lvl2" | "ml_dsa_44" -> true
  | "lvl3" | "lvl5" | "ml_dsa_65" | "ml_dsa_87" -> false
  | _ -> raise Unknown

let rec chunks n l =
  if l = [] then []
  else begin
    let rec take k l acc = if k = 0 then (List.rev acc, l) else
        match l with [] -> (List.rev acc, []) | x :: r -> take (k - 1) r (x :: acc) in
    let (a, b) = take n l [] in
    a :: chunks n b
  end

let vec l = chunks 256 l
let mat l_ l = List.map (chunks 256) (chunks (256 * l_) l)
let flat v = List.concat v
let flatm m = List.concat (List.map List.concat m)

let ( >>= ) m f = match m with Ok v -> f v | Panic -> Panic | OutOfFuel -> OutOfFuel
let ret l = Ok l
let oi z = OInt z
let ol l = OInts l
let ob l = OBytes l
let obool b = OInt (if b then zi 1 else zi 0)
let zeros n = List.init n (fun _ -> Z0)
let zbool z = (z <> Z0)

(* SHAKE history interpreter: ops are (opcode, operands) as consecutive args *)
let rec shake_hist (rate128 : bool) st args acc =
  match args with
  | [] -> Ok (List.rev acc)
  | AInt op :: rest ->
    (match int_of_z op, rest with
     | 0, ABytes b :: r ->
       (if rate128 then shake128_absorb st b (zlen b) else shake256_absorb st b (zlen b)) >>= fun st' ->
       shake_hist rate128 st' r acc
     | 1, r ->
       (if rate128 then shake128_finalize st else shake256_finalize st) >>= fun st' -> shake_hist rate128 st' r acc
     | 2, AInt n :: r ->
       if rate128 then raise Unknown else
         shake256_squeeze (zeros (int_of_z n)) n st >>= fun (o, st') -> shake_hist rate128 st' r (OBytes o :: acc)
     | 3, AInt n :: r ->
       let rate = if rate128 then 168 else 136 in
       let buf = zeros (int_of_z n * rate) in
       (if rate128 then shake128_squeezeblocks buf n st else shake256_squeezeblocks buf n st) >>= fun (o, st') ->
       shake_hist rate128 st' r (OBytes o :: acc)
     | 4, ABytes b :: r ->
       if rate128 then raise Unknown else
         shake256_absorb_once b (zlen b) >>= fun st' -> shake_hist rate128 st' r acc
     | 5, r -> shake_hist rate128 kinit r acc
     | 6, ABytes seed :: AInt nonce :: r ->
       (if rate128 then shake128_stream_init seed nonce else shake256_stream_init seed nonce) >>= fun st' ->
       shake_hist rate128 st' r acc
     | _ -> raise Unknown)
  | _ -> raise Unknown


(* exhaustive sweeps: checksum of the outputs of a scalar function over [lo, hi) *)
let cks h v = (h * 1000003 + (v land 0x3FFFFFFF)) mod 2147483647
let sweep_unary (f : z -> int list res) lo hi =
  let h = ref 7 and pan = ref 0 in
  for a = lo to hi - 1 do
    match f (zi a) with
    | Ok vs -> List.iter (fun v -> h := cks !h (v + 1073741824)) vs
    | _ -> incr pan; h := cks !h 1
  done;
  Ok [OInt (zi !h); OInt (zi !pan)]
let pair_ints = function Ok (a, b) -> Ok [int_of_z a; int_of_z b] | Panic -> Panic | OutOfFuel -> OutOfFuel
let one_int = function Ok a -> Ok [int_of_z a] | Panic -> Panic | OutOfFuel -> OutOfFuel
let sweep fn copy fixed lo hi =
  match fn with
  | "power2round" -> sweep_unary (fun a -> pair_ints (power2round a)) lo hi
  | "decompose" -> let g = g88_of copy in sweep_unary (fun a -> pair_ints (decompose g a)) lo hi
  | "caddq" -> sweep_unary (fun a -> one_int (caddq a)) lo hi
  | "reduce32" -> sweep_unary (fun a -> one_int (reduce32 a)) lo hi
  | "use_hint" -> let g = g88_of copy in sweep_unary (fun a -> one_int (use_hint g a (zi fixed))) lo hi
  | "make_hint" -> let g = g88_of copy in sweep_unary (fun a -> one_int (make_hint g a (zi fixed))) lo hi
  | _ -> raise Unknown

let octx = function ABytes b -> Some b | AInt _ -> None | _ -> failwith "ctx"

let dispatch (fn : string) (copy : string) (a : arg list) : out list res =
  match fn, a with
  (* reduce.rs *)
  | "montgomery_reduce", [x] -> montgomery_reduce (geti x) >>= fun v -> ret [oi v]
  | "reduce32", [x] -> reduce32 (geti x) >>= fun v -> ret [oi v]
  | "caddq", [x] -> caddq (geti x) >>= fun v -> ret [oi v]
  (* rounding *)
  | "power2round", [x] -> power2round (geti x) >>= fun (a0, a1) -> ret [oi a0; oi a1]
  | "decompose", [x] -> decompose (g88_of copy) (geti x) >>= fun (a0, a1) -> ret [oi a0; oi a1]
  | "make_hint", [x; y] -> make_hint (g88_of copy) (geti x) (geti y) >>= fun v -> ret [oi v]
  | "use_hint", [x; y] -> use_hint (g88_of copy) (geti x) (geti y) >>= fun v -> ret [oi v]
  (* ntt.rs / poly.rs *)
  | ("ntt_ntt" | "poly_ntt"), [x] -> ntt (getl x) >>= fun r -> ret [ol r]
  | ("ntt_invntt" | "poly_invntt"), [x] -> invntt_tomont (getl x) >>= fun r -> ret [ol r]
  | "poly_reduce", [x] -> poly_reduce (getl x) >>= fun r -> ret [ol r]
  | "poly_caddq", [x] -> poly_caddq (getl x) >>= fun r -> ret [ol r]
  | ("poly_add" | "poly_add_ip"), [x; y] -> poly_add (getl x) (getl y) >>= fun r -> ret [ol r]
  | ("poly_sub" | "poly_sub_ip"), [x; y] -> poly_sub (getl x) (getl y) >>= fun r -> ret [ol r]
  | "poly_shiftl", [x] -> poly_shiftl (getl x) >>= fun r -> ret [ol r]
  | "poly_pointwise", [x; y] -> poly_pointwise_montgomery (getl x) (getl y) >>= fun r -> ret [ol r]
  | "poly_pointwise_dirty", [x; y; _] -> poly_pointwise_montgomery (getl x) (getl y) >>= fun r -> ret [ol r]
  | "poly_power2round", [x] -> poly_power2round (getl x) >>= fun (a1, a0) -> ret [ol a1; ol a0]
  | "chknorm", [x; b] -> chknorm (getl x) (geti b) >>= fun r -> ret [oi r]
  | "rej_uniform", [x; alen; buf; buflen] ->
    rej_uniform (getl x) (geti alen) (getb buf) (geti buflen) >>= fun (a', c) -> ret [ol a'; oi c]
  | "uniform", [seed; nonce] -> poly_uniform zpoly (getb seed) (geti nonce) >>= fun r -> ret [ol r]
  | "uniform_tap", [tape] ->
    uniform_from (tape_sq (zi 168)) sAMPLER_FUEL (getb tape) zpoly >>= fun r -> ret [ol r]
  | "t1_pack", [r; x] -> t1_pack (getb r) (getl x) >>= fun o -> ret [ob o]
  | "t1_unpack", [b] -> t1_unpack (getb b) >>= fun o -> ret [ol o]
  | "t0_pack", [r; x] -> t0_pack (getb r) (getl x) >>= fun o -> ret [ob o]
  | "t0_unpack", [b] -> t0_unpack (getb b) >>= fun o -> ret [ol o]
  (* poly/<set>.rs *)
  | "poly_decompose", [x] -> poly_decompose (g88_of copy) (getl x) >>= fun (a1, a0) -> ret [ol a1; ol a0]
  | "poly_make_hint", [x; y] -> poly_make_hint (g88_of copy) (getl x) (getl y) >>= fun (h, s) -> ret [ol h; oi s]
  | ("poly_use_hint" | "poly_use_hint_ip"), [x; y] -> poly_use_hint (g88_of copy) (getl x) (getl y) >>= fun r -> ret [ol r]
  | "rej_eta", [x; alen; buf; buflen] ->
    rej_eta (params_of copy).pETA (getl x) (geti alen) (getb buf) (geti buflen) >>= fun (a', c) -> ret [ol a'; oi c]
  | "uniform_eta", [seed; nonce] ->
    poly_uniform_eta (params_of copy).pETA zpoly (getb seed) (geti nonce) >>= fun r -> ret [ol r]
  | "uniform_eta_tap", [tape] ->
    uniform_eta_from (tape_sq (zi 136)) (params_of copy).pETA sAMPLER_FUEL (getb tape) zpoly >>= fun r -> ret [ol r]
  | "uniform_gamma1", [seed; nonce] ->
    poly_uniform_gamma1 (params_of copy).pGAMMA1 (getb seed) (geti nonce) >>= fun r -> ret [ol r]
  | "challenge", [seed] ->
    let p = params_of copy in poly_challenge p.pTAU p.pCT (getb seed) >>= fun r -> ret [ol r]
  | "challenge_tap", [tape] ->
    let p = params_of copy in
    challenge_from (tape_sq (zi 136)) p.pTAU sAMPLER_FUEL (getb tape) >>= fun r -> ret [ol r]
  | "eta_pack", [r; x] -> eta_pack (params_of copy).pETA (getb r) (getl x) >>= fun o -> ret [ob o]
  | "eta_unpack", [b] -> eta_unpack (params_of copy).pETA (getb b) >>= fun o -> ret [ol o]
  | "z_pack", [r; x] -> z_pack (params_of copy).pGAMMA1 (getb r) (getl x) >>= fun o -> ret [ob o]
  | "z_unpack", [b] -> z_unpack (params_of copy).pGAMMA1 (getb b) >>= fun o -> ret [ol o]
  | "w1_pack", [r; x] -> w1_pack (g88_of copy) (getb r) (getl x) >>= fun o -> ret [ob o]
  (* polyvec/<lvl>.rs *)
  | "matrix_expand", [rho] ->
    let p = params_of copy in
    matrix_expand p (zmat p.pK p.pL) (getb rho) >>= fun m -> ret [ol (flatm m)]
  | "matrix_pointwise", [m; v] ->
    let p = params_of copy in
    matrix_pointwise_montgomery p (zvec p.pK) (mat (int_of_z p.pL) (getl m)) (vec (getl v)) >>= fun t -> ret [ol (flat t)]
  | "matrix_pointwise_dirty", [m; v; t0] ->
    let p = params_of copy in
    matrix_pointwise_montgomery p (vec (getl t0)) (mat (int_of_z p.pL) (getl m)) (vec (getl v)) >>= fun t -> ret [ol (flat t)]
  | "l_pointwise_acc_dirty", [u; v; _] ->
    l_pointwise_acc_montgomery (params_of copy) (vec (getl u)) (vec (getl v)) >>= fun w -> ret [ol w]
  | "l_pointwise_acc", [u; v] ->
    l_pointwise_acc_montgomery (params_of copy) (vec (getl u)) (vec (getl v)) >>= fun w -> ret [ol w]
  | "l_uniform_eta", [seed; nonce] ->
    let p = params_of copy in l_uniform_eta p (zvec p.pL) (getb seed) (geti nonce) >>= fun v -> ret [ol (flat v)]
  | "k_uniform_eta", [seed; nonce] ->
    let p = params_of copy in k_uniform_eta p (zvec p.pK) (getb seed) (geti nonce) >>= fun v -> ret [ol (flat v)]
  | "l_uniform_gamma1", [seed; nonce] ->
    let p = params_of copy in l_uniform_gamma1 p (zvec p.pL) (getb seed) (geti nonce) >>= fun v -> ret [ol (flat v)]
  | "l_reduce", [v] -> l_reduce (params_of copy) (vec (getl v)) >>= fun r -> ret [ol (flat r)]
  | "k_reduce", [v] -> k_reduce (params_of copy) (vec (getl v)) >>= fun r -> ret [ol (flat r)]
  | "k_caddq", [v] -> k_caddq (params_of copy) (vec (getl v)) >>= fun r -> ret [ol (flat r)]
  | "l_ntt", [v] -> l_ntt (params_of copy) (vec (getl v)) >>= fun r -> ret [ol (flat r)]
  | "k_ntt", [v] -> k_ntt (params_of copy) (vec (getl v)) >>= fun r -> ret [ol (flat r)]
  | "l_invntt", [v] -> l_invntt_tomont (params_of copy) (vec (getl v)) >>= fun r -> ret [ol (flat r)]
  | "k_invntt", [v] -> k_invntt_tomont (params_of copy) (vec (getl v)) >>= fun r -> ret [ol (flat r)]
  | "k_shiftl", [v] -> k_shiftl (params_of copy) (vec (getl v)) >>= fun r -> ret [ol (flat r)]
  | "l_add", [w; v] -> l_add (params_of copy) (vec (getl w)) (vec (getl v)) >>= fun r -> ret [ol (flat r)]
  | "k_add", [w; v] -> k_add (params_of copy) (vec (getl w)) (vec (getl v)) >>= fun r -> ret [ol (flat r)]
  | "k_sub", [w; v] -> k_sub (params_of copy) (vec (getl w)) (vec (getl v)) >>= fun r -> ret [ol (flat r)]
  | "l_pointwise_poly", [x; v] ->
    let p = params_of copy in
    l_pointwise_poly_montgomery p (zvec p.pL) (getl x) (vec (getl v)) >>= fun r -> ret [ol (flat r)]
  | "k_pointwise_poly", [x; v] ->
    let p = params_of copy in
    k_pointwise_poly_montgomery p (zvec p.pK) (getl x) (vec (getl v)) >>= fun r -> ret [ol (flat r)]
  | "l_chknorm", [v; b] -> l_chknorm (params_of copy) (vec (getl v)) (geti b) >>= fun r -> ret [oi r]
  | "k_chknorm", [v; b] -> k_chknorm (params_of copy) (vec (getl v)) (geti b) >>= fun r -> ret [oi r]
  | "k_power2round", [v1; v0] ->
    k_power2round (params_of copy) (vec (getl v1)) (vec (getl v0)) >>= fun (a, b) -> ret [ol (flat a); ol (flat b)]
  | "k_decompose", [v1; v0] ->
    k_decompose (params_of copy) (vec (getl v1)) (vec (getl v0)) >>= fun (a, b) -> ret [ol (flat a); ol (flat b)]
  | "k_make_hint", [v0; v1] ->
    let p = params_of copy in
    k_make_hint p (zvec p.pK) (vec (getl v0)) (vec (getl v1)) >>= fun (h, s) -> ret [ol (flat h); oi s]
  | "k_use_hint", [x; h] -> k_use_hint (params_of copy) (vec (getl x)) (vec (getl h)) >>= fun r -> ret [ol (flat r)]
  | "k_pack_w1", [r; x] -> k_pack_w1 (params_of copy) (getb r) (vec (getl x)) >>= fun o -> ret [ob o]
  (* packing/<set>.rs *)
  | "pack_pk", [pk; rho; t1] -> pack_pk (params_of copy) (getb pk) (getb rho) (vec (getl t1)) >>= fun o -> ret [ob o]
  | "unpack_pk", [pk] ->
    let p = params_of copy in
    unpack_pk p (zeros 32) (zvec p.pK) (getb pk) >>= fun (rho, t1) -> ret [ob rho; ol (flat t1)]
  | "pack_sk", [sk; rho; tr; key; t0; s1; s2] ->
    pack_sk (params_of copy) (getb sk) (getb rho) (getb tr) (getb key) (vec (getl t0)) (vec (getl s1)) (vec (getl s2))
    >>= fun o -> ret [ob o]
  | "unpack_sk", [sk] ->
    let p = params_of copy in
    unpack_sk p (zeros 32) (zeros (int_of_z p.pTR)) (zeros 32) (zvec p.pK) (zvec p.pL) (zvec p.pK) (getb sk)
    >>= fun (((((rho, tr), key), t0), s1), s2) -> ret [ob rho; ob tr; ob key; ol (flat t0); ol (flat s1); ol (flat s2)]
  | "pack_sig", [sg; c; z; h] ->
    let c' = (match c with ABytes b -> Some b | _ -> None) in
    pack_sig (params_of copy) (getb sg) c' (vec (getl z)) (vec (getl h)) >>= fun o -> ret [ob o]
  | "unpack_sig", [sg; h0] ->
    let p = params_of copy in
    unpack_sig p (zeros (int_of_z p.pCT)) (zvec p.pL) (vec (getl h0)) (getb sg)
    >>= fun (((c, z), h), ok) -> ret [ob c; ol (flat z); ol (flat h); obool ok]
  (* sign/<set>.rs *)
  | "keypair", [seed] ->
    let p = params_of copy in
    keypair p (zeros (int_of_z (pPK p))) (zeros (int_of_z (pSK p))) (Some (getb seed)) []
    >>= fun ((pk, sk), _) -> ret [ob pk; ob sk]
  | "keypair_buf", [pk0; sk0; seed] ->
    keypair (params_of copy) (getb pk0) (getb sk0) (Some (getb seed)) []
    >>= fun ((pk, sk), _) -> ret [ob pk; ob sk]
  | "keypair_rand", [tape] ->
    let p = params_of copy in
    keypair p (zeros (int_of_z (pPK p))) (zeros (int_of_z (pSK p))) None (getb tape)
    >>= fun ((pk, sk), rest) -> ret [ob pk; ob sk; oi (zlen rest)]
  | "signature", [sg; msg; sk; rand; tape] ->
    signature (params_of copy) (getb sg) (getb msg) (getb sk) (zbool (geti rand)) (getb tape)
    >>= fun (s, rest) -> ret [ob s; oi (zlen rest)]
  | "signature_trace", [sg; msg; sk; rand; tape] ->
    signature_trace (params_of copy) sIGN_FUEL (getb sg) (getb msg) (getb sk) (zbool (geti rand)) (getb tape)
    >>= fun ((s, tr), rest) -> ret [ob s; ol tr]
  | "verify", [sg; m; pk] -> verify (params_of copy) (getb sg) (getb m) (getb pk) >>= fun b -> ret [obool b]
  (* containers and wrappers *)
  | "sk_roundtrip", [b] -> sk_from_bytes (params_of copy) (getb b) >>= fun s -> ret [ob s]
  | "pk_roundtrip", [b] -> pk_from_bytes (params_of copy) (getb b) >>= fun s -> ret [ob s]
  | "kp_roundtrip", [b] ->
    let p = params_of copy in
    kp_from_bytes p (getb b) >>= fun (s, pk) -> kp_to_bytes p s pk >>= fun o -> ret [ob s; ob pk; ob o]
  | "kp_generate", [seed] ->
    let p = params_of copy in
    kp_generate p (Some (getb seed)) [] >>= fun ((s, pk), _) -> kp_to_bytes p s pk >>= fun o -> ret [ob s; ob pk; ob o]
  | "kp_generate_rand", [tape] ->
    let p = params_of copy in
    kp_generate p None (getb tape) >>= fun ((s, pk), rest) -> ret [ob s; ob pk; oi (zlen rest)]
  | "api_sign", [sk; msg] -> dil_sign (params_of copy) (getb sk) (getb msg) >>= fun s -> ret [ob s]
  | "api_verify", [pk; msg; sg] -> dil_verify (params_of copy) (getb pk) (getb msg) (getb sg) >>= fun b -> ret [obool b]
  | "ml_sign", [sk; msg; ctx; hedged; tape] ->
    ml_sign (params_of copy) (getb sk) (getb msg) (octx ctx) (zbool (geti hedged)) (getb tape)
    >>= fun (o, rest) -> (match o with Some s -> ret [oi (zi 1); ob s; oi (zlen rest)] | None -> ret [oi Z0; ob []; oi (zlen rest)])
  | "ml_prehash_sign", [sk; msg; ctx; hedged; ph; tape] ->
    ml_prehash_sign (params_of copy) (getb sk) (getb msg) (octx ctx) (zbool (geti hedged)) (zbool (geti ph)) (getb tape)
    >>= fun (o, rest) -> (match o with Some s -> ret [oi (zi 1); ob s; oi (zlen rest)] | None -> ret [oi Z0; ob []; oi (zlen rest)])
  | "ml_verify", [pk; msg; sg; ctx] ->
    ml_verify (params_of copy) (getb pk) (getb msg) (getb sg) (octx ctx) >>= fun b -> ret [obool b]
  | "ml_prehash_verify", [pk; msg; sg; ctx; ph] ->
    ml_prehash_verify (params_of copy) (getb pk) (getb msg) (getb sg) (octx ctx) (zbool (geti ph)) >>= fun b -> ret [obool b]
  | "kp_api_sign", [kp; msg] ->
    let p = params_of copy in kp_from_bytes p (getb kp) >>= fun (s, _) -> dil_sign p s (getb msg) >>= fun sg -> ret [ob sg]
  | "kp_api_verify", [kp; msg; sg] ->
    let p = params_of copy in kp_from_bytes p (getb kp) >>= fun (_, pk) -> dil_verify p pk (getb msg) (getb sg) >>= fun b -> ret [obool b]
  | "kp_ml_sign", [kp; msg; ctx; mode] ->
    let p = params_of copy in
    kp_from_bytes p (getb kp) >>= fun (s, _) ->
    (if int_of_z (geti mode) = 0 then ml_sign p s (getb msg) (octx ctx) false []
     else ml_prehash_sign p s (getb msg) (octx ctx) false (int_of_z (geti mode) = 2) [])
    >>= fun (o, _) -> (match o with Some sg -> ret [oi (zi 1); ob sg] | None -> ret [oi Z0; ob []])
  | "kp_ml_verify", [kp; msg; sg; ctx; mode] ->
    let p = params_of copy in
    kp_from_bytes p (getb kp) >>= fun (_, pk) ->
    (if int_of_z (geti mode) = 0 then ml_verify p pk (getb msg) (getb sg) (octx ctx)
     else ml_prehash_verify p pk (getb msg) (getb sg) (octx ctx) (int_of_z (geti mode) = 2)) >>= fun b -> ret [obool b]
  | "frame_pure", [ctx; msg] -> ret [ob (frame_pure (octx ctx) (getb msg))]
  | "frame_hash", [ph; ctx; msg] -> ret [ob (frame_hash (zbool (geti ph)) (octx ctx) (getb msg))]
  | "sha256", [m] -> ret [ob (sha256 (getb m))]
  | "sha512", [m] -> ret [ob (sha512 (getb m))]
  (* fips202.rs *)
  | "shake256", [outlen; inp] ->
    let n = geti outlen in shake256 (zeros (int_of_z n)) n (getb inp) (zlen (getb inp)) >>= fun o -> ret [ob o]
  | "shake256_inlen", [outlen; inp; inlen] ->
    let n = geti outlen in shake256 (zeros (int_of_z n)) n (getb inp) (geti inlen) >>= fun o -> ret [ob o]
  | "shake256_hist", ops -> shake_hist false kinit ops [] >>= fun outs -> ret outs
  | "shake128_hist", ops -> shake_hist true kinit ops [] >>= fun outs -> ret outs
  | "sweep", [AInts [fnid]; fixed; lo; hi] ->
    let names = [| "power2round"; "decompose"; "caddq"; "reduce32"; "use_hint"; "make_hint" |] in
    sweep names.(int_of_z fnid) copy (int_of_z (geti fixed)) (int_of_z (geti lo)) (int_of_z (geti hi))
  | "keccakf", [st] -> keccakf (getl st) >>= fun o -> ret [ol o]
  | _ -> raise Unknown
