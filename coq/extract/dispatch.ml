(* Dispatch table: model function for each (fn, copy). Grown together with harness/src/main.rs. *)
open Model
open Driver

let lift1 f = function Ok v -> Ok [f v] | Panic -> Panic | OutOfFuel -> OutOfFuel

let dispatch (fn : string) (copy : string) (a : arg list) : out list res =
  ignore copy;
  match fn, a with
  | "montgomery_reduce", [x] -> lift1 (fun v -> OInt v) (montgomery_reduce (geti x))
  | "reduce32", [x] -> lift1 (fun v -> OInt v) (reduce32 (geti x))
  | "caddq", [x] -> lift1 (fun v -> OInt v) (caddq (geti x))
  | _ -> raise Unknown
