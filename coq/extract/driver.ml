(* Line-protocol driver around the extracted model (model.ml).
   Input line : <id> <fn> <copy> <arg>...      args: decimal int | x<hex> | i<int,int,...>
   Output line: <id> ok <val>...  |  <id> panic  |  <id> fuel  |  <id> unknown
   The dispatch table itself lives in dispatch.ml. *)
open Model

let rec pos_of_int n =
  if n = 1 then XH
  else if n land 1 = 0 then XO (pos_of_int (n lsr 1))
  else XI (pos_of_int (n lsr 1))

let z_of_int n =
  if n = 0 then Z0 else if n > 0 then Zpos (pos_of_int n) else Zneg (pos_of_int (- n))

let rec int_of_pos = function
  | XH -> 1
  | XO p -> 2 * int_of_pos p
  | XI p -> 2 * int_of_pos p + 1

let int_of_z = function
  | Z0 -> 0
  | Zpos p -> int_of_pos p
  | Zneg p -> - (int_of_pos p)

(* decimal string -> Z, any magnitude (digits folded with the model's own Z arithmetic) *)
let z_of_string s =
  let n = String.length s in
  if n = 0 then failwith "empty int";
  let neg = s.[0] = '-' in
  let start = if neg then 1 else 0 in
  if n - start <= 17 then z_of_int (int_of_string s)
  else begin
    let ten = z_of_int 10 in
    let acc = ref Z0 in
    for i = start to n - 1 do
      acc := Z.add (Z.mul !acc ten) (z_of_int (Char.code s.[i] - 48))
    done;
    if neg then Z.opp !acc else !acc
  end

(* Z -> decimal string, any magnitude *)
let string_of_z z =
  let rec bits_fit p k = match p with XH -> k < 61 | XO p | XI p -> bits_fit p (k + 1) in
  let small = match z with Z0 -> true | Zpos p | Zneg p -> bits_fit p 0 in
  if small then string_of_int (int_of_z z)
  else begin
    let ten = z_of_int 10 in
    let neg = (match z with Zneg _ -> true | _ -> false) in
    let cur = ref (if neg then Z.opp z else z) in
    let buf = Buffer.create 32 in
    while !cur <> Z0 do
      let d = int_of_z (Z.modulo !cur ten) in
      Buffer.add_char buf (Char.chr (48 + d));
      cur := Z.div !cur ten
    done;
    let s = Buffer.contents buf in
    let n = String.length s in
    let r = String.init n (fun i -> s.[n - 1 - i]) in
    if neg then "-" ^ r else r
  end

type arg = AInt of z | ABytes of z list | AInts of z list

let hexval c =
  match c with
  | '0' .. '9' -> Char.code c - 48
  | 'a' .. 'f' -> Char.code c - 87
  | 'A' .. 'F' -> Char.code c - 55
  | _ -> failwith "hex"

let parse_arg s =
  if String.length s = 0 then failwith "empty arg"
  else if s.[0] = 'x' then begin
    let n = (String.length s - 1) / 2 in
    ABytes (List.init n (fun i -> z_of_int (16 * hexval s.[1 + 2 * i] + hexval s.[2 + 2 * i])))
  end else if s.[0] = 'i' then begin
    let body = String.sub s 1 (String.length s - 1) in
    if body = "" then AInts []
    else AInts (List.map z_of_string (String.split_on_char ',' body))
  end else AInt (z_of_string s)

type out = OInt of z | OBytes of z list | OInts of z list | OBool of bool

let hexdig = "0123456789abcdef"
let string_of_out = function
  | OInt z -> string_of_z z
  | OBool b -> if b then "1" else "0"
  | OBytes l ->
    let b = Buffer.create (2 * List.length l + 1) in
    Buffer.add_char b 'x';
    List.iter (fun z -> let v = int_of_z z in
                if v < 0 || v > 255 then failwith "byte out of range";
                Buffer.add_char b hexdig.[v lsr 4]; Buffer.add_char b hexdig.[v land 15]) l;
    Buffer.contents b
  | OInts l -> "i" ^ String.concat "," (List.map string_of_z l)

exception Unknown

let geti = function AInt z -> z | _ -> failwith "expected int"
let getb = function ABytes l -> l | _ -> failwith "expected bytes"
let getl = function AInts l -> l | _ -> failwith "expected int list"
