(** C08, unconditional: PTotal.v (verification is total modulo the two samplers) + PBridge.v (the two
    samplers with the real SHAKE never panic).  REQUIRES PBridge.v (from the sampler-bridge work), which is not
    part of this working copy: compile PBridge.v and PTotal.v first.  Tested against PBridge.v in /tmp/pw/J/integ. *)
From DV Require Import Base MParams MPoly MPolyvec MSign MApi PSample PTape PBridge PTotal.

Lemma std_challenge_no_panic P : std P -> challenge_no_panic P.
Proof.
  intros HP seed Hb Hl. apply poly_challenge_no_panic.
  - destruct HP as [H|[H|[H|[H|[H|H]]]]]; subst P; cbn; lia.
  - destruct HP as [H|[H|[H|[H|[H|H]]]]]; subst P; cbn in *; lia.
  - apply Forall_firstn'. exact Hb.
Qed.

Lemma std_expand_no_panic P : std P -> expand_no_panic P.
Proof.
  intros HP rho Hb Hl. apply matrix_expand_no_panic.
  - destruct HP as [H|[H|[H|[H|[H|H]]]]]; subst P; cbn; lia.
  - destruct HP as [H|[H|[H|[H|[H|H]]]]]; subst P; cbn; lia.
  - lia.
  - apply Forall_firstn'. exact Hb.
Qed.

Theorem verify_no_panic P sig m pk :
  std P -> Forall is_byte sig -> Forall is_byte m -> Forall is_byte pk -> zlen pk = pPK P ->
  verify P sig m pk <> Panic.
Proof.
  intros HP. apply verify_no_panic_modulo_samplers;
    [exact HP | apply std_challenge_no_panic; exact HP | apply std_expand_no_panic; exact HP].
Qed.

Corollary verify_total P sig m pk :
  std P -> Forall is_byte sig -> Forall is_byte m -> Forall is_byte pk -> zlen pk = pPK P ->
  (exists b, verify P sig m pk = Ok b) \/ verify P sig m pk = OutOfFuel.
Proof.
  intros HP. apply verify_bool_or_fuel;
    [exact HP | apply std_challenge_no_panic; exact HP | apply std_expand_no_panic; exact HP].
Qed.

Theorem dil_verify_total P pk msg sig :
  std P -> Forall is_byte sig -> Forall is_byte pk -> zlen pk = pPK P -> Forall is_byte msg ->
  dil_verify P pk msg sig <> Panic.
Proof.
  intros HP Bs Bp Lp Bm.
  exact (dil_verify_no_panic P HP (std_challenge_no_panic P HP) (std_expand_no_panic P HP) pk msg sig Bs Bp Lp Bm).
Qed.

Theorem ml_verify_total P pk msg sig ctx :
  std P -> Forall is_byte sig -> Forall is_byte pk -> zlen pk = pPK P -> Forall is_byte msg -> ctx_is_bytes ctx ->
  ml_verify P pk msg sig ctx <> Panic.
Proof.
  intros HP Bs Bp Lp Bm Bc.
  exact (ml_verify_no_panic P HP (std_challenge_no_panic P HP) (std_expand_no_panic P HP) pk msg sig Bs Bp Lp ctx Bm Bc).
Qed.

Theorem ml_prehash_verify_total P pk msg sig ctx ph :
  std P -> Forall is_byte sig -> Forall is_byte pk -> zlen pk = pPK P -> ctx_is_bytes ctx ->
  ml_prehash_verify P pk msg sig ctx ph <> Panic.
Proof.
  intros HP Bs Bp Lp Bc.
  exact (ml_prehash_verify_no_panic P HP (std_challenge_no_panic P HP) (std_expand_no_panic P HP) pk msg sig Bs Bp Lp ctx ph Bc).
Qed.

Print Assumptions verify_no_panic.
Print Assumptions verify_total.
Print Assumptions dil_verify_total.
Print Assumptions ml_verify_total.
Print Assumptions ml_prehash_verify_total.
