(** C08 — Verification is total on untrusted bytes; no operation panics or overflows.
    Only property theorems here, closed by [exact] of lemmas proved in PTotal.v / PTotalClosed.v.
    The model's [Panic] is the panic of the build with overflow checks and debug assertions (every +, -, *, index, slice
    and checked shift of the Rust code is a checked operation of the model); [OutOfFuel] can only come from the two
    rejection samplers (ExpandA, SampleInBall), whose termination is not provable. PROVED, for the six parameter sets, any
    byte string offered as signature (any length), any message, any public key of the right length, any context:
    verification never panics — it returns a boolean. The core of the proof is the no-overflow chain through the
    NTT-domain pipeline with a range tracked at every step (9q, 7q, 9q, 2^23, 2^23+8q, q, 8q, q, q, [0,q), [0,m)) and
    the totality of the hint decoder on adversarial counters and indices.
    Key generation from any 32-byte seed likewise never panics (PKeygen.v). NOT yet a Coq theorem: the same for signing
    (the checks run both builds on it, incl. volume). *)
From DV Require Import Base MReduce MParams MSign MApi PTape PTotal PTotalClosed PKeygen.

Theorem C08_verify_never_panics : forall (P : params) (sig m pk : list Z),
  std P -> Forall is_byte sig -> Forall is_byte m -> Forall is_byte pk -> zlen pk = pPK P ->
  verify P sig m pk <> Panic.
Proof. exact verify_no_panic. Qed.
Print Assumptions C08_verify_never_panics.

Theorem C08_verify_returns_a_boolean : forall (P : params) (sig m pk : list Z),
  std P -> Forall is_byte sig -> Forall is_byte m -> Forall is_byte pk -> zlen pk = pPK P ->
  (exists b : bool, verify P sig m pk = Ok b) \/ verify P sig m pk = OutOfFuel.
Proof. exact verify_total. Qed.
Print Assumptions C08_verify_returns_a_boolean.

Theorem C08_api_verifiers_never_panic : forall (P : params) (pk msg sig : list Z) (ctx : option (list Z)) (ph : bool),
  std P -> Forall is_byte sig -> Forall is_byte pk -> zlen pk = pPK P -> Forall is_byte msg -> ctx_is_bytes ctx ->
  dil_verify P pk msg sig <> Panic /\ ml_verify P pk msg sig ctx <> Panic /\ ml_prehash_verify P pk msg sig ctx ph <> Panic.
Proof.
  intros; repeat split; [apply dil_verify_total | apply ml_verify_total | apply ml_prehash_verify_total]; assumption.
Qed.
Print Assumptions C08_api_verifiers_never_panic.

(** the arithmetic pipeline of the verifier: no intermediate overflows for ANY decoded inputs in their decoded ranges *)
Theorem C08_verifier_arithmetic_no_overflow :
  forall P : params, dims_ok P ->
  forall (mat : list (list (list Z))) (cp : list Z) (t1 z h : list (list Z)),
  mat_ok P mat -> bnd 2 cp -> vec (pK P) (rng 0 1024) t1 -> vec (pL P) (bnd Q) z -> vec (pK P) (rng 0 2) h ->
  exists buf, verify_arith P mat cp t1 z h = Ok buf /\ Forall is_byte buf.
Proof. exact verify_arith_ok. Qed.
Print Assumptions C08_verifier_arithmetic_no_overflow.

Theorem C08_keygen_never_panics : forall (P : params) (xi pk0 sk0 tape : list Z),
  std P -> Forall is_byte xi -> zlen xi = 32 -> zlen pk0 = pPK P -> zlen sk0 = pSK P ->
  keypair P pk0 sk0 (Some xi) tape <> Panic.
Proof. exact keypair_no_panic. Qed.
Print Assumptions C08_keygen_never_panics.

(** the domain edges of the kernels are real (checked build panics one step outside the documented domain) *)
Example C08_edges_are_real :
  reduce32 (2 ^ 31 - 2 ^ 22) = Panic /\ MNtt.ntt (repeat 2147483647 256) = Panic /\ MPoly.chknorm [1073741824] 5 = Panic.
Proof. vm_compute. repeat split. Qed.
