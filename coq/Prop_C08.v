(** C08 — Verification is total on untrusted bytes; no operation panics or overflows.
    Only property theorems here, closed by [exact] of lemmas proved in PTotal.v / PTotalClosed.v.
    The model's [Panic] is the panic of the build with overflow checks and debug assertions (every +, -, *, index, slice
    and checked shift of the Rust code is a checked operation of the model); [OutOfFuel] can only come from the two
    rejection samplers (ExpandA, SampleInBall), whose termination is not provable. PROVED, for the six parameter sets, any
    byte string offered as signature (any length), any message, any public key of the right length, any context:
    verification never panics — it returns a boolean. The core of the proof is the no-overflow chain through the
    NTT-domain pipeline with a range tracked at every step (9q, 7q, 9q, 2^23, 2^23+8q, q, 8q, q, q, [0,q), [0,m)) and
    the totality of the hint decoder on adversarial counters and indices.
    Key generation from any 32-byte seed never panics (PKeygen.v), and signing with ANY secret-key bytes of the right length
    (a fortiori any generated key) on any message in any mode never panics (PSignTotal.v): every intermediate stays in range
    (largest product 81 q^2 < 2^31 q). Since no checked operation overflows, builds with and without overflow checking
    compute the same values. The only arithmetic edge is the u16 counter L*nonce, reached after 2^16/L rejected attempts
    (probability far below 2^-1000); the theorems hold for the model's attempt budget (SIGN_FUEL = 1000 <= 9361). *)
From DV Require Import Base MReduce MParams MSign MApi PTape PTotal PTotalClosed PKeygen PSignTotal.

Theorem C08_verify_never_panics : forall (P : params) (sig m pk : list Z),
  std P -> Forall is_byte sig -> Forall is_byte m -> Forall is_byte pk -> zlen pk = pPK P ->
  verify P sig m pk <> Panic.
Proof. exact verify_no_panic. Qed.
Print Assumptions C08_verify_never_panics.

Theorem C08_verify_returns_a_boolean : forall (P : params) (sig m pk : list Z),
  std P -> Forall is_byte sig -> Forall is_byte m -> Forall is_byte pk -> zlen pk = pPK P ->
  (exists b : bool, verify P sig m pk = Ok b) \/ verify P sig m pk = OutOfFuel.
Proof. exact verify_total. Qed.
Print Assumptions C08_verify_returns_a_boolean.

Theorem C08_api_verifiers_never_panic : forall (P : params) (pk msg sig : list Z) (ctx : option (list Z)) (ph : bool),
  std P -> Forall is_byte sig -> Forall is_byte pk -> zlen pk = pPK P -> Forall is_byte msg -> ctx_is_bytes ctx ->
  dil_verify P pk msg sig <> Panic /\ ml_verify P pk msg sig ctx <> Panic /\ ml_prehash_verify P pk msg sig ctx ph <> Panic.
Proof.
  intros; repeat split; [apply dil_verify_total | apply ml_verify_total | apply ml_prehash_verify_total]; assumption.
Qed.
Print Assumptions C08_api_verifiers_never_panic.

(** the arithmetic pipeline of the verifier: no intermediate overflows for ANY decoded inputs in their decoded ranges *)
Theorem C08_verifier_arithmetic_no_overflow :
  forall P : params, dims_ok P ->
  forall (mat : list (list (list Z))) (cp : list Z) (t1 z h : list (list Z)),
  mat_ok P mat -> bnd 2 cp -> vec (pK P) (rng 0 1024) t1 -> vec (pL P) (bnd Q) z -> vec (pK P) (rng 0 2) h ->
  exists buf, verify_arith P mat cp t1 z h = Ok buf /\ Forall is_byte buf.
Proof. exact verify_arith_ok. Qed.
Print Assumptions C08_verifier_arithmetic_no_overflow.

Theorem C08_keygen_never_panics : forall (P : params) (xi pk0 sk0 tape : list Z),
  std P -> Forall is_byte xi -> zlen xi = 32 -> zlen pk0 = pPK P -> zlen sk0 = pSK P ->
  keypair P pk0 sk0 (Some xi) tape <> Panic.
Proof. exact keypair_no_panic. Qed.
Print Assumptions C08_keygen_never_panics.

Theorem C08_signing_never_panics : forall (P : params) (sig msg sk : list Z) (rand : bool) (tape : list Z),
  std P -> Forall is_byte sk -> zlen sk = pSK P -> Forall is_byte msg -> pSIG P <= zlen sig ->
  Forall is_byte tape -> 64 <= zlen tape -> signature P sig msg sk rand tape <> Panic.
Proof. exact signature_no_panic. Qed.
Print Assumptions C08_signing_never_panics.

Theorem C08_api_signers_never_panic : forall P : params, std P -> forall sk msg : list Z,
  Forall is_byte sk -> zlen sk = pSK P -> Forall is_byte msg ->
  dil_sign P sk msg <> Panic /\
  forall (ctx : option (list Z)) (hedged : bool) (tape : list Z), ctx_is_bytes ctx -> tape_ok P hedged tape ->
    ml_sign P sk msg ctx hedged tape <> Panic.
Proof.
  intros P HP sk msg Hsk Hl Hm; split; [exact (dil_sign_no_panic P HP sk msg Hsk Hl Hm)|].
  intros ctx hedged tape Hc Ht. exact (ml_sign_no_panic P HP sk msg Hsk Hl ctx hedged tape Hm Hc Ht).
Qed.
Print Assumptions C08_api_signers_never_panic.

(** the domain edges of the kernels are real (checked build panics one step outside the documented domain) *)
Example C08_edges_are_real :
  reduce32 (2 ^ 31 - 2 ^ 22) = Panic /\ MNtt.ntt (repeat 2147483647 256) = Panic /\ MPoly.chknorm [1073741824] 5 = Panic.
Proof. vm_compute. repeat split. Qed.
