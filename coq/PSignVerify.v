(** PSignVerify: property C01 -- every signature the library produces verifies, and has the advertised length.

    For the six parameter sets, every 32-byte seed, every message M' (a byte list), deterministic or randomized
    mode ([sign_then_verify]):
        keypair (Some xi) = Ok (pk, sk)  ->  signature sig0 M' sk rand tape = Ok (sig, _)
        ->  zlen sig = pSIG P  /\  verify sig M' pk = Ok true.
    [Ok true], not merely "not false": the verifier calls the two rejection samplers (ExpandA, SampleInBall) on the
    inputs on which key generation / signing already obtained [Ok] results, so it cannot run out of fuel.
    (Termination of signing itself is a hypothesis: [signature ... = Ok ...].)

    The argument lives entirely in the NTT (evaluation) domain; no negacyclic product is needed.
      0-2. helpers: index-wise reading of [mapM]/[map2M]; [eval] and [matrow_ntt] are linear; what one successful
           polynomial operation means (NTT, c o s then inverse NTT, add, sub, reduce32, caddq, Decompose, MakeHint).
      3. (C) the signature codec: [pack_sig_closed] (pack_sig writes sigEncode(c~, z, h)) and [unpack_sig_encode]
           (unpack_sig (sigEncode (c~, z, h)) = (c~, z, h, true)).
      4. (A) [attempt_sem]: the meaning of every intermediate of an ACCEPTED signing attempt, given that the signer
           holds the transforms of some s1, s2, t0:  NTT(w) = A^ o NTT(y), w canonical; (w1, w0) = Decompose(w);
           c~ = H(mu || w1Encode(w1)) at the front of the buffer; z = c s1 + y; r0 = w0 - c s2; c t0 (all three in
           the evaluation sense, and as integers they are reduce32 of such vectors); h = MakeHint(r0 + c t0, w1)
           coefficient-wise; the four bounds.  [attempt_emits]: the emitted bytes are sigEncode(c~, z, h), inside
           the verifier's gates.  Stated for reuse ("signing = specification").
      5. (B) [verify_of_attempt]: if t = t1 2^d + t0 satisfies NTT(t_r) = sum_j A^[r,j] o NTT(s1_j) + NTT(s2_r), then
           for THE canonical w' with NTT(w'_r) = sum_j A^[r,j] o NTT(z_j) - NTT(c) o NTT(t1_r 2^d)  ([S_wapprox]),
           UseHint(h, w') = w1.   ([ntt_inj]: w'_r[k] = (w1_r[k] alpha + (r0 + c t0)_r[k]) mod Q; then the hint rule.)
      6. [verify_known]: [verify] unfolded once, with the decoding and the two sampler results given.
      7. (D) key plumbing: bytes of generated keys, rho' is 64 bytes in every mode, the buffer keeps its length
           through the rejected iterations, SampleInBall reads only the first |c~| bytes of its seed.
      8. (E) [sign_then_verify_spec_key] (any key pair in the KeyGen relation), [sign_then_verify],
           [sign_then_verify_unseeded], and the API level [dil_sign_then_verify], [ml_sign_then_verify],
           [ml_prehash_sign_then_verify]. *)
From Coq Require Import Setoid Morphisms.
From DV Require Import Base Gen MReduce MRounding MParams MKeccak MNtt MPoly MPolyvec MPacking MSign MSha2 MApi
                       SKeccak PKeccak PSample PPack PPack2 PReduce PNtt PNtt2 PRounding PNorm PLift PTape PBridge
                       PSignStruct PFrame PHint PKeyCodec PTotal PRing PKeygen PTotalClosed PVerifySpec PSignTotal.
Local Ltac Zify.zify_post_hook ::= Z.div_mod_to_equations.

(** * 0. List helpers: reading a vector operation index by index *)

Lemma mapM_nth_l {A B} (f : A -> res B) l r i a :
  mapM f l = Ok r -> nth_error l i = Some a -> exists b, nth_error r i = Some b /\ f a = Ok b.
Proof. intros H Ha. apply mapM_Forall2 in H. exact (F2_nth_error_l _ _ _ _ _ H Ha). Qed.

Lemma mapM_nth_r {A B} (f : A -> res B) l r i b :
  mapM f l = Ok r -> nth_error r i = Some b -> exists a, nth_error l i = Some a /\ f a = Ok b.
Proof. intros H Hb. apply mapM_Forall2 in H. exact (F2_nth_error_r _ _ _ _ _ H Hb). Qed.

Lemma map2M_nth_r {A B C} (f : A -> B -> res C) : forall l1 l2 r i c,
  map2M f l1 l2 = Ok r -> nth_error r i = Some c ->
  exists a b, nth_error l1 i = Some a /\ nth_error l2 i = Some b /\ f a b = Ok c.
Proof.
  induction l1 as [|x l1 IH]; intros [|y l2] r i c H Hc; cbn [map2M] in H; try discriminate.
  - apply PRing.Ok_inj in H. subst r. destruct i; discriminate.
  - apply bind_ok in H as (z & Hz & H). apply bind_ok in H as (zs & Hzs & H). apply PRing.Ok_inj in H. subst r.
    destruct i as [|i]; cbn [nth_error] in *.
    + injection Hc as <-. exists x, y. auto.
    + exact (IH l2 zs i c Hzs Hc).
Qed.

Lemma map2M_nth_l {A B C} (f : A -> B -> res C) : forall l1 l2 r i a b,
  map2M f l1 l2 = Ok r -> nth_error l1 i = Some a -> nth_error l2 i = Some b ->
  exists c, nth_error r i = Some c /\ f a b = Ok c.
Proof.
  induction l1 as [|x l1 IH]; intros [|y l2] r i a b H Ha Hb; cbn [map2M] in H; try discriminate.
  - destruct i; discriminate.
  - apply bind_ok in H as (z & Hz & H). apply bind_ok in H as (zs & Hzs & H). apply PRing.Ok_inj in H. subst r.
    destruct i as [|i]; cbn [nth_error] in *.
    + injection Ha as <-. injection Hb as <-. exists z. auto.
    + exact (IH l2 zs i a b Hzs Ha Hb).
Qed.

Lemma nth_error_nth_Z (l : list Z) i x : nth_error l i = Some x -> nth i l 0 = x.
Proof. intros H. exact (nth_error_nth l i 0 H). Qed.

Lemma nth_error_of_lt {A} (l : list A) i : (i < length l)%nat -> exists x, nth_error l i = Some x.
Proof. apply nth_error_some_lt. Qed.

Lemma nth_error_lt {A} (l : list A) i x : nth_error l i = Some x -> (i < length l)%nat.
Proof. intros H. apply nth_error_Some. congruence. Qed.

(** * 1. Evaluation is linear in the coefficient vector *)

Lemma eval_lin ka kb w : forall c a b, length c = length a -> length a = length b ->
  (forall i, eqm (nth i c 0) (ka * nth i a 0 + kb * nth i b 0)) ->
  eqm (eval c w) (ka * eval a w + kb * eval b w).
Proof.
  induction c as [|z c IH]; intros [|x a] [|y b] L1 L2 H; cbn [length] in *; try lia.
  - rewrite !eval_nil. apply eqm_eq; ring.
  - rewrite !eval_cons. rewrite (H 0%nat : eqm z (ka * x + kb * y)).
    rewrite (IH a b ltac:(lia) ltac:(lia) (fun i => H (S i))). apply eqm_eq; ring.
Qed.

(** the row sum is linear in the vector *)
Lemma matrow_lin ci i : forall row z s y,
  length row = length z -> length z = length s -> length s = length y ->
  (forall j zj sj yj, nth_error z j = Some zj -> nth_error s j = Some sj -> nth_error y j = Some yj ->
     eqm (eval zj (root i)) (ci * eval sj (root i) + eval yj (root i))) ->
  eqm (matrow_ntt row z i) (ci * matrow_ntt row s i + matrow_ntt row y i).
Proof.
  induction row as [|a row IH]; intros [|zj z] [|sj s] [|yj y] L1 L2 L3 H; cbn [length] in *; try lia.
  - unfold matrow_ntt. cbn [combine map sumZ fold_right]. apply eqm_eq; ring.
  - rewrite !matrow_ntt_cons.
    rewrite (H 0%nat zj sj yj eq_refl eq_refl eq_refl).
    rewrite (IH z s y ltac:(lia) ltac:(lia) ltac:(lia) (fun j => H (S j))). apply eqm_eq; ring.
Qed.

(** * 2. One polynomial operation: what a successful result means *)

Lemma ntt_sem_inv v vh : pbnd Q v -> poly_ntt v = Ok vh -> is_ntt_of vh v.
Proof.
  intros Hv E. destruct (poly_ntt_sem v Hv) as (vh' & E' & H). rewrite E in E'. apply PRing.Ok_inj in E'.
  subst vh'. exact H.
Qed.

Lemma ntt_vec_sem : forall v vh, Forall (pbnd Q) v -> mapM poly_ntt v = Ok vh -> Forall2 is_ntt_of vh v.
Proof.
  intros v vh Hv E. apply mapM_Forall2 in E. induction E as [|x y v vh E _ IH]; [constructor|].
  inversion Hv; subst. constructor; [exact (ntt_sem_inv x y H1 E) | apply IH; assumption].
Qed.

(** c o s in the NTT domain, then the inverse transform: the Montgomery factors cancel *)
Lemma cmul_sem ch c sh s p r :
  is_ntt_of ch c -> is_ntt_of sh s ->
  poly_pointwise_montgomery ch sh = Ok p -> poly_invntt_tomont p = Ok r ->
  length r = 256%nat /\ Forall (fun x => Z.abs x <= SHARP) r /\
  forall i, (i < 256)%nat -> eqm (eval r (root i)) (eval c (root i) * eval s (root i)).
Proof.
  intros [[Lc Bc] Cc] [[Ls Bs] Cs] Ep Er.
  destruct (pointwise_ok ch sh ltac:(congruence) Bc Bs) as (p' & Ep' & Lp & Bp & Cp).
  rewrite Ep in Ep'. apply PRing.Ok_inj in Ep'. subst p'.
  destruct (invntt_fwd p ltac:(congruence) Bp) as (r' & Er' & Lr & Br & Cr).
  change (poly_invntt_tomont p) with (invntt_tomont p) in Er. rewrite Er in Er'. apply PRing.Ok_inj in Er'. subst r'.
  split; [exact Lr|]. split; [exact Br|]. intros i Hi.
  rewrite (Cr i Hi), (Cp i ltac:(lia)), (Cc i Hi), (Cs i Hi).
  replace (eval c (root i) * eval s (root i) * WINV) with (WINV * (eval c (root i) * eval s (root i))) by ring.
  apply winv32.
Qed.

Lemma add_sem_inv A B a b c : A + B <= 2 ^ 31 -> length a = length b ->
  Forall (fun x => - A < x < A) a -> Forall (fun x => - B < x < B) b -> poly_add a b = Ok c ->
  length c = length a /\ Forall (fun x => - (A + B) < x < A + B) c /\ forall i, nth i c 0 = nth i a 0 + nth i b 0.
Proof.
  intros HAB L Ha Hb E. destruct (poly_add_nth A B HAB a b L Ha Hb) as (c' & E' & H).
  rewrite E in E'. apply PRing.Ok_inj in E'. subst c'. exact H.
Qed.

Lemma sub_sem_inv A B a b c : A + B <= 2 ^ 31 -> length a = length b ->
  Forall (fun x => - A < x < A) a -> Forall (fun x => - B < x < B) b -> poly_sub a b = Ok c ->
  length c = length a /\ Forall (fun x => - (A + B) < x < A + B) c /\ forall i, nth i c 0 = nth i a 0 - nth i b 0.
Proof.
  intros HAB L Ha Hb E. destruct (poly_sub_nth A B HAB a b L Ha Hb) as (c' & E' & H).
  rewrite E in E'. apply PRing.Ok_inj in E'. subst c'. exact H.
Qed.

Lemma reduce_sem_inv B a r : B <= 2 ^ 31 - 2 ^ 22 -> pbnd B a -> poly_reduce a = Ok r ->
  r = map reduce32_val a /\ pbnd Q r /\ forall i, (i < 256)%nat -> eqm (nth i r 0) (nth i a 0).
Proof.
  intros HB Ha E. destruct (reduce_row B a HB Ha) as (E' & H). rewrite E in E'. apply PRing.Ok_inj in E'.
  subst r. split; [reflexivity | exact H].
Qed.

Lemma eval_reduce w a r : length a = 256%nat -> length r = 256%nat ->
  (forall i, (i < 256)%nat -> eqm (nth i r 0) (nth i a 0)) -> eqm (eval r w) (eval a w).
Proof.
  intros La Lr H. apply eval_congr; [congruence|]. intros i.
  destruct (Nat.lt_ge_cases i 256) as [Hi|Hi]; [exact (H i Hi)|].
  rewrite !nth_overflow by lia. reflexivity.
Qed.

Lemma caddq_sem_inv c t : pbnd Q c -> poly_caddq c = Ok t ->
  prng 0 Q t /\ forall w, eqm (eval t w) (eval c w).
Proof.
  intros Hc E. destruct (caddq_row c Hc) as (E' & R & C). rewrite E in E'. apply PRing.Ok_inj in E'. subst t.
  split; [exact R|]. intros w. apply eval_congr; [rewrite map_length; reflexivity | exact C].
Qed.

(** Decompose, per coefficient *)
Lemma decompose_sem_inv g88 a lo hi : prng 0 Q a -> poly_decompose g88 a = Ok (lo, hi) ->
  length lo = 256%nat /\ length hi = 256%nat /\
  forall k, (k < 256)%nat ->
    0 <= nth k hi 0 < MM g88 /\ - GAMMA2 g88 <= nth k lo 0 <= GAMMA2 g88 /\
    eqm (nth k a 0) (nth k hi 0 * ALPHA g88 + nth k lo 0).
Proof.
  intros [La Fa] E. unfold poly_decompose in E. bind_inv E l Hl. apply PRing.Ok_inj in E.
  injection E as <- <-. pose proof (mapM_length _ _ _ Hl) as Ll.
  rewrite !map_length. split; [congruence|]. split; [congruence|].
  intros k Hk. destruct (nth_error_of_lt a k ltac:(lia)) as (x & Hx).
  destruct (mapM_nth_l _ _ _ _ _ Hl Hx) as (p & Hp & Ep).
  assert (E0 : nth k (map fst l) 0 = fst p).
  { apply nth_error_nth_Z. rewrite nth_error_map, Hp. reflexivity. }
  assert (E1 : nth k (map snd l) 0 = snd p).
  { apply nth_error_nth_Z. rewrite nth_error_map, Hp. reflexivity. }
  rewrite E0, E1, (nth_error_nth_Z _ _ _ Hx).
  rewrite Forall_forall in Fa. pose proof (Fa x (nth_error_In _ _ Hx)) as Rx.
  destruct (decompose_ok g88 x Rx) as (a0 & a1 & Ed & _ & R1 & Hc & R0 & _).
  rewrite Ed in Ep. apply PRing.Ok_inj in Ep. subst p. cbn [fst snd].
  split; [exact R1|]. split; [exact R0|]. symmetry. apply eqm_sub0. exact Hc.
Qed.

Lemma map2M_nthZ (f : Z -> Z -> res Z) l1 l2 r k : map2M f l1 l2 = Ok r -> (k < length r)%nat ->
  f (nth k l1 0) (nth k l2 0) = Ok (nth k r 0).
Proof.
  intros H Hk. destruct (nth_error_of_lt r k Hk) as (c & Hc).
  destruct (map2M_nth_r f l1 l2 r k c H Hc) as (a & b & Ha & Hb & E).
  rewrite (nth_error_nth_Z _ _ _ Ha), (nth_error_nth_Z _ _ _ Hb), (nth_error_nth_Z _ _ _ Hc). exact E.
Qed.

Lemma make_hint_sem_inv g88 a0 a1 h s : length a0 = 256%nat -> poly_make_hint g88 a0 a1 = Ok (h, s) ->
  length h = 256%nat /\ forall k, (k < 256)%nat -> make_hint g88 (nth k a0 0) (nth k a1 0) = Ok (nth k h 0).
Proof.
  intros L0 E. unfold poly_make_hint in E. bind_inv E h' Hh. bind_inv E s' Hs. apply PRing.Ok_inj in E.
  injection E as <- <-. destruct (map2M_length _ _ _ _ Hh) as (_ & Lh).
  split; [congruence|]. intros k Hk. apply (map2M_nthZ _ _ _ _ _ Hh). lia.
Qed.

(** w1Encode of one polynomial *)
Lemma w1_pack_bytes_fips g88 a : prng 0 (MM g88) a ->
  w1_pack_bytes g88 a = Ok (SimpleBitPack a (MM g88 - 1)) /\
  zlen (SimpleBitPack a (MM g88 - 1)) = (if g88 then 192 else 128) /\ Forall is_byte (SimpleBitPack a (MM g88 - 1)).
Proof.
  intros [La Fa].
  assert (E : w1_pack_bytes g88 a = Ok (SimpleBitPack a (MM g88 - 1))).
  { destruct g88.
    - change (MM true - 1) with 43. apply w16_pack_fips; [|exact La].
      eapply Forall_impl; [|exact Fa]. cbn beta. intros c Hc. apply w16_rng_44. exact Hc.
    - change (MM false - 1) with 15. apply w14_pack_fips; [|exact La].
      eapply Forall_impl; [|exact Fa]. cbn beta. intros c Hc. exact Hc. }
  split; [exact E|].
  destruct (w1_pack_bytes_total g88 a (conj La Fa)) as (e & Ee & Ze & Be).
  rewrite E in Ee. apply PRing.Ok_inj in Ee. subst e. split; [exact Ze | exact Be].
Qed.

(** the challenge hash of the signer, with its value *)
Lemma w1_hash_value mu sigw n ct st0 st1 st2 sigc st3 :
  64 <= zlen mu -> Forall is_byte (firstn 64 mu) ->
  0 <= n <= zlen sigw -> Forall is_byte (firstn (Z.to_nat n) sigw) -> 0 <= ct <= zlen sigw -> ct < 2 ^ 64 ->
  shake256_absorb kinit mu CRHBYTES = Ok st0 -> shake256_absorb st0 sigw n = Ok st1 ->
  shake256_finalize st1 = Ok st2 -> shake256_squeeze sigw ct st2 = Ok (sigc, st3) ->
  sigc = S_shake 136 (firstn 64 mu ++ firstn (Z.to_nat n) sigw) (Z.to_nat ct) ++ skipn (Z.to_nat ct) sigw.
Proof.
  intros Lmu Bmu Hn Bn Hct Hct64 H0 H1 H2 H3.
  unfold shake256_absorb, shake256_finalize, shake256_squeeze, CRHBYTES in *.
  change SHAKE256_RATE with (Z.of_nat 136) in *.
  destruct (absorb_inv_gen 136 kinit [] mu 64 rate_ok_136 (init_inv 136 ltac:(lia)) ltac:(lia) Bmu) as (st0' & E0 & I0).
  rewrite H0 in E0. apply PRing.Ok_inj in E0. subst st0'.
  destruct (absorb_inv_gen 136 st0 _ sigw n rate_ok_136 I0 Hn Bn) as (st1' & E1 & I1).
  rewrite H1 in E1. apply PRing.Ok_inj in E1. subst st1'.
  destruct (finalize_inv 136 st1 _ rate_ok_136 I1) as (st2' & E2 & I2).
  rewrite H2 in E2. apply PRing.Ok_inj in E2. subst st2'.
  destruct (squeeze_inv_gen 136 st2 _ 0 sigw ct rate_ok_136 I2 ltac:(lia) ltac:(lia)) as (st3' & E3 & _).
  rewrite H3 in E3. apply PRing.Ok_inj in E3. injection E3 as -> _.
  cbn [Nat.add skipn app]. change (Z.to_nat 64) with 64%nat.
  f_equal. apply firstn_all2. rewrite PBridge.S_shake_length by lia. lia.
Qed.

(** * 3. (C) The signature codec: sigDecode (sigEncode (c~, z, h)) = (c~, z, h) *)

Definition zr (g1 c : Z) : Prop := - g1 < c <= g1.
Definition E_z (P : params) (a : list Z) : list Z := BitPack a (pGAMMA1 P - 1) (pGAMMA1 P).
Definition D_z (P : params) (c : list Z) : list Z := BitUnpack c (pGAMMA1 P - 1) (pGAMMA1 P).

Lemma z_codec P : gamma1_ok P ->
  codec_ok (z_pack_bytes (pGAMMA1 P)) (z_unpack (pGAMMA1 P)) (E_z P) (D_z P)
           (polyOK (zr (pGAMMA1 P))) (polyOK (zr (pGAMMA1 P))) (pPOLYZ P).
Proof.
  intros [E|E]; unfold E_z, D_z, pPOLYZ; rewrite E.
  - exact (codec_from_specs (z_pack_bytes G17) (z_unpack G17) (fun a => BitPack a (G17 - 1) G17)
             (fun c => BitUnpack c (G17 - 1) G17) z17_rng z17_rng 18 (bp_shift G17) 576
             ltac:(lia) eq_refl z17_pack_spec z17_pack_fips z17_unpack_spec z17_unpack_fips z17_unpack_pack z17_unpack_total).
  - exact (codec_from_specs (z_pack_bytes G19) (z_unpack G19) (fun a => BitPack a (G19 - 1) G19)
             (fun c => BitUnpack c (G19 - 1) G19) z19_rng z19_rng 20 (bp_shift G19) 640
             ltac:(lia) eq_refl z19_pack_spec z19_pack_fips z19_unpack_spec z19_unpack_fips z19_unpack_pack z19_unpack_total).
Qed.

(** the byte string the specification calls sigEncode(c~, z, h) *)
Definition S_sigEncode (P : params) (ct : list Z) (z h : list (list Z)) : list Z :=
  ct ++ concat (map (E_z P) z) ++ S_hint_pack (pOMEGA P) h.

Lemma hint_vec_wf P h : 0 <= pK P -> vec (pK P) (rng 0 2) h ->
  hint_wf (pK P) h /\ Forall (fun r => length r = 256%nat) h /\ hweight h = hint_weight h.
Proof.
  intros HK (Lh & Fh). split; [|split].
  - split; [unfold zlen; lia|]. eapply Forall_impl; [|exact Fh]. intros r (Lr & Fr). split; [exact Lr|].
    eapply Forall_impl; [|exact Fr]. cbn beta. intros; lia.
  - eapply Forall_impl; [|exact Fh]. intros r (Lr & _). exact Lr.
  - apply hweight_bits. eapply Forall_impl; [|exact Fh]. intros r (_ & Fr). exact Fr.
Qed.

Lemma sigEncode_shape P ct z h :
  gamma1_ok P -> 0 <= pK P -> 0 <= pL P -> 0 <= pOMEGA P <= 255 ->
  zlen ct = pCT P -> Forall is_byte ct ->
  vec (pL P) (zrng (pGAMMA1 P)) z -> vec (pK P) (rng 0 2) h -> hint_weight h <= pOMEGA P ->
  zlen (concat (map (E_z P) z)) = pL P * pPOLYZ P /\
  zlen (S_sigEncode P ct z h) = pSIG P /\ Forall is_byte (S_sigEncode P ct z h).
Proof.
  intros Hg HK HL HO Lct Bct (Lz & Fz) Hh Hw.
  destruct (hint_vec_wf P h HK Hh) as (Hwf & H256 & Ehw).
  pose proof (z_codec P Hg) as C.
  assert (Lc : zlen (concat (map (E_z P) z)) = pL P * pPOLYZ P).
  { rewrite (vec_E_zlen _ _ _ _ _ _ _ C z Fz). unfold zlen. rewrite Lz. rewrite Z2Nat.id by lia. reflexivity. }
  split; [exact Lc|]. unfold S_sigEncode. split.
  - rewrite !PHint.zlen_app, Lct, Lc, (S_hint_pack_length (pOMEGA P) (pK P) h ltac:(lia) Hwf ltac:(lia)).
    unfold pSIG. lia.
  - apply Forall_app. split; [exact Bct|]. apply Forall_app. split.
    + exact (vec_E_bytes _ _ _ _ _ _ _ C z Fz).
    + apply S_hint_pack_bytes; [exact HO | exact H256 | lia].
Qed.

(** what [pack_sig] writes (the challenge bytes are already at the front of the buffer) *)
Lemma pack_sig_closed P sigc z h s :
  gamma1_ok P -> 0 <= pCT P -> 0 <= pL P -> 0 <= pK P -> 0 <= pOMEGA P <= 255 ->
  vec (pL P) (zrng (pGAMMA1 P)) z -> vec (pK P) (rng 0 2) h -> hint_weight h <= pOMEGA P ->
  zlen sigc = pSIG P ->
  pack_sig P sigc None z h = Ok s ->
  s = S_sigEncode P (firstn (Z.to_nat (pCT P)) sigc) z h.
Proof.
  intros Hg HC HL HK HO Hz Hh Hw Ls E.
  destruct (hint_vec_wf P h HK Hh) as (Hwf & H256 & Ehw).
  pose proof (z_codec P Hg) as C. destruct Hz as (Lz & Fz).
  assert (HZ : 0 <= pPOLYZ P) by (unfold pPOLYZ; destruct (pGAMMA1 P =? 131072); lia).
  assert (Lc : zlen (concat (map (E_z P) z)) = pL P * pPOLYZ P).
  { rewrite (vec_E_zlen _ _ _ _ _ _ _ C z Fz). unfold zlen. rewrite Lz. rewrite Z2Nat.id by lia. reflexivity. }
  unfold pSIG in Ls.
  pose proof (pack_loop _ _ _ _ _ _ _ C
                (fun sig i => do a <- get z i; do b <- z_pack_bytes (pGAMMA1 P) a; splice sig (pCT P + i * pPOLYZ P) b)
                z sigc (pCT P) (pL P) HC ltac:(unfold zlen; lia) Fz ltac:(nia)
                ltac:(intros b i _ _; reflexivity)) as E1.
  set (X := concat (map (E_z P) z)) in *.
  assert (LX : length X = Z.to_nat (pL P * pPOLYZ P)) by (unfold zlen in Lc; lia).
  pose proof (pack_sig_hint_spec_full P sigc None z h sigc _ eq_refl E1 HO ltac:(unfold hint_off; nia)
                ltac:(destruct Hwf; assumption) H256 ltac:(lia)
                ltac:(rewrite ow_zlen by (unfold zlen in *; lia); unfold hint_off; lia)) as E2.
  rewrite E in E2. apply PRing.Ok_inj in E2. rewrite E2. unfold S_sigEncode. fold X.
  unfold ow. rewrite (skipn_all2 (firstn _ sigc ++ X ++ _)).
  2:{ rewrite !app_length, firstn_length, skipn_length. unfold hint_off. unfold zlen in *. lia. }
  rewrite app_nil_r, (app_assoc (firstn (Z.to_nat (pCT P)) sigc) X).
  rewrite PHint.firstn_app_exact.
  - rewrite <- app_assoc. reflexivity.
  - rewrite app_length, firstn_length. unfold hint_off. unfold zlen in *. lia.
Qed.

(** the verifier's decoder on an encoded signature *)
Lemma unpack_sig_encode P ct z h :
  gamma1_ok P -> 0 <= pK P -> 0 <= pL P -> 0 <= pCT P -> 0 <= pOMEGA P <= 255 ->
  zlen ct = pCT P -> Forall is_byte ct ->
  vec (pL P) (zrng (pGAMMA1 P)) z -> vec (pK P) (rng 0 2) h -> hint_weight h <= pOMEGA P ->
  unpack_sig P (repeatZ 0 (pCT P)) (zvec (pL P)) (zvec (pK P)) (S_sigEncode P ct z h) = Ok (ct, z, h, true).
Proof.
  intros Hg HK HL HC HO Lct Bct Hz Hh Hw.
  destruct (sigEncode_shape P ct z h Hg HK HL HO Lct Bct Hz Hh Hw) as (Lc & Ls & Bs).
  destruct (hint_vec_wf P h HK Hh) as (Hwf & H256 & Ehw).
  pose proof (z_codec P Hg) as C. destruct Hz as (Lz & Fz).
  assert (HZ : 0 <= pPOLYZ P) by (unfold pPOLYZ; destruct (pGAMMA1 P =? 131072); lia).
  destruct (unpack_sig_spec P _ Hg HK HL HC HO Bs Ls) as (h' & ok & E & Hh').
  assert (Esec : S_hint_section P (S_sigEncode P ct z h) = S_hint_pack (pOMEGA P) h).
  { unfold S_hint_section, S_sigEncode. rewrite app_assoc. apply PHint.skipn_app_exact.
    rewrite app_length. unfold zlen in *. lia. }
  rewrite Esec, (S_unpack_pack (pOMEGA P) (pK P) h ltac:(lia) Hwf ltac:(lia)) in Hh'.
  destruct ok; [|discriminate]. injection Hh' as <-.
  rewrite E.
  assert (A1 : firstn (Z.to_nat (pCT P)) (S_sigEncode P ct z h) = ct).
  { unfold S_sigEncode. apply PHint.firstn_app_exact. unfold zlen in Lct. lia. }
  assert (A2 : map (fun y => BitUnpack y (pGAMMA1 P - 1) (pGAMMA1 P))
                   (slices (S_sigEncode P ct z h) (pCT P) (pPOLYZ P) (pL P)) = z).
  { replace (pL P) with (zlen (map (E_z P) z)) by (unfold zlen; rewrite map_length, Lz; lia).
    unfold S_sigEncode.
    rewrite (slices_of_concat _ ct (S_hint_pack (pOMEGA P) h) (map (E_z P) z) (pCT P) (pPOLYZ P) eq_refl HZ Lct
               (vec_E_shape _ _ _ _ _ _ _ C z Fz)).
    exact (vec_DE _ _ _ _ _ _ _ C z Fz). }
  rewrite A1, A2. reflexivity.
Qed.

(** the challenge sampler reads only the first ct bytes of its seed *)
Lemma poly_challenge_prefix tau ct seed : 0 <= ct <= zlen seed -> Forall is_byte (firstn (Z.to_nat ct) seed) ->
  poly_challenge tau ct (firstn (Z.to_nat ct) seed) = poly_challenge tau ct seed.
Proof.
  intros Hc Hb.
  assert (L : zlen (firstn (Z.to_nat ct) seed) = ct) by (apply zlen_firstn_le; exact Hc).
  assert (F : firstn (Z.to_nat ct) (firstn (Z.to_nat ct) seed) = firstn (Z.to_nat ct) seed).
  { apply firstn_all2. unfold zlen in L. lia. }
  rewrite (poly_challenge_tape tau ct seed (N_CHALLENGE tau) Hc Hb (le_n _)).
  rewrite (poly_challenge_tape tau ct (firstn (Z.to_nat ct) seed) (N_CHALLENGE tau) ltac:(lia)
             ltac:(rewrite F; exact Hb) (le_n _)).
  rewrite F. reflexivity.
Qed.

(** * 4. (A) The meaning of one accepted signing attempt, in the evaluation (NTT) domain *)

Section AttemptSem.
  Variable P : params.
  Hypothesis HP : sign_pset_ok P.
  Variables (sig mu rhoprime : list Z) (mat : list (list (list Z))) (s1h s2h t0h : list (list Z)) (nonce : Z).
  (** the coefficient-domain polynomials whose transforms the signer holds *)
  Variables (s1 s2 t0 : list (list Z)).
  Hypothesis Hsig : pSIG P <= zlen sig.
  Hypothesis Lmu : 64 <= zlen mu.
  Hypothesis Bmu : Forall is_byte (firstn 64 mu).
  Hypothesis Lrp : 64 <= zlen rhoprime.
  Hypothesis Brp : Forall is_byte (firstn 64 rhoprime).
  Hypothesis Hmat : mat_ok P mat.
  Hypothesis Hs1 : Forall2 is_ntt_of s1h s1.
  Hypothesis Hs2 : Forall2 is_ntt_of s2h s2.
  Hypothesis Ht0 : Forall2 is_ntt_of t0h t0.
  Hypothesis Ls1 : length s1 = Z.to_nat (pL P).
  Hypothesis Ls2 : length s2 = Z.to_nat (pK P).
  Hypothesis Lt0 : length t0 = Z.to_nat (pK P).
  Hypothesis Hn0 : 0 <= nonce.
  Hypothesis Hn1 : pL P * nonce + pL P <= 65536.
  Variables (M : attempt_mid) (s : list Z).
  Hypothesis HA : attempt_accepts P sig mu rhoprime mat s1h s2h t0h nonce M s.

  Lemma as_params :
    1 <= pK P <= 8 /\ 1 <= pL P <= 7 /\ gamma1_ok P /\ 0 <= pCT P < 2 ^ 64 /\ 0 <= pOMEGA P <= 255 /\
    0 <= pTAU P <= 256 /\ 0 <= pBETA P /\ norm_bounds_ok P /\ pK P * pPOLYW1 P <= pSIG P /\
    0 < pGAMMA1 P <= 524288 /\ 0 < pGAMMA2 P <= 261888 /\ pGAMMA2 P = GAMMA2 (pG88 P).
  Proof.
    destruct HP as ((HK & HL1 & HL7) & HK8 & Hg & HC & HO & HT & HB & NB & HW1 & _).
    repeat split; try lia; try assumption; try apply NB;
      try (destruct Hg as [E|E]; rewrite E; lia); try (unfold pGAMMA2; destruct (pG88 P); lia).
  Qed.

  Lemma as_mat : length mat = Z.to_nat (pK P) /\
    forall row, In row mat -> length row = Z.to_nat (pL P) /\ Forall (prng 0 Q) row.
  Proof.
    destruct Hmat as (Lm & Fm). split; [exact Lm|]. intros row Hr. rewrite Forall_forall in Fm.
    exact (Fm row Hr).
  Qed.

  (** ** the mask y *)
  Lemma as_y : length (am_y M) = Z.to_nat (pL P) /\
    Forall (fun p => length p = 256%nat /\ Forall (fun x => - pGAMMA1 P < x <= pGAMMA1 P) p) (am_y M).
  Proof.
    destruct as_params as (HK & HL & Hg & _).
    destruct HA as ((Hy & _) & _).
    exact (l_uniform_gamma1_range P (zvec (pL P)) rhoprime nonce _ Hg (PSignStruct.zvec_length _) ltac:(lia) Hn0 Hn1 Lrp Brp Hy).
  Qed.

  Lemma as_y_pbnd : Forall (pbnd Q) (am_y M).
  Proof.
    destruct as_params as (_ & _ & _ & _ & _ & _ & _ & _ & _ & HG1 & _).
    destruct as_y as (_ & Fy). eapply Forall_impl; [|exact Fy]. cbn beta. intros p (Lp & Fp).
    split; [exact Lp|]. eapply Forall_impl; [|exact Fp]. cbn beta. unfold Q. intros x Hx. lia.
  Qed.

  Lemma as_yhat : Forall2 is_ntt_of (am_yhat M) (am_y M).
  Proof.
    destruct HA as ((_ & Hyh & _) & _). destruct as_y as (Ly & _).
    rewrite l_ntt_lift in Hyh by exact Ly. exact (ntt_vec_sem _ _ as_y_pbnd Hyh).
  Qed.

  (** ** w = NTT^-1(A^ o NTT(y)), canonical representative *)
  Lemma as_w : forall r row wr, nth_error mat r = Some row -> nth_error (am_w M) r = Some wr ->
    prng 0 Q wr /\ forall i, (i < 256)%nat -> eqm (eval wr (root i)) (matrow_ntt row (am_y M) i).
  Proof.
    destruct as_params as (HK & HL & _). destruct as_mat as (Lm & Hm). destruct as_y as (Ly & _).
    destruct HA as ((_ & Hyh & (wa & wb & wc & Hwa & Hwb & Hwc & Hw) & _) & _).
    destruct (matvec_ntt_ok P (zvec (pK P)) mat (am_y M) (am_yhat M) HL (PSignStruct.zvec_length _) Lm Hm Ly as_y_pbnd Hyh)
      as (t1 & t2 & w' & E1 & E2 & E3 & HF).
    rewrite Hwa in E1. apply PRing.Ok_inj in E1. subst t1.
    rewrite Hwb in E2. apply PRing.Ok_inj in E2. subst t2.
    rewrite Hwc in E3. apply PRing.Ok_inj in E3. subst w'.
    assert (Lwc : length wc = Z.to_nat (pK P)) by (rewrite <- (F2_length _ _ _ HF); exact Lm).
    rewrite k_caddq_lift in Hw by exact Lwc.
    intros r row wr Hrow Hwr.
    destruct (mapM_nth_r _ _ _ _ _ Hw Hwr) as (c & Hc & Ec).
    destruct (F2_nth_error_r _ _ _ _ _ HF Hc) as (row' & Hrow' & (Lc & Bc & Cc)).
    rewrite Hrow in Hrow'. injection Hrow' as <-.
    assert (Pc : pbnd Q c).
    { split; [exact Lc|]. eapply Forall_impl; [|exact Bc]. cbn beta. unfold SHARP, Q. intros; lia. }
    destruct (caddq_sem_inv c wr Pc Ec) as (R & C). split; [exact R|].
    intros i Hi. rewrite (C (root i)). exact (Cc i Hi).
  Qed.
  Lemma as_shapes :
    length (am_y M) = Z.to_nat (pL P) /\ length (am_yhat M) = Z.to_nat (pL P) /\
    length (am_w M) = Z.to_nat (pK P) /\ length (am_w1 M) = Z.to_nat (pK P) /\
    length (am_w0 M) = Z.to_nat (pK P) /\
    length (am_zsum M) = Z.to_nat (pL P) /\ length (am_z M) = Z.to_nat (pL P) /\
    length (am_cs2i M) = Z.to_nat (pK P) /\ length (am_w0s M) = Z.to_nat (pK P) /\
    length (am_w0r M) = Z.to_nat (pK P) /\
    length (am_ct0i M) = Z.to_nat (pK P) /\ length (am_ct0 M) = Z.to_nat (pK P) /\
    length (am_h M) = Z.to_nat (pK P).
  Proof.
    destruct HA as (SZ & G1 & S2 & G2 & S3 & G3 & S4 & G4 & Hs).
    destruct (stage_z_shapes P sig mu rhoprime mat s1h nonce M SZ) as (A1 & A2 & A3 & A4 & A5 & A6 & A7).
    destruct (stage_w0_shapes P sig mu rhoprime mat s1h s2h nonce M SZ S2) as (B1 & B2 & B3).
    destruct (stage_ct0_shapes P sig mu rhoprime mat s1h s2h t0h nonce M SZ S2 S3) as (C1 & C2).
    destruct (emitted_bounds P sig mu rhoprime mat s1h s2h t0h nonce M s HA) as (_ & _ & _ & _ & Lh & _).
    repeat split; assumption.
  Qed.

  (** ** (w1, w0) = Decompose(w), per coefficient *)
  Lemma as_dec : forall r wr w1r w0r,
    nth_error (am_w M) r = Some wr -> nth_error (am_w1 M) r = Some w1r -> nth_error (am_w0 M) r = Some w0r ->
    length w1r = 256%nat /\ length w0r = 256%nat /\
    forall k, (k < 256)%nat ->
      0 <= nth k w1r 0 < MM (pG88 P) /\ - pGAMMA2 P <= nth k w0r 0 <= pGAMMA2 P /\
      eqm (nth k wr 0) (nth k w1r 0 * ALPHA (pG88 P) + nth k w0r 0).
  Proof.
    destruct as_shapes as (_ & _ & Lw & _).
    destruct as_params as (_ & _ & _ & _ & _ & _ & _ & _ & _ & _ & _ & EG).
    destruct as_mat as (Lm & _).
    assert (Hdec : k_decompose P (am_w M) (zvec (pK P)) = Ok (am_w1 M, am_w0 M)) by apply HA.
    rewrite k_decompose_lift in Hdec by (exact Lw || apply PSignStruct.zvec_length).
    bind_inv Hdec l Hl. apply PRing.Ok_inj in Hdec. injection Hdec as E1 E0.
    intros r wr w1r w0r Hwr Hw1 Hw0.
    destruct (mapM_nth_l _ _ _ _ _ Hl Hwr) as (p & Hp & Ep).
    rewrite <- E1 in Hw1. rewrite <- E0 in Hw0. rewrite nth_error_map, Hp in Hw1, Hw0.
    cbn [option_map] in Hw1, Hw0. injection Hw1 as <-. injection Hw0 as <-.
    destruct (nth_error_of_lt mat r ltac:(rewrite Lm, <- Lw; exact (nth_error_lt _ _ _ Hwr))) as (row & Hrow).
    destruct (as_w r row wr Hrow Hwr) as (Rw & _).
    destruct p as [lo hi]. cbn [fst snd]. rewrite EG.
    destruct (decompose_sem_inv (pG88 P) wr lo hi Rw Ep) as (L0 & L1 & H). auto.
  Qed.

  Lemma as_w1_rng : vec (pK P) (rng 0 (MM (pG88 P))) (am_w1 M).
  Proof.
    destruct as_shapes as (_ & _ & Lw & Lw1 & Lw0 & _). split; [exact Lw1|].
    apply Forall_forall. intros w1r Hin. apply In_nth_error in Hin as (r & Hw1).
    pose proof (nth_error_lt _ _ _ Hw1) as Hr.
    destruct (nth_error_of_lt (am_w M) r ltac:(lia)) as (wr & Hwr).
    destruct (nth_error_of_lt (am_w0 M) r ltac:(lia)) as (w0r & Hw0).
    destruct (as_dec r wr w1r w0r Hwr Hw1 Hw0) as (L1 & _ & H). split; [exact L1|].
    apply Forall_forall. intros x Hx. apply In_nth_error in Hx as (k & Hk).
    pose proof (nth_error_lt _ _ _ Hk) as Hk'. rewrite <- (nth_error_nth_Z _ _ _ Hk). apply H. lia.
  Qed.

  (** ** the packed w1 and the challenge bytes *)
  Lemma as_sigw : am_sigw M = S_w1Encode (pG88 P) (am_w1 M) ++ skipn (Z.to_nat (pK P * pPOLYW1 P)) sig /\
    zlen (S_w1Encode (pG88 P) (am_w1 M)) = pK P * pPOLYW1 P /\ Forall is_byte (S_w1Encode (pG88 P) (am_w1 M)).
  Proof.
    destruct as_params as (HK & _ & _ & _ & _ & _ & _ & _ & HW1 & _).
    destruct as_w1_rng as (Lw1 & Fw1).
    assert (Hpk : k_pack_w1 P sig (am_w1 M) = Ok (am_sigw M)) by apply HA.
    assert (Em : mapM (w1_pack_bytes (pG88 P)) (am_w1 M)
                 = Ok (map (fun a => SimpleBitPack a (MM (pG88 P) - 1)) (am_w1 M))).
    { apply mapM_ok. intros a Ha. rewrite Forall_forall in Fw1. apply w1_pack_bytes_fips. exact (Fw1 a Ha). }
    assert (F1 : Forall (fun e => zlen e = pPOLYW1 P) (map (fun a => SimpleBitPack a (MM (pG88 P) - 1)) (am_w1 M))).
    { apply Forall_map_in. intros a Ha. rewrite Forall_forall in Fw1. unfold pPOLYW1.
      apply w1_pack_bytes_fips. exact (Fw1 a Ha). }
    destruct (k_pack_w1_ok P sig (am_w1 M) _ ltac:(lia) Lw1 Em F1 ltac:(lia)) as (E & _ & Lc).
    rewrite Hpk in E. apply PRing.Ok_inj in E. split; [exact E|]. split; [exact Lc|].
    unfold S_w1Encode. apply PTotal.Forall_concat. apply Forall_map_in. intros a Ha.
    rewrite Forall_forall in Fw1. apply w1_pack_bytes_fips. exact (Fw1 a Ha).
  Qed.

  Lemma as_sigc :
    am_sigc M = S_shake 136 (firstn 64 mu ++ S_w1Encode (pG88 P) (am_w1 M)) (Z.to_nat (pCT P))
                ++ skipn (Z.to_nat (pCT P)) (am_sigw M) /\
    zlen (am_sigc M) = zlen sig.
  Proof.
    destruct as_params as (HK & HL & _ & HC & HO & _ & _ & _ & HW1 & _).
    destruct as_sigw as (Esw & Lenc & Benc).
    assert (HW0 : 0 <= pK P * pPOLYW1 P) by (unfold pPOLYW1; destruct (pG88 P); lia).
    assert (Lsw : zlen (am_sigw M) = zlen sig).
    { rewrite Esw, PHint.zlen_app, Lenc, PTotal.zlen_skipn by lia. lia. }
    assert (Ffst : firstn (Z.to_nat (pK P * pPOLYW1 P)) (am_sigw M) = S_w1Encode (pG88 P) (am_w1 M)).
    { rewrite Esw. apply PHint.firstn_app_exact. unfold zlen in Lenc. lia. }
    assert (HCS : pCT P <= pSIG P).
    { unfold pSIG. assert (0 <= pPOLYZ P) by (unfold pPOLYZ; destruct (pGAMMA1 P =? 131072); lia). nia. }
    destruct HA as ((_ & _ & _ & _ & _ & (w1b & st0 & st1 & st2 & st3 & _ & H0 & H1 & H2 & H3) & _) & _).
    pose proof (w1_hash_value mu (am_sigw M) (pK P * pPOLYW1 P) (pCT P) st0 st1 st2 (am_sigc M) st3 Lmu Bmu
                  ltac:(lia) ltac:(rewrite Ffst; exact Benc) ltac:(lia) ltac:(lia) H0 H1 H2 H3) as E.
    rewrite Ffst in E. split; [exact E|].
    rewrite E, PHint.zlen_app, PTotal.zlen_skipn by lia.
    unfold zlen at 1. rewrite PBridge.S_shake_length by lia. lia.
  Qed.

  (** ** the challenge polynomial *)
  Lemma as_cp : pbnd Q (am_cp M) /\ is_ntt_of (am_chat M) (am_cp M).
  Proof.
    destruct HA as ((_ & _ & _ & _ & _ & _ & Hcp & Hch & _) & _).
    pose proof (challenge_shape_holds P _ _ Hcp) as (Lc & Fc).
    assert (Pc : pbnd Q (am_cp M)).
    { split; [exact Lc|]. eapply Forall_impl; [|exact Fc]. cbn beta. unfold Q. intros; lia. }
    split; [exact Pc|]. exact (ntt_sem_inv _ _ Pc Hch).
  Qed.
  (** ** c times a vector held in the NTT domain *)
  Lemma cmul_vec_sem ch c sh sv p r :
    is_ntt_of ch c -> Forall2 is_ntt_of sh sv ->
    mapM (poly_pointwise_montgomery ch) sh = Ok p -> mapM poly_invntt_tomont p = Ok r ->
    forall j rj sj, nth_error r j = Some rj -> nth_error sv j = Some sj ->
      length rj = 256%nat /\ Forall (fun x => Z.abs x <= SHARP) rj /\
      forall i, (i < 256)%nat -> eqm (eval rj (root i)) (eval c (root i) * eval sj (root i)).
  Proof.
    intros Hc Hs Ep Er j rj sj Hrj Hsj.
    destruct (mapM_nth_r _ _ _ _ _ Er Hrj) as (pj & Hpj & Erj).
    destruct (mapM_nth_r _ _ _ _ _ Ep Hpj) as (shj & Hshj & Epj).
    destruct (F2_nth_error_l _ _ _ _ _ Hs Hshj) as (sj' & Hsj' & Hn). rewrite Hsj in Hsj'. injection Hsj' as <-.
    exact (cmul_sem ch c shj sj pj rj Hc Hn Epj Erj).
  Qed.

  Lemma sharp_bnd a : Forall (fun x => Z.abs x <= SHARP) a -> Forall (fun x => - (SHARP + 1) < x < SHARP + 1) a.
  Proof. intros H. eapply Forall_impl; [|exact H]. cbn beta. intros; lia. Qed.

  (** ** z = c s1 + y *)
  Lemma as_z : forall j zj sj yj,
    nth_error (am_z M) j = Some zj -> nth_error s1 j = Some sj -> nth_error (am_y M) j = Some yj ->
    length zj = 256%nat /\
    forall i, (i < 256)%nat ->
      eqm (eval zj (root i)) (eval (am_cp M) (root i) * eval sj (root i) + eval yj (root i)).
  Proof.
    destruct as_params as (HK & HL & Hg & _ & _ & _ & _ & _ & _ & HG1 & _).
    destruct as_shapes as (Ly & Lyh & _ & _ & _ & Lzs & Lz & _).
    destruct as_cp as (_ & Hch).
    destruct HA as ((_ & _ & _ & _ & _ & _ & _ & _ & Hcs1 & Hcs1i & Hzs & Hz & _) & _).
    assert (Ls1h : length s1h = Z.to_nat (pL P)) by (rewrite (F2_length _ _ _ Hs1); exact Ls1).
    rewrite l_pointwise_poly_montgomery_lift in Hcs1 by assumption.
    pose proof (mapM_length _ _ _ Hcs1) as Lcs1.
    rewrite l_invntt_tomont_lift in Hcs1i by congruence.
    pose proof (mapM_length _ _ _ Hcs1i) as Lcs1i.
    rewrite l_add_lift in Hzs by congruence.
    rewrite l_reduce_lift in Hz by exact Lzs.
    intros j zj sj yj Hzj Hsj Hyj.
    destruct (mapM_nth_r _ _ _ _ _ Hz Hzj) as (zs & Hzsj & Ezj).
    destruct (map2M_nth_r _ _ _ _ _ _ Hzs Hzsj) as (a & b & Haj & Hbj & Ezs).
    rewrite Hyj in Hbj. injection Hbj as <-.
    destruct (cmul_vec_sem _ _ _ _ _ _ Hch Hs1 Hcs1 Hcs1i j a sj Haj Hsj) as (La & Ba & Ca).
    destruct as_y as (_ & Fy). rewrite Forall_forall in Fy. destruct (Fy yj (nth_error_In _ _ Hyj)) as (Lyj & Byj).
    destruct (add_sem_inv (SHARP + 1) (pGAMMA1 P + 1) a yj zs
                ltac:(unfold SHARP; change (2 ^ 31) with 2147483648; lia) ltac:(congruence) (sharp_bnd a Ba)
                ltac:(eapply Forall_impl; [|exact Byj]; cbn beta; intros; lia) Ezs) as (Lzs' & Bzs & Czs).
    destruct (reduce_sem_inv (SHARP + 1 + (pGAMMA1 P + 1)) zs zj
                ltac:(unfold SHARP; change (2 ^ 31) with 2147483648; change (2 ^ 22) with 4194304; lia)
                ltac:(split; [congruence | exact Bzs]) Ezj) as (_ & (Lzj & _) & Czj).
    split; [exact Lzj|]. intros i Hi.
    rewrite (eval_reduce (root i) zs zj ltac:(congruence) Lzj Czj).
    rewrite (eval_lin 1 1 (root i) zs a yj ltac:(congruence) ltac:(congruence)
               ltac:(intros k; rewrite Czs; apply eqm_eq; ring)).
    rewrite (Ca i Hi). apply eqm_eq; ring.
  Qed.

  (** ** r0 = w0 - c s2 *)
  Lemma as_w0r : forall r ar w0r e,
    nth_error (am_w0r M) r = Some ar -> nth_error (am_w0 M) r = Some w0r -> nth_error s2 r = Some e ->
    pbnd Q ar /\
    forall i, (i < 256)%nat ->
      eqm (eval ar (root i)) (eval w0r (root i) - eval (am_cp M) (root i) * eval e (root i)).
  Proof.
    destruct as_params as (HK & HL & Hg & _ & _ & _ & _ & _ & _ & HG1 & HG2 & _).
    destruct as_shapes as (_ & _ & Lw & Lw1 & Lw0 & _ & _ & Lcs2i & Lw0s & Lw0r & _).
    destruct as_cp as (_ & Hch).
    destruct HA as (_ & _ & (Hcs2 & Hcs2i & Hw0s & Hw0r & _) & _).
    assert (Ls2h : length s2h = Z.to_nat (pK P)) by (rewrite (F2_length _ _ _ Hs2); exact Ls2).
    rewrite k_pointwise_poly_montgomery_lift in Hcs2 by (exact Ls2h || apply PSignStruct.zvec_length).
    pose proof (mapM_length _ _ _ Hcs2) as Lcs2.
    rewrite k_invntt_tomont_lift in Hcs2i by congruence.
    rewrite k_sub_lift in Hw0s by congruence.
    rewrite k_reduce_lift in Hw0r by exact Lw0s.
    intros r ar w0r e Har Hw0 He.
    destruct (mapM_nth_r _ _ _ _ _ Hw0r Har) as (ws & Hws & Ear).
    destruct (map2M_nth_r _ _ _ _ _ _ Hw0s Hws) as (a & b & Haj & Hbj & Ews).
    rewrite Hw0 in Haj. injection Haj as <-.
    destruct (cmul_vec_sem _ _ _ _ _ _ Hch Hs2 Hcs2 Hcs2i r b e Hbj He) as (Lb & Bb & Cb).
    pose proof (nth_error_lt _ _ _ Hw0) as Hr.
    destruct (nth_error_of_lt (am_w M) r ltac:(lia)) as (wr & Hwr).
    destruct (nth_error_of_lt (am_w1 M) r ltac:(lia)) as (w1r & Hw1).
    destruct (as_dec r wr w1r w0r Hwr Hw1 Hw0) as (_ & Lw0r' & Hd).
    assert (Bw0 : Forall (fun x => - (pGAMMA2 P + 1) < x < pGAMMA2 P + 1) w0r).
    { apply Forall_forall. intros x Hx. apply In_nth_error in Hx as (k & Hk).
      pose proof (nth_error_lt _ _ _ Hk) as Hk'. rewrite <- (nth_error_nth_Z _ _ _ Hk).
      destruct (Hd k ltac:(lia)) as (_ & B & _). lia. }
    destruct (sub_sem_inv (pGAMMA2 P + 1) (SHARP + 1) w0r b ws
                ltac:(unfold SHARP; change (2 ^ 31) with 2147483648; lia) ltac:(congruence) Bw0 (sharp_bnd b Bb) Ews)
      as (Lws & Bws & Cws).
    destruct (reduce_sem_inv (pGAMMA2 P + 1 + (SHARP + 1)) ws ar
                ltac:(unfold SHARP; change (2 ^ 31) with 2147483648; change (2 ^ 22) with 4194304; lia)
                ltac:(split; [congruence | exact Bws]) Ear) as (_ & Par & Car).
    split; [exact Par|]. intros i Hi. destruct Par as (Lar & _).
    rewrite (eval_reduce (root i) ws ar ltac:(congruence) Lar Car).
    rewrite (eval_lin 1 (-1) (root i) ws w0r b ltac:(congruence) ltac:(congruence)
               ltac:(intros k; rewrite Cws; apply eqm_eq; ring)).
    rewrite (Cb i Hi). apply eqm_eq; ring.
  Qed.

  (** ** c t0 *)
  Lemma as_ct0 : forall r cr e,
    nth_error (am_ct0 M) r = Some cr -> nth_error t0 r = Some e ->
    pbnd Q cr /\
    forall i, (i < 256)%nat -> eqm (eval cr (root i)) (eval (am_cp M) (root i) * eval e (root i)).
  Proof.
    destruct as_shapes as (_ & _ & _ & _ & _ & _ & _ & Lcs2i & _ & _ & Lct0i & Lct0 & _).
    destruct as_cp as (_ & Hch).
    destruct HA as (_ & _ & _ & _ & (Hct0p & Hct0i & Hct0 & _) & _).
    assert (Lt0h : length t0h = Z.to_nat (pK P)) by (rewrite (F2_length _ _ _ Ht0); exact Lt0).
    rewrite k_pointwise_poly_montgomery_lift in Hct0p by assumption.
    pose proof (mapM_length _ _ _ Hct0p) as Lct0p.
    rewrite k_invntt_tomont_lift in Hct0i by congruence.
    rewrite k_reduce_lift in Hct0 by exact Lct0i.
    intros r cr e Hcr He.
    destruct (mapM_nth_r _ _ _ _ _ Hct0 Hcr) as (ci & Hci & Ecr).
    destruct (cmul_vec_sem _ _ _ _ _ _ Hch Ht0 Hct0p Hct0i r ci e Hci He) as (Lci & Bci & Cci).
    destruct (reduce_sem_inv (SHARP + 1) ci cr
                ltac:(unfold SHARP; change (2 ^ 31) with 2147483648; change (2 ^ 22) with 4194304; lia)
                ltac:(split; [exact Lci | exact (sharp_bnd ci Bci)]) Ecr) as (_ & Pcr & Ccr).
    split; [exact Pcr|]. intros i Hi. destruct Pcr as (Lcr & _).
    rewrite (eval_reduce (root i) ci cr Lci Lcr Ccr). exact (Cci i Hi).
  Qed.

  (** ** the argument of MakeHint: r0 + c t0, as integers *)
  Lemma as_w0h : forall r hr ar cr,
    nth_error (am_w0h M) r = Some hr -> nth_error (am_w0r M) r = Some ar -> nth_error (am_ct0 M) r = Some cr ->
    length hr = 256%nat /\ forall k, nth k hr 0 = nth k ar 0 + nth k cr 0.
  Proof.
    destruct as_shapes as (_ & _ & _ & _ & Lw0 & _ & _ & _ & _ & Lw0r & _ & Lct0 & _).
    assert (Hw0h : k_add P (am_w0r M) (am_ct0 M) = Ok (am_w0h M)) by apply HA.
    rewrite k_add_lift in Hw0h by assumption.
    intros r hr ar cr Hhr Har Hcr.
    destruct (map2M_nth_r _ _ _ _ _ _ Hw0h Hhr) as (a & b & Ha & Hb & E).
    rewrite Har in Ha. injection Ha as <-. rewrite Hcr in Hb. injection Hb as <-.
    pose proof (nth_error_lt _ _ _ Har) as Hr.
    destruct (nth_error_of_lt (am_w0 M) r ltac:(lia)) as (w0r & Hw0).
    destruct (nth_error_of_lt s2 r ltac:(lia)) as (e2 & He2).
    destruct (nth_error_of_lt t0 r ltac:(lia)) as (e0 & He0).
    destruct (as_w0r r ar w0r e2 Har Hw0 He2) as ((Lar & Bar) & _).
    destruct (as_ct0 r cr e0 Hcr He0) as ((Lcr & Bcr) & _).
    destruct (add_sem_inv Q Q ar cr hr ltac:(unfold Q; change (2 ^ 31) with 2147483648; lia) ltac:(congruence) Bar Bcr E)
      as (Lhr & _ & C).
    split; [congruence | exact C].
  Qed.

  Lemma as_w0h_len : length (am_w0h M) = Z.to_nat (pK P).
  Proof.
    destruct as_shapes as (_ & _ & _ & _ & Lw0 & _ & _ & _ & _ & Lw0r & _ & Lct0 & _).
    assert (Hw0h : k_add P (am_w0r M) (am_ct0 M) = Ok (am_w0h M)) by apply HA.
    rewrite k_add_lift in Hw0h by assumption. destruct (map2M_length _ _ _ _ Hw0h) as (_ & L). congruence.
  Qed.

  (** ** the hint, per coefficient *)
  Lemma as_h : forall r hh hr w1r,
    nth_error (am_h M) r = Some hh -> nth_error (am_w0h M) r = Some hr -> nth_error (am_w1 M) r = Some w1r ->
    length hh = 256%nat /\
    forall k, (k < 256)%nat -> make_hint (pG88 P) (nth k hr 0) (nth k w1r 0) = Ok (nth k hh 0).
  Proof.
    destruct as_params as (HK & _).
    destruct as_shapes as (_ & _ & _ & Lw1 & _ & _ & _ & _ & _ & Lw0r & _ & Lct0 & _).
    pose proof as_w0h_len as Lw0h.
    assert (Hh : k_make_hint P (am_ct0 M) (am_w0h M) (am_w1 M) = Ok (am_h M, am_n M)) by apply HA.
    assert (F0 : Forall len256 (am_w0h M)).
    { apply Forall_forall. intros a Ha. apply In_nth_error in Ha as (r & Hr).
      pose proof (nth_error_lt _ _ _ Hr) as Hr'.
      destruct (nth_error_of_lt (am_w0r M) r ltac:(lia)) as (ar & Har).
      destruct (nth_error_of_lt (am_ct0 M) r ltac:(lia)) as (cr & Hcr).
      exact (proj1 (as_w0h r a ar cr Hr Har Hcr)). }
    assert (F1 : Forall len256 (am_w1 M)).
    { destruct as_w1_rng as (_ & F). eapply Forall_impl; [|exact F]. intros a (La & _). exact La. }
    destruct (map2M_total (poly_make_hint (pG88 P)) len256 len256 (fun _ => True)) with (l1 := am_w0h M) (l2 := am_w1 M)
      as (l & El & Ll & _); try assumption; try congruence.
    { intros a b Ha Hb. destruct (poly_make_hint_total (pG88 P) a b Ha Hb) as (h & n & E & _).
      exists (h, n). split; [exact E | exact I]. }
    destruct (k_make_hint_256 P (am_ct0 M) (am_w0h M) (am_w1 M) l Lct0 ltac:(lia)
                ltac:(intros a Ha; rewrite Forall_forall in F0; exact (F0 a Ha)) El ltac:(congruence)) as (E & _).
    rewrite Hh in E. apply PRing.Ok_inj in E. injection E as Eh _.
    intros r hh hr w1r Hhh Hhr Hw1.
    rewrite Eh, nth_error_map in Hhh. destruct (nth_error l r) as [p|] eqn:Hp; [|discriminate].
    cbn [option_map] in Hhh. injection Hhh as <-.
    destruct (map2M_nth_r _ _ _ _ _ _ El Hp) as (a & b & Ha & Hb & Ep).
    rewrite Hhr in Ha. injection Ha as <-. rewrite Hw1 in Hb. injection Hb as <-.
    destruct p as [h n]. cbn [fst].
    rewrite Forall_forall in F0. exact (make_hint_sem_inv (pG88 P) hr w1r h n (F0 hr (nth_error_In _ _ Hhr)) Ep).
  Qed.
  (** ** the bounds established by the three norm tests and the hint count *)
  Lemma as_bounds :
    (forall a, In a (am_z M) -> forall x, In x a -> Z.abs x < pGAMMA1 P - pBETA P) /\
    (forall a, In a (am_w0r M) -> forall x, In x a -> Z.abs x < pGAMMA2 P - pBETA P) /\
    (forall a, In a (am_ct0 M) -> forall x, In x a -> Z.abs x < pGAMMA2 P) /\
    hint_bits (am_h M) /\ 0 <= hint_weight (am_h M) <= pOMEGA P.
  Proof.
    destruct (emitted_bounds P sig mu rhoprime mat s1h s2h t0h nonce M s HA) as (B1 & B2 & B3 & _ & _ & Hb & _ & Hw).
    auto.
  Qed.

  (** ** (A) all of it in one statement *)
  Theorem attempt_sem :
    (* y = ExpandMask: L polynomials with coefficients in (-gamma1, gamma1] *)
    (length (am_y M) = Z.to_nat (pL P) /\
     Forall (fun p => length p = 256%nat /\ Forall (fun x => - pGAMMA1 P < x <= pGAMMA1 P) p) (am_y M)) /\
    (* w: coefficients in [0,Q), NTT(w_r) = sum_j A^[r,j] o NTT(y_j) *)
    (forall r row wr, nth_error mat r = Some row -> nth_error (am_w M) r = Some wr ->
       prng 0 Q wr /\ forall i, (i < 256)%nat -> eqm (eval wr (root i)) (matrow_ntt row (am_y M) i)) /\
    (* (w1, w0) = Decompose(w) *)
    (forall r wr w1r w0r,
       nth_error (am_w M) r = Some wr -> nth_error (am_w1 M) r = Some w1r -> nth_error (am_w0 M) r = Some w0r ->
       length w1r = 256%nat /\ length w0r = 256%nat /\
       forall k, (k < 256)%nat ->
         0 <= nth k w1r 0 < MM (pG88 P) /\ - pGAMMA2 P <= nth k w0r 0 <= pGAMMA2 P /\
         eqm (nth k wr 0) (nth k w1r 0 * ALPHA (pG88 P) + nth k w0r 0)) /\
    (* c~ = H(mu || w1Encode(w1)) sits at the front of the buffer; c = SampleInBall(c~) has small coefficients *)
    (am_sigc M = S_shake 136 (firstn 64 mu ++ S_w1Encode (pG88 P) (am_w1 M)) (Z.to_nat (pCT P))
                 ++ skipn (Z.to_nat (pCT P)) (am_sigw M) /\ zlen (am_sigc M) = zlen sig) /\
    (pbnd Q (am_cp M) /\ is_ntt_of (am_chat M) (am_cp M)) /\
    (* z = c s1 + y *)
    (forall j zj sj yj,
       nth_error (am_z M) j = Some zj -> nth_error s1 j = Some sj -> nth_error (am_y M) j = Some yj ->
       length zj = 256%nat /\
       forall i, (i < 256)%nat ->
         eqm (eval zj (root i)) (eval (am_cp M) (root i) * eval sj (root i) + eval yj (root i))) /\
    (* r0 = w0 - c s2 *)
    (forall r ar w0r e,
       nth_error (am_w0r M) r = Some ar -> nth_error (am_w0 M) r = Some w0r -> nth_error s2 r = Some e ->
       pbnd Q ar /\
       forall i, (i < 256)%nat ->
         eqm (eval ar (root i)) (eval w0r (root i) - eval (am_cp M) (root i) * eval e (root i))) /\
    (* c t0 *)
    (forall r cr e,
       nth_error (am_ct0 M) r = Some cr -> nth_error t0 r = Some e ->
       pbnd Q cr /\
       forall i, (i < 256)%nat -> eqm (eval cr (root i)) (eval (am_cp M) (root i) * eval e (root i))) /\
    (* r0 + c t0, as integers *)
    (forall r hr ar cr,
       nth_error (am_w0h M) r = Some hr -> nth_error (am_w0r M) r = Some ar -> nth_error (am_ct0 M) r = Some cr ->
       length hr = 256%nat /\ forall k, nth k hr 0 = nth k ar 0 + nth k cr 0) /\
    (* h = MakeHint coefficient-wise *)
    (forall r hh hr w1r,
       nth_error (am_h M) r = Some hh -> nth_error (am_w0h M) r = Some hr -> nth_error (am_w1 M) r = Some w1r ->
       length hh = 256%nat /\
       forall k, (k < 256)%nat -> make_hint (pG88 P) (nth k hr 0) (nth k w1r 0) = Ok (nth k hh 0)) /\
    (* the four tests *)
    ((forall a, In a (am_z M) -> forall x, In x a -> Z.abs x < pGAMMA1 P - pBETA P) /\
     (forall a, In a (am_w0r M) -> forall x, In x a -> Z.abs x < pGAMMA2 P - pBETA P) /\
     (forall a, In a (am_ct0 M) -> forall x, In x a -> Z.abs x < pGAMMA2 P) /\
     hint_bits (am_h M) /\ 0 <= hint_weight (am_h M) <= pOMEGA P).
  Proof.
    exact (conj as_y (conj as_w (conj as_dec (conj as_sigc (conj as_cp (conj as_z (conj as_w0r (conj as_ct0
            (conj as_w0h (conj as_h as_bounds)))))))))).
  Qed.
  (** ** what goes into the signature is inside the codecs' domains *)
  Lemma as_z_rng : vec (pL P) (zrng (pGAMMA1 P)) (am_z M).
  Proof.
    destruct as_params as (_ & _ & _ & _ & _ & _ & HB & _).
    destruct as_shapes as (Ly & _ & _ & _ & _ & _ & Lz & _). destruct as_bounds as (Bz & _).
    split; [exact Lz|]. apply Forall_forall. intros zj Hin. pose proof (Bz zj Hin) as Bzj.
    apply In_nth_error in Hin as (j & Hzj). pose proof (nth_error_lt _ _ _ Hzj) as Hj.
    destruct (nth_error_of_lt s1 j ltac:(lia)) as (sj & Hsj).
    destruct (nth_error_of_lt (am_y M) j ltac:(lia)) as (yj & Hyj).
    destruct (as_z j zj sj yj Hzj Hsj Hyj) as (Lzj & _). split; [exact Lzj|].
    apply Forall_forall. intros x Hx. specialize (Bzj x Hx). lia.
  Qed.

  Lemma as_h_rng : vec (pK P) (rng 0 2) (am_h M).
  Proof.
    destruct as_shapes as (_ & _ & _ & Lw1 & _ & _ & _ & _ & _ & _ & _ & _ & Lh).
    pose proof as_w0h_len as Lw0h. destruct as_bounds as (_ & _ & _ & Hb & _).
    split; [exact Lh|]. apply Forall_forall. intros hh Hin. pose proof (Hb hh Hin) as Bh.
    apply In_nth_error in Hin as (r & Hhh). pose proof (nth_error_lt _ _ _ Hhh) as Hr.
    destruct (nth_error_of_lt (am_w0h M) r ltac:(lia)) as (hr & Hhr).
    destruct (nth_error_of_lt (am_w1 M) r ltac:(lia)) as (w1r & Hw1).
    destruct (as_h r hh hr w1r Hhh Hhr Hw1) as (Lhh & _). split; [exact Lhh|].
    eapply Forall_impl; [|exact Bh]. cbn beta. intros; lia.
  Qed.

  (** * 5. (B) The verifier's w'_approx and the signer's hint: UseHint(h, w'_approx) = w1 *)

  Lemma nth_zip (f : Z -> Z -> Z) : forall a b k, length a = length b -> (k < length a)%nat ->
    nth k (map (fun p => f (fst p) (snd p)) (combine a b)) 0 = f (nth k a 0) (nth k b 0).
  Proof.
    induction a as [|x a IH]; intros [|y b] k L Hk; cbn [length] in *; try lia.
    destruct k as [|k]; cbn [combine map nth fst snd]; [reflexivity|]. apply IH; lia.
  Qed.

  Lemma nth_error_combine {A B} : forall (a : list A) (b : list B) r p, nth_error (combine a b) r = Some p ->
    nth_error a r = Some (fst p) /\ nth_error b r = Some (snd p).
  Proof.
    induction a as [|x a IH]; intros [|y b] r p H; cbn [combine] in H; try (destruct r; discriminate).
    destruct r as [|r]; cbn [nth_error] in *; [injection H as <-; auto | apply IH; exact H].
  Qed.

  Lemma eqm_canon x y : 0 <= x < Q -> eqm x y -> x = y mod Q.
  Proof. intros Hx H. unfold eqm in H. rewrite Z.mod_small in H by exact Hx. exact H. Qed.

  (** the hint rule in specification form *)
  Lemma use_hint_of_make_hint g w1c a0 hb : 0 <= w1c < MM g -> - ALPHA g < a0 < ALPHA g ->
    make_hint g a0 w1c = Ok hb -> S_use_hint g hb ((w1c * ALPHA g + a0) mod Q) = w1c.
  Proof.
    intros Hw Ha E. destruct (hint_roundtrip g w1c a0 Hw Ha) as (hb' & E' & Hb & U).
    rewrite E in E'. apply PRing.Ok_inj in E'. subst hb'.
    destruct (use_hint_ok g ((w1c * ALPHA g + a0) mod Q) hb ltac:(apply Z.mod_pos_bound; unfold Q; lia) Hb) as (U' & _).
    rewrite U in U'. apply PRing.Ok_inj in U'. symmetry. exact U'.
  Qed.

  (** ** what the attempt emits: sigEncode(c~, z, h) with c~ = H(mu || w1Encode(w1)), inside the verifier's gates *)
  Theorem attempt_emits : zlen sig = pSIG P ->
    let ct := S_shake 136 (firstn 64 mu ++ S_w1Encode (pG88 P) (am_w1 M)) (Z.to_nat (pCT P)) in
    s = S_sigEncode P ct (am_z M) (am_h M) /\
    zlen ct = pCT P /\ Forall is_byte ct /\
    vec (pL P) (zrng (pGAMMA1 P)) (am_z M) /\
    vec (pL P) (fun a => length a = 256%nat /\ Forall (fun x => Z.abs x < pGAMMA1 P - pBETA P) a) (am_z M) /\
    vec (pK P) (rng 0 2) (am_h M) /\ hint_weight (am_h M) <= pOMEGA P /\
    poly_challenge (pTAU P) (pCT P) ct = Ok (am_cp M).
  Proof.
    intros Ls ct.
    destruct as_params as (HK & HL & Hg & HC & HO & _).
    destruct as_sigc as (Esc & Lsc). fold ct in Esc.
    destruct as_bounds as (Bz & _ & _ & _ & Hw).
    pose proof as_z_rng as Hz. pose proof as_h_rng as Hh.
    assert (Lct : zlen ct = pCT P).
    { unfold ct, zlen. rewrite PBridge.S_shake_length by lia. lia. }
    assert (Bct : Forall is_byte ct) by apply PTotal.S_shake_bytes.
    assert (Fct : firstn (Z.to_nat (pCT P)) (am_sigc M) = ct).
    { rewrite Esc. apply PHint.firstn_app_exact. unfold zlen in Lct. lia. }
    assert (Hpack : pack_sig P (am_sigc M) None (am_z M) (am_h M) = Ok s) by apply HA.
    pose proof (pack_sig_closed P (am_sigc M) (am_z M) (am_h M) s Hg ltac:(lia) ltac:(lia) ltac:(lia) HO Hz Hh
                  ltac:(lia) ltac:(lia) Hpack) as Es.
    rewrite Fct in Es.
    split; [exact Es|]. split; [exact Lct|]. split; [exact Bct|]. split; [exact Hz|]. split.
    { destruct Hz as (Lz & Fz). split; [exact Lz|]. apply Forall_forall. intros a Ha.
      rewrite Forall_forall in Fz. destruct (Fz a Ha) as (La & _). split; [exact La|].
      apply Forall_forall. intros x Hx. exact (Bz a Ha x Hx). }
    split; [exact Hh|]. split; [lia|].
    assert (Hcp : poly_challenge (pTAU P) (pCT P) (am_sigc M) = Ok (am_cp M)) by apply HA.
    rewrite <- (poly_challenge_prefix (pTAU P) (pCT P) (am_sigc M)) in Hcp.
    - rewrite Fct in Hcp. exact Hcp.
    - assert (HCS : pCT P <= pSIG P).
      { unfold pSIG. assert (0 <= pPOLYZ P) by (unfold pPOLYZ; destruct (pGAMMA1 P =? 131072); lia). nia. }
      lia.
    - rewrite Fct. exact Bct.
  Qed.

  (** the public key: t = t1 2^d + t0 with NTT(t_r) = sum_j A^[r,j] o NTT(s1_j) + NTT(s2_r) *)
  Variable t1 : list (list Z).
  Hypothesis Lt1 : length t1 = Z.to_nat (pK P).
  Hypothesis Hkey : forall r row e a1 a0,
    nth_error mat r = Some row -> nth_error s2 r = Some e -> nth_error t1 r = Some a1 -> nth_error t0 r = Some a0 ->
    forall i, (i < 256)%nat ->
      eqm (eval a1 (root i) * 2 ^ 13 + eval a0 (root i)) (matrow_ntt row s1 i + eval e (root i)).
  (** the verifier's vector *)
  Variable w' : list (list Z).
  Hypothesis Hw' : S_wapprox mat (am_cp M) (am_z M) t1 w'.

  Lemma vr_row r row tr wr' w1r hh :
    nth_error mat r = Some row -> nth_error t1 r = Some tr -> nth_error w' r = Some wr' ->
    nth_error (am_w1 M) r = Some w1r -> nth_error (am_h M) r = Some hh ->
    S_UseHint_poly (pG88 P) hh wr' = w1r.
  Proof.
    intros Hrow Htr Hwr' Hw1 Hhh.
    destruct as_params as (HK & HL & Hg & _ & _ & _ & HB & _ & _ & HG1 & HG2 & EG).
    destruct as_shapes as (Ly & _ & Lw & Lw1 & Lw0 & _ & Lz & _ & _ & Lw0r & _ & Lct0 & Lh).
    destruct as_mat as (Lm & Hm). pose proof as_w0h_len as Lw0h.
    pose proof (nth_error_lt _ _ _ Hrow) as Hr.
    destruct (nth_error_of_lt (am_w M) r ltac:(lia)) as (wr & Hwr).
    destruct (nth_error_of_lt (am_w0 M) r ltac:(lia)) as (w0r & Hw0).
    destruct (nth_error_of_lt (am_w0r M) r ltac:(lia)) as (ar & Har).
    destruct (nth_error_of_lt (am_ct0 M) r ltac:(lia)) as (cr & Hcr).
    destruct (nth_error_of_lt (am_w0h M) r ltac:(lia)) as (hr & Hhr).
    destruct (nth_error_of_lt s2 r ltac:(lia)) as (e2 & He2).
    destruct (nth_error_of_lt t0 r ltac:(lia)) as (e0 & He0).
    destruct Hw' as (_ & HW). destruct (HW r row tr wr' Hrow Htr Hwr') as ((Lwr' & Rwr') & Cw').
    destruct (as_w r row wr Hrow Hwr) as ((Lwr & _) & Cw).
    destruct (as_dec r wr w1r w0r Hwr Hw1 Hw0) as (Lw1r & Lw0r' & Hd).
    destruct (as_w0r r ar w0r e2 Har Hw0 He2) as ((Lar & _) & Car).
    destruct (as_ct0 r cr e0 Hcr He0) as ((Lcr & _) & Ccr).
    destruct (as_w0h r hr ar cr Hhr Har Hcr) as (Lhr & Chr).
    destruct (as_h r hh hr w1r Hhh Hhr Hw1) as (Lhh & Chh).
    destruct as_bounds as (_ & Bar & Bcr & _).
    destruct (Hm row (nth_error_In _ _ Hrow)) as (Lrow & _).
    set (al := ALPHA (pG88 P)) in *.
    (* the integer vector w1 alpha + (r0 + c t0) *)
    set (v := map (fun k => nth k w1r 0 * al + nth k hr 0) (seq 0 256)).
    assert (Lv : length v = 256%nat) by (unfold v; rewrite map_length, seq_length; reflexivity).
    assert (Nv : forall k, nth k v 0 = nth k w1r 0 * al + nth k hr 0).
    { intros k. destruct (Nat.lt_ge_cases k 256) as [Hk|Hk].
      - unfold v. exact (nth_map_seq (fun k => nth k w1r 0 * al + nth k hr 0) 256 k Hk).
      - rewrite !nth_overflow by lia. reflexivity. }
    (* evaluations agree *)
    assert (EV : forall i, (i < 256)%nat -> eqm (eval wr' (root i)) (eval v (root i))).
    { intros i Hi.
      rewrite (Cw' i Hi). rewrite eval_smul.
      rewrite (matrow_lin (eval (am_cp M) (root i)) i row (am_z M) s1 (am_y M)
                 ltac:(congruence) ltac:(congruence) ltac:(congruence)
                 ltac:(intros j zj sj yj Hzj Hsj Hyj; exact (proj2 (as_z j zj sj yj Hzj Hsj Hyj) i Hi))).
      rewrite <- (Cw i Hi).
      pose proof (Hkey r row e2 tr e0 Hrow He2 Htr He0 i Hi) as HK'.
      assert (E1 : eqm (matrow_ntt row s1 i) (eval tr (root i) * 2 ^ 13 + eval e0 (root i) - eval e2 (root i))).
      { rewrite HK'. apply eqm_eq; ring. }
      rewrite E1.
      rewrite (eval_lin al 1 (root i) v w1r hr ltac:(congruence) ltac:(congruence)
                 ltac:(intros k; rewrite Nv; apply eqm_eq; ring)).
      rewrite (eval_lin 1 1 (root i) hr ar cr ltac:(congruence) ltac:(congruence)
                 ltac:(intros k; rewrite Chr; apply eqm_eq; ring)).
      rewrite (Car i Hi), (Ccr i Hi).
      rewrite (eval_lin al 1 (root i) wr w1r w0r ltac:(congruence) ltac:(congruence)).
      - apply eqm_eq; ring.
      - intros k. destruct (Nat.lt_ge_cases k 256) as [Hk|Hk].
        + destruct (Hd k Hk) as (_ & _ & E). rewrite E. apply eqm_eq; ring.
        + rewrite !nth_overflow by lia. apply eqm_eq; ring. }
    pose proof (ntt_inj wr' v Lwr' Lv EV) as INJ.
    (* coefficient by coefficient *)
    unfold S_UseHint_poly. apply (nth_ext _ _ 0 0).
    { rewrite map_length, combine_length. lia. }
    intros k Hk. rewrite map_length, combine_length in Hk.
    rewrite (nth_zip (fun x y => S_use_hint (pG88 P) y x) wr' hh k ltac:(congruence) ltac:(lia)).
    assert (Hk' : (k < 256)%nat) by lia.
    destruct (Hd k Hk') as (R1 & _ & _).
    assert (Ra : Z.abs (nth k ar 0) < pGAMMA2 P - pBETA P) by (apply (Bar ar (nth_error_In _ _ Har)), nth_In; lia).
    assert (Rc : Z.abs (nth k cr 0) < pGAMMA2 P) by (apply (Bcr cr (nth_error_In _ _ Hcr)), nth_In; lia).
    assert (Rh : - al < nth k hr 0 < al) by (rewrite Chr; unfold al, ALPHA; rewrite <- EG; lia).
    rewrite Forall_forall in Rwr'.
    rewrite (eqm_canon _ _ (Rwr' _ (nth_In wr' 0 ltac:(rewrite Lwr'; exact Hk'))) (INJ k Hk')), Nv.
    exact (use_hint_of_make_hint (pG88 P) _ _ _ R1 Rh (Chh k Hk')).
  Qed.

  (** (B): the verifier recovers the signer's w1 *)
  Theorem verify_of_attempt : length w' = Z.to_nat (pK P) -> S_UseHint (pG88 P) (am_h M) w' = am_w1 M.
  Proof.
    intros Lw'. destruct as_shapes as (_ & _ & _ & Lw1 & _ & _ & _ & _ & _ & _ & _ & _ & Lh).
    destruct as_mat as (Lm & _).
    unfold S_UseHint. apply list_eq_nth_error.
    { rewrite map_length, combine_length. lia. }
    intros r x w1r Hx Hw1. rewrite nth_error_map in Hx.
    destruct (nth_error (combine w' (am_h M)) r) as [p|] eqn:Hp; [|discriminate].
    cbn [option_map] in Hx. injection Hx as <-.
    destruct (nth_error_combine _ _ _ _ Hp) as (Hwr' & Hhh).
    pose proof (nth_error_lt _ _ _ Hw1) as Hr.
    destruct (nth_error_of_lt mat r ltac:(lia)) as (row & Hrow).
    destruct (nth_error_of_lt t1 r ltac:(lia)) as (tr & Htr).
    exact (vr_row r row tr (fst p) w1r (snd p) Hrow Htr Hwr' Hw1 Hhh).
  Qed.
End AttemptSem.

(** * 6. The verifier on a signature whose decoding and whose two sampler results are known *)

Lemma verify_known P sig m pk rho t1 ct z h mat cp :
  std P -> Forall is_byte m -> Forall is_byte pk -> zlen pk = pPK P ->
  zlen sig = pSIG P ->
  S_pkDecode (pK P) pk = (rho, t1) ->
  unpack_sig P (repeatZ 0 (pCT P)) (zvec (pL P)) (zvec (pK P)) sig = Ok (ct, z, h, true) ->
  vec (pL P) (fun a => length a = 256%nat /\ Forall (fun x => Z.abs x < pGAMMA1 P - pBETA P) a) z ->
  vec (pK P) (rng 0 2) h ->
  matrix_expand P (zmat (pK P) (pL P)) rho = Ok mat ->
  poly_challenge (pTAU P) (pCT P) ct = Ok cp ->
  exists w, S_wapprox mat cp z t1 w /\ length w = Z.to_nat (pK P) /\
    verify P sig m pk =
    Ok (if list_eq_dec Z.eq_dec ct
             (S_shake 136 (S_shake 136 (S_shake 136 pk (Z.to_nat (pTR P)) ++ m) 64
                           ++ S_w1Encode (pG88 P) (S_UseHint (pG88 P) h w)) (Z.to_nat (pCT P)))
        then true else false).
Proof.
  intros HP Bm Bpk Lpk El Epk Esig (Lz & Fz) (Lh & Fh) EA Ecp.
  destruct (std_vf P HP) as (HK & HL & Hg & HC & HO & HB & HTR & HT).
  destruct (S_pkDecode_range (pK P) pk rho t1 ltac:(lia) Bpk ltac:(unfold pPK, SEEDBYTES, POLYT1 in Lpk; lia) Epk)
    as (Lrho & Brho & Lt1 & Ht1).
  pose proof (challenge_shape_holds P ct cp Ecp) as (Lcp & Fcp).
  assert (Pcp : pbnd Q cp).
  { split; [exact Lcp|]. eapply Forall_impl; [|exact Fcp]. cbn beta. unfold Q. intros; lia. }
  destruct (expand_shape_holds P rho mat EA) as (Lm & Fm).
  assert (Hm : forall row, In row mat -> length row = Z.to_nat (pL P) /\ Forall (prng 0 Q) row).
  { intros row Hr. rewrite Forall_forall in Fm. exact (Fm row Hr). }
  assert (Hzq : Forall (pbnd Q) z).
  { eapply Forall_impl; [|exact Fz]. cbn beta. intros a (La & Fa). split; [exact La|].
    eapply Forall_impl; [|exact Fa]. cbn beta. unfold Q. intros x Hx. lia. }
  assert (Hhr : Forall hint_row h).
  { eapply Forall_impl; [|exact Fh]. intros r (Lr & Fr). split; [exact Lr|].
    eapply Forall_impl; [|exact Fr]. cbn beta. intros; lia. }
  destruct (verify_w1_sem P mat cp t1 z h ltac:(lia) HL Lm Hm Pcp ltac:(unfold zlen in Lt1; lia) Ht1 Lz Hzq Lh Hhr)
    as (w & HS & Fw & Ebuf & Bbuf).
  exists w. split; [exact HS|]. split; [destruct HS as (LS & _); congruence|].
  unfold verify.
  apply Z.eqb_eq in El. rewrite El. cbn [negb].
  rewrite (unpack_pk_spec P (repeatZ 0 32) (zvec (pK P)) pk ltac:(lia) Bpk ltac:(lia)
             ltac:(apply PTotal.zlen_repeatZ; lia)
             ltac:(apply zlen_of_length; [lia | apply PSignStruct.zvec_length])).
  cbn [bind]. rewrite Epk. rewrite Esig. cbn [bind negb].
  assert (Hsm : forall a, In a z -> Forall (fun x => -1073741824 <= x <= 1073741823) a).
  { intros a Ha. rewrite Forall_forall in Fz. destruct (Fz a Ha) as (_ & Fa).
    eapply Forall_impl; [|exact Fa]. cbn beta. intros x Hx. lia. }
  rewrite (l_chknorm_exact P z (pGAMMA1 P - pBETA P) Hsm ltac:(lia) Lz ltac:(lia)). cbn [bind].
  rewrite existsb_norm.
  assert (En : S_norm_lt z (pGAMMA1 P - pBETA P) = true).
  { unfold S_norm_lt. apply forallb_forall. intros a Ha. apply forallb_forall. intros x Hx. apply Z.ltb_lt.
    rewrite Forall_forall in Fz. destruct (Fz a Ha) as (_ & Fa). rewrite Forall_forall in Fa. exact (Fa x Hx). }
  rewrite En. cbn [negb]. change (0 <? 0) with false. cbv iota.
  rewrite <- Lpk.
  rewrite (shake256_short_ok (repeatZ 0 64) (pTR P) pk Bpk ltac:(lia) ltac:(rewrite PTotal.zlen_repeatZ; lia)).
  cbn [bind].
  rewrite (PKeyCodec.firstn_app_exact (S_shake 136 pk (Z.to_nat (pTR P))) _ (Z.to_nat (pTR P)))
    by (symmetry; apply PBridge.S_shake_length; lia).
  set (tr := S_shake 136 pk (Z.to_nat (pTR P))).
  pose proof (shake256_hash_ok [tr; m] CRHBYTES
                ltac:(repeat constructor; [apply PTotal.S_shake_bytes | exact Bm])
                ltac:(unfold CRHBYTES; change (2 ^ 64) with 18446744073709551616; lia)) as Emu.
  cbn [concat] in Emu. rewrite app_nil_r in Emu. change (Z.to_nat CRHBYTES) with 64%nat in Emu.
  rewrite Emu. cbn [bind].
  set (mu := S_shake 136 (tr ++ m) 64).
  rewrite Ecp. cbn [bind]. rewrite EA. cbn [bind].
  unfold verify_arith in Ebuf.
  bind_inv Ebuf zhat Hzhat. bind_inv Ebuf w1 Hw1. bind_inv Ebuf chat Hchat. bind_inv Ebuf t1s Ht1s.
  bind_inv Ebuf t1h Ht1h. bind_inv Ebuf ct1 Hct1. bind_inv Ebuf w1a Hw1a. bind_inv Ebuf w1b Hw1b.
  bind_inv Ebuf w1c Hw1c. bind_inv Ebuf w1d Hw1d. bind_inv Ebuf w1e Hw1e.
  rewrite Hzhat; cbn [bind]. rewrite Hw1; cbn [bind]. rewrite Hchat; cbn [bind]. rewrite Ht1s; cbn [bind].
  rewrite Ht1h; cbn [bind]. rewrite Hct1; cbn [bind]. rewrite Hw1a; cbn [bind]. rewrite Hw1b; cbn [bind].
  rewrite Hw1c; cbn [bind]. rewrite Hw1d; cbn [bind]. rewrite Hw1e; cbn [bind]. rewrite Ebuf; cbn [bind].
  set (buf := S_w1Encode (pG88 P) (S_UseHint (pG88 P) h w)) in *.
  pose proof (shake256_hash_ok [mu; buf] (pCT P)
                ltac:(repeat constructor; [apply PTotal.S_shake_bytes | exact Bbuf])
                ltac:(change (2 ^ 64) with 18446744073709551616; lia)) as Ec2.
  cbn [concat] in Ec2. rewrite app_nil_r in Ec2. rewrite Ec2. cbn [bind]. reflexivity.
Qed.

(** * 7. (D) Key plumbing and the signer's setup *)

Lemma keygen_bytes P xi pk sk : std P -> S_keygen P xi pk sk -> Forall is_byte pk /\ Forall is_byte sk.
Proof.
  intros HP (rho & rho' & key & A & s1 & s2 & t & Erho & _ & Ekey & HA & HS & HT & -> & ->).
  destruct (std_kg P HP) as (HK & HL & He & HTR & _ & _).
  destruct (S_seedbuf_shape P xi) as (_ & Bbuf).
  destruct (S_expandS_shape P rho' s1 s2 He HS) as [H1 H2].
  assert (LA : length A = Z.to_nat (pK P)) by apply HA.
  assert (Ls2 : length s2 = Z.to_nat (pK P)) by apply HS.
  assert (Ft : Forall (prng 0 Q) t) by (apply (S_t_shape A s1 s2 t); [congruence | exact HT]).
  assert (Brho : Forall is_byte rho) by (rewrite Erho; apply PKeyCodec.Forall_firstn; exact Bbuf).
  split.
  - apply S_pkEncode_bytes; [exact Brho | apply S_t1_ok; exact Ft].
  - apply S_skEncode_bytes; try assumption.
    + rewrite Ekey. apply PKeyCodec.Forall_skipn. exact Bbuf.
    + apply PTotal.S_shake_bytes.
    + apply vec_eta_sub; assumption.
    + apply vec_eta_sub; assumption.
    + apply S_t0_ok. exact Ft.
Qed.

(** the mask seed rho' is 64 bytes in every mode *)
Lemma rhoprime_shape P rand tape key mu rp tape' :
  Forall is_byte key -> zlen key = 32 -> Forall is_byte mu -> zlen mu = 64 -> tape_ok P rand tape ->
  PSignStruct.sign_rhoprime P rand tape key mu = Ok (rp, tape') ->
  zlen rp = 64 /\ Forall is_byte rp.
Proof.
  intros Bk Lk Bm Lm Ht H. unfold PSignStruct.sign_rhoprime in H. unfold tape_ok, rand_bytes in Ht.
  assert (S64 : forall x, zlen (S_shake 136 x 64) = 64).
  { intros x. unfold zlen. rewrite PBridge.S_shake_length by lia. reflexivity. }
  destruct (pMLDSA P).
  - bind_inv H rt Hrt. destruct rt as [rnd tp]. bind_inv H r Hr. apply PRing.Ok_inj in H.
    apply pair_equal_spec in H as [H _]. subst rp.
    assert (Brnd : Forall is_byte rnd).
    { destruct rand.
      - destruct (Ht eq_refl) as (Hl & Hb). unfold draw in Hrt.
        destruct (zlen tape <? SEEDBYTES); [discriminate|]. apply PRing.Ok_inj in Hrt.
        apply pair_equal_spec in Hrt as [Hrt _]. subst rnd. exact Hb.
      - apply PRing.Ok_inj in Hrt. apply pair_equal_spec in Hrt as [Hrt _]. subst rnd.
        unfold repeatZ. apply PTotal.Forall_repeat. unfold is_byte. lia. }
    rewrite (shake256_hash_ok [key; rnd; mu] CRHBYTES ltac:(repeat constructor; assumption)
               ltac:(unfold CRHBYTES; change (2 ^ 64) with 18446744073709551616; lia)) in Hr.
    apply PRing.Ok_inj in Hr. subst r. change (Z.to_nat CRHBYTES) with 64%nat.
    split; [apply S64 | apply PTotal.S_shake_bytes].
  - destruct rand.
    + destruct (Ht eq_refl) as (Hl & Hb). unfold draw in H.
      destruct (Z.ltb_spec (zlen tape) CRHBYTES) as [?|Hge]; [discriminate|]. apply PRing.Ok_inj in H.
      apply pair_equal_spec in H as [H _]. subst rp.
      split; [apply zlen_firstn_le; unfold CRHBYTES in *; lia | exact Hb].
    + bind_inv H r Hr. apply PRing.Ok_inj in H. apply pair_equal_spec in H as [H _]. subst rp.
      replace (SEEDBYTES + CRHBYTES) with (zlen (key ++ mu)) in Hr by (rewrite PHint.zlen_app, Lk, Lm; reflexivity).
      unfold CRHBYTES in Hr.
      rewrite shake256_ok in Hr; [| apply Forall_app; split; assumption | change (2 ^ 64) with 18446744073709551616; lia].
      apply PRing.Ok_inj in Hr. subst r. change (Z.to_nat 64) with 64%nat.
      split; [apply S64 | apply PTotal.S_shake_bytes].
Qed.

(** the buffer keeps its length through the rejected iterations *)
Lemma retry_chain_len P mu rp mat s1h s2h t0h :
  sign_pset_ok P -> 64 <= zlen mu -> Forall is_byte (firstn 64 mu) ->
  64 <= zlen rp -> Forall is_byte (firstn 64 rp) -> mat_ok P mat ->
  vec (pL P) (bnd (9 * Q)) s1h -> vec (pK P) (bnd (9 * Q)) s2h -> vec (pK P) (bnd (9 * Q)) t0h ->
  forall causes nonce sig sig_n, pSIG P <= zlen sig -> 0 <= nonce ->
    pL P * (nonce + Z.of_nat (length causes)) <= 65536 ->
    retry_chain P mu rp mat s1h s2h t0h causes nonce sig sig_n -> zlen sig_n = zlen sig.
Proof.
  intros HP Lmu Bmu Lrp Brp Hmat H1 H2 H0.
  assert (HL : 1 <= pL P <= 7) by apply HP.
  induction causes as [|c cs IH]; intros nonce sig sig_n Hsig Hn0 Hn H; cbn [retry_chain length] in *.
  - subst. reflexivity.
  - destruct H as (sig' & Ha & Hn' & Hch).
    pose proof (sign_attempt_ranges P HP sig mu rp mat s1h s2h t0h nonce Hsig Lmu Bmu Lrp Brp Hmat H1 H2 H0 Hn0
                  ltac:(nia)) as G.
    rewrite Ha in G. cbn [att_good] in G.
    rewrite <- G. apply (IH (nonce + 1) sig' sig_n); [lia | lia | nia | exact Hch].
Qed.

Lemma ntt_of_vec_bnd n vh v : length v = Z.to_nat n -> Forall2 is_ntt_of vh v -> vec n (bnd (9 * Q)) vh.
Proof.
  intros L H. split; [rewrite (F2_length _ _ _ H); exact L|].
  eapply F2_Forall_l; [|exact H]. cbn beta. intros x y (B & _). exact B.
Qed.

(** * 8. (E) C01: every signature the library produces verifies *)

(** for any key pair that the specification's KeyGen assigns to some seed *)
Theorem sign_then_verify_spec_key P xi pk sk sig0 m rand tape sig tape' :
  std P -> S_keygen P xi pk sk -> zlen pk = pPK P -> zlen sk = pSK P -> Forall is_byte m ->
  zlen sig0 = pSIG P -> tape_ok P rand tape ->
  signature P sig0 m sk rand tape = Ok (sig, tape') ->
  zlen sig = pSIG P /\ verify P sig m pk = Ok true.
Proof.
  intros HP HS Lpk Lsk Bm Lsig0 Htape Hsg.
  pose proof (std_sign_pset_ok P HP) as HPS.
  destruct (std_vf P HP) as (HK & HL & Hg & HC & HO & HB & HTR & HT).
  destruct (std_kg P HP) as (_ & _ & He & _ & _ & _).
  assert (He4 : 0 <= pETA P <= 4) by (destruct He as [E|E]; rewrite E; lia).
  (* key generation *)
  destruct (keygen_bytes P xi pk sk HP HS) as (Bpk & Bsk).
  destruct (keygen_relation P xi pk sk HP HS)
    as (rho & key & tr & A & s1 & s2 & t1 & t0 & Epk & Esk & Etr & HA & H1 & H2 & Ht1 & Ht0 & Hrel).
  destruct (S_pkDecode_range (pK P) pk rho t1 ltac:(lia) Bpk ltac:(unfold pPK, SEEDBYTES, POLYT1 in Lpk; lia) Epk)
    as (Lrho & Brho & Lt1 & _).
  destruct (S_skDecode_range (pETA P) (pK P) (pL P) (pTR P) sk rho key tr s1 s2 t0 He ltac:(lia) ltac:(lia) ltac:(lia) Bsk
              ltac:(rewrite Lsk; unfold pSK, SEEDBYTES, POLYT0; rewrite polyeta_eq; lia) Esk)
    as ((_ & Lkey & Ltr) & (_ & Bkey & Btr) & (Ls1 & Ls2 & Lt0) & _).
  (* the signer *)
  apply signature_inv in Hsg as (trace & Hsg).
  destruct (signature_structure P SIGN_FUEL sig0 m sk rand tape sig trace tape' Hsg)
    as (C & sig_n & M & HSU & Hfuel & Hn & _ & Hch & _ & HAcc).
  cbv zeta in *.
  destruct HSU as (Usk & Umu & Urp & Umat & Us1 & Us2 & Ut0).
  rewrite (unpack_sk_spec P _ _ _ _ _ _ sk ltac:(lia) ltac:(lia) He ltac:(lia) Bsk ltac:(lia)) in Usk;
    try (rewrite PTotal.zlen_repeatZ by lia; reflexivity); try (unfold zlen; rewrite PSignStruct.zvec_length; lia).
  rewrite Esk in Usk. cbv beta iota in Usk. apply PRing.Ok_inj in Usk.
  repeat (apply pair_equal_spec in Usk; destruct Usk as [Usk ?]).
  destruct C as [c_rho c_tr c_key c_t0 c_s1 c_s2 c_mu c_rp c_mat c_s1h c_s2h c_t0h].
  cbn [sc_rho sc_tr sc_key sc_t0 sc_s1 sc_s2 sc_mu sc_rhoprime sc_mat sc_s1h sc_s2h sc_t0h] in *.
  subst c_rho c_tr c_key c_t0 c_s1 c_s2.
  (* mu *)
  assert (Ftr : firstn (Z.to_nat (pTR P)) tr = tr) by (apply firstn_all2; unfold zlen in Ltr; lia).
  rewrite Ftr in Umu.
  rewrite (shake256_hash_ok [tr; m] CRHBYTES ltac:(repeat constructor; assumption)
             ltac:(unfold CRHBYTES; change (2 ^ 64) with 18446744073709551616; lia)) in Umu.
  cbn [concat] in Umu. rewrite app_nil_r in Umu. change (Z.to_nat CRHBYTES) with 64%nat in Umu.
  apply PRing.Ok_inj in Umu.
  assert (Lmu : zlen c_mu = 64) by (rewrite <- Umu; unfold zlen; rewrite PBridge.S_shake_length by lia; reflexivity).
  assert (Bmu : Forall is_byte c_mu) by (rewrite <- Umu; apply PTotal.S_shake_bytes).
  assert (Fmu : firstn 64 c_mu = c_mu) by (apply firstn_all2; unfold zlen in Lmu; lia).
  (* rho' *)
  destruct (rhoprime_shape P rand tape key c_mu c_rp tape' Bkey Lkey Bmu Lmu Htape Urp) as (Lrp & Brp).
  (* A^ *)
  pose proof (expand_shape_holds P rho c_mat Umat) as Hmat.
  assert (Frho : firstn 32 rho = rho) by (apply (PKeyCodec.firstn_exact 32); exact Lrho).
  destruct (expandA_ok P rho c_mat ltac:(lia) ltac:(lia) ltac:(lia) ltac:(rewrite Frho; exact Brho) Umat) as [Lm Hmat'].
  rewrite Frho in Hmat'.
  assert (EA : A = c_mat).
  { apply (S_expandA_unique P rho); [exact HA|]. split; [exact Lm|]. intros r row Hr.
    destruct (Hmat' r row Hr) as [Lr Hp]. split; [exact Lr|]. intros s0 p Hs0. apply (Hp s0 p Hs0). }
  subst A.
  (* the transforms of the key *)
  assert (Q1 : Forall (pbnd Q) s1).
  { eapply Forall_impl; [|exact H1]. intros a Ha. apply (pbnd_weaken 5); [unfold Q; lia|].
    exact (eta_poly_pbnd _ _ He4 Ha). }
  assert (Q2 : Forall (pbnd Q) s2).
  { eapply Forall_impl; [|exact H2]. intros a Ha. apply (pbnd_weaken 5); [unfold Q; lia|].
    exact (eta_poly_pbnd _ _ He4 Ha). }
  assert (Q0 : Forall (pbnd Q) t0).
  { eapply Forall_impl; [|exact Ht0]. intros a (La & Fa). split; [exact La|].
    eapply Forall_impl; [|exact Fa]. cbn beta. unfold t0_rng, Q. intros; lia. }
  assert (L1 : length s1 = Z.to_nat (pL P)) by (unfold zlen in Ls1; lia).
  assert (L2 : length s2 = Z.to_nat (pK P)) by (unfold zlen in Ls2; lia).
  assert (L0 : length t0 = Z.to_nat (pK P)) by (unfold zlen in Lt0; lia).
  assert (LT1 : length t1 = Z.to_nat (pK P)) by (unfold zlen in Lt1; lia).
  rewrite l_ntt_lift in Us1 by exact L1. pose proof (ntt_vec_sem _ _ Q1 Us1) as N1.
  rewrite k_ntt_lift in Us2 by exact L2. pose proof (ntt_vec_sem _ _ Q2 Us2) as N2.
  rewrite k_ntt_lift in Ut0 by exact L0. pose proof (ntt_vec_sem _ _ Q0 Ut0) as N0.
  (* the buffer of the accepted iteration *)
  assert (Hfl : Z.of_nat (length trace) < 1000) by (change SIGN_FUEL with 1000%nat in Hfuel; lia).
  assert (Lsn : zlen sig_n = pSIG P).
  { rewrite <- Lsig0.
    apply (retry_chain_len P c_mu c_rp c_mat c_s1h c_s2h c_t0h HPS ltac:(lia) ltac:(rewrite Fmu; exact Bmu)
             ltac:(lia) ltac:(apply PKeccak.Forall_firstn'; exact Brp) Hmat
             (ntt_of_vec_bnd _ _ _ L1 N1) (ntt_of_vec_bnd _ _ _ L2 N2) (ntt_of_vec_bnd _ _ _ L0 N0)
             trace 0 sig0 sig_n ltac:(lia) ltac:(lia) ltac:(nia) Hch). }
  (* the accepted iteration *)
  set (n := Z.of_nat (length trace)) in *.
  pose proof (attempt_emits P HPS sig_n c_mu c_rp c_mat c_s1h c_s2h c_t0h n s1 s2 t0
                ltac:(lia) ltac:(lia) ltac:(rewrite Fmu; exact Bmu) ltac:(lia)
                ltac:(apply PKeccak.Forall_firstn'; exact Brp) Hmat N1 N2 N0 L1 L2 L0 ltac:(lia) ltac:(nia)
                M sig HAcc Lsn) as EM.
  cbv zeta in EM. rewrite Fmu in EM.
  set (ct := S_shake 136 (c_mu ++ S_w1Encode (pG88 P) (am_w1 M)) (Z.to_nat (pCT P))) in *.
  destruct EM as (Es & Lct & Bct & Hz & Hzn & Hh & Hw & Ecp).
  destruct (sigEncode_shape P ct (am_z M) (am_h M) Hg ltac:(lia) ltac:(lia) HO Lct Bct Hz Hh Hw) as (_ & Lsig & _).
  rewrite <- Es in Lsig. split; [exact Lsig|].
  pose proof (unpack_sig_encode P ct (am_z M) (am_h M) Hg ltac:(lia) ltac:(lia) ltac:(lia) HO Lct Bct Hz Hh Hw) as Eun.
  rewrite <- Es in Eun.
  (* the verifier *)
  destruct (verify_known P sig m pk rho t1 ct (am_z M) (am_h M) c_mat (am_cp M) HP Bm Bpk Lpk Lsig Epk Eun Hzn Hh Umat Ecp)
    as (w & HW & Lw & EV).
  rewrite EV.
  pose proof (verify_of_attempt P HPS sig_n c_mu c_rp c_mat c_s1h c_s2h c_t0h n s1 s2 t0
                ltac:(lia) ltac:(apply PKeccak.Forall_firstn'; exact Brp) Hmat N1 N2 N0 L1 L2 L0 ltac:(lia) ltac:(nia)
                M sig HAcc t1 LT1 Hrel w HW Lw) as EU.
  rewrite EU. rewrite <- Etr. rewrite Umu. fold ct.
  destruct (list_eq_dec Z.eq_dec ct ct) as [_|Hne]; [reflexivity | exfalso; apply Hne; reflexivity].
Qed.

(** ** C01, as stated: seeded key generation, then signing (deterministic or randomized), then verification *)
Theorem sign_then_verify P xi pk0 sk0 tp pk sk tp' sig0 m rand tape sig tape' :
  std P -> Forall is_byte xi -> zlen xi = 32 -> Forall is_byte m ->
  zlen pk0 = pPK P -> zlen sk0 = pSK P -> zlen sig0 = pSIG P -> tape_ok P rand tape ->
  keypair P pk0 sk0 (Some xi) tp = Ok (pk, sk, tp') ->
  signature P sig0 m sk rand tape = Ok (sig, tape') ->
  zlen sig = pSIG P /\ verify P sig m pk = Ok true.
Proof.
  intros HP Bxi Lxi Bm Lpk0 Lsk0 Lsig0 Htape Hkp Hsg.
  destruct (keygen_spec P xi pk0 sk0 tp pk sk tp' HP Bxi Lxi Lpk0 Lsk0 Hkp) as (HS & Lpk & Lsk & _).
  exact (sign_then_verify_spec_key P xi pk sk sig0 m rand tape sig tape' HP HS Lpk Lsk Bm Lsig0 Htape Hsg).
Qed.

(** the unseeded entry point of key generation: the seed is drawn from the randomness tape *)
Theorem sign_then_verify_unseeded P pk0 sk0 tp pk sk tp' sig0 m rand tape sig tape' :
  std P -> Forall is_byte (firstn 32 tp) -> Forall is_byte m ->
  zlen pk0 = pPK P -> zlen sk0 = pSK P -> zlen sig0 = pSIG P -> tape_ok P rand tape ->
  keypair P pk0 sk0 None tp = Ok (pk, sk, tp') ->
  signature P sig0 m sk rand tape = Ok (sig, tape') ->
  zlen sig = pSIG P /\ verify P sig m pk = Ok true.
Proof.
  intros HP Btp Bm Lpk0 Lsk0 Lsig0 Htape Hkp Hsg.
  destruct (keygen_spec_unseeded P pk0 sk0 tp pk sk tp' HP Btp Lpk0 Lsk0 Hkp) as (HS & Lpk & Lsk & _).
  exact (sign_then_verify_spec_key P _ pk sk sig0 m rand tape sig tape' HP HS Lpk Lsk Bm Lsig0 Htape Hsg).
Qed.

(** ** the API level *)
Lemma sig_buffer_len P : std P -> zlen (repeatZ 0 (pSIG P)) = pSIG P.
Proof.
  intros HP. apply PTotal.zlen_repeatZ.
  destruct HP as [H|[H|[H|[H|[H|H]]]]]; subst P; vm_compute; discriminate.
Qed.

(** Dilithium 3.1: SecretKey::sign then PublicKey::verify *)
Theorem dil_sign_then_verify P xi pk sk msg s :
  std P -> S_keygen P xi pk sk -> zlen pk = pPK P -> zlen sk = pSK P -> Forall is_byte msg ->
  dil_sign P sk msg = Ok s -> zlen s = pSIG P /\ dil_verify P pk msg s = Ok true.
Proof.
  intros HP HS Lpk Lsk Bm H. unfold dil_sign in H. bind_inv H r Hr. destruct r as [s' t']. apply PRing.Ok_inj in H. subst s'.
  destruct (sign_then_verify_spec_key P xi pk sk _ msg false [] s t' HP HS Lpk Lsk Bm (sig_buffer_len P HP)
              ltac:(intros E; discriminate E) Hr) as (L & V).
  split; [exact L|]. rewrite dil_verify_eq. exact V.
Qed.

(** ML-DSA.Sign / ML-DSA.Verify (pure), any context of at most 255 bytes, hedged or deterministic *)
Theorem ml_sign_then_verify P xi pk sk msg ctx hedged tape s tape' :
  std P -> S_keygen P xi pk sk -> zlen pk = pPK P -> zlen sk = pSK P -> Forall is_byte msg -> ctx_is_bytes ctx ->
  tape_ok P hedged tape ->
  ml_sign P sk msg ctx hedged tape = Ok (Some s, tape') -> zlen s = pSIG P /\ ml_verify P pk msg s ctx = Ok true.
Proof.
  intros HP HS Lpk Lsk Bm Bc Ht H. unfold ml_sign in H.
  destruct (ctx_too_long ctx) eqn:Hc; [discriminate|].
  bind_inv H r Hr. destruct r as [s' t']. apply PRing.Ok_inj in H.
  apply pair_equal_spec in H as [H1 H2]. injection H1 as ->. subst t'.
  destruct (sign_then_verify_spec_key P xi pk sk _ (frame_pure ctx msg) hedged tape s tape' HP HS Lpk Lsk
              (frame_pure_bytes ctx msg Bc Bm) (sig_buffer_len P HP) Ht Hr) as (L & V).
  split; [exact L|]. rewrite (ml_verify_eq P pk msg s ctx Hc). exact V.
Qed.

(** HashML-DSA.Sign / HashML-DSA.Verify (SHA-256 or SHA-512 pre-hash) *)
Theorem ml_prehash_sign_then_verify P xi pk sk msg ctx hedged ph tape s tape' :
  std P -> S_keygen P xi pk sk -> zlen pk = pPK P -> zlen sk = pSK P -> ctx_is_bytes ctx ->
  tape_ok P hedged tape ->
  ml_prehash_sign P sk msg ctx hedged ph tape = Ok (Some s, tape') ->
  zlen s = pSIG P /\ ml_prehash_verify P pk msg s ctx ph = Ok true.
Proof.
  intros HP HS Lpk Lsk Bc Ht H. unfold ml_prehash_sign in H.
  destruct (ctx_too_long ctx) eqn:Hc; [discriminate|].
  bind_inv H r Hr. destruct r as [s' t']. apply PRing.Ok_inj in H.
  apply pair_equal_spec in H as [H1 H2]. injection H1 as ->. subst t'.
  destruct (sign_then_verify_spec_key P xi pk sk _ (frame_hash ph ctx msg) hedged tape s tape' HP HS Lpk Lsk
              (frame_hash_bytes ph ctx msg Bc) (sig_buffer_len P HP) Ht Hr) as (L & V).
  split; [exact L|]. unfold ml_prehash_verify. rewrite Hc. apply Z.eqb_eq in L. rewrite L. cbn [negb]. exact V.
Qed.

Print Assumptions attempt_sem.
Print Assumptions verify_of_attempt.
Print Assumptions unpack_sig_encode.
Print Assumptions verify_known.
Print Assumptions sign_then_verify.
Print Assumptions sign_then_verify_spec_key.
Print Assumptions sign_then_verify_unseeded.
Print Assumptions dil_sign_then_verify.
Print Assumptions ml_sign_then_verify.
Print Assumptions ml_prehash_sign_then_verify.
