(** L0 model of src/fips202.rs. Definitions only. The two-round body and the round constants are the
    translator's output (Gen.v). State = 25 lanes (Z in [0,2^64)) and the byte position [pos]. *)
From DV Require Import Base Gen.

Definition M64 : Z := 18446744073709551615.
Definition w_xor (a b : Z) : Z := Z.lxor a b.
Definition w_and (a b : Z) : Z := Z.land a b.
Definition w_not (a : Z) : Z := Z.lxor a M64.
(** fn rol(a, offset) = (a << offset) ^ (a >> (64 - offset)), on u64 (shl truncates) *)
Definition w_rol (a n : Z) : Z := Z.lxor (Z.land (Z.shiftl a n) M64) (Z.shiftr a (64 - n)).

Fixpoint rc_pairs (l : list Z) : list (Z * Z) :=
  match l with
  | a :: b :: r => (a, b) :: rc_pairs r
  | _ => []
  end.

(** pub fn keccakf1600_statepermute(state: &mut [u64]) *)
Definition keccakf (st : list Z) : res (list Z) :=
  foldM (fun s rc => match src_keccak_round2 w_xor w_and w_not w_rol (fst rc) (snd rc) s with
                     | Some s' => Ok s' | None => Panic end)
        (rc_pairs src_RC) st.

Record kstate := { ks : list Z; kpos : Z }.
Definition kinit : kstate := {| ks := repeat 0 25; kpos := 0 |}.   (* KeccakState::default / init() *)

(** s[i/8] ^= (b as u64) << 8*(i%8) for the bytes [bs] at positions pos, pos+1, ... *)
Fixpoint xor_bytes (s : list Z) (i : Z) (bs : list Z) : res (list Z) :=
  match bs with
  | [] => Ok s
  | b :: r =>
    do lane <- get s (i / 8);
    do sh <- shl_u 64 b (8 * (i mod 8));
    do s' <- set s (i / 8) (Z.lxor lane sh);
    xor_bytes s' (i + 1) r
  end.

(** fn keccak_absorb(state, r, input, inlen) *)
Fixpoint absorb_loop (fuel : nat) (r : Z) (s : list Z) (pos : Z) (inp : list Z) : res (list Z * Z) :=
  if r <=? pos + zlen inp then
    match fuel with
    | O => OutOfFuel
    | S f =>
      do n <- usize_sub r pos;
      do s1 <- xor_bytes s pos (firstn (Z.to_nat n) inp);
      do s2 <- keccakf s1;
      absorb_loop f r s2 0 (skipn (Z.to_nat n) inp)
    end
  else
    do s1 <- xor_bytes s pos inp; Ok (s1, pos + zlen inp).

Definition keccak_absorb (st : kstate) (r : Z) (input : list Z) (inlen : Z) : res kstate :=
  do inp <- slice_to input inlen;
  do '(s, p) <- absorb_loop (S (S (length inp))) r (ks st) (kpos st) inp;
  Ok {| ks := s; kpos := p |}.

(** fn keccak_finalize(s, pos, r, p) followed by state.pos = r *)
Definition keccak_finalize (st : kstate) (r : Z) : res kstate :=
  do s1 <- xor_bytes (ks st) (kpos st) [31];                     (* p = 0x1F *)
  do i <- usize_sub (r / 8) 1;
  do lane <- get s1 i;
  do s2 <- set s1 i (Z.lxor lane 9223372036854775808);          (* 1u64 << 63 *)
  Ok {| ks := s2; kpos := r |}.

(** byte i of the state: (s[i/8] >> 8*(i%8)) as u8 *)
Definition state_byte (s : list Z) (i : Z) : res Z :=
  do lane <- get s (i / 8);
  Ok (Z.land (Z.shiftr lane (8 * (i mod 8))) 255).

Fixpoint state_bytes (s : list Z) (i : Z) (n : nat) : res (list Z) :=
  match n with
  | O => Ok []
  | S n' => do b <- state_byte s i; do r <- state_bytes s (i + 1) n'; Ok (b :: r)
  end.

(** fn keccak_squeeze(out, outlen, s, pos, r) -> pos ; returns the bytes produced (written to out[0..outlen]) *)
Fixpoint squeeze_loop (fuel : nat) (r : Z) (s : list Z) (pos : Z) (outlen : Z) (acc : list Z)
  : res (list Z * list Z * Z) :=
  if outlen =? 0 then Ok (acc, s, pos) else
  match fuel with
  | O => OutOfFuel
  | S f =>
    do '(s1, pos1) <- (if pos =? r then (do s' <- keccakf s; Ok (s', 0)) else Ok (s, pos));
    let n := Z.min (r - pos1) outlen in
    do bs <- state_bytes s1 pos1 (Z.to_nat n);
    do rest <- usize_sub outlen n;
    squeeze_loop f r s1 (pos1 + n) rest (acc ++ bs)
  end.

Definition keccak_squeeze (out : list Z) (outlen : Z) (st : kstate) (r : Z) : res (list Z * kstate) :=
  if (outlen <? 0) then Panic else
  do '(bs, s, p) <- squeeze_loop (S (Z.to_nat outlen)) r (ks st) (kpos st) outlen [];
  do out' <- splice out 0 bs;
  Ok (out', {| ks := s; kpos := p |}).

(** fn keccak_squeezeblocks(out, nblocks, s, r): pos is neither read nor written *)
Fixpoint squeezeblocks_loop (n : nat) (r : Z) (s : list Z) (acc : list Z) : res (list Z * list Z) :=
  match n with
  | O => Ok (acc, s)
  | S n' =>
    do s1 <- keccakf s;
    do bs <- state_bytes s1 0 (Z.to_nat (8 * (r / 8)));
    squeezeblocks_loop n' r s1 (acc ++ bs)
  end.

Definition keccak_squeezeblocks (out : list Z) (nblocks : Z) (st : kstate) (r : Z) : res (list Z * kstate) :=
  if nblocks <? 0 then Panic else
  do '(bs, s) <- squeezeblocks_loop (Z.to_nat nblocks) r (ks st) [];
  do out' <- splice out 0 bs;
  Ok (out', {| ks := s; kpos := kpos st |}).

(** fn keccak_absorb_once(s, r, input, inlen, p): s.fill(0) first; then state.pos = r *)
Fixpoint absorb_once_loop (fuel : nat) (r : Z) (s : list Z) (inp : list Z) : res (list Z * list Z) :=
  if r <=? zlen inp then
    match fuel with
    | O => OutOfFuel
    | S f =>
      do s1 <- xor_bytes s 0 (firstn (Z.to_nat (8 * (r / 8))) inp);
      do s2 <- keccakf s1;
      absorb_once_loop f r s2 (skipn (Z.to_nat r) inp)
    end
  else Ok (s, inp).

Definition keccak_absorb_once (r : Z) (input : list Z) (inlen : Z) : res kstate :=
  do inp <- slice_to input inlen;
  do '(s, tail) <- absorb_once_loop (S (length inp)) r (repeat 0 25) inp;
  do s1 <- xor_bytes s 0 tail;
  do s2 <- xor_bytes s1 (zlen tail) [31];
  do lane <- get s2 ((r - 1) / 8);
  do s3 <- set s2 ((r - 1) / 8) (Z.lxor lane 9223372036854775808);
  Ok {| ks := s3; kpos := r |}.

(** The public wrappers. *)
Definition SHAKE128_RATE : Z := 168.
Definition SHAKE256_RATE : Z := 136.
Definition shake128_absorb st input inlen := keccak_absorb st SHAKE128_RATE input inlen.
Definition shake128_finalize st := keccak_finalize st SHAKE128_RATE.
Definition shake128_squeezeblocks out nblocks st := keccak_squeezeblocks out nblocks st SHAKE128_RATE.
Definition shake256_absorb st input inlen := keccak_absorb st SHAKE256_RATE input inlen.
Definition shake256_finalize st := keccak_finalize st SHAKE256_RATE.
Definition shake256_squeeze out outlen st := keccak_squeeze out outlen st SHAKE256_RATE.
Definition shake256_absorb_once input inlen := keccak_absorb_once SHAKE256_RATE input inlen.
Definition shake256_squeezeblocks out nblocks st := keccak_squeezeblocks out nblocks st SHAKE256_RATE.

(** pub fn shake256(output, outlen, input, inlen) *)
Definition shake256 (output : list Z) (outlen : Z) (input : list Z) (inlen : Z) : res (list Z) :=
  do st <- shake256_absorb_once input inlen;
  let nblocks := outlen / SHAKE256_RATE in
  do '(o1, st1) <- shake256_squeezeblocks output nblocks st;
  do rest <- usize_sub outlen (nblocks * SHAKE256_RATE);
  let idx := nblocks * SHAKE256_RATE in
  do tail <- slice_from o1 idx;
  do '(t2, _) <- shake256_squeeze tail rest st1;
  splice o1 idx t2.

(** stream_init: state.init(); absorb seed (32 resp. 64 bytes); absorb [nonce lo, nonce hi]; finalize *)
Definition shake128_stream_init (seed : list Z) (nonce : Z) : res kstate :=
  do st <- shake128_absorb kinit seed 32;
  do st <- shake128_absorb st [nonce mod 256; (nonce / 256) mod 256] 2;
  shake128_finalize st.
Definition shake256_stream_init (seed : list Z) (nonce : Z) : res kstate :=
  do st <- shake256_absorb kinit seed 64;
  do st <- shake256_absorb st [nonce mod 256; (nonce / 256) mod 256] 2;
  shake256_finalize st.

(** Convenience used by the higher layers: absorb a list of chunks from the initial state, finalize, squeeze n. *)
Definition shake256_hash (chunks : list (list Z)) (n : Z) : res (list Z) :=
  do st <- foldM (fun st c => shake256_absorb st c (zlen c)) chunks kinit;
  do st <- shake256_finalize st;
  do '(o, _) <- shake256_squeeze (repeatZ 0 n) n st;
  Ok o.
