(** Over-long output buffers.

    The Rust slice API only requires the caller's output buffers ([pk], [sk], [sig]) to be AT LEAST the
    standard size.  This file proves, for the FROZEN model functions [MSign.keypair] and [MSign.signature]
    and all six parameter sets ([std P]), that a buffer [b0 ++ x] with [zlen b0] = standard size behaves
    exactly like [b0], and that the excess bytes [x] come back untouched:

      keypair   P (pk0 ++ x) (sk0 ++ y) seed tape = do '(pk, sk, t) <- keypair P pk0 sk0 seed tape; Ok (pk ++ x, sk ++ y, t)
      signature P (sig0 ++ x) msg sk rand tape     = do '(s, t) <- signature P sig0 msg sk rand tape; Ok (s ++ x, t)

    Method: the two-run relational framework of PTape.v section B ([rel_res], [rel_bind], ...) with the
    "frame" relation [fr N x a b] := [length b = N /\ a = b ++ x].  Every writer ([splice], [set]) preserves
    the relation as long as it writes below [N]; every reader ([slice_to], sponge absorb with an explicit
    length) only looks below [N].  The bounds come from the lengths of the encodings (PTape B.1/B.3), from
    the length of a squeeze, and - for the hint section of [pack_sig] - from the fact that the signer only
    packs a hint vector whose weight is at most OMEGA ([k_make_hint_inv]). *)
From DV Require Import Base Gen MReduce MRounding MParams MKeccak MNtt MPoly MPolyvec MPacking MSign MSha2 MApi
                       PLift PSignStruct PTape PHint.

Local Ltac Zify.zify_post_hook ::= Z.div_mod_to_equations.

(** * 1. The frame relation and the primitive readers / writers *)

Definition fr (N : nat) (x : list Z) (a b : list Z) : Prop := length b = N /\ a = b ++ x.

Lemma fr_intro (x b : list Z) : fr (length b) x (b ++ x) b.
Proof. split; reflexivity. Qed.

Lemma splice_fr N x a b off src :
  fr N x a b -> off + zlen src <= Z.of_nat N ->
  rel_res (fr N x) (splice a off src) (splice b off src).
Proof.
  intros [HL ->] H. unfold splice. rewrite zlen_app. unfold zlen in *.
  destruct (Z.leb_spec 0 off) as [H0|H0]; [|exact I].
  destruct (Z.leb_spec (off + Z.of_nat (length src)) (Z.of_nat (length b))) as [H1|H1]; [|lia].
  destruct (Z.leb_spec (off + Z.of_nat (length src)) (Z.of_nat (length b) + Z.of_nat (length x))) as [H2|H2]; [|lia].
  cbn [andb rel_res]. split.
  - rewrite !app_length, firstn_length, skipn_length. lia.
  - rewrite firstn_app, skipn_app.
    replace (Z.to_nat off - length b)%nat with 0%nat by lia.
    replace (Z.to_nat (off + Z.of_nat (length src)) - length b)%nat with 0%nat by lia.
    cbn [firstn skipn]. rewrite app_nil_r, <- !app_assoc. reflexivity.
Qed.

Lemma set_nat_app {A} (x : list A) v : forall b i, (i < length b)%nat ->
  set_nat (b ++ x) i v = do r <- set_nat b i v; Ok (r ++ x).
Proof.
  induction b as [|c b IH]; intros i Hi; cbn [length] in Hi; [lia|].
  destruct i as [|i]; cbn [app set_nat bind]; [reflexivity|].
  rewrite IH by lia. destruct (set_nat b i v); reflexivity.
Qed.

Lemma set_fr N x a b i v :
  fr N x a b -> i < Z.of_nat N -> rel_res (fr N x) (set a i v) (set b i v).
Proof.
  intros [HL ->] H. unfold set. destruct (Z.ltb_spec i 0) as [H0|H0]; [exact I|].
  rewrite set_nat_app by lia.
  destruct (set_nat b (Z.to_nat i) v) as [r| |] eqn:E; cbn [bind rel_res]; auto.
  split; [|reflexivity]. destruct (set_nat_In _ _ _ _ E) as [Lr _]. lia.
Qed.

Lemma slice_to_fr N x a b n : fr N x a b -> n <= Z.of_nat N -> slice_to a n = slice_to b n.
Proof.
  intros [HL ->] H. unfold slice_to. rewrite zlen_app. unfold zlen in *.
  destruct (Z.leb_spec 0 n) as [H0|H0]; [|reflexivity].
  destruct (Z.leb_spec n (Z.of_nat (length b))) as [H1|H1]; [|lia].
  destruct (Z.leb_spec n (Z.of_nat (length b) + Z.of_nat (length x))) as [H2|H2]; [|lia].
  cbn [andb]. f_equal. rewrite firstn_app.
  replace (Z.to_nat n - length b)%nat with 0%nat by lia. cbn [firstn]. apply app_nil_r.
Qed.

Lemma slice_from_fr N x a b n :
  fr N x a b -> n <= Z.of_nat N -> rel_res (fun _ _ => True) (slice_from a n) (slice_from b n).
Proof.
  intros [HL ->] H. unfold slice_from. rewrite zlen_app. unfold zlen in *.
  destruct (Z.leb_spec 0 n) as [H0|H0]; [|exact I].
  destruct (Z.leb_spec n (Z.of_nat (length b))) as [H1|H1]; [|lia].
  destruct (Z.leb_spec n (Z.of_nat (length b) + Z.of_nat (length x))) as [H2|H2]; [|lia].
  exact I.
Qed.

(** loops over an index range with a constant invariant *)
Lemma loop_fr {S1 S2} (R : S1 -> S2 -> Prop) (f1 : S1 -> Z -> res S1) (f2 : S2 -> Z -> res S2) n s1 s2 :
  (forall j a b, 0 <= j < n -> R a b -> rel_res R (f1 a j) (f2 b j)) -> R s1 s2 ->
  rel_res R (foldM f1 (zrange 0 n) s1) (foldM f2 (zrange 0 n) s2).
Proof.
  intros Hs H0. apply (foldM_rel_range f1 f2 (fun _ => R) n s1 s2 H0).
  intros j a b Hj Hab. apply Hs; [lia | exact Hab].
Qed.

(** fetch component [idx], encode it into [Wz] bytes, write them at [off] *)
Lemma pack_step_fr (v : list (list Z)) (enc : list Z -> res (list Z)) (Wz off idx : Z) N x b1 b2 :
  (forall a e, In a v -> enc a = Ok e -> length e = Z.to_nat Wz) -> 0 <= Wz ->
  off + Wz <= Z.of_nat N -> fr N x b1 b2 ->
  rel_res (fr N x)
    (do a <- get v idx; do b <- enc a; splice b1 off b)
    (do a <- get v idx; do b <- enc a; splice b2 off b).
Proof.
  intros Henc HW Hoff HE. apply rel_bind_same. intros a Ha. apply rel_bind_same. intros e He.
  apply splice_fr; [exact HE|]. unfold zlen. rewrite (Henc a e (get_In _ _ _ Ha) He). lia.
Qed.

Lemma slot_bound j n W : 0 <= j < n -> 0 <= W -> j * W + W <= n * W.
Proof.
  intros Hj HW. assert (H : 0 <= (n - j - 1) * W) by (apply Z.mul_nonneg_nonneg; lia). lia.
Qed.

(** * 2. The packing functions *)

Theorem pack_pk_fr P N x pk1 pk2 rho t1 :
  0 <= pK P -> all256 t1 -> pPK P <= Z.of_nat N -> fr N x pk1 pk2 ->
  rel_res (fr N x) (pack_pk P pk1 rho t1) (pack_pk P pk2 rho t1).
Proof.
  intros HK H256 HN HE. unfold pack_pk. unfold pPK, SEEDBYTES, POLYT1 in *.
  apply rel_bind_same. intros r Hr. apply slice_to_length in Hr.
  eapply rel_bind; [apply splice_fr; [exact HE|]|].
  { unfold zlen. rewrite Hr. lia. }
  intros a b Hab. cbn beta.
  apply loop_fr; [|exact Hab].
  intros j c1 c2 Hj Hc.
  apply rel_bind_same. intros p Hp. apply rel_bind_same. intros e He.
  eapply rel_bind; [apply (slice_from_fr N x); [exact Hc | lia]|]. intros _ _ _.
  apply splice_fr; [exact Hc|].
  unfold zlen. rewrite (t1_pack_len 64 p e (H256 p (get_In _ _ _ Hp)) He). lia.
Qed.

Theorem pack_sk_fr P N x sk1 sk2 rho tr key t0 s1 s2 :
  0 <= pK P -> 0 <= pL P -> 0 <= pTR P -> all256 t0 -> all256 s1 -> all256 s2 -> pSK P <= Z.of_nat N -> fr N x sk1 sk2 ->
  rel_res (fr N x) (pack_sk P sk1 rho tr key t0 s1 s2) (pack_sk P sk2 rho tr key t0 s1 s2).
Proof.
  intros HK HL HTR H0 H1 H2 HN HE. unfold pack_sk. cbv zeta.
  assert (HWe : 0 <= pPOLYETA P) by (unfold pPOLYETA; destruct (pETA P =? 2); lia).
  assert (HM : 0 <= pL P * pPOLYETA P) by (apply Z.mul_nonneg_nonneg; lia).
  assert (HM' : 0 <= pK P * pPOLYETA P) by (apply Z.mul_nonneg_nonneg; lia).
  assert (HS : pSK P = 64 + pTR P + pL P * pPOLYETA P + pK P * pPOLYETA P + pK P * 416).
  { unfold pSK, SEEDBYTES, POLYT0. ring. }
  rewrite HS in HN. clear HS. unfold SEEDBYTES, POLYT0 in *.
  (* rho *)
  apply rel_bind_same. intros r Hr. apply slice_to_length in Hr.
  eapply rel_bind; [apply splice_fr; [exact HE|]|].
  { unfold zlen. rewrite Hr. lia. }
  intros a1 b1 Hab1. cbn beta.
  (* key *)
  apply rel_bind_same. intros k Hk. apply slice_to_length in Hk.
  eapply rel_bind; [apply splice_fr; [exact Hab1|]|].
  { unfold zlen. rewrite Hk. lia. }
  intros a2 b2 Hab2. cbn beta.
  (* tr *)
  apply rel_bind_same. intros t Ht. apply slice_to_length in Ht.
  eapply rel_bind; [apply splice_fr; [exact Hab2|]|].
  { unfold zlen. rewrite Ht. lia. }
  intros a3 b3 Hab3. cbn beta.
  (* s1 *)
  eapply rel_bind.
  { apply loop_fr; [|exact Hab3]. intros j c1 c2 Hj Hc.
    apply (pack_step_fr s1 _ (pPOLYETA P)); [|exact HWe| |exact Hc].
    - intros p e Hp He. apply (eta_pack_256 P p e (H1 p Hp) He).
    - pose proof (slot_bound j (pL P) (pPOLYETA P) Hj HWe). lia. }
  intros a4 b4 Hab4. cbn beta.
  (* s2 *)
  eapply rel_bind.
  { apply loop_fr; [|exact Hab4]. intros j c1 c2 Hj Hc.
    apply (pack_step_fr s2 _ (pPOLYETA P)); [|exact HWe| |exact Hc].
    - intros p e Hp He. apply (eta_pack_256 P p e (H2 p Hp) He).
    - pose proof (slot_bound j (pK P) (pPOLYETA P) Hj HWe). lia. }
  intros a5 b5 Hab5. cbn beta.
  (* t0 *)
  apply loop_fr; [|exact Hab5]. intros j c1 c2 Hj Hc.
  apply (pack_step_fr t0 _ 416); [|lia| |exact Hc].
  - intros p e Hp He. apply (t0_pack_len 32 p e (H0 p Hp) He).
  - lia.
Qed.

(** * 3. keypair *)

Lemma std_sizes P : std P ->
  0 <= pK P /\ 0 <= pL P /\ 0 <= pTR P /\ 0 <= pPK P /\ 0 <= pSK P /\
  0 <= pCT P <= pSIG P /\ 0 <= pOMEGA P /\ 0 <= pK P * pPOLYW1 P <= pSIG P.
Proof. intros [H|[H|[H|[H|[H|H]]]]]; subst P; cbn; lia. Qed.

Definition keys_fr (Npk Nsk : nat) (x y : list Z) (p q : list Z * list Z) : Prop :=
  fr Npk x (fst p) (fst q) /\ fr Nsk y (snd p) (snd q).

Lemma keypair_core_fr P pk0 sk0 x y xi :
  0 <= pK P -> 0 <= pL P -> 0 <= pTR P ->
  pPK P <= zlen pk0 -> pSK P <= zlen sk0 ->
  rel_res (keys_fr (length pk0) (length sk0) x y)
          (keypair_core P (pk0 ++ x) (sk0 ++ y) xi) (keypair_core P pk0 sk0 xi).
Proof.
  intros HK HL HTR Lpk Lsk. unfold zlen in Lpk, Lsk. unfold keypair_core.
  apply rel_bind_same. intros seedbuf _.
  apply rel_bind_same. intros rho _.
  apply rel_bind_same. intros rhoprime _.
  apply rel_bind_same. intros key _.
  apply rel_bind_same. intros mat _.
  apply rel_bind_same. intros s1 Hs1.
  apply rel_bind_same. intros s2 Hs2.
  apply rel_bind_same. intros s1hat _.
  apply rel_bind_same. intros t1a Ht1a.
  apply rel_bind_same. intros t1b Ht1b.
  apply rel_bind_same. intros t1c Ht1c.
  apply rel_bind_same. intros t1d Ht1d.
  apply rel_bind_same. intros t1e Ht1e.
  apply rel_bind_same. intros [t1 t0] Hp2r.
  (* shapes *)
  destruct (vec_uniform_eta_pres P _ _ _ _ _ (zvec_all256 (pL P)) Hs1) as [As1 _].
  destruct (vec_uniform_eta_pres P _ _ _ _ _ (zvec_all256 (pK P)) Hs2) as [As2 _].
  apply for_idx_length in Ht1a. rewrite zvec_length in Ht1a.
  pose proof (for_idx_length _ _ _ _ Ht1b) as Lt1b. rewrite Ht1a in Lt1b.
  destruct (for_idx_all len256 _ _ _ _ Lt1b (fun _ x y E => invntt_tomont_len x y E) Ht1c) as [At1c _].
  destruct (for_idx2_pres len256 _ _ _ _ _ (fun x y z Hx E => map2M_len256 _ x y z Hx E) At1c Ht1d) as [At1d _].
  destruct (for_idx_pres len256 _ _ _ _ (fun _ x y Hx E => mapM_len256 _ x y Hx E) At1d Ht1e) as [At1e _].
  destruct (k_power2round_pres P _ _ _ _ At1e (zvec_all256 (pK P)) Hp2r) as [At1 At0].
  (* the buffers *)
  eapply rel_bind;
    [apply (pack_pk_fr P (length pk0) x (pk0 ++ x) pk0 rho t1 HK At1 Lpk (fr_intro x pk0))|].
  intros p1 p2 Hp. cbn beta.
  assert (Hpre : slice_to p1 (pPK P) = slice_to p2 (pPK P)).
  { apply (slice_to_fr _ _ _ _ _ Hp). exact Lpk. }
  rewrite Hpre. apply rel_bind_same. intros pkb _.
  rewrite (shake256_prefix _ _ p1 p2 _ Hpre). apply rel_bind_same. intros tr _.
  eapply rel_bind;
    [apply (pack_sk_fr P (length sk0) y (sk0 ++ y) sk0 rho tr key t0 s1 s2 HK HL HTR At0 As1 As2 Lsk (fr_intro y sk0))|].
  intros q1 q2 Hq. cbn [rel_res]. split; cbn [fst snd]; assumption.
Qed.

(** general form: buffers of AT LEAST the standard sizes, split anywhere at or beyond the standard size *)
Theorem keypair_overlong_ge P pk0 sk0 x y seed tape :
  std P -> pPK P <= zlen pk0 -> pSK P <= zlen sk0 ->
  keypair P (pk0 ++ x) (sk0 ++ y) seed tape =
  (do '(pk, sk, t) <- keypair P pk0 sk0 seed tape; Ok (pk ++ x, sk ++ y, t)).
Proof.
  intros HP Lpk Lsk. destruct (std_sizes P HP) as (HK & HL & HTR & _).
  rewrite !keypair_unfold.
  destruct (match seed with
            | Some s => if zlen s =? SEEDBYTES then Ok (s, tape) else Panic
            | None => draw tape SEEDBYTES
            end) as [[xi t']| |]; cbn [bind]; try reflexivity.
  pose proof (keypair_core_fr P pk0 sk0 x y xi HK HL HTR Lpk Lsk) as H.
  destruct (keypair_core P (pk0 ++ x) (sk0 ++ y) xi) as [[p1 s1]| |],
           (keypair_core P pk0 sk0 xi) as [[p2 s2]| |];
    cbn [rel_res bind] in *; try contradiction; try reflexivity.
  destruct H as [[_ E1] [_ E2]]. cbn [fst snd] in E1, E2. subst p1 s1. reflexivity.
Qed.

(** HEADLINE 1 *)
Theorem keypair_overlong : forall (P : params) (pk0 sk0 x y : list Z) (seed : option (list Z)) (tape : list Z),
  std P -> zlen pk0 = pPK P -> zlen sk0 = pSK P ->
  keypair P (pk0 ++ x) (sk0 ++ y) seed tape =
  (do '(pk, sk, t) <- keypair P pk0 sk0 seed tape; Ok (pk ++ x, sk ++ y, t)).
Proof. intros P pk0 sk0 x y seed tape HP Lpk Lsk. apply keypair_overlong_ge; [exact HP | lia | lia]. Qed.

(** * 4. The sponge: a squeeze of [n] bytes writes exactly [n] bytes *)

Lemma state_bytes_length s : forall n i r, state_bytes s i n = Ok r -> length r = n.
Proof.
  induction n as [|n IH]; intros i r H; cbn [state_bytes] in H.
  - inversion H. reflexivity.
  - bind_inv H b Hb. bind_inv H r' Hr'. inversion H; subst. cbn [length]. f_equal. eapply IH; eauto.
Qed.

Lemma squeeze_loop_len r s' p' bs : forall fuel s pos outlen acc,
  0 <= pos <= r -> 0 <= outlen ->
  squeeze_loop fuel r s pos outlen acc = Ok (bs, s', p') -> zlen bs = zlen acc + outlen.
Proof.
  induction fuel as [|f IH]; intros s pos outlen acc Hp Ho H; cbn [squeeze_loop] in H.
  - destruct (Z.eqb_spec outlen 0) as [E|E]; [|discriminate]. inversion H; subst. lia.
  - destruct (Z.eqb_spec outlen 0) as [E|E]; [inversion H; subst; lia|].
    bind_inv H sp Hsp. destruct sp as [s1 pos1].
    assert (Hp1 : 0 <= pos1 <= r /\ (pos1 = r -> False) \/ (pos1 = 0 /\ 0 <= r)).
    { destruct (Z.eqb_spec pos r) as [Epr|Epr].
      - bind_inv Hsp s2 Hs2. inversion Hsp; subst. right. lia.
      - inversion Hsp; subst. left. lia. }
    bind_inv H b Hb. apply state_bytes_length in Hb.
    bind_inv H rest Hrest. unfold usize_sub in Hrest. apply chk_u_inv in Hrest as [-> _].
    apply IH in H; [|lia|lia]. rewrite zlen_app in H. unfold zlen in *. lia.
Qed.

Lemma finalize_kpos st r st' : keccak_finalize st r = Ok st' -> kpos st' = r.
Proof.
  unfold keccak_finalize. intros H. bind_inv H s1 H1. bind_inv H i Hi. bind_inv H lane Hl. bind_inv H s2 H2.
  inversion H. reflexivity.
Qed.

Lemma keccak_squeeze_fr N x o1 o2 n st r :
  fr N x o1 o2 -> 0 <= kpos st <= r -> n <= Z.of_nat N ->
  rel_res (fun p q => fr N x (fst p) (fst q) /\ snd p = snd q)
          (keccak_squeeze o1 n st r) (keccak_squeeze o2 n st r).
Proof.
  intros HE Hp Hn. unfold keccak_squeeze. destruct (Z.ltb_spec n 0) as [H0|H0]; [exact I|].
  apply rel_bind_same. intros [[bs s] p] Hsq. apply squeeze_loop_len in Hsq; [|exact Hp|exact H0].
  rewrite zlen_nil in Hsq.
  eapply rel_bind; [apply splice_fr; [exact HE | lia]|]. intros a b Hab. cbn [rel_res fst snd]. auto.
Qed.

(** * 5. The hint section of [pack_sig] *)

Lemma get_nth_error {A} (l : list A) j a : get l (Z.of_nat j) = Ok a -> nth_error l j = Some a.
Proof.
  unfold get. destruct (Z.ltb_spec (Z.of_nat j) 0) as [H|H]; [lia|]. rewrite Nat2Z.id.
  destruct (nth_error l j); intros E; inversion E; reflexivity.
Qed.

Lemma skipn_nth_cons {A} : forall j (l : list A) a, nth_error l j = Some a -> skipn j l = a :: skipn (S j) l.
Proof.
  induction j as [|j IH]; intros [|c l] a H; cbn [nth_error] in H; try discriminate.
  - inversion H. reflexivity.
  - cbn [skipn]. rewrite (IH l a H). reflexivity.
Qed.

Lemma In_skipn {A} (a : A) j l : In a (skipn j l) -> In a l.
Proof. intros H. rewrite <- (firstn_skipn j l). apply in_or_app. right. exact H. Qed.

Lemma bits_zsum_nonneg a : Forall (fun y => y = 0 \/ y = 1) a -> 0 <= zsum a.
Proof. induction 1 as [|y a Hy Fa IH]; cbn [zsum fold_right]; [lia|]. unfold zsum in IH. lia. Qed.

Lemma hint_weight_cons a l : hint_weight (a :: l) = zsum a + hint_weight l.
Proof. reflexivity. Qed.

Lemma hint_weight_nonneg l : hint_bits l -> 0 <= hint_weight l.
Proof.
  induction l as [|a l IH]; intros Hb; [cbn; lia|]. rewrite hint_weight_cons.
  pose proof (bits_zsum_nonneg a (Hb a (or_introl eq_refl))).
  assert (0 <= hint_weight l) by (apply IH; intros b Hb'; apply Hb; right; exact Hb'). lia.
Qed.

Lemma bits_count a : Forall (fun y => y = 0 \/ y = 1) a -> zlen (filter nonzero a) = zsum a.
Proof.
  induction 1 as [|y a Hy Fa IH]; [reflexivity|]. cbn [filter zsum fold_right]. unfold zsum in IH.
  destruct Hy as [-> | ->]; cbn [nonzero Z.eqb negb].
  - rewrite IH. lia.
  - rewrite zlen_cons, IH. lia.
Qed.

Lemma hint_indices_zlen a : Forall (fun y => y = 0 \/ y = 1) a -> zlen (hint_indices a 0) = zsum a.
Proof. intros H. rewrite <- (bits_count a H). unfold zlen. rewrite hint_indices_length. reflexivity. Qed.

(** the inner loop: one byte per hint position, at [idx + k], [idx + k + 1], ... *)
Lemma hint_row_fr N x idx : forall js s1 s2 k,
  fr N x s1 s2 -> idx + k + zlen js <= Z.of_nat N ->
  rel_res (fun p q => fr N x (fst p) (fst q) /\ snd p = snd q /\ snd q = k + zlen js)
    (foldM (fun '(sig, k) j => do s <- set sig (idx + k) (u8 j); Ok (s, k + 1)) js (s1, k))
    (foldM (fun '(sig, k) j => do s <- set sig (idx + k) (u8 j); Ok (s, k + 1)) js (s2, k)).
Proof.
  induction js as [|j js IH]; intros s1 s2 k HE Hb.
  - cbn [foldM rel_res fst snd]. rewrite zlen_nil. split; [exact HE|]. split; [reflexivity | lia].
  - rewrite zlen_cons in *. pose proof (zlen_nonneg js) as Hjs. cbn [foldM].
    apply (rel_bind (fun p q => fr N x (fst p) (fst q) /\ snd p = k + 1 /\ snd q = k + 1)).
    + eapply rel_bind; [apply set_fr; [exact HE | lia]|].
      intros v1 v2 Hv. cbn [rel_res fst snd]. auto.
    + intros [v1 l1] [v2 l2] (Hv & E1 & E2). cbn [fst snd] in Hv, E1, E2. subst l1 l2.
      eapply rel_mono; [|apply IH; [exact Hv | lia]].
      intros p q (A & B & C). split; [exact A|]. split; [exact B | lia].
Qed.

Theorem pack_sig_fr P N x sig1 sig2 c z h :
  0 <= pK P -> 0 <= pL P -> 0 <= pCT P -> 0 <= pOMEGA P ->
  all256 z -> hint_bits h -> hint_weight h <= pOMEGA P ->
  pSIG P <= Z.of_nat N -> fr N x sig1 sig2 ->
  rel_res (fr N x) (pack_sig P sig1 c z h) (pack_sig P sig2 c z h).
Proof.
  intros HK HL HC HO H256 Hb Hw HN HE. unfold pack_sig. cbv zeta.
  assert (HZ : 0 <= pPOLYZ P) by (unfold pPOLYZ; destruct (pGAMMA1 P =? 131072); lia).
  assert (HM : 0 <= pL P * pPOLYZ P) by (apply Z.mul_nonneg_nonneg; lia).
  unfold pSIG in HN.
  apply (rel_bind (fr N x)).
  { destruct c as [ch|]; [|exact HE].
    apply rel_bind_same. intros cc Hcc. apply slice_to_length in Hcc.
    apply splice_fr; [exact HE|]. unfold zlen. rewrite Hcc. lia. }
  intros a1 b1 Hab1.
  (* z *)
  eapply rel_bind.
  { apply loop_fr; [|exact Hab1]. intros j c1 c2 Hj Hc.
    apply (pack_step_fr z _ (pPOLYZ P)); [|exact HZ| |exact Hc].
    - intros p e Hp He. apply (z_pack_256 P p e (H256 p Hp) He).
    - pose proof (slot_bound j (pL P) (pPOLYZ P) Hj HZ). lia. }
  intros a2 b2 Hab2. cbn beta.
  (* the hint section is zeroed *)
  eapply rel_bind; [apply splice_fr; [exact Hab2|]|].
  { rewrite zlen_repeatZ by lia. lia. }
  intros a3 b3 Hab3. cbn beta.
  (* the hint loop *)
  pose (Inv := fun (j : nat) (p q : list Z * Z) =>
                 fr N x (fst p) (fst q) /\ snd p = snd q /\ 0 <= snd q /\
                 snd q + hint_weight (skipn j h) <= pOMEGA P).
  apply (rel_bind (Inv (Z.to_nat (pK P)))).
  - apply (foldM_rel_range _ _ Inv (pK P)).
    + unfold Inv. cbn [fst snd skipn]. split; [exact Hab3|]. split; [reflexivity|]. split; lia.
    + intros j [u1 k1] [u2 k2] Hj (Hu & Hk & Hk0 & Hkw). cbn [fst snd] in Hu, Hk, Hk0, Hkw. subst k1.
      cbv beta iota.
      apply rel_bind_same. intros hi Hhi. apply get_nth_error in Hhi.
      rewrite (skipn_nth_cons j h hi Hhi), hint_weight_cons in Hkw.
      assert (Bhi : Forall (fun y => y = 0 \/ y = 1) hi) by (apply Hb; eapply nth_error_In; exact Hhi).
      assert (Wr : 0 <= hint_weight (skipn (S j) h)).
      { apply hint_weight_nonneg. intros a Ha. apply Hb. eapply In_skipn; exact Ha. }
      pose proof (bits_zsum_nonneg hi Bhi) as Whi.
      pose proof (hint_indices_zlen hi Bhi) as Lhi.
      eapply rel_bind; [apply (hint_row_fr N x _ (hint_indices hi 0) u1 u2 k2 Hu); lia|].
      intros [v1 l1] [v2 l2] (Hv & E1 & E2). cbn [fst snd] in Hv, E1, E2. subst l1.
      eapply rel_bind; [apply set_fr; [exact Hv | lia]|].
      intros w1 w2 Hw12. cbn [rel_res]. unfold Inv. cbn [fst snd]. split; [exact Hw12|]. split; [reflexivity|]. split; lia.
  - intros [u1 l1] [u2 l2] (Hu & _). cbn [fst] in Hu. exact Hu.
Qed.

Theorem k_pack_w1_fr P N x r1 r2 a :
  0 <= pK P -> all256 a -> pK P * pPOLYW1 P <= Z.of_nat N -> fr N x r1 r2 ->
  rel_res (fr N x) (k_pack_w1 P r1 a) (k_pack_w1 P r2 a).
Proof.
  intros HK H256 HN HE. unfold k_pack_w1.
  assert (HW : 0 <= pPOLYW1 P) by (unfold pPOLYW1; destruct (pG88 P); lia).
  apply loop_fr; [|exact HE]. intros j c1 c2 Hj Hc.
  apply (pack_step_fr a _ (pPOLYW1 P)); [|exact HW| |exact Hc].
  - intros p e Hp He. apply (w1_pack_256 P p e (H256 p Hp) He).
  - pose proof (slot_bound j (pK P) (pPOLYW1 P) Hj HW). lia.
Qed.

(** * 6. signature *)

Definition att_fr (N : nat) (x : list Z) (a1 a2 : attempt) : Prop :=
  match a1, a2 with
  | Done s1, Done s2 => fr N x s1 s2
  | Retry c s1, Retry c' s2 => c = c' /\ fr N x s1 s2
  | _, _ => False
  end.

Theorem sign_attempt_fr P N x sig1 sig2 mu rhoprime mat s1 s2 t0 nonce :
  std P -> pSIG P <= Z.of_nat N -> fr N x sig1 sig2 ->
  rel_res (att_fr N x) (sign_attempt P sig1 mu rhoprime mat s1 s2 t0 nonce)
                       (sign_attempt P sig2 mu rhoprime mat s1 s2 t0 nonce).
Proof.
  intros HP HN HE. destruct (std_sizes P HP) as (HK & HL & _ & _ & _ & HC & HO & HW).
  unfold sign_attempt, shake256_absorb, shake256_squeeze, shake256_finalize.
  apply rel_bind_same. intros y Hy.
  apply rel_bind_same. intros z0 Hz0.
  apply rel_bind_same. intros w1a Hw1a.
  apply rel_bind_same. intros w1b Hw1b.
  apply rel_bind_same. intros w1c Hw1c.
  apply rel_bind_same. intros w1d Hw1d.
  apply rel_bind_same. intros [w1 w0] Hdec.
  (* shape of w1 *)
  apply for_idx_length in Hw1a. rewrite zvec_length in Hw1a.
  pose proof (for_idx_length _ _ _ _ Hw1b) as Lw1b. rewrite Hw1a in Lw1b.
  destruct (for_idx_all len256 _ _ _ _ Lw1b (fun _ x y E => invntt_tomont_len x y E) Hw1c) as [Aw1c _].
  destruct (for_idx_pres len256 _ _ _ _ (fun _ x y Hx E => mapM_len256 _ x y Hx E) Aw1c Hw1d) as [Aw1d _].
  destruct (k_decompose_pres P _ _ _ _ Aw1d (zvec_all256 (pK P)) Hdec) as [Aw1 _].
  (* w1 encoding into the buffer, hashed from the buffer *)
  eapply rel_bind; [apply (k_pack_w1_fr P N x sig1 sig2 w1 HK Aw1 ltac:(lia) HE)|].
  intros a1 b1 Hab1. cbn beta.
  assert (Hpre1 : slice_to a1 (pK P * pPOLYW1 P) = slice_to b1 (pK P * pPOLYW1 P)).
  { apply (slice_to_fr _ _ _ _ _ Hab1). lia. }
  rewrite Hpre1. apply rel_bind_same. intros w1bytes _.
  apply rel_bind_same. intros st0 _.
  rewrite (keccak_absorb_prefix st0 _ a1 b1 _ Hpre1).
  apply rel_bind_same. intros st1 _.
  apply rel_bind_same. intros st2 Hst2. apply finalize_kpos in Hst2.
  (* challenge bytes squeezed into the buffer, read back from the buffer *)
  eapply rel_bind.
  { apply (keccak_squeeze_fr N x a1 b1 (pCT P) st2 SHAKE256_RATE Hab1); [|lia].
    rewrite Hst2. unfold SHAKE256_RATE. lia. }
  intros [a2 k1] [b2 k2] [Hab2 _]. cbn [fst snd] in Hab2.
  assert (Hpre2 : slice_to a2 (pCT P) = slice_to b2 (pCT P)).
  { apply (slice_to_fr _ _ _ _ _ Hab2). lia. }
  rewrite (poly_challenge_prefix _ _ a2 b2 Hpre2).
  apply rel_bind_same. intros cp0 _.
  apply rel_bind_same. intros cp _.
  apply rel_bind_same. intros z1 Hz1.
  apply rel_bind_same. intros z2 Hz2.
  apply rel_bind_same. intros z3 Hz3.
  apply rel_bind_same. intros z Hz.
  (* shape of z *)
  apply for_idx_length in Hy. rewrite zvec_length in Hy.
  apply for_idx_length in Hz0. rewrite Hy in Hz0.
  apply for_idx_length in Hz1. rewrite Hz0 in Hz1.
  destruct (for_idx_all len256 _ _ _ _ Hz1 (fun _ x y E => invntt_tomont_len x y E) Hz2) as [Az2 _].
  destruct (for_idx2_pres len256 _ _ _ _ _ (fun x y z Hx E => map2M_len256 _ x y z Hx E) Az2 Hz3) as [Az3 _].
  destruct (for_idx_pres len256 _ _ _ _ (fun _ x y Hx E => mapM_len256 _ x y Hx E) Az3 Hz) as [Az _].
  assert (Hretry : forall c, att_fr N x (Retry c a2) (Retry c b2)).
  { intros c. cbn [att_fr]. split; [reflexivity | exact Hab2]. }
  apply rel_bind_same. intros c1 _.
  destruct (0 <? c1); [apply Hretry|].
  apply rel_bind_same. intros h1 Hh1.
  apply rel_bind_same. intros h2 Hh2.
  apply rel_bind_same. intros w0a _.
  apply rel_bind_same. intros w0b _.
  apply rel_bind_same. intros c2 _.
  destruct (0 <? c2); [apply Hretry|].
  apply rel_bind_same. intros h3 Hh3.
  apply rel_bind_same. intros h4 Hh4.
  apply rel_bind_same. intros h5 Hh5.
  apply rel_bind_same. intros c3 _.
  destruct (0 <? c3); [apply Hretry|].
  apply rel_bind_same. intros w0c _.
  apply rel_bind_same. intros [h n] Hmh.
  (* the hint vector: K rows of bits, weight n *)
  apply for_idx_length in Hh1. rewrite zvec_length in Hh1.
  apply for_idx_length in Hh2. rewrite Hh1 in Hh2.
  apply for_idx_length in Hh3. rewrite Hh2 in Hh3.
  apply for_idx_length in Hh4. rewrite Hh3 in Hh4.
  apply for_idx_length in Hh5. rewrite Hh4 in Hh5.
  destruct (k_make_hint_inv P _ _ _ _ _ Hh5 Hmh) as (_ & Bh & En & _).
  destruct (Z.ltb_spec (pOMEGA P) n) as [Hn|Hn]; [apply Hretry|].
  eapply rel_bind;
    [apply (pack_sig_fr P N x a2 b2 None z h HK HL ltac:(lia) HO Az Bh ltac:(lia) HN Hab2)|].
  intros a3 b3 Hab3. cbn [rel_res att_fr]. exact Hab3.
Qed.

Definition sigtrace_fr (N : nat) (x : list Z) (p q : list Z * list Z) : Prop :=
  fr N x (fst p) (fst q) /\ snd p = snd q.

Theorem sign_loop_fr P N x mu rhoprime mat s1 s2 t0 : std P -> pSIG P <= Z.of_nat N ->
  forall fuel sig1 sig2 nonce trace, fr N x sig1 sig2 ->
  rel_res (sigtrace_fr N x) (sign_loop P fuel sig1 mu rhoprime mat s1 s2 t0 nonce trace)
                            (sign_loop P fuel sig2 mu rhoprime mat s1 s2 t0 nonce trace).
Proof.
  intros HP HN. induction fuel as [|f IH]; intros sig1 sig2 nonce trace HE; cbn [sign_loop]; [exact I|].
  eapply rel_bind; [apply (sign_attempt_fr P N x sig1 sig2 mu rhoprime mat s1 s2 t0 nonce HP HN HE)|].
  intros [u|c u] [v|c' v] Hatt; cbn [att_fr] in Hatt; try contradiction.
  - cbn [rel_res]. split; [exact Hatt | reflexivity].
  - destruct Hatt as [<- Huv]. apply rel_bind_same. intros nonce' _. apply IH. exact Huv.
Qed.

Theorem signature_trace_fr P fuel sig0 x msg sk rand tape :
  std P -> pSIG P <= zlen sig0 ->
  rel_res (fun p q => sigtrace_fr (length sig0) x (fst p) (fst q) /\ snd p = snd q)
          (signature_trace P fuel (sig0 ++ x) msg sk rand tape) (signature_trace P fuel sig0 msg sk rand tape).
Proof.
  intros HP HL. unfold signature_trace.
  apply rel_bind_same. intros [[[[[rho tr] key] t0] s1] s2] _.
  apply rel_bind_same. intros mu _.
  apply rel_bind_same. intros [rhoprime tape'] _.
  apply rel_bind_same. intros mat _.
  apply rel_bind_same. intros s1h _.
  apply rel_bind_same. intros s2h _.
  apply rel_bind_same. intros t0h _.
  eapply rel_bind.
  { apply (sign_loop_fr P (length sig0) x mu rhoprime mat s1h s2h t0h HP HL fuel (sig0 ++ x) sig0 0 []).
    apply fr_intro. }
  intros [u tu] [v tv] Huv. cbn [rel_res fst snd]. split; [exact Huv | reflexivity].
Qed.

(** with the rejection trace; buffers of AT LEAST the standard size *)
Theorem signature_trace_overlong_ge P fuel sig0 x msg sk rand tape :
  std P -> pSIG P <= zlen sig0 ->
  signature_trace P fuel (sig0 ++ x) msg sk rand tape =
  (do '(s, trace, t) <- signature_trace P fuel sig0 msg sk rand tape; Ok (s ++ x, trace, t)).
Proof.
  intros HP HL. pose proof (signature_trace_fr P fuel sig0 x msg sk rand tape HP HL) as H.
  destruct (signature_trace P fuel (sig0 ++ x) msg sk rand tape) as [[[u1 tr1] t1]| |],
           (signature_trace P fuel sig0 msg sk rand tape) as [[[u2 tr2] t2]| |];
    cbn [rel_res bind] in *; try contradiction; try reflexivity.
  destruct H as [[[_ E1] E2] E3]. cbn [fst snd] in E1, E2, E3. subst. reflexivity.
Qed.

Theorem signature_overlong_ge P sig0 x msg sk rand tape :
  std P -> pSIG P <= zlen sig0 ->
  signature P (sig0 ++ x) msg sk rand tape =
  (do '(s, t) <- signature P sig0 msg sk rand tape; Ok (s ++ x, t)).
Proof.
  intros HP HL. unfold signature. rewrite (signature_trace_overlong_ge P SIGN_FUEL sig0 x msg sk rand tape HP HL).
  destruct (signature_trace P SIGN_FUEL sig0 msg sk rand tape) as [[[u tr] t]| |]; reflexivity.
Qed.

(** HEADLINE 2 *)
Theorem signature_overlong : forall (P : params) (sig0 x msg sk : list Z) (rand : bool) (tape : list Z),
  std P -> zlen sig0 = pSIG P ->
  signature P (sig0 ++ x) msg sk rand tape =
  (do '(s, t) <- signature P sig0 msg sk rand tape; Ok (s ++ x, t)).
Proof. intros P sig0 x msg sk rand tape HP HL. apply signature_overlong_ge; [exact HP | lia]. Qed.

(** the same with the rejection trace *)
Theorem signature_trace_overlong : forall (P : params) (fuel : nat) (sig0 x msg sk : list Z) (rand : bool) (tape : list Z),
  std P -> zlen sig0 = pSIG P ->
  signature_trace P fuel (sig0 ++ x) msg sk rand tape =
  (do '(s, trace, t) <- signature_trace P fuel sig0 msg sk rand tape; Ok (s ++ x, trace, t)).
Proof. intros P fuel sig0 x msg sk rand tape HP HL. apply signature_trace_overlong_ge; [exact HP | lia]. Qed.

(** * 7. Consequences in the "frame / prefix" form *)

(** a successful over-long call: lengths are preserved, the excess is untouched, and the standard-size prefix is
    what the exact-size call returns *)
Corollary keypair_overlong_frame P pk0 sk0 x y seed tape pk sk t :
  std P -> zlen pk0 = pPK P -> zlen sk0 = pSK P ->
  keypair P (pk0 ++ x) (sk0 ++ y) seed tape = Ok (pk, sk, t) ->
  exists pk' sk', keypair P pk0 sk0 seed tape = Ok (pk', sk', t) /\ pk = pk' ++ x /\ sk = sk' ++ y.
Proof.
  intros HP Lpk Lsk H. rewrite (keypair_overlong P pk0 sk0 x y seed tape HP Lpk Lsk) in H.
  destruct (keypair P pk0 sk0 seed tape) as [[[pk' sk'] t']| |]; cbn [bind] in H; try discriminate.
  inversion H; subst. exists pk', sk'. auto.
Qed.

Corollary signature_overlong_frame P sig0 x msg sk rand tape s t :
  std P -> zlen sig0 = pSIG P ->
  signature P (sig0 ++ x) msg sk rand tape = Ok (s, t) ->
  exists s', signature P sig0 msg sk rand tape = Ok (s', t) /\ s = s' ++ x.
Proof.
  intros HP HL H. rewrite (signature_overlong P sig0 x msg sk rand tape HP HL) in H.
  destruct (signature P sig0 msg sk rand tape) as [[s' t']| |]; cbn [bind] in H; try discriminate.
  inversion H; subst. exists s'. auto.
Qed.

(** any buffer of at least the standard size, not presented as a concatenation *)
Corollary keypair_long_buffers P pk sk seed tape :
  std P -> pPK P <= zlen pk -> pSK P <= zlen sk ->
  keypair P pk sk seed tape =
  (do '(pk', sk', t) <- keypair P (firstn (Z.to_nat (pPK P)) pk) (firstn (Z.to_nat (pSK P)) sk) seed tape;
   Ok (pk' ++ skipn (Z.to_nat (pPK P)) pk, sk' ++ skipn (Z.to_nat (pSK P)) sk, t)).
Proof.
  intros HP Lpk Lsk. destruct (std_sizes P HP) as (_ & _ & _ & Hpk & Hsk & _). unfold zlen in *.
  rewrite <- (firstn_skipn (Z.to_nat (pPK P)) pk) at 1. rewrite <- (firstn_skipn (Z.to_nat (pSK P)) sk) at 1.
  apply keypair_overlong; [exact HP | |]; unfold zlen; rewrite firstn_length; lia.
Qed.

Corollary signature_long_buffer P sig msg sk rand tape :
  std P -> pSIG P <= zlen sig ->
  signature P sig msg sk rand tape =
  (do '(s, t) <- signature P (firstn (Z.to_nat (pSIG P)) sig) msg sk rand tape;
   Ok (s ++ skipn (Z.to_nat (pSIG P)) sig, t)).
Proof.
  intros HP HL. destruct (std_sizes P HP) as (_ & _ & _ & _ & _ & HC & _). unfold zlen in *.
  rewrite <- (firstn_skipn (Z.to_nat (pSIG P)) sig) at 1.
  apply signature_overlong; [exact HP|]. unfold zlen. rewrite firstn_length. lia.
Qed.

Print Assumptions keypair_overlong.
Print Assumptions signature_overlong.
Print Assumptions signature_trace_overlong.
Print Assumptions keypair_overlong_ge.
Print Assumptions signature_overlong_ge.
Print Assumptions keypair_overlong_frame.
Print Assumptions signature_overlong_frame.
Print Assumptions keypair_long_buffers.
Print Assumptions signature_long_buffer.
