(** C13 — NTT-based multiplication equals negacyclic polynomial multiplication mod q.
    Only property theorems here, closed by [exact] of lemmas proved in PNtt.v / PNtt2.v.
    eval a w = sum a_j w^j (Horner); root i = 1753^(2*brv8 i + 1) mod q; negacyclic_mul is the schoolbook
    product folded modulo X^256 + 1; [ntt a = Ok r] means no intermediate overflowed i32 (checked build). *)
From DV Require Import Base MReduce MNtt MPoly PNtt PNtt2.

Theorem C13_forward : forall a : list Z, length a = 256%nat -> Forall (fun x => - Q < x < Q) a ->
  exists r, ntt a = Ok r /\ length r = 256%nat /\ Forall (fun x => -9 * Q < x < 9 * Q) r /\
            forall i : nat, (i < 256)%nat -> (nth i r 0 - eval a (root i)) mod Q = 0.
Proof. exact ntt_ok. Qed.
Print Assumptions C13_forward.

Theorem C13_forward_bound_general : forall (a : list Z) (B : Z), length a = 256%nat -> B + 8 * Q <= 2 ^ 31 ->
  Forall (fun x => - B < x < B) a ->
  exists r, ntt a = Ok r /\ length r = 256%nat /\ Forall (fun x => - (B + 8 * Q) < x < B + 8 * Q) r /\
            forall i : nat, (i < 256)%nat -> (nth i r 0 - eval a (root i)) mod Q = 0.
Proof. exact ntt_ok_gen. Qed.
Print Assumptions C13_forward_bound_general.

Theorem C13_inverse : forall a : list Z, length a = 256%nat -> Forall (fun x => - Q < x < Q) a ->
  exists r, invntt_tomont a = Ok r /\ length r = 256%nat /\ Forall (fun x => - Q < x < Q) r /\
    forall b : list Z, length b = 256%nat ->
      (forall i : nat, (i < 256)%nat -> (nth i a 0 - eval b (root i)) mod Q = 0) ->
      forall j : nat, (j < 256)%nat -> (nth j r 0 - 2 ^ 32 * nth j b 0) mod Q = 0.
Proof. exact invntt_ok. Qed.
Print Assumptions C13_inverse.

Theorem C13_multiplication : forall a b : list Z, length a = 256%nat -> length b = 256%nat ->
  Forall (fun x => - Q < x < Q) a -> Forall (fun x => - Q < x < Q) b ->
  exists ah bh p r, ntt a = Ok ah /\ ntt b = Ok bh /\ poly_pointwise_montgomery ah bh = Ok p /\
    invntt_tomont p = Ok r /\ length r = 256%nat /\ Forall (fun x => - Q < x < Q) r /\
    forall j : nat, (j < 256)%nat -> (nth j r 0 - nth j (negacyclic_mul a b) 0) mod Q = 0.
Proof. exact mul_ok. Qed.
Print Assumptions C13_multiplication.

Theorem C13_negacyclic_is_textbook : forall (a b : list Z) (k : nat), (k < 256)%nat ->
  nth k (negacyclic_mul a b) 0 = conv a b k - conv a b (256 + k).
Proof. exact negacyclic_mul_coeff. Qed.
Print Assumptions C13_negacyclic_is_textbook.

(** the source's twiddle table (read by the translator) is 2^32 * 1753^brv8(k), centred; F = 2^64/256; roots of -1 *)
Theorem C13_constants :
  (forall k, 1 <= k < 256 -> zeta k = centred (2 ^ 32 * 1753 ^ brv8 k)) /\
  (FF = 41978 /\ (FF * 256 - 2 ^ 64) mod Q = 0) /\
  (forall i : nat, (i < 256)%nat -> root i ^ 256 mod Q = Q - 1) /\
  NoDup (map root (seq 0 256)).
Proof. repeat split; first [ exact zetas_ok | apply FF_ok | exact root_pow256 | exact roots_nodup ]. Qed.
Print Assumptions C13_constants.

Example C13_nonvacuous :
  (do r <- ntt (map Z.of_nat (seq 0 256)); Ok (firstn 3 r)) = Ok [-356594; 4949942; 13884114] /\
  ntt (repeat 2147483647 256) = Panic /\ invntt_tomont (repeat 8388608 256) = Panic.
Proof. vm_compute. repeat split. Qed.
